/-
  C16 — unsqueeze / squeeze on the representation commute with the abstraction.
-/
import TdVerif.Lemmas.C16AssignMain

namespace TdVerif.C16
namespace NT
variable {O : Type}

theorem eraseIdx_comm {α : Type} : ∀ (c : List α) (d e : Nat), d ≤ e →
    (c.eraseIdx d).eraseIdx e = (c.eraseIdx (e + 1)).eraseIdx d
  | [], d, e, _ => by simp
  | x :: c, 0, e, _ => by simp
  | x :: c, d + 1, 0, h => by omega
  | x :: c, d + 1, e + 1, h => by
    simp only [List.eraseIdx_cons_succ]
    rw [eraseIdx_comm c d e (by omega)]

theorem unsqueezeList_getElem? : ∀ (ms : List (NT O)) (dim i : Nat),
    (unsqueezeList ms dim)[i]? = (ms[i]?).map (fun m => unsqueeze m dim)
  | [], dim, i => by simp [unsqueezeList]
  | m :: r, dim, 0 => by simp [unsqueezeList]
  | m :: r, dim, i + 1 => by simp [unsqueezeList, unsqueezeList_getElem? r dim i]

theorem unsqueezeList_length : ∀ (ms : List (NT O)) (dim : Nat), (unsqueezeList ms dim).length = ms.length
  | [], _ => rfl
  | m :: r, dim => by simp [unsqueezeList, unsqueezeList_length r dim]

theorem mem_unsqueezeList : ∀ (ms : List (NT O)) (dim : Nat) (y : NT O), y ∈ unsqueezeList ms dim →
    ∃ m ∈ ms, y = unsqueeze m dim
  | [], dim, y, h => by simp [unsqueezeList] at h
  | m :: r, dim, y, h => by
    simp only [unsqueezeList, List.mem_cons] at h
    rcases h with rfl | h
    · exact ⟨m, by simp, rfl⟩
    · obtain ⟨m', hm', rfl⟩ := mem_unsqueezeList r dim y h
      exact ⟨m', by simp [hm'], rfl⟩

/-- what `unsqueeze` promises -/
def UnsqueezeOk (r : NT O) (dim : Nat) : Prop :=
  wf (unsqueeze r dim) = true ∧ shape (unsqueeze r dim) = (shape r).insertIdx dim 1
  ∧ ∀ c, getAt (unsqueeze r dim) c = match c[dim]? with
      | some 0 => getAt r (c.eraseIdx dim)
      | _ => none

mutual
theorem unsqueeze_spec : ∀ (r : NT O) (dim : Nat), wf r = true → dim ≤ (shape r).length → UnsqueezeOk r dim
  | .shared o s, dim, _, hd => by
    simp only [shape] at hd
    refine ⟨rfl, rfl, ?_⟩
    intro c
    simp only [unsqueeze, getAt_shared, inB_insertIdx dim s 1 c hd]
    cases hc : c[dim]? with
    | none => simp
    | some i =>
      cases i with
      | zero => simp
      | succ i => simp
  | .stack ms d, dim, hw, hdim => by
    obtain ⟨m0, r0, rfl, hd, hmem⟩ := wf_stack hw
    rw [shape_stack_cons, List.length_insertIdx_of_le_length hd] at hdim
    by_cases hgt : dim > d
    · -- the new dim goes into the members (shifted by the stack dim)
      have hne : ∀ m ∈ m0 :: r0, UnsqueezeOk m (dim - 1) := by
        intro m hm
        have := hmem m hm
        exact unsqueeze_members (m0 :: r0) (dim - 1) m hm this.1 (by rw [this.2]; omega)
      have hun : unsqueeze (.stack (m0 :: r0) d) dim = .stack (unsqueezeList (m0 :: r0) (dim - 1)) d := by
        simp [unsqueeze, hgt]
      have hmem' : ∀ y ∈ unsqueezeList (m0 :: r0) (dim - 1), wf y = true ∧ shape y = (shape m0).insertIdx (dim - 1) 1 := by
        intro y hy
        obtain ⟨m, hm, rfl⟩ := mem_unsqueezeList _ _ _ hy
        exact ⟨(hne m hm).1, by rw [(hne m hm).2.1, (hmem m hm).2]⟩
      have hne' : unsqueezeList (m0 :: r0) (dim - 1) ≠ [] := by simp [unsqueezeList]
      obtain ⟨hw1, hs1⟩ := wf_stack_intro _ d _ hne'
        (by rw [List.length_insertIdx_of_le_length (by omega)]; omega) hmem'
      unfold UnsqueezeOk
      rw [hun]
      refine ⟨hw1, ?_, ?_⟩
      · rw [hs1, unsqueezeList_length, shape_stack_cons]
        -- insertIdx commute
        have := List.insertIdx_comm (a := r0.length + 1) (b := (1 : Nat)) (i := d) (j := dim - 1) (l := shape m0) (by omega) (by omega)
        have hd1 : dim - 1 + 1 = dim := by omega
        rw [hd1] at this
        simpa using this.symm
      · intro c
        rw [getAt_stack]
        simp only [unsqueezeList_getElem?]
        have e1 : ∀ (cc : List Nat), (cc.eraseIdx d)[dim - 1]? = cc[dim]? := by
          intro cc
          rw [List.getElem?_eraseIdx_of_ge (by omega)]
          congr 1; omega
        cases hcd : c[d]? with
        | none =>
          simp only [Option.bind_none]
          cases hc : c[dim]? with
          | none => rfl
          | some i =>
            exfalso
            have h1 := (List.getElem?_eq_some_iff.mp hc).1
            rw [List.getElem?_eq_none_iff] at hcd
            omega
        | some k =>
          simp only [Option.bind_some]
          cases hmk : (m0 :: r0)[k]? with
          | none =>
            simp only [Option.map_none, Option.bind_none]
            cases hc : c[dim]? with
            | none => rfl
            | some i =>
              cases i with
              | zero =>
                simp only
                rw [getAt_stack, List.getElem?_eraseIdx_of_lt (by omega), hcd]
                simp [hmk]
              | succ i => rfl
          | some m =>
            simp only [Option.map_some, Option.bind_some]
            have hm : m ∈ m0 :: r0 := List.mem_of_getElem? hmk
            rw [(hne m hm).2.2 (c.eraseIdx d), e1 c]
            cases hc : c[dim]? with
            | none => rfl
            | some i =>
              cases i with
              | zero =>
                simp only
                rw [getAt_stack, List.getElem?_eraseIdx_of_lt (by omega), hcd]
                simp only [Option.bind_some, hmk]
                have := eraseIdx_comm c d (dim - 1) (by omega)
                have hd1 : dim - 1 + 1 = dim := by omega
                rw [hd1] at this
                rw [this]
              | succ i => rfl
    · -- the new dim goes before the stack dim, which shifts right
      have hle : dim ≤ d := by omega
      have hne : ∀ m ∈ m0 :: r0, UnsqueezeOk m dim := by
        intro m hm
        have := hmem m hm
        exact unsqueeze_members (m0 :: r0) dim m hm this.1 (by rw [this.2]; omega)
      have hun : unsqueeze (.stack (m0 :: r0) d) dim = .stack (unsqueezeList (m0 :: r0) dim) (d + 1) := by
        simp [unsqueeze, hgt]
      have hmem' : ∀ y ∈ unsqueezeList (m0 :: r0) dim, wf y = true ∧ shape y = (shape m0).insertIdx dim 1 := by
        intro y hy
        obtain ⟨m, hm, rfl⟩ := mem_unsqueezeList _ _ _ hy
        exact ⟨(hne m hm).1, by rw [(hne m hm).2.1, (hmem m hm).2]⟩
      have hne' : unsqueezeList (m0 :: r0) dim ≠ [] := by simp [unsqueezeList]
      obtain ⟨hw1, hs1⟩ := wf_stack_intro _ (d + 1) _ hne'
        (by rw [List.length_insertIdx_of_le_length (by omega)]; omega) hmem'
      unfold UnsqueezeOk
      rw [hun]
      refine ⟨hw1, ?_, ?_⟩
      · rw [hs1, unsqueezeList_length, shape_stack_cons]
        exact List.insertIdx_comm (a := (1 : Nat)) (b := r0.length + 1) (i := dim) (j := d) (l := shape m0) hle hd
      · intro c
        rw [getAt_stack]
        simp only [unsqueezeList_getElem?]
        cases hcd : c[d + 1]? with
        | none =>
          simp only [Option.bind_none]
          cases hc : c[dim]? with
          | none => rfl
          | some i =>
            cases i with
            | zero =>
              simp only
              rw [getAt_stack, List.getElem?_eraseIdx_of_ge hle, hcd]
              rfl
            | succ i => rfl
        | some k =>
          simp only [Option.bind_some]
          cases hmk : (m0 :: r0)[k]? with
          | none =>
            simp only [Option.map_none, Option.bind_none]
            cases hc : c[dim]? with
            | none => rfl
            | some i =>
              cases i with
              | zero =>
                simp only
                rw [getAt_stack, List.getElem?_eraseIdx_of_ge hle, hcd]
                simp [hmk]
              | succ i => rfl
          | some m =>
            simp only [Option.map_some, Option.bind_some]
            have hm : m ∈ m0 :: r0 := List.mem_of_getElem? hmk
            rw [(hne m hm).2.2 (c.eraseIdx (d + 1)), List.getElem?_eraseIdx_of_lt (by omega)]
            cases hc : c[dim]? with
            | none => rfl
            | some i =>
              cases i with
              | zero =>
                simp only
                rw [getAt_stack, List.getElem?_eraseIdx_of_ge hle, hcd]
                simp only [Option.bind_some, hmk]
                rw [eraseIdx_comm c dim d hle]
              | succ i => rfl
theorem unsqueeze_members : ∀ (ms : List (NT O)) (dim : Nat) (m : NT O), m ∈ ms → wf m = true →
    dim ≤ (shape m).length → UnsqueezeOk m dim
  | [], _, m, hm, _, _ => by simp at hm
  | m0 :: r, dim, m, hm, hw, hd => by
    rcases List.mem_cons.mp hm with h | h
    · have : UnsqueezeOk m0 dim := unsqueeze_spec m0 dim (h ▸ hw) (h ▸ hd)
      exact h ▸ this
    · exact unsqueeze_members r dim m h hw hd
end

theorem squeezeList_getElem? : ∀ (ms : List (NT O)) (dim i : Nat),
    (squeezeList ms dim)[i]? = (ms[i]?).map (fun m => squeeze m dim)
  | [], dim, i => by simp [squeezeList]
  | m :: r, dim, 0 => by simp [squeezeList]
  | m :: r, dim, i + 1 => by simp [squeezeList, squeezeList_getElem? r dim i]

theorem squeezeList_length : ∀ (ms : List (NT O)) (dim : Nat), (squeezeList ms dim).length = ms.length
  | [], _ => rfl
  | m :: r, dim => by simp [squeezeList, squeezeList_length r dim]

theorem mem_squeezeList : ∀ (ms : List (NT O)) (dim : Nat) (y : NT O), y ∈ squeezeList ms dim →
    ∃ m ∈ ms, y = squeeze m dim
  | [], dim, y, h => by simp [squeezeList] at h
  | m :: r, dim, y, h => by
    simp only [squeezeList, List.mem_cons] at h
    rcases h with rfl | h
    · exact ⟨m, by simp, rfl⟩
    · obtain ⟨m', hm', rfl⟩ := mem_squeezeList r dim y h
      exact ⟨m', by simp [hm'], rfl⟩

/-- what `squeeze(dim)` promises on a dim of size 1 -/
def SqueezeOk (r : NT O) (dim : Nat) : Prop :=
  wf (squeeze r dim) = true ∧ shape (squeeze r dim) = (shape r).eraseIdx dim
  ∧ ∀ c, c.length + 1 = (shape r).length → getAt (squeeze r dim) c = getAt r (c.insertIdx dim 0)

theorem getD_insertIdx_ne (s : Shape) (d n dim : Nat) (hd : d ≤ s.length) (hne : dim ≠ d) :
    (s.insertIdx d n).getD dim 0 = s.getD (if dim < d then dim else dim - 1) 0 := by
  simp only [List.getD_eq_getElem?_getD, List.getElem?_insertIdx]
  by_cases h1 : dim < d
  · simp [h1]
  · simp [h1, hne]

mutual
theorem squeeze_spec : ∀ (r : NT O) (dim : Nat), wf r = true → dim < (shape r).length →
    (shape r).getD dim 0 = 1 → SqueezeOk r dim
  | .shared o s, dim, _, hd, h1 => by
    simp only [shape] at hd h1
    unfold SqueezeOk
    simp only [squeeze, h1, ↓reduceIte, shape]
    refine ⟨rfl, trivial, ?_⟩
    intro c hc
    rw [getAt_shared, getAt_shared, inB_insert_coord dim s c 0 hd (by omega), h1]
    simp
  | .stack ms d, dim, hw, hdim, h1 => by
    obtain ⟨m0, r0, rfl, hd, hmem⟩ := wf_stack hw
    have hrank : ((shape m0).insertIdx d (r0.length + 1)).length = (shape m0).length + 1 :=
      List.length_insertIdx_of_le_length hd _
    rw [shape_stack_cons] at hdim h1
    rw [hrank] at hdim
    unfold SqueezeOk
    by_cases hdd : dim = d
    · -- squeezing the stack dim itself: the single member
      subst hdd
      have hlen1 : r0.length + 1 = 1 := by
        simpa [List.getD_eq_getElem?_getD, List.getElem?_insertIdx_self, hd] using h1
      have hr0 : r0 = [] := List.eq_nil_of_length_eq_zero (by omega)
      subst hr0
      have hsq : squeeze (.stack [m0] dim) dim = m0 := by
        simp [squeeze, shape_stack_cons, List.getD_eq_getElem?_getD, List.getElem?_insertIdx_self, hd]
      rw [hsq]
      refine ⟨(hmem m0 (by simp)).1, by rw [shape_stack_cons, List.eraseIdx_insertIdx_self], ?_⟩
      intro c hc
      rw [shape_stack_cons, hrank] at hc
      rw [getAt_stack_insert _ _ _ _ (by omega)]
      simp
    · let newDim := if dim < d then dim else dim - 1
      have hsize : ∀ m ∈ m0 :: r0, (shape m).getD newDim 0 = 1 := by
        intro m hm
        rw [(hmem m hm).2, ← getD_insertIdx_ne (shape m0) d (r0.length + 1) dim hd hdd]
        exact h1
      have hnd : newDim < (shape m0).length := by
        show (if dim < d then dim else dim - 1) < _
        split <;> omega
      have hne : ∀ m ∈ m0 :: r0, SqueezeOk m newDim := by
        intro m hm
        have := hmem m hm
        exact squeeze_members (m0 :: r0) newDim m hm this.1 (by rw [this.2]; exact hnd) (hsize m hm)
      have hmem' : ∀ y ∈ squeezeList (m0 :: r0) newDim, wf y = true ∧ shape y = (shape m0).eraseIdx newDim := by
        intro y hy
        obtain ⟨m, hm, rfl⟩ := mem_squeezeList _ _ _ hy
        exact ⟨(hne m hm).1, by rw [(hne m hm).2.1, (hmem m hm).2]⟩
      have hne' : squeezeList (m0 :: r0) newDim ≠ [] := by simp [squeezeList]
      have hlenE : ((shape m0).eraseIdx newDim).length = (shape m0).length - 1 := by
        rw [List.length_eraseIdx, if_pos hnd]
      by_cases hgt : dim > d
      · have hsq : squeeze (.stack (m0 :: r0) d) dim = .stack (squeezeList (m0 :: r0) (dim - 1)) d := by
          have hnot : ¬ ((shape (.stack (m0 :: r0) d)).getD dim 0 ≠ 1) := by rw [shape_stack_cons]; simpa using h1
          simp only [squeeze, hnot, ↓reduceIte, hdd, hgt]
        have hnD : newDim = dim - 1 := by
          show (if dim < d then dim else dim - 1) = _
          have : ¬ dim < d := by omega
          simp [this]
        rw [hnD] at hne hmem' hne' hlenE hnd
        obtain ⟨hw1, hs1⟩ := wf_stack_intro _ d _ hne' (by rw [hlenE]; omega) hmem'
        rw [hsq]
        refine ⟨hw1, ?_, ?_⟩
        · rw [hs1, squeezeList_length, shape_stack_cons]
          have := List.insertIdx_eraseIdx_of_le (a := r0.length + 1) (i := dim - 1) (j := d) (as := shape m0) hnd (by omega)
          simp only [List.length_cons]
          rw [this]
          congr 1
          omega
        · intro c hc
          rw [shape_stack_cons, hrank] at hc
          rw [getAt_stack, getAt_stack, List.getElem?_insertIdx_of_lt hgt]
          simp only [squeezeList_getElem?]
          cases hcd : c[d]? with
          | none => rfl
          | some k =>
            simp only [Option.bind_some]
            cases hmk : (m0 :: r0)[k]? with
            | none => rfl
            | some m =>
              simp only [Option.map_some, Option.bind_some]
              have hm : m ∈ m0 :: r0 := List.mem_of_getElem? hmk
              have hcl : (c.eraseIdx d).length + 1 = (shape m).length := by
                rw [(hmem m hm).2, List.length_eraseIdx, if_pos (by omega)]; omega
              rw [(hne m hm).2.2 _ hcl]
              have e1 := List.insertIdx_eraseIdx_of_ge (a := (0 : Nat)) (i := d) (j := dim - 1) (as := c) (by omega) (by omega)
              have hd1 : dim - 1 + 1 = dim := by omega
              rw [hd1] at e1
              rw [e1]
      · have hlt : dim < d := by omega
        have hsq : squeeze (.stack (m0 :: r0) d) dim = .stack (squeezeList (m0 :: r0) dim) (d - 1) := by
          have hnot : ¬ ((shape (.stack (m0 :: r0) d)).getD dim 0 ≠ 1) := by rw [shape_stack_cons]; simpa using h1
          simp only [squeeze, hnot, ↓reduceIte, hdd, hgt]
        have hnD : newDim = dim := by
          show (if dim < d then dim else dim - 1) = _
          simp [hlt]
        rw [hnD] at hne hmem' hne' hlenE hnd
        obtain ⟨hw1, hs1⟩ := wf_stack_intro _ (d - 1) _ hne' (by rw [hlenE]; omega) hmem'
        rw [hsq]
        refine ⟨hw1, ?_, ?_⟩
        · rw [hs1, squeezeList_length, shape_stack_cons]
          have := List.insertIdx_eraseIdx_of_ge (a := r0.length + 1) (i := dim) (j := d - 1) (as := shape m0) hnd (by omega)
          simp only [List.length_cons]
          rw [this]
          congr 2
          omega
        · intro c hc
          rw [shape_stack_cons, hrank] at hc
          rw [getAt_stack, getAt_stack, List.getElem?_insertIdx_of_gt hlt]
          simp only [squeezeList_getElem?]
          cases hcd : c[d - 1]? with
          | none => rfl
          | some k =>
            simp only [Option.bind_some]
            cases hmk : (m0 :: r0)[k]? with
            | none => rfl
            | some m =>
              simp only [Option.map_some, Option.bind_some]
              have hm : m ∈ m0 :: r0 := List.mem_of_getElem? hmk
              have hcl : (c.eraseIdx (d - 1)).length + 1 = (shape m).length := by
                rw [(hmem m hm).2, List.length_eraseIdx, if_pos (by omega)]; omega
              rw [(hne m hm).2.2 _ hcl]
              have e1 := List.insertIdx_eraseIdx_of_le (a := (0 : Nat)) (i := d - 1) (j := dim) (as := c) (by omega) (by omega)
              have hd1 : d - 1 + 1 = d := by omega
              rw [hd1] at e1
              rw [e1]
theorem squeeze_members : ∀ (ms : List (NT O)) (dim : Nat) (m : NT O), m ∈ ms → wf m = true →
    dim < (shape m).length → (shape m).getD dim 0 = 1 → SqueezeOk m dim
  | [], _, m, hm, _, _, _ => by simp at hm
  | m0 :: r, dim, m, hm, hw, hd, h1 => by
    rcases List.mem_cons.mp hm with h | h
    · have : SqueezeOk m0 dim := squeeze_spec m0 dim (h ▸ hw) (h ▸ hd) (h ▸ h1)
      exact h ▸ this
    · exact squeeze_members r dim m h hw hd h1
end


end NT
end TdVerif.C16
