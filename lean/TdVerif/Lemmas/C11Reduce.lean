/-
  Helper lemmas for C11: a snapshot that describes the tensordict rebuilds it; consolidation builds
  such a snapshot and reads every leaf back.
-/
import TdVerif.Lemmas.C11Layout

namespace TdVerif.C11



theorem readAll_eq_observe (sn : Snap) : ∀ (entries : List Entry) (leaves : List (List String × LeafMeta × Slot)) (i : Nat),
    leaves.map (fun p => (p.1, p.2.1)) = entries.map (fun e => (e.key, e.lm)) →
    refsAligned i entries = true →
    sn.readAll i leaves = entries.map fun e => (e.key, ⟨e.lm, e.ref.bytes (some sn)⟩) := by
  intro entries
  induction entries with
  | nil =>
    intro leaves i h _
    cases leaves with
    | nil => rfl
    | cons _ _ => simp at h
  | cons e es ih =>
    intro leaves i h hr
    cases leaves with
    | nil => simp at h
    | cons p ps =>
      obtain ⟨k, m, sl⟩ := p
      simp only [List.map_cons, List.cons.injEq, Prod.mk.injEq] at h
      simp only [refsAligned, Bool.and_eq_true, beq_iff_eq] at hr
      simp only [Snap.readAll, List.map_cons]
      rw [ih ps (i + 1) h.2 hr.2, h.1.1, h.1.2, hr.1]
      rfl

/-- when the snapshot describes the tensordict, rebuilding from the snapshot is observing the tensordict -/
theorem rebuild_of_describes (sn : Snap) (td : TD) (h : describes sn td = true) :
    (rebuildSnap sn).norm = (observe ⟨td, some sn⟩).norm := by
  simp only [describes, Bool.and_eq_true, beq_iff_eq] at h
  obtain ⟨⟨⟨hn, hk⟩, _⟩, hr⟩ := h
  simp only [rebuildSnap, observe, Obs.norm, Obs.mk.injEq]
  exact ⟨hn, readAll_eq_observe sn td.entries sn.leaves 0 hk hr⟩

theorem refsAligned_reindex : ∀ (es : List Entry) (i : Nat), refsAligned i (reindex i es) = true := by
  intro es
  induction es with
  | nil => intro i; rfl
  | cons e es ih => intro i; simp [reindex, refsAligned, ih]

theorem reindex_keys : ∀ (es : List Entry) (i : Nat),
    (reindex i es).map (fun e => (e.key, e.lm)) = es.map (fun e => (e.key, e.lm)) := by
  intro es
  induction es with
  | nil => intro i; rfl
  | cons e es ih => intro i; simp [reindex, ih]

theorem reindex_nbytes : ∀ (es : List Entry) (i : Nat),
    (reindex i es).map (fun e => e.lm.nbytes) = es.map (fun e => e.lm.nbytes) := by
  intro es
  induction es with
  | nil => intro i; rfl
  | cons e es ih => intro i; simp [reindex, ih]

theorem zip_map_fst_of_length {α β γ} (f : α → γ) : ∀ (l : List α) (m : List β), l.length = m.length →
    (l.zip m).map (fun p => f p.1) = l.map f := by
  intro l
  induction l with
  | nil => intro m _; simp
  | cons a l ih =>
    intro m h
    cases m with
    | nil => simp at h
    | cons b m => simp [ih m (by simpa using h)]

theorem zip_map_snd_of_length {α β} : ∀ (l : List α) (m : List β), l.length = m.length →
    (l.zip m).map (fun p => p.2) = m := by
  intro l
  induction l with
  | nil => intro m h; cases m <;> simp_all
  | cons a l ih =>
    intro m h
    cases m with
    | nil => simp at h
    | cons b m => simp [ih m (by simpa using h)]

/-- every device is absent or cpu (the only situation this sandbox can exercise) -/
def CpuOnly (td : TD) : Prop := ∀ p ∈ td.nodes, p.2.device = none ∨ p.2.device = some "cpu"

theorem normNodes_cpu (nodes : List (List String × NodeMeta))
    (h : ∀ p ∈ nodes, p.2.device = none ∨ p.2.device = some "cpu") :
    normNodes (nodes.map fun p => (p.1, { p.2 with device := some "cpu" })) = normNodes nodes := by
  simp only [normNodes, List.map_map]
  apply List.map_congr_left
  intro p hp
  rcases h p hp with h1 | h1 <;> simp [NodeMeta.norm, normDev, h1]



theorem decodeAll_get (st : List Nat) : ∀ (ms : List LeafMeta) (ss : List Slot) (ls : List Leaf),
    decodeAll st ms ss = some ls →
    ∀ (i : Nat) (m : LeafMeta) (s : Slot), ms[i]? = some m → ss[i]? = some s → ∃ l, ls[i]? = some l ∧ decodeLeaf st m s = some l := by
  intro ms
  induction ms with
  | nil => intro ss ls _ i m s hm; simp at hm
  | cons m0 ms ih =>
    intro ss ls h i m s hm hs
    cases ss with
    | nil => simp at hs
    | cons s0 ss =>
      simp only [decodeAll] at h
      cases h1 : decodeLeaf st m0 s0 with
      | none => simp [h1] at h
      | some l0 =>
        cases h2 : decodeAll st ms ss with
        | none => simp [h1, h2] at h
        | some tl =>
          simp only [h1, h2, Option.some.injEq] at h
          subst h
          cases i with
          | zero =>
            simp only [List.getElem?_cons_zero, Option.some.injEq] at hm hs
            subst hm; subst hs
            exact ⟨l0, by simp, h1⟩
          | succ i =>
            simp only [List.getElem?_cons_succ] at hm hs
            obtain ⟨l, hl, hd⟩ := ih ss tl h2 i m s hm hs
            exact ⟨l, by simpa using hl, hd⟩

/-- reading the suffix of the snapshot's own leaves -/
theorem readAll_suffix (sn : Snap) : ∀ (suffix : List (List String × LeafMeta × Slot)) (i : Nat),
    sn.leaves.drop i = suffix →
    sn.readAll i suffix = suffix.map fun p =>
      (p.1, ⟨p.2.1, ((decodeLeaf sn.storage p.2.1 p.2.2).map (·.bytes)).getD []⟩) := by
  intro suffix
  induction suffix with
  | nil => intro i _; rfl
  | cons p ps ih =>
    intro i h
    obtain ⟨k, m, sl⟩ := p
    have hlt : i < sn.leaves.length := by
      rcases Nat.lt_or_ge i sn.leaves.length with h1 | h1
      · exact h1
      · rw [List.drop_eq_nil_of_le h1] at h; simp at h
    have hget : sn.leaves[i]? = some (k, m, sl) := by
      rw [List.drop_eq_getElem_cons hlt] at h
      rw [List.getElem?_eq_getElem hlt]
      simp only [List.cons.injEq] at h
      rw [h.1]
    have hnext : sn.leaves.drop (i + 1) = ps := by
      rw [List.drop_eq_getElem_cons hlt] at h
      simp only [List.cons.injEq] at h
      exact h.2
    simp only [Snap.readAll, List.map_cons, ih (i + 1) hnext]
    congr 1
    simp [Snap.read, hget]


/-- the leaf an entry denotes before consolidation -/
def Entry.leaf (e : Entry) : Leaf := ⟨e.lm, e.ref.bytes none⟩

theorem consolidate_reads_back (es : List Entry)
    (h : ∀ e ∈ es, e.leaf.WF ∧ e.leaf.Viewable) :
    let slots := layout (es.map fun e => e.lm.nbytes)
    let sn : Snap := ⟨[], (es.zip slots).map (fun p => (p.1.key, p.1.lm, p.2)), encodeCat (es.map fun e => e.ref.bytes none)⟩
    sn.leaves.map (fun p => (p.1, (⟨p.2.1, ((decodeLeaf sn.storage p.2.1 p.2.2).map (·.bytes)).getD []⟩ : Leaf)))
      = es.map fun e => (e.key, e.leaf) := by
  intro slots sn
  have hsizes : es.map (fun e => e.lm.nbytes) = (es.map Entry.leaf).map (·.bytes.length) := by
    rw [List.map_map]
    apply List.map_congr_left
    intro e he
    exact ((h e he).1).symm
  have hdec := decodeAll_encode (es.map Entry.leaf) [] (by
    intro l hl
    obtain ⟨e, he, rfl⟩ := List.mem_map.1 hl
    exact h e he) (by simp)
  simp only [List.nil_append, List.length_nil, List.map_map] at hdec
  have hslots : slots = layoutFrom 0 ((es.map Entry.leaf).map (·.bytes.length)) := by
    show layout _ = _
    rw [hsizes]; rfl
  have hlen : slots.length = es.length := by
    rw [hslots, layoutFrom_length]; simp
  apply List.ext_getElem
  · simp [sn, hlen]
  · intro i h1 h2
    have hi : i < es.length := by simpa using h2
    have his : i < slots.length := by omega
    simp only [List.getElem_map, sn, List.getElem_zip]
    have hm : ((es.map Entry.leaf).map (·.lm))[i]? = some es[i].lm := by
      simp [List.getElem?_eq_getElem hi, Entry.leaf]
    have hs : (layoutFrom 0 ((es.map Entry.leaf).map (·.bytes.length)))[i]? = some slots[i] := by
      rw [← hslots]; exact List.getElem?_eq_getElem his
    have hdec' : decodeAll (encodeCat (es.map fun e => e.ref.bytes none)) ((es.map Entry.leaf).map (·.lm))
        (layoutFrom 0 ((es.map Entry.leaf).map (·.bytes.length))) = some (es.map Entry.leaf) := by
      simpa [Entry.leaf, Function.comp_def, List.map_map] using hdec
    obtain ⟨l, hl, hd⟩ := decodeAll_get _ _ _ _ hdec' i es[i].lm slots[i] hm hs
    have : l = es[i].leaf := by
      simp [List.getElem?_eq_getElem hi] at hl
      exact hl.symm
    subst this
    rw [hd]
    simp [Entry.leaf]


end TdVerif.C11
