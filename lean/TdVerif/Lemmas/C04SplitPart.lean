/-
  C04 — split_keys partitions the leaves when no key is a prefix of another (Props/C04.lean: split_partition_partial)
-/
import TdVerif.Model.C04Tree
import TdVerif.Model.C04Spec
import TdVerif.Lemmas.C04
import TdVerif.Lemmas.C04Roundtrip
import TdVerif.Lemmas.C04Split

namespace TdVerif.C04
open TdVerif

/-- a tensor / non-tensor is bound at `q` -/
def LeafAt (q : Path) (nt : Bool) (x : Nat) (t : Entry) : Prop := lookup q t = some (.leaf nt x)

/-- nothing is bound to a leaf strictly above a bound path -/
theorem not_leaf_above {q ext : Path} {t e : Entry} (hext : ext ≠ []) (h : lookup (q ++ ext) t = some e) (nt : Bool) (x : Nat) :
    lookup q t ≠ some (.leaf nt x) := by
  intro hq
  rw [lookup_append, hq] at h
  cases ext with
  | nil => exact hext rfl
  | cons k r => simp [lookup] at h

theorem isPrefix_trichotomy (p q : Path) :
    isPrefix p q = true ∨ (isPrefix p q = false ∧ isPrefix q p = true) ∨ (isPrefix p q = false ∧ isPrefix q p = false) := by
  cases h1 : isPrefix p q <;> cases h2 : isPrefix q p <;> simp

/-- two prefixes of one path are comparable -/
theorem isPrefix_comparable (a b q : Path) (ha : isPrefix a q = true) (hb : isPrefix b q = true) :
    isPrefix a b = true ∨ isPrefix b a = true := by
  induction a generalizing b q with
  | nil => left; simp [isPrefix]
  | cons x a ih =>
    cases b with
    | nil => right; simp [isPrefix]
    | cons y b =>
      cases q with
      | nil => simp [isPrefix] at ha
      | cons z q =>
        simp only [isPrefix, Bool.and_eq_true, beq_iff_eq] at ha hb ⊢
        obtain ⟨rfl, ha⟩ := ha
        obtain ⟨rfl, hb⟩ := hb
        rcases ih b q ha hb with h | h
        · left; exact ⟨rfl, h⟩
        · right; exact ⟨rfl, h⟩

theorem lookup_remove_below (p : Path) (t t' : Entry) (hw : WF t) (h : remove p t = some t') (q : Path)
    (hq : isPrefix p q = true) : lookup q t' = none := by
  obtain ⟨ext, rfl⟩ := (isPrefix_iff_append p q).mp hq
  rw [lookup_append, lookup_remove_same p t t' hw h]
  rfl

/-- which tensors are still bound after `del d[p]` -/
theorem lookup_remove_leaf (p : Path) (t t' : Entry) (hw : WF t) (h : remove p t = some t') (q : Path) (nt : Bool) (x : Nat) :
    LeafAt q nt x t' ↔ LeafAt q nt x t ∧ isPrefix p q = false := by
  unfold LeafAt
  have hbound : ∃ e, lookup p t = some e := by
    cases hl : lookup p t with
    | none => rw [remove_none_of_lookup hl] at h; simp at h
    | some e => exact ⟨e, rfl⟩
  rcases isPrefix_trichotomy p q with h1 | ⟨h1, h2⟩ | ⟨h1, h2⟩
  · rw [lookup_remove_below p t t' hw h q h1]; simp [h1]
  · -- q is a proper prefix of p: no leaf there, before or after
    obtain ⟨ext, rfl⟩ := (isPrefix_iff_append q p).mp h2
    have hext : ext ≠ [] := by
      intro e; subst e; simp [isPrefix_refl] at h1
    obtain ⟨e, he⟩ := hbound
    have hno := not_leaf_above hext he nt x
    constructor
    · intro hl
      exfalso
      -- after the removal the path above is still a dict
      obtain ⟨kids, kids', rfl, rfl⟩ := remove_shape h
      have : ∀ (p q : Path) (t t' : Entry), remove p t = some t' → isPrefix q p = true → isPrefix p q = false →
          ∀ nt x, lookup q t' ≠ some (.leaf nt x) := by
        intro p
        induction p with
        | nil => intro q t t' h; simp [remove] at h
        | cons k rest ih =>
          intro q t t' h hqp hpq nt x
          cases q with
          | nil =>
            obtain ⟨kk, kk', rfl, rfl⟩ := remove_shape h
            simp [lookup]
          | cons k' q' =>
            simp only [isPrefix, Bool.and_eq_true, beq_iff_eq] at hqp
            obtain ⟨rfl, hqp⟩ := hqp
            have hpq' : isPrefix rest q' = false := by simpa [isPrefix] using hpq
            cases rest with
            | nil => cases q' <;> simp [isPrefix] at hpq' hqp
            | cons k2 rest2 =>
              cases t with
              | leaf a b => simp [remove] at h
              | node kd =>
                simp only [remove] at h
                cases hd : dget k' kd with
                | none => simp [hd] at h
                | some c =>
                  simp only [hd, Option.map_eq_some_iff] at h
                  obtain ⟨a, ha, rfl⟩ := h
                  simp only [lookup_cons_node, dget_dset_same]
                  exact ih q' c a ha hqp hpq' nt x
      exact this (q ++ ext) q _ _ h h2 h1 nt x hl
    · intro hl; exact absurd hl.1 hno
  · rw [lookup_remove_other p t t' h q h1 h2]; simp [h1]

/-- which tensors are bound after `d[p] = v` -/
theorem lookup_insert_leaf (p : Path) (v t t' : Entry) (h : insert p v t = some t') (q : Path) (nt : Bool) (x : Nat) :
    LeafAt q nt x t' ↔ (∃ ext, q = p ++ ext ∧ LeafAt ext nt x v) ∨
      (isPrefix p q = false ∧ isPrefix q p = false ∧ LeafAt q nt x t) := by
  unfold LeafAt
  have hsame := lookup_insert_same p v t t' h
  rcases isPrefix_trichotomy p q with h1 | ⟨h1, h2⟩ | ⟨h1, h2⟩
  · obtain ⟨ext, rfl⟩ := (isPrefix_iff_append p q).mp h1
    rw [lookup_append, hsame]
    constructor
    · intro hl; exact Or.inl ⟨ext, rfl, hl⟩
    · rintro (⟨ext', he, hl⟩ | ⟨hf, _, _⟩)
      · have : ext' = ext := List.append_cancel_left he.symm
        subst this; exact hl
      · simp [h1] at hf
  · obtain ⟨ext, rfl⟩ := (isPrefix_iff_append q p).mp h2
    have hext : ext ≠ [] := by
      intro e; subst e; simp [isPrefix_refl] at h1
    have hno := not_leaf_above hext hsame nt x
    constructor
    · intro hl; exact absurd hl hno
    · rintro (⟨ext', he, _⟩ | ⟨_, hf, _⟩)
      · exfalso
        have : isPrefix (q ++ ext) q = true := (isPrefix_iff_append _ _).mpr ⟨ext', he⟩
        simp [h1] at this
      · simp [h2] at hf
  · rw [lookup_insert_other p v t t' h q h1 h2]
    constructor
    · intro hl; exact Or.inr ⟨h1, h2, hl⟩
    · rintro (⟨ext', he, _⟩ | ⟨_, _, hl⟩)
      · exfalso
        have : isPrefix p q = true := (isPrefix_iff_append _ _).mpr ⟨ext', he⟩
        simp [h1] at this
      · exact hl

/-! ### the loops of split_keys -/

/-- neither key is a prefix of the other -/
def Unrel (a b : Path) : Prop := isPrefix a b = false ∧ isPrefix b a = false

theorem isPrefix_trans' (a b c : Path) (h1 : isPrefix a b = true) (h2 : isPrefix b c = true) : isPrefix a c = true := by
  obtain ⟨e1, rfl⟩ := (isPrefix_iff_append a b).mp h1
  obtain ⟨e2, rfl⟩ := (isPrefix_iff_append _ c).mp h2
  exact (isPrefix_iff_append _ _).mpr ⟨e1 ++ e2, by simp⟩

theorem specPop_some {p : Path} {b : Bool} {last l1 v : Entry} (h : specPop p b last = (l1, .val (some v))) :
    lookup p last = some v ∧ remove p last = some l1 := by
  unfold specPop at h
  split at h
  · simp at h
  · split at h
    · rename_i v' hv
      split at h
      · rename_i t' ht
        simp at h
        obtain ⟨rfl, rfl⟩ := h
        exact ⟨hv, ht⟩
      · simp at h
    · split at h
      · simp at h
      · split at h <;> simp at h

theorem specPop_none {p : Path} {b : Bool} {last l1 : Entry} (h : specPop p b last = (l1, .val none)) :
    l1 = last ∧ lookup p last = none := by
  unfold specPop at h
  split at h
  · simp at h
  · split at h
    · split at h <;> simp at h
    · rename_i hn
      split at h
      · simp at h
      · split at h
        · simp at h; exact ⟨h.symm, hn⟩
        · simp at h

theorem splitSet_inv (strict : Bool) (t : Entry) : ∀ (ks : List Path) (last out last' out' : Entry) (done doneSet : List Path),
    WF last →
    (∀ p ∈ ks, ∀ d ∈ done, Unrel d p) → List.Pairwise Unrel ks →
    (∀ p ∈ doneSet, p ∈ done) →
    (∀ q nt x, LeafAt q nt x last ↔ LeafAt q nt x t ∧ ∀ p ∈ done, isPrefix p q = false) →
    (∀ q nt x, LeafAt q nt x out ↔ LeafAt q nt x t ∧ ∃ p ∈ doneSet, isPrefix p q = true) →
    specSplitSet strict ks last out = (last', out', .ok ()) →
    WF last' ∧
    (∀ q nt x, LeafAt q nt x last' ↔ LeafAt q nt x t ∧ ∀ p ∈ done ++ ks, isPrefix p q = false) ∧
    (∀ q nt x, LeafAt q nt x out' ↔ LeafAt q nt x t ∧ ∃ p ∈ doneSet ++ ks, isPrefix p q = true) := by
  intro ks
  induction ks with
  | nil =>
    intro last out last' out' done doneSet hw _ _ _ hL hO h
    simp [specSplitSet] at h
    obtain ⟨rfl, rfl⟩ := h
    exact ⟨hw, by simpa using hL, by simpa using hO⟩
  | cons p r ih =>
    intro last out last' out' done doneSet hw hd hpw hsub hL hO h
    have hpd : ∀ d ∈ done, Unrel d p := hd p (by simp)
    have hrd : ∀ p' ∈ r, ∀ d ∈ done ++ [p], Unrel d p' := by
      intro p' hp' d hdm
      rcases List.mem_append.mp hdm with hdm | hdm
      · exact hd p' (List.mem_cons_of_mem _ hp') d hdm
      · simp at hdm; subst hdm; exact (List.pairwise_cons.mp hpw).1 p' hp'
    have hpr := (List.pairwise_cons.mp hpw).2
    have hsub' : ∀ p' ∈ doneSet ++ [p], p' ∈ done ++ [p] := by
      intro p' hp'
      rcases List.mem_append.mp hp' with h1 | h1
      · exact List.mem_append_left _ (hsub p' h1)
      · exact List.mem_append_right _ h1
    -- a path below `p` is below no key handled before
    have hfree : ∀ q, isPrefix p q = true → ∀ d ∈ done, isPrefix d q = false := by
      intro q hq d hdm
      cases hdq : isPrefix d q with
      | false => rfl
      | true =>
        exfalso
        rcases isPrefix_comparable d p q hdq hq with hc | hc
        · simp [(hpd d hdm).1] at hc
        · simp [(hpd d hdm).2] at hc
    simp only [specSplitSet] at h
    cases hpop : specPop p (!strict) last with
    | mk l1 o =>
      rw [hpop] at h
      cases o with
      | ok => simp at h
      | res rs => simp at h
      | err e => simp at h
      | val ov =>
        cases ov with
        | some v =>
          obtain ⟨hlk, hrm⟩ := specPop_some hpop
          simp only at h
          cases hins : C04.insert p v out with
          | none => rw [hins] at h; simp at h
          | some o1 =>
            rw [hins] at h
            simp only at h
            have hw1 := wf_remove p last l1 hw hrm
            have hL1 : ∀ q nt x, LeafAt q nt x l1 ↔ LeafAt q nt x t ∧ ∀ p' ∈ done ++ [p], isPrefix p' q = false := by
              intro q nt x
              rw [lookup_remove_leaf p last l1 hw hrm q nt x, hL q nt x]
              constructor
              · rintro ⟨⟨h1, h2⟩, h3⟩
                refine ⟨h1, fun p' hp' => ?_⟩
                rcases List.mem_append.mp hp' with hm | hm
                · exact h2 p' hm
                · simp at hm; subst hm; exact h3
              · rintro ⟨h1, h2⟩
                exact ⟨⟨h1, fun p' hp' => h2 p' (List.mem_append_left _ hp')⟩, h2 p (by simp)⟩
            have hO1 : ∀ q nt x, LeafAt q nt x o1 ↔ LeafAt q nt x t ∧ ∃ p' ∈ doneSet ++ [p], isPrefix p' q = true := by
              intro q nt x
              rw [lookup_insert_leaf p v out o1 hins q nt x]
              constructor
              · rintro (⟨ext, rfl, hl⟩ | ⟨_, _, hl⟩)
                · have hpq : isPrefix p (p ++ ext) = true := (isPrefix_iff_append _ _).mpr ⟨ext, rfl⟩
                  have hlast : LeafAt (p ++ ext) nt x last := by
                    unfold LeafAt; rw [lookup_append, hlk]; exact hl
                  exact ⟨((hL _ nt x).mp hlast).1, p, by simp, hpq⟩
                · obtain ⟨h1, p', hp', hpq⟩ := (hO q nt x).mp hl
                  exact ⟨h1, p', List.mem_append_left _ hp', hpq⟩
              · rintro ⟨h1, p', hp', hpq⟩
                rcases List.mem_append.mp hp' with hm | hm
                · right
                  have hp'd := hsub p' hm
                  have hu := hpd p' hp'd
                  refine ⟨?_, ?_, (hO q nt x).mpr ⟨h1, p', hm, hpq⟩⟩
                  · cases hc : isPrefix p q with
                    | false => rfl
                    | true =>
                      exfalso
                      rcases isPrefix_comparable p' p q hpq hc with hc' | hc'
                      · simp [hu.1] at hc'
                      · simp [hu.2] at hc'
                  · cases hc : isPrefix q p with
                    | false => rfl
                    | true =>
                      exfalso
                      have := isPrefix_trans' p' q p hpq hc
                      simp [hu.1] at this
                · simp at hm; subst hm
                  left
                  obtain ⟨ext, rfl⟩ := (isPrefix_iff_append _ _).mp hpq
                  refine ⟨ext, rfl, ?_⟩
                  have hlast : LeafAt (p' ++ ext) nt x last := (hL _ nt x).mpr ⟨h1, hfree _ hpq⟩
                  unfold LeafAt at hlast ⊢
                  rw [lookup_append, hlk] at hlast
                  exact hlast
            have := ih l1 o1 last' out' (done ++ [p]) (doneSet ++ [p]) hw1 hrd hpr hsub' hL1 hO1 h
            simpa [List.append_assoc] using this
        | none =>
          obtain ⟨rfl, hlk⟩ := specPop_none hpop
          simp only at h
          have hbelow : ∀ q, isPrefix p q = true → lookup q l1 = none := by
            intro q hq
            obtain ⟨ext, rfl⟩ := (isPrefix_iff_append _ _).mp hq
            rw [lookup_append, hlk]; rfl
          have hL1 : ∀ q nt x, LeafAt q nt x l1 ↔ LeafAt q nt x t ∧ ∀ p' ∈ done ++ [p], isPrefix p' q = false := by
            intro q nt x
            rw [hL q nt x]
            constructor
            · rintro ⟨h1, h2⟩
              refine ⟨h1, fun p' hp' => ?_⟩
              rcases List.mem_append.mp hp' with hm | hm
              · exact h2 p' hm
              · simp at hm; subst hm
                cases hc : isPrefix p' q with
                | false => rfl
                | true =>
                  exfalso
                  have hl : LeafAt q nt x l1 := (hL q nt x).mpr ⟨h1, h2⟩
                  unfold LeafAt at hl
                  rw [hbelow q hc] at hl; simp at hl
            · rintro ⟨h1, h2⟩
              exact ⟨h1, fun p' hp' => h2 p' (List.mem_append_left _ hp')⟩
          have hO1 : ∀ q nt x, LeafAt q nt x out ↔ LeafAt q nt x t ∧ ∃ p' ∈ doneSet ++ [p], isPrefix p' q = true := by
            intro q nt x
            rw [hO q nt x]
            constructor
            · rintro ⟨h1, p', hp', hpq⟩
              exact ⟨h1, p', List.mem_append_left _ hp', hpq⟩
            · rintro ⟨h1, p', hp', hpq⟩
              rcases List.mem_append.mp hp' with hm | hm
              · exact ⟨h1, p', hm, hpq⟩
              · exfalso
                simp at hm; subst hm
                have hl : LeafAt q nt x l1 := (hL q nt x).mpr ⟨h1, hfree q hpq⟩
                unfold LeafAt at hl
                rw [hbelow q hpq] at hl; simp at hl
          have := ih l1 out last' out' (done ++ [p]) (doneSet ++ [p]) hw hrd hpr hsub' hL1 hO1 h
          simpa [List.append_assoc] using this

/-- what one output of `split_keys` holds: the tensors of the original at or below one of the keys of its key set -/
def OutHolds (t : Entry) (ks : List Path) (o : Entry) : Prop :=
  ∀ q nt x, LeafAt q nt x o ↔ LeafAt q nt x t ∧ ∃ p ∈ ks, isPrefix p q = true

/-- output by output -/
inductive OutsHold (t : Entry) : List (List Path) → List Entry → Prop where
  | nil : OutsHold t [] []
  | cons {ks : List Path} {o : Entry} {sets : List (List Path)} {outs : List Entry} :
      OutHolds t ks o → OutsHold t sets outs → OutsHold t (ks :: sets) (o :: outs)

theorem pairwise_flatten_cons {ks : List Path} {r : List (List Path)} (h : List.Pairwise Unrel (ks :: r).flatten) :
    List.Pairwise Unrel ks ∧ List.Pairwise Unrel r.flatten ∧ ∀ a ∈ ks, ∀ b ∈ r.flatten, Unrel a b := by
  simp only [List.flatten_cons] at h
  exact List.pairwise_append.mp h

theorem splitSets_inv (strict : Bool) (t : Entry) : ∀ (sets : List (List Path)) (last : Entry) (outs : List Entry) (last' : Entry)
    (outs' : List Entry) (done : List Path),
    WF last →
    (∀ p ∈ sets.flatten, ∀ d ∈ done, Unrel d p) → List.Pairwise Unrel sets.flatten →
    (∀ q nt x, LeafAt q nt x last ↔ LeafAt q nt x t ∧ ∀ p ∈ done, isPrefix p q = false) →
    specSplitSets strict sets last outs = (last', outs', .ok ()) →
    WF last' ∧
    (∀ q nt x, LeafAt q nt x last' ↔ LeafAt q nt x t ∧ ∀ p ∈ done ++ sets.flatten, isPrefix p q = false) ∧
    ∃ news, outs' = outs.reverse ++ news ∧ OutsHold t sets news := by
  intro sets
  induction sets with
  | nil =>
    intro last outs last' outs' done hw _ _ hL h
    simp [specSplitSets] at h
    obtain ⟨rfl, rfl⟩ := h
    exact ⟨hw, by simpa using hL, [], by simp, OutsHold.nil⟩
  | cons ks r ih =>
    intro last outs last' outs' done hw hd hpw hL h
    obtain ⟨hpk, hpr, hkr⟩ := pairwise_flatten_cons hpw
    simp only [specSplitSets] at h
    cases hset : specSplitSet strict ks last (.node []) with
    | mk l1 rest =>
      obtain ⟨o1, res⟩ := rest
      rw [hset] at h
      cases res with
      | error e => simp at h
      | ok u =>
        simp only at h
        have hO0 : ∀ q nt x, LeafAt q nt x (.node []) ↔ LeafAt q nt x t ∧ ∃ p ∈ ([] : List Path), isPrefix p q = true := by
          intro q nt x
          unfold LeafAt
          cases q with
          | nil => simp [lookup]
          | cons k q' => simp [lookup, dget]
        have hdk : ∀ p ∈ ks, ∀ d ∈ done, Unrel d p := fun p hp d hdm => hd p (by simp [hp]) d hdm
        obtain ⟨hw1, hL1, hO1⟩ := splitSet_inv strict t ks last (.node []) l1 o1 done [] hw hdk hpk (by simp) hL hO0 hset
        have hd' : ∀ p ∈ r.flatten, ∀ d ∈ done ++ ks, Unrel d p := by
          intro p hp d hdm
          rcases List.mem_append.mp hdm with hm | hm
          · exact hd p (by simp [hp]) d hm
          · exact hkr d hm p hp
        obtain ⟨hwf, hLf, news, hnews, hfa⟩ := ih l1 (o1 :: outs) last' outs' (done ++ ks) hw1 hd' hpr hL1 h
        refine ⟨hwf, by simpa [List.append_assoc] using hLf, o1 :: news, by simp [hnews], OutsHold.cons ?_ hfa⟩
        intro q nt x
        simpa using hO1 q nt x

/-! ### `filter_empty_` does not touch the tensors -/

theorem isEmpty_no_leaf (kids : Kids) (h : isEmpty.go kids = true) : ∀ q nt x, lookup q (.node kids) ≠ some (.leaf nt x) := by
  fun_induction isEmpty.go kids
  · intro q nt x
    cases q with
    | nil => simp [lookup]
    | cons k q' => simp [lookup, dget]
  · rename_i k sub r ih1 ih2
    simp only [Bool.and_eq_true] at h
    intro q nt x
    cases q with
    | nil => simp [lookup]
    | cons k' q' =>
      simp only [lookup_cons_node, dget]
      split
      · cases sub with
        | leaf a b => simp at h
        | node ss =>
          simp only at ih1 h
          cases q' with
          | nil => simp [lookup]
          | cons k2 q2 => exact ih1 h.1 (k2 :: q2) nt x
      · have := ih2 h.2 (k' :: q') nt x
        simpa [lookup_cons_node] using this

theorem dget_none_of_not_mem {k : String} {kids : Kids} (h : k ∉ kids.map (·.1)) : dget k kids = none := by
  induction kids with
  | nil => simp [dget]
  | cons a r ih =>
    obtain ⟨k', v⟩ := a
    simp only [List.map_cons, List.mem_cons, not_or] at h
    simp only [dget]
    rw [if_neg (fun e => h.1 e.symm)]
    exact ih h.2

theorem filterEmpty_go_leaf (kids : Kids) (hw : WF (.node kids)) :
    ∀ q nt x, lookup q (.node (filterEmpty.go kids)) = some (.leaf nt x) ↔ lookup q (.node kids) = some (.leaf nt x) := by
  fun_induction filterEmpty.go kids
  · intro q nt x; rfl
  · rename_i k nt' v r ih
    have hwr : WF (.node r) := WF.node r (List.nodup_cons.mp hw.kids_nodup).2 (fun k' v' hm => by
      cases hw with | node _ _ hc => exact hc k' v' (List.mem_cons_of_mem _ hm))
    intro q nt x
    cases q with
    | nil => simp [lookup]
    | cons k' q' =>
      simp only [lookup_cons_node, dget]
      split
      · rfl
      · have := ih hwr (k' :: q') nt x
        simpa [lookup_cons_node] using this
  · rename_i k sub r sub' hemp ih1 ih2
    have hnd := List.nodup_cons.mp hw.kids_nodup
    have hwr : WF (.node r) := WF.node r hnd.2 (fun k' v' hm => by
      cases hw with | node _ _ hc => exact hc k' v' (List.mem_cons_of_mem _ hm))
    have hws : WF (.node sub) := by
      cases hw with | node _ _ hc => exact hc k (.node sub) (by simp)
    intro q nt x
    cases q with
    | nil => simp [lookup]
    | cons k' q' =>
      by_cases e : k = k'
      · subst e
        have hnone : dget k (filterEmpty.go r) = none := by
          apply dget_none_of_not_mem
          intro hm
          exact hnd.1 (filterEmpty_go_keys_sub r k hm)
        simp only [lookup_cons_node, hnone, dget, if_true]
        constructor
        · intro h; simp at h
        · intro h
          exfalso
          cases q' with
          | nil => simp [lookup] at h
          | cons k2 q2 =>
            have h' := (ih1 hws (k2 :: q2) nt x).mpr h
            exact isEmpty_no_leaf _ hemp (k2 :: q2) nt x h'
      · have := ih2 hwr (k' :: q') nt x
        simp only [lookup_cons_node, dget, if_neg e]
        simpa [lookup_cons_node] using this
  · rename_i k sub r sub' hemp ih1 ih2
    have hnd := List.nodup_cons.mp hw.kids_nodup
    have hwr : WF (.node r) := WF.node r hnd.2 (fun k' v' hm => by
      cases hw with | node _ _ hc => exact hc k' v' (List.mem_cons_of_mem _ hm))
    have hws : WF (.node sub) := by
      cases hw with | node _ _ hc => exact hc k (.node sub) (by simp)
    intro q nt x
    cases q with
    | nil => simp [lookup]
    | cons k' q' =>
      by_cases e : k = k'
      · subst e
        simp only [lookup_cons_node, dget, if_true]
        cases q' with
        | nil => simp [lookup]
        | cons k2 q2 => exact ih1 hws (k2 :: q2) nt x
      · have := ih2 hwr (k' :: q') nt x
        simp only [lookup_cons_node, dget, if_neg e]
        simpa [lookup_cons_node] using this

theorem filterEmpty_leaf (t : Entry) (hw : WF t) (q : Path) (nt : Bool) (x : Nat) :
    LeafAt q nt x (filterEmpty t) ↔ LeafAt q nt x t := by
  unfold LeafAt
  cases t with
  | leaf a b => simp [filterEmpty]
  | node kids => simp only [filterEmpty]; exact filterEmpty_go_leaf kids hw q nt x

theorem OutsHold.covers {t : Entry} {sets : List (List Path)} {outs : List Entry} (h : OutsHold t sets outs)
    (q : Path) (nt : Bool) (x : Nat) (hl : LeafAt q nt x t) (p : Path) (hp : p ∈ sets.flatten) (hpq : isPrefix p q = true) :
    ∃ o ∈ outs, LeafAt q nt x o := by
  induction h with
  | nil => simp at hp
  | @cons ks o sets' outs' ho _ ih =>
    simp only [List.flatten_cons, List.mem_append] at hp
    rcases hp with hp | hp
    · exact ⟨o, by simp, (ho q nt x).mpr ⟨hl, p, hp, hpq⟩⟩
    · obtain ⟨o', ho', hl'⟩ := ih hp
      exact ⟨o', List.mem_cons_of_mem _ ho', hl'⟩

theorem OutsHold.sound {t : Entry} {sets : List (List Path)} {outs : List Entry} (h : OutsHold t sets outs)
    (o : Entry) (ho : o ∈ outs) (q : Path) (nt : Bool) (x : Nat) (hl : LeafAt q nt x o) :
    LeafAt q nt x t ∧ ∃ p ∈ sets.flatten, isPrefix p q = true := by
  induction h with
  | nil => simp at ho
  | @cons ks o1 sets' outs' hh _ ih =>
    simp only [List.mem_cons] at ho
    rcases ho with rfl | ho
    · obtain ⟨h1, p, hp, hpq⟩ := (hh q nt x).mp hl
      exact ⟨h1, p, by simp [hp], hpq⟩
    · obtain ⟨h1, p, hp, hpq⟩ := ih ho
      exact ⟨h1, p, by simp [hp], hpq⟩

/-- the replay of `split_keys` on plain dicts, keys pairwise unrelated: what every result holds -/
theorem specSplit_partition (sets : List (List Path)) (inplace strict : Bool) (t : Entry) (hw : WF t)
    (hpw : List.Pairwise Unrel sets.flatten) (rs : List Entry) (h : (specSplit sets inplace strict t).2 = .res rs) :
    ∃ outs rem, rs = outs ++ [rem] ∧ OutsHold t sets outs ∧
      (∀ q nt x, LeafAt q nt x rem ↔ LeafAt q nt x t ∧ ∀ p ∈ sets.flatten, isPrefix p q = false) := by
  unfold specSplit at h
  cases hs : specSplitSets strict sets t [] with
  | mk last rest =>
    obtain ⟨outs, res⟩ := rest
    rw [hs] at h
    cases res with
    | error e => simp at h
    | ok u =>
      simp only at h
      have hL0 : ∀ q nt x, LeafAt q nt x t ↔ LeafAt q nt x t ∧ ∀ p ∈ ([] : List Path), isPrefix p q = false := by
        intro q nt x; simp
      obtain ⟨hwl, hL, news, hnews, hO⟩ := splitSets_inv strict t sets t [] last outs [] hw (by simp) hpw hL0 hs
      simp at hnews; subst hnews
      refine ⟨outs, filterEmpty last, by simpa using h.symm, hO, fun q nt x => ?_⟩
      rw [filterEmpty_leaf last hwl q nt x]
      simpa using hL q nt x

end TdVerif.C04
