/-
  Helper lemmas for the C09 key-pairing model (core Lean only).
-/
import TdVerif.Model.C09KV

namespace TdVerif.C09
variable {V : Type}

theorem get?_eq_none_iff (kv : KV V) (k : Path) : get? kv k = none ↔ k ∉ keys kv := by
  induction kv with
  | nil => simp [get?, keys]
  | cons p rest ih =>
    obtain ⟨k', v⟩ := p
    simp only [get?, keys, List.map_cons, List.mem_cons, not_or] at *
    cases h : get? rest k with
    | some r => simp [h] at ih ⊢; intro _; exact ih
    | none =>
      simp [h] at ih ⊢
      constructor
      · intro hne; exact ⟨fun e => hne e.symm, ih⟩
      · intro ⟨hne, _⟩; exact fun e => hne e.symm

theorem get?_mem (kv : KV V) (k : Path) (v : V) (h : get? kv k = some v) : (k, v) ∈ kv := by
  induction kv with
  | nil => simp [get?] at h
  | cons p rest ih =>
    obtain ⟨k', v'⟩ := p
    simp only [get?] at h
    cases hr : get? rest k with
    | some r => simp [hr] at h; subst h; exact List.mem_cons_of_mem _ (ih hr)
    | none =>
      simp [hr] at h
      obtain ⟨e, e'⟩ := h; subst e; subst e'; exact List.mem_cons_self

theorem get?_of_mem (kv : KV V) (hnd : (keys kv).Nodup) (k : Path) (v : V) (h : (k, v) ∈ kv) :
    get? kv k = some v := by
  induction kv with
  | nil => simp at h
  | cons p rest ih =>
    obtain ⟨k', v'⟩ := p
    simp only [keys, List.map_cons, List.nodup_cons] at hnd
    simp only [get?]
    rcases List.mem_cons.mp h with e | hm
    · injection e with e1 e2; subst e1; subst e2
      have : get? rest k = none := (get?_eq_none_iff rest k).mpr hnd.1
      simp [this]
    · have := ih hnd.2 hm
      simp [this]

theorem get?_eq_some_iff (kv : KV V) (hnd : (keys kv).Nodup) (k : Path) (v : V) :
    get? kv k = some v ↔ (k, v) ∈ kv :=
  ⟨get?_mem kv k v, get?_of_mem kv hnd k v⟩

theorem keys_perm {a b : KV V} (h : a.Perm b) : (keys a).Perm (keys b) := h.map _

/-- lookups do not depend on the insertion order -/
theorem get?_perm {a b : KV V} (h : a.Perm b) (hnd : (keys b).Nodup) (k : Path) :
    get? a k = get? b k := by
  have hnda : (keys a).Nodup := (keys_perm h).nodup_iff.mpr hnd
  cases hb : get? b k with
  | none =>
    rw [get?_eq_none_iff] at hb ⊢
    exact fun hm => hb ((keys_perm h).mem_iff.mp hm)
  | some v =>
    rw [get?_eq_some_iff b hnd] at hb
    rw [get?_eq_some_iff a hnda]
    exact h.mem_iff.mpr hb

theorem hasKey_perm {a b : KV V} (h : a.Perm b) (hnd : (keys b).Nodup) (k : Path) :
    hasKey a k = hasKey b k := by simp [hasKey, get?_perm h hnd]

theorem valuesSorted_perm {a b : KV V} (h : a.Perm b) (hnd : (keys b).Nodup) (sk : List Path) :
    valuesSorted a sk = valuesSorted b sk := by
  induction sk with
  | nil => rfl
  | cons k rest ih => simp only [valuesSorted, get?_perm h hnd, ih]

end TdVerif.C09

namespace TdVerif.C09
variable {V : Type}

theorem get?_append (l1 l2 : KV V) (k : Path) :
    get? (l1 ++ l2) k = match get? l2 k with | some r => some r | none => get? l1 k := by
  induction l1 with
  | nil => simp [get?]; cases get? l2 k <;> rfl
  | cons p rest ih =>
    obtain ⟨k', v⟩ := p
    simp only [List.cons_append, get?, ih]
    cases get? l2 k <;> simp

/-- lookup in a filtered list (filter on the key) -/
theorem get?_filter (items : KV V) (p : Path → Bool) (k : Path) :
    get? (items.filter (fun q => p q.1)) k = if p k then get? items k else none := by
  induction items with
  | nil => simp [get?]
  | cons q rest ih =>
    obtain ⟨k', v⟩ := q
    cases hp : p k' with
    | true =>
      simp only [List.filter_cons, hp, ↓reduceIte, get?, ih]
      cases hk : p k with
      | true => simp
      | false =>
        have : k' ≠ k := fun e => by rw [e] at hp; rw [hp] at hk; cases hk
        simp [this]
    | false =>
      simp only [List.filter_cons, hp, get?, Bool.false_eq_true, ↓reduceIte]
      rw [ih]
      cases hk : p k with
      | true =>
        have : k' ≠ k := fun e => by rw [e] at hp; rw [hp] at hk; cases hk
        cases get? rest k <;> simp [this]
      | false => simp

@[simp] theorem keys_cons (k : Path) (v : V) (rest : KV V) : keys ((k, v) :: rest) = k :: keys rest := rfl
@[simp] theorem keys_nil : keys ([] : KV V) = [] := rfl

/-- lookup in `self.filterMap (k ↦ g k)` -/
theorem get?_filterMap_keys (a : KV V) (hnd : (keys a).Nodup) (g : Path → Option V) (k : Path) :
    get? (a.filterMap (fun q => (g q.1).map (fun v => (q.1, v)))) k
      = if k ∈ keys a then g k else none := by
  induction a with
  | nil => simp [get?]
  | cons q rest ih =>
    obtain ⟨k', v⟩ := q
    rw [keys_cons, List.nodup_cons] at hnd
    have ih := ih hnd.2
    rw [keys_cons]
    simp only [List.filterMap_cons, List.mem_cons]
    by_cases hk : k = k'
    · subst hk
      have ihn : get? (List.filterMap (fun q => Option.map (fun v => (q.1, v)) (g q.1)) rest) k = none := by
        rw [ih]; simp [hnd.1]
      cases hg : g k with
      | none => simp [ihn]
      | some w => simp [get?, ihn]
    · have hne : k' ≠ k := fun e => hk e.symm
      cases hg : g k' with
      | none => simp only [Option.map_none, ih]; simp [hk]
      | some w =>
        simp only [Option.map_some, get?, ih]
        by_cases hm : k ∈ keys rest
        · simp [hm]; cases g k <;> simp [hne]
        · simp [hm, hk, hne]

/-- lookup in `ks.zip rs` when `rs` is given pointwise by `g` -/
theorem get?_zip_of_map (ks : List Path) (hnd : ks.Nodup) (g : Path → Option V) (rs : List V)
    (h : ks.map g = rs.map some) (k : Path) :
    get? (ks.zip rs) k = if k ∈ ks then g k else none := by
  induction ks generalizing rs with
  | nil => simp [get?]
  | cons k' rest ih =>
    cases rs with
    | nil => simp at h
    | cons r rs' =>
      simp only [List.map_cons, List.cons.injEq] at h
      simp only [List.nodup_cons] at hnd
      have ih := ih hnd.2 rs' h.2
      simp only [List.zip_cons_cons, get?, ih, List.mem_cons]
      by_cases hk : k = k'
      · subst hk; simp [hnd.1, h.1]
      · have hne : k' ≠ k := fun e => hk e.symm
        by_cases hm : k ∈ rest
        · simp [hm, hk]; cases g k <;> simp [hne]
        · simp [hm, hk, hne]

theorem keys_zip (ks : List Path) (rs : List V) (h : ks.length = rs.length) : keys (ks.zip rs) = ks := by
  simp [keys, List.map_fst_zip (by omega : ks.length ≤ rs.length)]

end TdVerif.C09

namespace TdVerif.C09
variable {V : Type}

/-- the value torch is asked to compute for one key: `f` of the two entries, when both exist -/
def pair (f : V → V → V) (x y : Option V) : Option V := x.bind (fun a => y.map (f a))

theorem foreach2_map (f : V → V → V) (ks : List Path) (φ ψ : Path → Option V) (rs : List V)
    (h : foreach2 f (ks.map φ) (ks.map ψ) = .ok rs) :
    ks.map (fun k => pair f (φ k) (ψ k)) = rs.map some := by
  induction ks generalizing rs with
  | nil => simp [foreach2] at h; simp [h]
  | cons k rest ih =>
    simp only [List.map_cons] at h ⊢
    cases hx : φ k with
    | none => simp [hx, foreach2] at h
    | some x =>
      cases hy : ψ k with
      | none => simp [hx, hy, foreach2] at h
      | some y =>
        simp only [hx, hy, foreach2] at h
        cases hr : foreach2 f (rest.map φ) (rest.map ψ) with
        | error e => simp [hr] at h
        | ok r' =>
          simp [hr] at h; subst h
          have := ih r' hr
          simp [pair] at this ⊢
          exact this

theorem foreach2_ok (f : V → V → V) (ks : List Path) (φ ψ : Path → Option V)
    (h : ∀ k ∈ ks, (φ k).isSome ∧ (ψ k).isSome) :
    ∃ rs, foreach2 f (ks.map φ) (ks.map ψ) = .ok rs := by
  induction ks with
  | nil => exact ⟨[], by simp [foreach2]⟩
  | cons k rest ih =>
    obtain ⟨r', hr⟩ := ih (fun k' hk' => h k' (List.mem_cons_of_mem _ hk'))
    have hk := h k List.mem_cons_self
    cases hx : φ k with
    | none => simp [hx] at hk
    | some x =>
      cases hy : ψ k with
      | none => simp [hy] at hk
      | some y => exact ⟨f x y :: r', by simp [foreach2, hx, hy, hr]⟩

theorem foreach2_length (f : V → V → V) (as bs : List (Option V)) (rs : List V)
    (h : foreach2 f as bs = .ok rs) : rs.length = as.length ∧ rs.length = bs.length := by
  induction as generalizing bs rs with
  | nil => cases bs <;> simp [foreach2] at h; simp [h]
  | cons a as ih =>
    cases bs with
    | nil => cases a <;> simp [foreach2] at h
    | cons b bs =>
      cases a <;> cases b <;> simp only [foreach2] at h <;> try (simp at h)
      cases hr : foreach2 f as bs with
      | error e => simp [hr] at h
      | ok r' => simp [hr] at h; subst h; have := ih bs r' hr; simp; omega

/-- the rebuilt result holds, under every key, what `items` holds -/
theorem rebuildPop_get? (a items r : KV V) (hnda : (keys a).Nodup)
    (h : rebuildPop a items = some r) (k : Path) : get? r k = get? items k := by
  unfold rebuildPop at h
  simp only at h
  split at h
  · cases h
  · injection h with h
    subst h
    rw [get?_append, get?_filter items (fun k => !(keys a).contains k), get?_filterMap_keys a hnda]
    by_cases hm : k ∈ keys a
    · simp [hm]
    · simp [hm]; cases get? items k <;> rfl

/-- `valuesSorted` returns, in the order of `sk`, the entry stored under each key -/
theorem valuesSorted_ok (o : KV V) (sk : List Path) (nv : List V) (h : valuesSorted o sk = .ok nv) :
    sk.map (get? o) = nv.map some := by
  induction sk generalizing nv with
  | nil => simp [valuesSorted] at h; simp [← h]
  | cons k rest ih =>
    simp only [valuesSorted] at h
    cases hk : get? o k with
    | none => simp [hk] at h
    | some v =>
      simp only [hk] at h
      cases hr : valuesSorted o rest with
      | error e => simp [hr] at h
      | ok r' => simp [hr] at h; subst h; simp [ih r' hr, hk]

theorem valuesSorted_err (o : KV V) (sk : List Path) (e : Err) (h : valuesSorted o sk = .error e) :
    e = .key ∧ ∃ k ∈ sk, get? o k = none := by
  induction sk with
  | nil => simp [valuesSorted] at h
  | cons k rest ih =>
    simp only [valuesSorted] at h
    cases hk : get? o k with
    | none => simp [hk] at h; exact ⟨h.symm, k, List.mem_cons_self, hk⟩
    | some v =>
      simp only [hk] at h
      cases hr : valuesSorted o rest with
      | error e' =>
        simp [hr] at h; subst h
        obtain ⟨h1, k', hk', hn⟩ := ih hr
        exact ⟨h1, k', List.mem_cons_of_mem _ hk', hn⟩
      | ok r' => simp [hr] at h

theorem valuesSorted_total (o : KV V) (sk : List Path) (h : ∀ k ∈ sk, (get? o k).isSome) :
    ∃ nv, valuesSorted o sk = .ok nv := by
  cases hv : valuesSorted o sk with
  | ok nv => exact ⟨nv, rfl⟩
  | error e =>
    obtain ⟨_, k, hk, hn⟩ := valuesSorted_err o sk e hv
    have := h k hk; simp [hn] at this

/-- `vals` of a tensordict = lookups of its own keys -/
theorem map_get?_keys_self (a : KV V) (hnd : (keys a).Nodup) :
    (keys a).map (get? a) = (vals a).map some := by
  have : ∀ q ∈ a, get? a q.1 = some q.2 := fun q hq => get?_of_mem a hnd q.1 q.2 hq
  simp only [keys, vals, List.map_map]
  exact List.map_congr_left (fun q hq => by simp [this q hq])

end TdVerif.C09

namespace TdVerif.C09
variable {V : Type}

theorem get?_cons_ne (k0 k : Path) (v : V) (rest : KV V) (h : k0 ≠ k) :
    get? ((k0, v) :: rest) k = get? rest k := by
  simp only [get?]; cases get? rest k <;> simp [h]

theorem filterMap_congr' {α β : Type} (l : List α) (f g : α → Option β) (h : ∀ x ∈ l, f x = g x) :
    l.filterMap f = l.filterMap g := by
  induction l with
  | nil => rfl
  | cons x rest ih =>
    simp only [List.filterMap_cons, h x List.mem_cons_self,
      ih (fun y hy => h y (List.mem_cons_of_mem _ hy))]

/-- popping self's own keys out of `zip keys rs` gives back `zip keys rs` (same order) -/
theorem filterMap_zip_self (ks : List Path) (hnd : ks.Nodup) (rs : List V) (hl : ks.length = rs.length) :
    ks.filterMap (fun k => (get? (ks.zip rs) k).map (fun v => (k, v))) = ks.zip rs := by
  induction ks generalizing rs with
  | nil => simp
  | cons k0 rest ih =>
    cases rs with
    | nil => simp at hl
    | cons r0 rs' =>
      rw [List.nodup_cons] at hnd
      simp only [List.zip_cons_cons, List.filterMap_cons]
      have h0 : get? ((k0, r0) :: rest.zip rs') k0 = some r0 := by
        have : get? (rest.zip rs') k0 = none := by
          rw [get?_eq_none_iff, keys_zip rest rs' (by simpa using hl)]; exact hnd.1
        simp [get?, this]
      rw [h0]
      simp only [Option.map_some]
      congr 1
      refine Eq.trans ?_ (ih hnd.2 rs' (by simpa using hl))
      apply filterMap_congr'
      intro k hk
      have hne : k0 ≠ k := fun e => hnd.1 (e ▸ hk)
      rw [get?_cons_ne k0 k r0 _ hne]

theorem rebuildPop_zip_self (a : KV V) (hnd : (keys a).Nodup) (rs : List V) (hl : a.length = rs.length)
    (hne : a ≠ []) : rebuildPop a ((keys a).zip rs) = some ((keys a).zip rs) := by
  have hl' : (keys a).length = rs.length := by simp [keys, hl]
  unfold rebuildPop
  have hkept : a.filterMap (fun q => (get? ((keys a).zip rs) q.1).map (fun v => (q.1, v))) = (keys a).zip rs := by
    have := filterMap_zip_self (keys a) hnd rs hl'
    rw [keys, List.filterMap_map] at this
    exact this
  have hextra : ((keys a).zip rs).filter (fun q => !(keys a).contains q.1) = [] := by
    rw [List.filter_eq_nil_iff]
    intro q hq
    have : q.1 ∈ keys a := (List.of_mem_zip hq).1
    simp [this]
  simp only [hkept, hextra, List.append_nil]
  cases a with
  | nil => exact absurd rfl hne
  | cons q rest =>
    cases rs with
    | nil => simp at hl
    | cons r rs' => simp [keys]

end TdVerif.C09

namespace TdVerif.C09
variable {V : Type}

theorem itemsSortedStrict_ok (o : KV V) (sk : List Path) (nv : List V) (h : itemsSortedStrict o sk = .ok nv) :
    valuesSorted o sk = .ok nv ∧ ¬ nv.length < o.length := by
  simp only [itemsSortedStrict] at h
  cases hv : valuesSorted o sk with
  | error e => simp [hv] at h
  | ok nv' =>
    simp only [hv] at h
    split at h
    · cases h
    · rename_i hl
      injection h with h; subst h; exact ⟨rfl, hl⟩

theorem binop_none_unfold (f : V → V → V) (a b : KV V) :
    binop f a (.td b) .none =
      match itemsSortedStrict b (keys a) with
      | .error e => .error e
      | .ok nv =>
        match nonEmpty ((vals a).map some) with
        | .error e => .error e
        | .ok _ =>
          match foreach2 f ((vals a).map some) (nv.map some) with
          | .error e => .error e
          | .ok rs =>
            match rebuildPop a ((keys a).zip rs) with
            | some r => .ok r
            | none => .error .attr := by
  unfold binop
  simp only [itemsSorted]
  cases itemsSortedStrict b (keys a) <;> rfl

end TdVerif.C09

namespace TdVerif.C09
variable {V : Type}

theorem nonEmpty_ok {α : Type} (l : List α) (u : Unit) (h : nonEmpty l = .ok u) : l ≠ [] := by
  intro e; subst e; simp [nonEmpty] at h

theorem fused_core (f : V → V → V) (a : KV V) (hna : (keys a).Nodup) (ks : List Path) (hks : ks.Nodup)
    (φ ψ : Path → Option V) (rs : List V) (r : KV V)
    (hf : foreach2 f (ks.map φ) (ks.map ψ) = .ok rs) (hr : rebuildPop a (ks.zip rs) = some r) (k : Path) :
    get? r k = if k ∈ ks then pair f (φ k) (ψ k) else none := by
  rw [rebuildPop_get? a _ r hna hr k]
  exact get?_zip_of_map ks hks (fun k => pair f (φ k) (ψ k)) rs (foreach2_map f ks φ ψ rs hf) k

theorem binop_td_unfold (f : V → V → V) (a b : KV V) (d : Dflt V) (nk : List Path) (ov : List (Option V))
    (hi : itemsSorted b (keys a) d = .ok (nk, ov)) (hd : d ≠ .none) :
    binop f a (.td b) d =
      match nonEmpty (nk.map (getOr a d)) with
      | .error e => .error e
      | .ok _ =>
        match foreach2 f (nk.map (getOr a d)) ov with
        | .error e => .error e
        | .ok rs =>
          match rebuildPop a (nk.zip rs) with
          | some r => .ok r
          | none => .error .attr := by
  unfold binop
  simp only [hi]
  cases d with
  | none => exact absurd rfl hd
  | intersection => rfl
  | value dv => rfl
--- new

theorem mem_filter_hasKey (b : KV V) (sk : List Path) (k : Path) :
    k ∈ sk.filter (hasKey b) ↔ k ∈ sk ∧ k ∈ keys b := by
  simp only [List.mem_filter, hasKey]
  constructor
  · intro ⟨h1, h2⟩
    refine ⟨h1, ?_⟩
    cases hg : get? b k with
    | none => simp [hg] at h2
    | some v => exact (List.mem_map.mpr ⟨(k, v), get?_mem b k v hg, rfl⟩)
  · intro ⟨h1, h2⟩
    refine ⟨h1, ?_⟩
    cases hg : get? b k with
    | none => exact absurd h2 ((get?_eq_none_iff b k).mp hg)
    | some v => rfl

theorem mem_unionKeys (sk ks : List Path) (k : Path) : k ∈ unionKeys sk ks ↔ k ∈ sk ∨ k ∈ ks := by
  simp only [unionKeys, List.mem_append, List.mem_filter]
  constructor
  · rintro (h | ⟨h, _⟩); exact Or.inl h; exact Or.inr h
  · rintro (h | h)
    · exact Or.inl h
    · by_cases hs : k ∈ sk
      · exact Or.inl hs
      · exact Or.inr ⟨h, by simp [hs]⟩

theorem nodup_unionKeys (sk ks : List Path) (h1 : sk.Nodup) (h2 : ks.Nodup) : (unionKeys sk ks).Nodup := by
  simp only [unionKeys]
  rw [List.nodup_append]
  refine ⟨h1, h2.filter _, ?_⟩
  intro x hx y hy
  simp only [List.mem_filter] at hy
  intro e; subst e
  simp [hx] at hy

theorem valuesSorted_length (o : KV V) (sk : List Path) (nv : List V) (h : valuesSorted o sk = .ok nv) :
    nv.length = sk.length := by
  have := congrArg List.length (valuesSorted_ok o sk nv h); simpa using this.symm

theorem itemsSortedStrict_perm {b' b : KV V} (h : b'.Perm b) (hnb : (keys b).Nodup) (sk : List Path) :
    itemsSortedStrict b' sk = itemsSortedStrict b sk := by
  simp only [itemsSortedStrict, valuesSorted_perm h hnb, h.length_eq]

theorem itemsSorted_perm {b' b : KV V} (h : b'.Perm b) (hnb : (keys b).Nodup) (sk : List Path)
    (d : Dflt V) (hd : ∀ dv, d ≠ .value dv) : itemsSorted b' sk d = itemsSorted b sk d := by
  cases d with
  | none => simp only [itemsSorted, itemsSortedStrict_perm h hnb]
  | value dv => exact absurd rfl (hd dv)
  | intersection =>
    have hk : hasKey b' = hasKey b := funext (hasKey_perm h hnb)
    have hg : get? b' = get? b := funext (get?_perm h hnb)
    simp only [itemsSorted, hk, hg]

theorem get?_map_vals (a : KV V) (h : Path → V → V) (k : Path) :
    get? (a.map (fun q => (q.1, h q.1 q.2))) k = (get? a k).map (h k) := by
  induction a with
  | nil => simp [get?]
  | cons q rest ih =>
    obtain ⟨k', v⟩ := q
    simp only [List.map_cons, get?, ih]
    cases get? rest k with
    | some r => simp
    | none =>
      by_cases e : k' = k
      · subst e; simp
      · simp [e]

theorem keys_map_vals (a : KV V) (h : Path × V → V) : keys (a.map (fun q => (q.1, h q))) = keys a := by
  simp [keys, List.map_map, Function.comp_def]
-- new

def opAt : Other V → Path → Option V
  | .td b, k => get? b k
  | .scalar s, _ => some s

def tri (f : V → V → V → V) (x y z : Option V) : Option V :=
  x.bind (fun a => y.bind (fun b => z.map (f a b)))

theorem zip3_map (f : V → V → V → V) (ks : List Path) (φ ψ χ : Path → Option V) (vs la lb : List V)
    (h1 : ks.map φ = vs.map some) (h2 : ks.map ψ = la.map some) (h3 : ks.map χ = lb.map some) :
    ks.map (fun k => tri f (φ k) (ψ k) (χ k))
      = (List.zipWith (fun v (p : V × V) => f v p.1 p.2) vs (la.zip lb)).map some := by
  induction ks generalizing vs la lb with
  | nil =>
    cases vs <;> cases la <;> cases lb <;> simp at h1 h2 h3 ⊢
  | cons k rest ih =>
    cases vs with
    | nil => simp at h1
    | cons v vs' => cases la with
      | nil => simp at h2
      | cons x la' => cases lb with
        | nil => simp at h3
        | cons y lb' =>
          simp only [List.map_cons, List.cons.injEq] at h1 h2 h3
          simp only [List.map_cons, List.zip_cons_cons, List.zipWith_cons_cons, ih vs' la' lb' h1.2 h2.2 h3.2]
          simp [tri, h1.1, h2.1, h3.1]

theorem ternOperand_ok (o : Other V) (ks : List Path) (x : List V ⊕ V) (vs : List V)
    (h : ternOperand o ks = .ok x) (hl : (opList vs x).length = vs.length) (hvs : vs.length = ks.length)
    (hne : ks ≠ []) : ks.map (opAt o) = (opList vs x).map some := by
  cases o with
  | scalar s =>
    simp only [ternOperand] at h; injection h with h; subst h
    simp only [opList, List.map_map]
    apply List.ext_getElem
    · simp [hvs]
    · intro i h1 h2; simp [opAt]
  | td b =>
    simp only [ternOperand] at h
    cases hs : itemsSortedStrict b ks with
    | error e => simp [hs] at h
    | ok ov =>
      simp only [hs] at h; injection h with h; subst h
      simp only [opList] at hl ⊢
      exact valuesSorted_ok b ks ov (itemsSortedStrict_ok b ks ov hs).1

theorem foreach3_ok (f : V → V → V → V) (vs : List V) (a b : List V ⊕ V) (rs : List V)
    (h : foreach3 f vs a b = .ok rs) :
    vs ≠ [] ∧ (opList vs a).length = vs.length ∧ (opList vs b).length = vs.length ∧
      rs = List.zipWith (fun v (p : V × V) => f v p.1 p.2) vs ((opList vs a).zip (opList vs b)) := by
  unfold foreach3 at h
  by_cases hne : vs.isEmpty
  · simp [hne] at h
  · simp only [hne] at h
    by_cases hlen : (opList vs a).length ≠ vs.length ∨ (opList vs b).length ≠ vs.length
    · simp [hlen] at h
    · simp only [hlen] at h
      injection h with h
      have : vs ≠ [] := by intro e; subst e; simp at hne
      refine ⟨this, ?_, ?_, by simpa using h.symm⟩ <;> omega

theorem ternop_core (f : V → V → V → V) (a : KV V) (o1 o2 : Other V) (x y : List V ⊕ V) (rs : List V)
    (hna : (keys a).Nodup)
    (h1 : ternOperand o1 (keys a) = .ok x) (h2 : ternOperand o2 (keys a) = .ok y)
    (hf : foreach3 f (vals a) x y = .ok rs) :
    rs.length = (keys a).length ∧
    (keys a).map (fun k => tri f (get? a k) (opAt o1 k) (opAt o2 k)) = rs.map some := by
  obtain ⟨hne, hl1, hl2, hrs⟩ := foreach3_ok f (vals a) x y rs hf
  have hvs : (vals a).length = (keys a).length := by simp [vals, keys]
  have hkne : keys a ≠ [] := by
    intro e; apply hne; simp only [keys, List.map_eq_nil_iff] at e; simp [vals, e]
  have e1 := ternOperand_ok o1 (keys a) x (vals a) h1 hl1 hvs hkne
  have e2 := ternOperand_ok o2 (keys a) y (vals a) h2 hl2 hvs hkne
  have e0 : (keys a).map (get? a) = (vals a).map some := map_get?_keys_self a hna
  have := zip3_map f (keys a) (get? a) (opAt o1) (opAt o2) _ _ _ e0 e1 e2
  rw [← hrs] at this
  refine ⟨?_, this⟩
  have := congrArg List.length this
  simpa using this.symm

theorem ternOperand_perm {b' b : KV V} (h : b'.Perm b) (hnb : (keys b).Nodup) (ks : List Path) :
    ternOperand (.td b') ks = ternOperand (.td b) ks := by
  simp only [ternOperand, itemsSortedStrict_perm h hnb]

theorem keysMismatch_iff (a b : KV V) :
    keysMismatch a b = true ↔ (∃ k ∈ keys a, k ∉ keys b) ∨ a.length ≠ b.length := by
  simp only [keysMismatch, Bool.or_eq_true, List.any_eq_true, bne_iff_ne, ne_eq]
  constructor
  · rintro (⟨k, hk, hh⟩ | h)
    · left; refine ⟨k, hk, ?_⟩
      simp only [hasKey, Bool.not_eq_true', Option.isSome_eq_false_iff, Option.isNone_iff_eq_none] at hh
      exact (get?_eq_none_iff b k).mp hh
    · right; simpa [keys] using h
  · rintro (⟨k, hk, hh⟩ | h)
    · left; refine ⟨k, hk, ?_⟩
      simp [hasKey, (get?_eq_none_iff b k).mpr hh]
    · right; simpa [keys] using h

theorem binopInplace_ok (f : V → V → V) (a b r : KV V)
    (h : binopInplace f a (.td b) = .ok r) :
    ∃ nv rs, valuesSorted b (keys a) = .ok nv ∧ ¬ nv.length < b.length ∧ a ≠ [] ∧
      foreach2 f ((vals a).map some) (nv.map some) = .ok rs ∧ r = (keys a).zip rs := by
  unfold binopInplace at h
  simp only at h
  cases hv : itemsSortedStrict b (keys a) with
  | error e => simp [hv] at h
  | ok nv =>
    simp only [hv] at h
    cases hne : nonEmpty a with
    | error e => simp [hne] at h
    | ok u =>
      simp only [hne] at h
      cases hf : foreach2 f ((vals a).map some) (nv.map some) with
      | error e => simp [hf] at h
      | ok rs =>
        simp only [hf] at h
        injection h with h
        obtain ⟨h1, h2⟩ := itemsSortedStrict_ok b (keys a) nv hv
        exact ⟨nv, rs, h1, h2, (by intro e; subst e; simp [nonEmpty] at hne), hf, h.symm⟩

/-! ### full reductions are symmetric functions of the values -/

theorem flatAll_perm {kv' kv : KV (List Num)} (h : kv'.Perm kv) : (flatAll kv').Perm (flatAll kv) := by
  induction h with
  | nil => exact List.Perm.refl _
  | cons x _ ih => exact List.Perm.append_left _ ih
  | swap x y l =>
    simp only [flatAll]
    rw [← List.append_assoc, ← List.append_assoc]
    exact List.Perm.append_right _ List.perm_append_comm
  | trans _ _ ih1 ih2 => exact ih1.trans ih2

theorem hasNan_perm {l' l : List Num} (h : l'.Perm l) : hasNan l' = hasNan l := by
  induction h with
  | nil => rfl
  | cons x _ ih => cases x <;> simp [hasNan, ih]
  | swap x y l => cases x <;> cases y <;> simp [hasNan]
  | trans _ _ ih1 ih2 => exact ih1.trans ih2

theorem nanSum_perm {l' l : List Num} (h : l'.Perm l) : nanSum l' = nanSum l := by
  induction h with
  | nil => rfl
  | cons x _ ih => cases x <;> simp [nanSum, ih]
  | swap x y l => cases x <;> cases y <;> simp [nanSum] <;> omega
  | trans _ _ ih1 ih2 => exact ih1.trans ih2

theorem nanProd_perm {l' l : List Num} (h : l'.Perm l) : nanProd l' = nanProd l := by
  induction h with
  | nil => rfl
  | cons x _ ih => cases x <;> simp [nanProd, ih]
  | swap x y l => cases x <;> cases y <;> simp [nanProd, Int.mul_left_comm]
  | trans _ _ ih1 ih2 => exact ih1.trans ih2

theorem nanCount_perm {l' l : List Num} (h : l'.Perm l) : nanCount l' = nanCount l := by
  induction h with
  | nil => rfl
  | cons x _ ih => cases x <;> simp [nanCount, ih]
  | swap x y l => cases x <;> cases y <;> simp [nanCount]
  | trans _ _ ih1 ih2 => exact ih1.trans ih2

theorem nanMax_perm {l' l : List Num} (h : l'.Perm l) : nanMax l' = nanMax l := by
  induction h with
  | nil => rfl
  | cons x _ ih => cases x <;> simp [nanMax, ih]
  | swap x y l =>
    cases x <;> cases y <;> simp only [nanMax]
    cases nanMax l with
    | none => simp [Int.max_comm]
    | some z => simp only [Option.some.injEq]; omega
  | trans _ _ ih1 ih2 => exact ih1.trans ih2

theorem nanMin_perm {l' l : List Num} (h : l'.Perm l) : nanMin l' = nanMin l := by
  induction h with
  | nil => rfl
  | cons x _ ih => cases x <;> simp [nanMin, ih]
  | swap x y l =>
    cases x <;> cases y <;> simp only [nanMin]
    cases nanMin l with
    | none => simp [Int.min_comm]
    | some z => simp only [Option.some.injEq]; omega
  | trans _ _ ih1 ih2 => exact ih1.trans ih2

theorem nanSum_append (a b : List Num) : nanSum (a ++ b) = nanSum a + nanSum b := by
  induction a with
  | nil => simp [nanSum]
  | cons x r ih => cases x <;> simp [nanSum, ih]; omega

theorem nanCount_append (a b : List Num) : nanCount (a ++ b) = nanCount a + nanCount b := by
  induction a with
  | nil => simp [nanCount]
  | cons x r ih => cases x <;> simp [nanCount, ih]; omega


end TdVerif.C09
