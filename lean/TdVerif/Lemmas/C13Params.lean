/-
  C13 / TensorDictParams: what `_reset_params` registers.
-/
import TdVerif.Model.C13Params
import TdVerif.Lemmas.C13

namespace TdVerif.C13.Params
open TdVerif.C13

/-- the last leaf of class `k` (Parameter or not) whose flattened name is `n` -/
def lastWith : List (Path × Tn) → Bool → Name → Option Tn
  | [], _, _ => none
  | e :: l, k, n =>
    match lastWith l k n with
    | some t => some t
    | none => if e.2.isParam = k ∧ flatName e.1 = n then some e.2 else none

def regStep (acc : Dict Tn × Dict Tn) (e : Path × Tn) : Dict Tn × Dict Tn :=
  if e.2.isParam then (Dict.set acc.1 (flatName e.1) e.2, acc.2)
  else (acc.1, Dict.set acc.2 (flatName e.1) e.2)

theorem resetParams_eq (l : List (Path × Tn)) : resetParams l = l.foldl regStep ([], []) := rfl

theorem fold_params : ∀ (l : List (Path × Tn)) (acc : Dict Tn × Dict Tn) (n : Name),
    Dict.get? (l.foldl regStep acc).1 n = (lastWith l true n).orElse (fun _ => Dict.get? acc.1 n)
  | [], acc, n => by simp [lastWith]
  | e :: l, acc, n => by
    rw [List.foldl_cons, fold_params l (regStep acc e) n]
    simp only [lastWith]
    cases h : lastWith l true n with
    | some t => simp
    | none =>
      simp only [Option.orElse_none]
      unfold regStep
      by_cases hp : e.2.isParam = true
      · simp only [hp, if_true, Dict.get?_set, true_and]
        by_cases hn : flatName e.1 = n
        · simp [hn]
        · simp [hn]
      · have hp' : e.2.isParam = false := by simpa using hp
        simp [hp']

theorem fold_buffers : ∀ (l : List (Path × Tn)) (acc : Dict Tn × Dict Tn) (n : Name),
    Dict.get? (l.foldl regStep acc).2 n = (lastWith l false n).orElse (fun _ => Dict.get? acc.2 n)
  | [], acc, n => by simp [lastWith]
  | e :: l, acc, n => by
    rw [List.foldl_cons, fold_buffers l (regStep acc e) n]
    simp only [lastWith]
    cases h : lastWith l false n with
    | some t => simp
    | none =>
      simp only [Option.orElse_none]
      unfold regStep
      by_cases hp : e.2.isParam = true
      · simp [hp]
      · have hp' : e.2.isParam = false := by simpa using hp
        simp only [hp', Bool.false_eq_true, if_false, Dict.get?_set, true_and]
        by_cases hn : flatName e.1 = n
        · simp [hn]
        · simp [hn]

theorem lastWith_mem : ∀ (l : List (Path × Tn)) (k : Bool) (n : Name) (t : Tn), lastWith l k n = some t →
    ∃ p, (p, t) ∈ l ∧ flatName p = n ∧ t.isParam = k
  | [], _, _, _, h => by simp [lastWith] at h
  | e :: l, k, n, t, h => by
    simp only [lastWith] at h
    cases h' : lastWith l k n with
    | some t' =>
      simp only [h'] at h; injection h with h; subst h
      obtain ⟨p, hp, hn, hk⟩ := lastWith_mem l k n t' h'
      exact ⟨p, List.mem_cons_of_mem _ hp, hn, hk⟩
    | none =>
      simp only [h'] at h
      split at h
      · rename_i hc; injection h with h; subst h
        exact ⟨e.1, by simp, hc.2, hc.1⟩
      · cases h

theorem lastWith_of_mem : ∀ (l : List (Path × Tn)), (l.map (fun e => flatName e.1)).Nodup →
    ∀ p t, (p, t) ∈ l → lastWith l t.isParam (flatName p) = some t
  | [], _, _, _, h => by simp at h
  | e :: l, hnd, p, t, h => by
    simp only [List.map_cons, List.nodup_cons] at hnd
    simp only [lastWith]
    rcases List.mem_cons.1 h with heq | hin
    · subst heq
      cases h' : lastWith l t.isParam (flatName p) with
      | some t' =>
        obtain ⟨p', hp', hn', _⟩ := lastWith_mem l _ _ t' h'
        exact absurd (List.mem_map.2 ⟨(p', t'), hp', hn'⟩) hnd.1
      | none => simp
    · rw [lastWith_of_mem l hnd.2 p t hin]

end TdVerif.C13.Params
