/-
  Helper lemmas for C12: coordinate-map tensors — adjacent slices concatenate to the wider slice, for
  any rank and any dim; the slices produced by `split` / the generator are consecutive.
-/
import TdVerif.Model.C12Tensor
import TdVerif.Lemmas.C12Split

namespace TdVerif.C12


theorem at_set_self (l : List Nat) (d x : Nat) (h : d < l.length) : ((l.set d x)[d]?).getD 0 = x := by
  rw [List.getElem?_set_self h]; rfl

theorem at_set_ne (l : List Nat) (d i x : Nat) (h : d ≠ i) : ((l.set d x)[i]?).getD 0 = (l[i]?).getD 0 := by
  rw [List.getElem?_set_ne h]

theorem T.Eqv.refl (a : T α) : a.Eqv a := ⟨rfl, fun _ _ => rfl⟩
theorem T.Eqv.trans {a b c : T α} (h1 : a.Eqv b) (h2 : b.Eqv c) : a.Eqv c :=
  ⟨h1.1.trans h2.1, fun x hx => (h1.2 x hx).trans (h2.2 x (h1.1 ▸ hx))⟩

/-- two adjacent slices concatenated are the wider slice -/
theorem cat2_narrow (d s k m : Nat) (t : T α) (hd : d < t.shape.length) :
    (cat2 d (narrow d s k t) (narrow d (s + k) m t)).Eqv (narrow d s (k + m) t) := by
  constructor
  · show (t.shape.set d k).set d (((t.shape.set d k)[d]?).getD 0 + ((t.shape.set d m)[d]?).getD 0) = t.shape.set d (k + m)
    rw [at_set_self _ _ _ hd, at_set_self _ _ _ hd, List.set_set]
  · intro c hc
    have hlen : c.length = t.shape.length := by
      have := hc.1
      simpa [cat2, narrow] using this
    have hdc : d < c.length := by omega
    show (if (c[d]?).getD 0 < ((t.shape.set d k)[d]?).getD 0 then t.get (c.set d ((c[d]?).getD 0 + s))
        else t.get ((c.set d ((c[d]?).getD 0 - ((t.shape.set d k)[d]?).getD 0)).set d
          (((c.set d ((c[d]?).getD 0 - ((t.shape.set d k)[d]?).getD 0))[d]?).getD 0 + (s + k))))
      = t.get (c.set d ((c[d]?).getD 0 + s))
    rw [at_set_self _ _ _ hd]
    by_cases h : (c[d]?).getD 0 < k
    · rw [if_pos h]
    · rw [if_neg h, List.set_set, at_set_self _ _ _ hdc]
      congr 2
      omega

theorem catList_congr (d : Nat) : ∀ (l : List (T α)) (a b : T α), a.Eqv b → (catList d a l).Eqv (catList d b l) := by
  intro l
  induction l with
  | nil => intro a b hab; exact hab
  | cons x xs ihx =>
    intro a b hab
    apply ihx
    constructor
    · show a.shape.set d _ = b.shape.set d _
      rw [hab.1]
    · intro c hc
      show (if (c[d]?).getD 0 < (a.shape[d]?).getD 0 then a.get c else x.get (c.set d ((c[d]?).getD 0 - (a.shape[d]?).getD 0)))
        = (if (c[d]?).getD 0 < (b.shape[d]?).getD 0 then b.get c else x.get (c.set d ((c[d]?).getD 0 - (b.shape[d]?).getD 0)))
      rw [hab.1]
      by_cases hlt : (c[d]?).getD 0 < (b.shape[d]?).getD 0
      · rw [if_pos hlt, if_pos hlt]
        apply hab.2
        have hsh : (cat2 d a x).shape = a.shape.set d ((a.shape[d]?).getD 0 + (x.shape[d]?).getD 0) := rfl
        rw [hsh] at hc
        constructor
        · simpa using hc.1
        · intro i hi
          by_cases hid : d = i
          · subst hid; rw [hab.1]; exact hlt
          · have := hc.2 i hi
            rwa [at_set_ne _ _ _ _ hid] at this
      · rw [if_neg hlt, if_neg hlt]

/-- concatenating a slice with the consecutive slices that follow it gives the slice of the total length -/
theorem catList_narrows (d : Nat) (t : T α) (hd : d < t.shape.length) :
    ∀ (lens : List Nat) (s k : Nat),
      (catList d (narrow d s k t) (narrows d t (s + k) lens)).Eqv (narrow d s (k + lens.sum) t) := by
  intro lens
  induction lens with
  | nil => intro s k; simp only [catList, narrows, List.sum_nil, Nat.add_zero]; exact T.Eqv.refl _
  | cons m rest ih =>
    intro s k
    simp only [narrows, catList, List.sum_cons]
    have h1 := cat2_narrow d s k m t hd
    have h2 := catList_congr d (narrows d t (s + k + m) rest) _ _ h1
    have h3 := ih s (k + m)
    have e : s + (k + m) = s + k + m := by omega
    rw [e] at h3
    have e2 : k + m + rest.sum = k + (m + rest.sum) := by omega
    rw [e2] at h3
    exact T.Eqv.trans h2 h3

/-- the full slice along `d` is the tensor itself -/
theorem narrow_full (d : Nat) (t : T α) (hd : d < t.shape.length) :
    (narrow d 0 ((t.shape[d]?).getD 0) t).Eqv t := by
  constructor
  · show t.shape.set d ((t.shape[d]?).getD 0) = t.shape
    rw [List.getElem?_eq_getElem hd]
    simp
  · intro c hc
    have hlen : c.length = t.shape.length := by
      have := hc.1; simpa [narrow] using this
    have hdc : d < c.length := by omega
    show t.get (c.set d ((c[d]?).getD 0 + 0)) = t.get c
    rw [Nat.add_zero, List.getElem?_eq_getElem hdc]
    simp


/-- spans `(start, stop)` that follow one another from `a` to `b` -/
def Consecutive : Nat → List (Nat × Nat) → Nat → Prop
  | a, [], b => a = b
  | a, (s, e) :: rest, b => s = a ∧ s ≤ e ∧ Consecutive e rest b

theorem splitLoop_consecutive (n ss idx1 : Nat) (hss : 0 < ss) (hle : idx1 ≤ n) :
    Consecutive idx1 (splitLoop n ss idx1) n := by
  fun_induction splitLoop n ss idx1 with
  | case1 idx1 h ih => exact ⟨rfl, by omega, ih (by omega)⟩
  | case2 idx1 h =>
    show idx1 = n
    omega

theorem splitSlices_consecutive (n ss : Nat) (hss : 0 < ss) : Consecutive 0 (splitSlices n ss) n := by
  unfold splitSlices
  exact ⟨rfl, by omega, splitLoop_consecutive n ss (min n ss) hss (by omega)⟩

/-- the slices of a consecutive list of spans are the `narrows` of their lengths -/
theorem narrows_of_consecutive (d : Nat) (t : T α) : ∀ (spans : List (Nat × Nat)) (a b : Nat),
    Consecutive a spans b →
    spans.map (fun p => narrow d p.1 (p.2 - p.1) t) = narrows d t a (spans.map fun p => p.2 - p.1)
      ∧ a + (spans.map fun p => p.2 - p.1).sum = b := by
  intro spans
  induction spans with
  | nil => intro a b h; exact ⟨rfl, by simpa [Consecutive] using h⟩
  | cons p rest ih =>
    intro a b h
    obtain ⟨s, e⟩ := p
    obtain ⟨h1, h2, h3⟩ := h
    subst h1
    obtain ⟨ih1, ih2⟩ := ih e b h3
    have he : s + (e - s) = e := by omega
    constructor
    · simp only [List.map_cons, narrows, he, ih1]
    · simp only [List.map_cons, List.sum_cons]; omega

/-! ### shared / memmap `out=` -/


theorem writeRows_length (out : List β) (s : Nat) (item out' : List β) (h : writeRows out s item = some out') :
    out'.length = out.length := by
  unfold writeRows at h
  split at h
  · rename_i hle
    simp only [Option.some.injEq] at h
    subst h
    simp; omega
  · simp at h

/-- with consecutive spans, writing every worker's result into *its own piece* of a shared buffer is
    the running-offset loop -/
theorem mapSharedOut_eq_reassemble : ∀ (spans : List (Nat × Nat)) (results : List (Option (List β))) (start b : Nat) (out : List β),
    Consecutive start spans b → b ≤ out.length → spans.length = results.length →
    (∀ x ∈ spans.zip results, ∀ item, x.2 = some item → item.length = x.1.2 - x.1.1) →
    mapSharedOut out ((spans.map fun p => Piece.rng p.1 p.2).zip results)
      = reassembleOut start out ((spans.map fun p => p.2 - p.1).zip results) := by
  intro spans
  induction spans with
  | nil => intro results start b out _ _ _ _; simp [mapSharedOut, reassembleOut]
  | cons p rest ih =>
    intro results start b out hc hb hl hw
    obtain ⟨s, e⟩ := p
    cases results with
    | nil => simp at hl
    | cons r rs =>
      obtain ⟨h1, h2, h3⟩ := hc
      subst h1
      have hl' : rest.length = rs.length := by simpa using hl
      have hw' : ∀ x ∈ rest.zip rs, ∀ item, x.2 = some item → item.length = x.1.2 - x.1.1 :=
        fun x hx => hw x (by simp only [List.zip_cons_cons, List.mem_cons]; right; exact hx)
      -- e ≤ b
      have heb : e ≤ b := by
        have : ∀ (l : List (Nat × Nat)) (a c : Nat), Consecutive a l c → a ≤ c := by
          intro l
          induction l with
          | nil => intro a c h; simp only [Consecutive] at h; omega
          | cons q qs ihq =>
            intro a c h
            obtain ⟨q1, q2⟩ := q
            obtain ⟨g1, g2, g3⟩ := h
            have := ihq q2 c g3
            omega
        exact this rest e b h3
      simp only [List.map_cons, List.zip_cons_cons, mapSharedOut, reassembleOut]
      cases r with
      | none =>
        simp only [writePiece, reassembleOut]
        have he : s + (e - s) = e := by omega
        rw [he]
        exact ih rs e b out h3 hb hl' hw'
      | some item =>
        have hlen : item.length = e - s := hw ((s, e), some item) (by simp) item rfl
        have hmin : min e out.length - s = e - s := by omega
        simp only [writePiece, hmin, hlen, if_true, reassembleOut]
        cases hwr : writeRows out s item with
        | none => rfl
        | some out' =>
          simp only
          have hlo := writeRows_length out s item out' hwr
          have he : s + (e - s) = e := by omega
          rw [he]
          exact ih rs e b out' h3 (by omega) hl' hw'


end TdVerif.C12
