/-
  Finite facts about the C07 class table, checked by kernel evaluation (kept in their own module so
  that the 40 s evaluation is cached by lake and re-done only when the table changes).
-/
import TdVerif.Model.C07Table
namespace TdVerif.C07

theorem classTable_keys_nodup : (classTable.map (·.1)).Nodup := by decide +kernel

theorem property_lists_in_table :
    (∀ n ∈ propertyInplace, classOf n = some .inplace) ∧
    (∀ n ∈ propertyView, classOf n = some .view) ∧
    (∀ n ∈ propertyCopy, classOf n = some .copy) ∧
    classOf "contiguous" = some .contiguous := by decide +kernel

theorem lookup_none_of_not_mem_keys {β} : ∀ (l : List (String × β)) (k : String), k ∉ l.map (·.1) → l.lookup k = none
  | [], _, _ => rfl
  | (k', v) :: l, k, h => by
      simp only [List.map_cons, List.mem_cons, not_or] at h
      simp only [List.lookup]
      have : (k == k') = false := by simpa using h.1
      rw [this]
      exact lookup_none_of_not_mem_keys l k h.2

/-- on every container kind the code is modelled with the class the documentation assigns, for EVERY
operation, except for the rows of `knownDeviations` -/
theorem modelClass_eq_docClass_of_not_deviation (op kind : String)
    (h : (op ++ "%" ++ kind) ∉ knownDeviations.map (·.1)) : modelClass op kind = docClass op kind := by
  unfold modelClass
  rw [lookup_none_of_not_mem_keys _ _ h]

theorem property_ops_doc_class :
    ∀ kind ∈ kinds,
      (∀ n ∈ propertyInplace, docClass n kind = some .inplace) ∧
      (∀ n ∈ propertyView, docClass n kind = some .view) ∧
      (∀ n ∈ propertyCopy, docClass n kind = some .copy) := by decide +kernel

end TdVerif.C07
