/-
  Finite facts about the C07 class table, checked by kernel evaluation (kept in their own module so
  that the 40 s evaluation is cached by lake and re-done only when the table changes).
-/
import TdVerif.Model.C07Table
namespace TdVerif.C07

theorem classTable_keys_nodup : (classTable.map (·.1)).Nodup := by decide +kernel

theorem property_lists_in_table :
    (∀ n ∈ propertyInplace, classOf n = some .inplace) ∧
    (∀ n ∈ propertyView, classOf n = some .view) ∧
    (∀ n ∈ propertyCopy, classOf n = some .copy) ∧
    classOf "contiguous" = some .contiguous := by decide +kernel

/-- on every container kind the code is modelled with the class the documentation assigns, for EVERY
operation, except for the rows of `knownDeviations` -/
theorem modelClass_eq_docClass_of_not_deviation (op kind : String)
    (h : (op ++ "%" ++ kind) ∉ knownDeviations.map (·.1)) : modelClass op kind = docClass op kind := by
  unfold modelClass
  simp only [knownDeviations, List.map_cons, List.map_nil, List.mem_singleton] at h
  simp only [knownDeviations, List.lookup]
  have : (op ++ "%" ++ kind == "__getitem__/advanced%lazy") = false := by simpa using h
  rw [this]

theorem property_ops_doc_class :
    ∀ kind ∈ kinds,
      (∀ n ∈ propertyInplace, docClass n kind = some .inplace) ∧
      (∀ n ∈ propertyView, docClass n kind = some .view) ∧
      (∀ n ∈ propertyCopy, docClass n kind = some .copy) := by decide +kernel

end TdVerif.C07
