/-
  C08 — index writes through a stack of stacks: the one-level T-level lemmas (`set_stack_one`,
  `set_stack_int`) applied to the dense inner stacks, the inner writes being write-throughs by
  hypothesis (`InnerSetOK`) or by the one-level theorem (`innerSetOK_of_refines`).
-/
import TdVerif.Lemmas.C08Shape2
namespace TdVerif.C08

/-- effect of a sequence of inner-stack writes with pairwise distinct targets -/
theorem writeAll2_spec (out : List Ix) : ∀ (ws : List (Nat × TD α)) (ms ms' : List (Lazy α)),
    writeAll2 out ws ms = some ms' → (ws.map Prod.fst).Nodup →
    ms'.length = ms.length ∧
    (∀ w ∈ ws, ∃ (h : w.1 < ms.length) (m' : Lazy α),
        lazySetCore (ms[w.1]) out w.2 = some m' ∧ ms'[w.1]? = some m') ∧
    (∀ i, i ∉ ws.map Prod.fst → ms'[i]? = ms[i]?)
  | [], ms, ms', h, _ => by
    simp [writeAll2] at h; subst h; simp
  | (i, v) :: r, ms, ms', h, hnd => by
    simp only [writeAll2, memberSet2] at h
    cases hm : ms[i]? with
    | none => simp [hm] at h
    | some m =>
      have hi : i < ms.length := by
        rcases Nat.lt_or_ge i ms.length with h' | h'
        · exact h'
        · simp [List.getElem?_eq_none h'] at hm
      have hmm : ms[i] = m := by
        rw [List.getElem?_eq_getElem hi] at hm; exact Option.some.inj hm
      simp only [hm, Option.bind_some] at h
      cases hs : lazySetCore m out v with
      | none => simp [hs] at h
      | some m' =>
        simp only [hs, Option.map_some, Option.bind_some] at h
        simp only [List.map_cons, List.nodup_cons] at hnd
        obtain ⟨ih1, ih2, ih3⟩ := writeAll2_spec out r (ms.set i m') ms' h hnd.2
        refine ⟨by simpa using ih1, ?_, ?_⟩
        · intro w hw
          rcases List.mem_cons.mp hw with rfl | hw
          · refine ⟨hi, m', by rw [hmm]; exact hs, ?_⟩
            rw [ih3 i hnd.1]; simp [hi]
          · obtain ⟨h', m'', h1, h2⟩ := ih2 w hw
            have hne : i ≠ w.1 := by
              intro heq; exact hnd.1 (heq ▸ List.mem_map_of_mem hw)
            refine ⟨by simpa using h', m'', ?_, h2⟩
            simpa [List.getElem_set, hne] using h1
        · intro i' hi'
          simp only [List.map_cons, List.mem_cons, not_or] at hi'
          rw [ih3 i' hi'.2]
          simp [List.getElem?_set, Ne.symm hi'.1]

/-- hypothesis of the composition theorem for writes: an inner write through the remainder index
`out` is a write-through of its (well-shaped) value, and keeps the inner stack what it was -/
def InnerSetOK [Inhabited α] (Lo : Lazy2 α) (bIn : Shape) (keys : List String) (feat : String → Shape)
    (out : List Ix) : Prop :=
  ∀ Li ∈ Lo.members, ∀ (piece : TD α) (Li' : Lazy α), lazySetCore Li out piece = some Li' →
    piece.keys = keys → (∀ k ∈ keys, (piece.leaf k).shape = piece.batch ++ feat k) →
    Li'.sd = Li.sd ∧ Uniform Li' bIn keys feat ∧ Li'.members.length = Li.members.length ∧
    ∀ k ∈ keys, IsSetT out ((absL Li).leaf k) (piece.leaf k) ((absL Li').leaf k)

theorem eraseIdx_append_left (a b : Shape) (i : Nat) (h : i < a.length) : (a ++ b).eraseIdx i = a.eraseIdx i ++ b := by
  rw [List.eraseIdx_append_of_lt_length h]

/-- stack-of-stacks write refinement for a one-dim item on the outer stack dim -/
theorem set2_one_case [Inhabited α] (Lo : Lazy2 α) (bIn : Shape) (keys : List String) (feat : String → Shape)
    (sdIn nIn : Nat) (hU : Uniform2 Lo bIn keys feat sdIn nIn) (hne0 : Lo.members ≠ []) (ix : List Ix)
    (hp : PlainM Lo.sd ix)
    (bd : Shape) (hbd : idxShape ix ((bIn.insertIdx sdIn nIn).insertIdx Lo.sd Lo.members.length) = some bd)
    (len : Nat) (ids : Nat → Nat)
    (hrank : ((splitRec Lo.sd ix).item.getD Ix.full).outRank = 1)
    (hishape : itemShape ((splitRec Lo.sd ix).item.getD Ix.full) Lo.members.length = some [len])
    (hmid : ∀ x, itemCoord ((splitRec Lo.sd ix).item.getD Ix.full) Lo.members.length [x] = ids x)
    (hinj : ∀ j j', j < len → j' < len → ids j = ids j' → j = j')
    (hin : InnerSetOK Lo bIn keys feat (splitRec Lo.sd ix).out)
    (v : TD α) (hvk : v.keys = keys) (hvb : v.batch = bd)
    (hvl : ∀ k ∈ keys, (v.leaf k).shape = bd ++ feat k)
    (ms' : List (Lazy α))
    (hw : writeAll2 (splitRec Lo.sd ix).out
      ((List.range len).map fun j => (ids j, v.select (splitRec Lo.sd ix).pos j)) Lo.members = some ms') :
    Uniform2 ⟨ms', Lo.sd⟩ bIn keys feat sdIn nIn ∧ ms'.length = Lo.members.length ∧
    ∀ k ∈ keys, IsSetT ix ((abs2 Lo).leaf k) (v.leaf k) ((abs2 (⟨ms', Lo.sd⟩ : Lazy2 α)).leaf k) := by
  have hUd := denseOf_uniform Lo bIn keys feat sdIn nIn hU
  have hned : (denseOf Lo).members ≠ [] := by simpa [denseOf] using hne0
  have hnodup : (((List.range len).map fun j => (ids j, v.select (splitRec Lo.sd ix).pos j)).map Prod.fst).Nodup := by
    rw [List.map_map]
    exact nodup_map_range _ len hinj
  obtain ⟨hlen', hsel, hnot⟩ := writeAll2_spec _ _ _ _ hw hnodup
  have hnotj : ∀ i, (∀ j, j < len → ids j ≠ i) → ms'[i]? = Lo.members[i]? := by
    intro i h
    apply hnot
    simp only [List.map_map, List.mem_map, List.mem_range, Function.comp, not_exists, not_and]
    intro j hj; exact h j hj
  -- the member result shape, from the dense side
  have hsplit := shape_splitM Lo.members.length ix Lo.sd (bIn.insertIdx sdIn nIn) hUd.hsd hp
  rw [hbd] at hsplit
  cases hso : idxShape (splitRec Lo.sd ix).out (bIn.insertIdx sdIn nIn) with
  | none => simp [hso] at hsplit
  | some so =>
  have hpos := pos_leM ix Lo.sd _ so hUd.hsd hp hso
  have hsp := hsplit
  rw [hso, hishape] at hsp
  simp only [Option.bind_some, Option.map_some, Option.some.injEq] at hsp
  have hbdins : bd = so.insertIdx (splitRec Lo.sd ix).pos len := by
    rw [hsp, insertIdx_eq_take_drop _ _ _ hpos]
  have hposlt : (splitRec Lo.sd ix).pos < bd.length := by
    rw [hbdins, List.length_insertIdx_of_le_length hpos]; omega
  -- every selected inner stack: the inner write is a write-through
  have hselm : ∀ j (hj : j < len), ∃ (h : ids j < Lo.members.length) (Li' : Lazy α),
      ms'[ids j]? = some Li' ∧ Li'.sd = (Lo.members[ids j]).sd ∧ Uniform Li' bIn keys feat ∧
      Li'.members.length = (Lo.members[ids j]).members.length ∧
      ∀ k ∈ keys, IsSetT (splitRec Lo.sd ix).out ((absL Lo.members[ids j]).leaf k)
        ((v.leaf k).select (splitRec Lo.sd ix).pos j) ((absL Li').leaf k) := by
    intro j hj
    obtain ⟨h, Li', hset, hget⟩ := hsel (ids j, v.select (splitRec Lo.sd ix).pos j)
      (List.mem_map.mpr ⟨j, List.mem_range.mpr hj, rfl⟩)
    obtain ⟨h1, h2, h3, h4⟩ := hin _ (List.getElem_mem h) _ _ hset (by show v.keys = keys; exact hvk)
      (by
        intro k hk
        show ((v.leaf k).select _ j).shape = v.batch.eraseIdx _ ++ feat k
        show (v.leaf k).shape.eraseIdx _ = _
        rw [hvl k hk, hvb, eraseIdx_append_left _ _ _ hposlt])
    exact ⟨h, Li', hget, h1, h2, h3, h4⟩
  have hmem' : ∀ Li ∈ ms', Uniform Li bIn keys feat ∧ Li.sd = sdIn ∧ Li.members.length = nIn := by
    intro Li hm
    obtain ⟨i, hi, rfl⟩ := List.getElem_of_mem hm
    have hi' : i < Lo.members.length := hlen' ▸ hi
    by_cases hex : ∃ j, j < len ∧ ids j = i
    · obtain ⟨j, hj, rfl⟩ := hex
      obtain ⟨h, Li', hget, h1, h2, h3, _⟩ := hselm j hj
      rw [List.getElem?_eq_getElem hi] at hget
      have hmm : ms'[ids j] = Li' := Option.some.inj hget
      rw [hmm]
      obtain ⟨_, hs0, hn0⟩ := hU.inner _ (List.getElem_mem h)
      exact ⟨h2, by rw [h1, hs0], by rw [h3, hn0]⟩
    · have := hnotj i (fun j hj hij => hex ⟨j, hj, hij⟩)
      rw [List.getElem?_eq_getElem hi, List.getElem?_eq_getElem hi'] at this
      have hmm : ms'[i] = Lo.members[i] := Option.some.inj this
      rw [hmm]
      exact hU.inner _ (List.getElem_mem hi')
  have hU' : Uniform2 (⟨ms', Lo.sd⟩ : Lazy2 α) bIn keys feat sdIn nIn := ⟨hmem', hU.hn, hU.hsd, hU.hsdIn⟩
  refine ⟨hU', hlen', ?_⟩
  have hUd' := denseOf_uniform _ bIn keys feat sdIn nIn hU'
  intro k hk
  show IsSetT ix (T.stack ((denseOf Lo).members.map fun m => m.leaf k) Lo.sd) (v.leaf k)
    (T.stack ((denseOf (⟨ms', Lo.sd⟩ : Lazy2 α)).members.map fun m => m.leaf k) Lo.sd)
  have hms : ((denseOf Lo).members.map fun m => m.leaf k).length = Lo.members.length := by simp [denseOf]
  have hms' : ((denseOf (⟨ms', Lo.sd⟩ : Lazy2 α)).members.map fun m => m.leaf k).length = ms'.length := by simp [denseOf]
  have hbdf : idxShape ix (((bIn.insertIdx sdIn nIn) ++ feat k).insertIdx Lo.sd ((denseOf Lo).members.map fun m => m.leaf k).length)
      = some (bd ++ feat k) := by
    have hsdD : Lo.sd ≤ (bIn.insertIdx sdIn nIn).length := hUd.hsd
    rw [hms, insertIdx_append_of_le _ _ _ _ hsdD]; exact idxShape_append _ _ _ _ hbd
  have hsof := idxShape_append (feat k) _ _ _ hso
  apply set_stack_one _ _ ((bIn.insertIdx sdIn nIn) ++ feat k) Lo.sd ix
    (leaf_shapes (denseOf Lo) _ keys feat hUd k hk)
    (by simpa using hned)
    (by simp; have := hUd.hsd; have : (denseOf Lo).sd = Lo.sd := rfl; omega) hp (bd ++ feat k) (so ++ feat k) hbdf hsof
    (by simp; omega) len ids hrank (by rw [hms]; exact hishape) (by rw [hms]; exact hmid)
    (v.leaf k) (hvl k hk) (by rw [hms, hms', hlen'])
  · intro j hj
    obtain ⟨h, Li', hget, _, _, _, h4⟩ := hselm j hj
    refine ⟨by rw [hms]; exact h, ?_⟩
    have hi : ids j < ms'.length := hlen' ▸ h
    rw [List.getElem?_eq_getElem hi] at hget
    have hmm : ms'[ids j] = Li' := Option.some.inj hget
    simp only [denseOf, List.getElem_map, hmm]
    exact h4 k hk
  · intro i hi hno
    have hi' : i < Lo.members.length := by rw [hms] at hi; exact hi
    have := hnotj i hno
    rw [List.getElem?_eq_getElem (hlen' ▸ hi'), List.getElem?_eq_getElem hi'] at this
    simp only [denseOf, List.getElem_map]
    rw [Option.some.inj this]

end TdVerif.C08
namespace TdVerif.C08

/-- stack-of-stacks write refinement, integer on the outer stack dim: the whole value goes to
that inner stack -/
theorem set2_int_case [Inhabited α] (Lo : Lazy2 α) (bIn : Shape) (keys : List String) (feat : String → Shape)
    (sdIn nIn : Nat) (hU : Uniform2 Lo bIn keys feat sdIn nIn) (ix : List Ix) (hp : Plain Lo.sd ix)
    (bd : Shape) (hbd : idxShape ix ((bIn.insertIdx sdIn nIn).insertIdx Lo.sd Lo.members.length) = some bd)
    (kk : Int) (hit : (splitRec Lo.sd ix).item.getD Ix.full = .int kk)
    (i : Nat) (hn : normInt kk Lo.members.length = some i)
    (hin : InnerSetOK Lo bIn keys feat (splitRec Lo.sd ix).out)
    (v : TD α) (hvk : v.keys = keys) (hvb : v.batch = bd) (hvl : ∀ k ∈ keys, (v.leaf k).shape = bd ++ feat k)
    (ms' : List (Lazy α)) (hw : memberSet2 Lo.members (splitRec Lo.sd ix).out i v = some ms') :
    Uniform2 ⟨ms', Lo.sd⟩ bIn keys feat sdIn nIn ∧ ms'.length = Lo.members.length ∧
    ∀ k ∈ keys, IsSetT ix ((abs2 Lo).leaf k) (v.leaf k) ((abs2 (⟨ms', Lo.sd⟩ : Lazy2 α)).leaf k) := by
  have hUd := denseOf_uniform Lo bIn keys feat sdIn nIn hU
  unfold memberSet2 at hw
  cases hm : Lo.members[i]? with
  | none => simp [hm] at hw
  | some m =>
    have hi : i < Lo.members.length := by
      rcases Nat.lt_or_ge i Lo.members.length with h' | h'
      · exact h'
      · simp [List.getElem?_eq_none h'] at hm
    have hmm : Lo.members[i] = m := by
      rw [List.getElem?_eq_getElem hi] at hm; exact Option.some.inj hm
    simp only [hm, Option.bind_some, Option.map_eq_some_iff] at hw
    obtain ⟨m', hset, rfl⟩ := hw
    have hmem : m ∈ Lo.members := hmm ▸ List.getElem_mem hi
    obtain ⟨h1, h2, h3, h4⟩ := hin m hmem v m' hset hvk (by intro k hk; rw [hvb]; exact hvl k hk)
    have hmem' : ∀ Li ∈ Lo.members.set i m', Uniform Li bIn keys feat ∧ Li.sd = sdIn ∧ Li.members.length = nIn := by
      intro x hx
      rcases List.mem_or_eq_of_mem_set hx with h | h
      · exact hU.inner x h
      · subst h
        obtain ⟨_, hs0, hn0⟩ := hU.inner m hmem
        exact ⟨h2, by rw [h1, hs0], by rw [h3, hn0]⟩
    have hU' : Uniform2 (⟨Lo.members.set i m', Lo.sd⟩ : Lazy2 α) bIn keys feat sdIn nIn := ⟨hmem', hU.hn, hU.hsd, hU.hsdIn⟩
    refine ⟨hU', by simp, ?_⟩
    intro k hk
    show IsSetT ix (T.stack ((denseOf Lo).members.map fun m => m.leaf k) Lo.sd) (v.leaf k)
      (T.stack ((denseOf (⟨Lo.members.set i m', Lo.sd⟩ : Lazy2 α)).members.map fun m => m.leaf k) Lo.sd)
    have hms : ((denseOf Lo).members.map fun m => m.leaf k).length = Lo.members.length := by simp [denseOf]
    have hsdD : Lo.sd ≤ (bIn.insertIdx sdIn nIn).length := hUd.hsd
    have hbdf : idxShape ix (((bIn.insertIdx sdIn nIn) ++ feat k).insertIdx Lo.sd ((denseOf Lo).members.map fun m => m.leaf k).length)
        = some (bd ++ feat k) := by
      rw [hms, insertIdx_append_of_le _ _ _ _ hsdD]; exact idxShape_append _ _ _ _ hbd
    apply set_stack_int _ _ ((bIn.insertIdx sdIn nIn) ++ feat k) Lo.sd ix
      (leaf_shapes (denseOf Lo) _ keys feat hUd k hk)
      (by simp; omega) hp (bd ++ feat k) hbdf kk hit i (by rw [hms]; exact hn)
      (by rw [hms]; exact hi) (v.leaf k) (hvl k hk) (by simp [denseOf])
    · simp only [denseOf, List.getElem_map, List.getElem_set_self, hmm]
      exact h4 k hk
    · intro i' hi' hne'
      simp only [denseOf, List.getElem_map]
      rw [List.getElem_set_ne (Ne.symm hne')]

end TdVerif.C08
namespace TdVerif.C08

/-- **Writes through a stack of stacks compose** (Ellipsis-free index whose masks do not touch the
outer stack dim; outer stack-dim item absent / int / slice / rank-1 integer tensor with distinct
entries): if every inner write is a write-through (`InnerSetOK`), the dense stack of dense stacks
afterwards is the one before with `v` written at `ix`. -/
theorem setitem2_core [Inhabited α] (Lo : Lazy2 α) (bIn : Shape) (keys : List String) (feat : String → Shape)
    (sdIn nIn : Nat) (hU : Uniform2 Lo bIn keys feat sdIn nIn) (hne0 : Lo.members ≠ []) (ix : List Ix)
    (hp : Plain Lo.sd ix) (hne : ∀ it ∈ ix, it ≠ Ix.ell) (hadv : AtMostOneAdv ix)
    (hdist : ∀ t, (splitRec Lo.sd ix).item = some (.tens t) → ∃ k, t.shape = [k] ∧
      ∀ j j', j < k → j' < k →
        normInt (t.get [j]) Lo.members.length = normInt (t.get [j']) Lo.members.length → j = j')
    (hin : InnerSetOK Lo bIn keys feat (splitRec Lo.sd ix).out)
    (v : TD α) (hvk : v.keys = keys) (hvl : ∀ k ∈ keys, (v.leaf k).shape = v.batch ++ feat k)
    (bd : Shape) (hbd : idxShape ix (abs2 Lo).batch = some bd)
    (Lo' : Lazy2 α) (h : lazySetCore2 Lo ix v = some Lo') :
    Lo'.sd = Lo.sd ∧ Uniform2 Lo' bIn keys feat sdIn nIn ∧ Lo'.members.length = Lo.members.length ∧
    ∀ k ∈ keys, IsSetT ix ((abs2 Lo).leaf k) (v.leaf k) ((abs2 Lo').leaf k) := by
  have hUd := denseOf_uniform Lo bIn keys feat sdIn nIn hU
  have hned : (denseOf Lo).members ≠ [] := by simpa [denseOf] using hne0
  have hbatch : (abs2 Lo).batch = (bIn.insertIdx sdIn nIn).insertIdx Lo.sd Lo.members.length := by
    have := absL_batch_eq (denseOf Lo) _ keys feat hUd hned
    simpa [denseOf, abs2_eq] using this
  have hLb : Lo.batch = (bIn.insertIdx sdIn nIn).insertIdx Lo.sd Lo.members.length := by
    rw [← denseOf_batch]; exact hbatch
  have hsdD : Lo.sd ≤ (bIn.insertIdx sdIn nIn).length := hUd.hsd
  rw [hbatch] at hbd
  have hB := splitLoop_before Lo.sd Lo.members.length Lo.batch ix Lo.sd 0 {} (by simp) hp hne
    (by simpa [AtMostOneAdv] using hadv) rfl rfl rfl rfl
  unfold lazySetCore2 splitIndex2 at h
  rw [hLb, hbd] at h
  simp only [Option.bind_some] at h
  split at h
  · simp at h
  rename_i hvb
  have hvb : v.batch = bd := by simpa using hvb
  have hvl' : ∀ k ∈ keys, (v.leaf k).shape = bd ++ feat k := by intro k hk; rw [← hvb]; exact hvl k hk
  cases hsel : selOf Lo.members.length (splitRec Lo.sd ix).item with
  | none => rw [← hLb] at h; simp [hB.1 hsel] at h
  | some p =>
    obtain ⟨sel, ii, nd⟩ := p
    obtain ⟨st', hloop, hspec⟩ := hB.2 sel ii nd hsel
    have hq : (Lo.sd : Int) - st'.numSingle + st'.numNone - st'.numSquash = (splitRec Lo.sd ix).pos := by
      have := hspec.q; simp [Q] at this; omega
    rw [← hLb] at h
    simp only [hloop, Option.bind_some, hspec.hasBool, Bool.false_eq_true, if_false, hspec.isNd,
      hspec.isInteger, hspec.sel, hspec.out, List.nil_append, hq] at h
    have hneg : ¬ (((splitRec Lo.sd ix).pos : Int) < 0) := by omega
    simp only [hneg, if_false, Int.toNat_natCast] at h
    cases hitem : (splitRec Lo.sd ix).item with
    | none =>
      simp only [hitem, selOf, Option.some.injEq, Prod.mk.injEq] at hsel
      obtain ⟨rfl, rfl, rfl⟩ := hsel
      simp only [Bool.false_eq_true, if_false, Sel.ids, List.length_range] at h
      split at h
      · simp at h
      simp only [Option.map_eq_some_iff] at h
      obtain ⟨ms', hw, rfl⟩ := h
      have hw' : writeAll2 (splitRec Lo.sd ix).out ((List.range Lo.members.length).map fun j =>
          (j, v.select (splitRec Lo.sd ix).pos j)) Lo.members = some ms' := by
        rw [← hw]; congr 1
        apply List.map_congr_left
        intro j hj
        simp [List.mem_range.mp hj]
      obtain ⟨h1, h2, h3⟩ := set2_one_case Lo bIn keys feat sdIn nIn hU hne0 ix (Plain.toM ix Lo.sd hp) bd hbd Lo.members.length id
        (by simp [hitem]) (by simp [hitem, itemShape, Ix.full, sliceNorm_full])
        (by intro x; simp [hitem, itemCoord, Ix.full, sliceNormD_full, sliceAt, at0])
        (by intro j j' _ _ h; exact h) hin v hvk hvb hvl' ms' hw'
      exact ⟨rfl, h1, h2, h3⟩
    | some it =>
      cases it with
      | int k =>
        simp only [hitem, selOf, Option.map_eq_some_iff, Prod.mk.injEq] at hsel
        obtain ⟨i, hi, rfl, rfl, rfl⟩ := hsel
        simp only [if_true, Option.map_eq_some_iff] at h
        obtain ⟨ms', hw, rfl⟩ := h
        obtain ⟨h1, h2, h3⟩ := set2_int_case Lo bIn keys feat sdIn nIn hU ix hp bd hbd k (by simp [hitem]) i hi hin v hvk hvb hvl' ms' hw
        exact ⟨rfl, h1, h2, h3⟩
      | slice a bb c =>
        simp only [hitem, selOf, Option.map_eq_some_iff, Prod.mk.injEq] at hsel
        obtain ⟨⟨s0, stp, len⟩, hn, rfl, rfl, rfl⟩ := hsel
        simp only [Bool.false_eq_true, if_false, Sel.ids, List.length_map, List.length_range] at h
        split at h
        · simp at h
        simp only [Option.map_eq_some_iff] at h
        obtain ⟨ms', hw, rfl⟩ := h
        have hw' : writeAll2 (splitRec Lo.sd ix).out ((List.range len).map fun j =>
            (sliceAt s0 stp j, v.select (splitRec Lo.sd ix).pos j)) Lo.members = some ms' := by
          rw [← hw]; congr 1
          apply List.map_congr_left
          intro j hj
          simp [List.mem_range.mp hj]
        have hsplit := shape_split Lo.members.length ix Lo.sd _ hsdD hp
        rw [hbd] at hsplit
        have hstp : 0 < stp := by
          cases hso : idxShape (splitRec Lo.sd ix).out (bIn.insertIdx sdIn nIn) with
          | none => simp [hso] at hsplit
          | some so =>
            simp only [hso, hitem, Option.getD_some, itemShape, hn, Option.bind_some] at hsplit
            by_cases hh : 0 < stp
            · exact hh
            · simp [hh] at hsplit
        obtain ⟨h1, h2, h3⟩ := set2_one_case Lo bIn keys feat sdIn nIn hU hne0 ix (Plain.toM ix Lo.sd hp) bd hbd len (sliceAt s0 stp)
          (by simp [hitem]) (by simp [hitem, itemShape, hn, hstp])
          (by intro x; simp [hitem, itemCoord, sliceNormD, hn, at0])
          (by intro j j' _ _ h; exact sliceAt_inj (sliceNorm_start_nonneg hn hstp) hstp h)
          hin v hvk hvb hvl' ms' hw'
        exact ⟨rfl, h1, h2, h3⟩
      | tens t =>
        simp only [hitem, selOf, Option.some.injEq, Prod.mk.injEq] at hsel
        obtain ⟨rfl, rfl, rfl⟩ := hsel
        obtain ⟨k, hk, hdis⟩ := hdist t hitem
        have hnoadv := out_no_adv ix Lo.sd t hadv hitem
        simp only [if_true, hnoadv, Bool.false_eq_true, if_false, hk] at h
        split at h
        · simp at h
        simp only [Option.map_eq_some_iff] at h
        obtain ⟨ms', hw, rfl⟩ := h
        have hsplit := shape_split Lo.members.length ix Lo.sd _ hsdD hp
        rw [hbd] at hsplit
        have hok : tensOk t Lo.members.length = true := by
          cases hso : idxShape (splitRec Lo.sd ix).out (bIn.insertIdx sdIn nIn) with
          | none => simp [hso] at hsplit
          | some so =>
            simp only [hso, hitem, Option.getD_some, itemShape, Option.bind_some] at hsplit
            by_cases hh : t.shape ≠ [] ∧ tensOk t Lo.members.length = true
            · exact hh.2
            · simp [hh] at hsplit
        have hsome : ∀ j, j < k → ∃ i, normInt (t.get [j]) Lo.members.length = some i :=
          fun j hj => tensOk_isSome t _ k j hk hj hok
        have hw' : writeAll2 (splitRec Lo.sd ix).out ((List.range k).map fun j =>
            ((normInt (t.get [j]) Lo.members.length).getD 0, v.select (splitRec Lo.sd ix).pos j)) Lo.members = some ms' := by
          rw [← hw]; congr 1
          apply List.map_congr_left
          intro j hj
          obtain ⟨i, hi⟩ := hsome j (List.mem_range.mp hj)
          simp [hi]
        obtain ⟨h1, h2, h3⟩ := set2_one_case Lo bIn keys feat sdIn nIn hU hne0 ix (Plain.toM ix Lo.sd hp) bd hbd k
          (fun j => (normInt (t.get [j]) Lo.members.length).getD 0)
          (by simp [hitem, hk])
          (by simp [hitem, itemShape, hk, hok])
          (by intro x; simp [hitem, itemCoord])
          (by
            intro j j' hj hj' heq
            obtain ⟨i, hi⟩ := hsome j hj
            obtain ⟨i', hi'⟩ := hsome j' hj'
            apply hdis j j' hj hj'
            rw [hi, hi'] at heq ⊢
            simpa using heq)
          hin v hvk hvb hvl' ms' hw'
        exact ⟨rfl, h1, h2, h3⟩
      | none => simp [hitem, selOf] at hsel
      | ell => simp [hitem, selOf] at hsel
      | mask m => simp [hitem, selOf] at hsel

end TdVerif.C08
namespace TdVerif.C08

/-- the inner hypothesis follows from the one-level write theorem when the remainder index is in
its grammar for the inner stacks -/
theorem innerSetOK_of_refines [Inhabited α] (Lo : Lazy2 α) (bIn : Shape) (keys : List String) (feat : String → Shape)
    (sdIn nIn : Nat) (hU : Uniform2 Lo bIn keys feat sdIn nIn) (out : List Ix)
    (hp : Plain sdIn out) (hne : ∀ it ∈ out, it ≠ Ix.ell) (hadv : AtMostOneAdv out)
    (hnd : NoDupTargets (splitRec sdIn out).out)
    (hdist : ∀ t, (splitRec sdIn out).item = some (.tens t) → ∃ k, t.shape = [k] ∧
      ∀ j j', j < k → j' < k → normInt (t.get [j]) nIn = normInt (t.get [j']) nIn → j = j') :
    InnerSetOK Lo bIn keys feat out := by
  intro Li hLi piece Li' hset hpk hpl
  obtain ⟨hUi, hsdi, hni⟩ := hU.inner Li hLi
  have hnei : Li.members ≠ [] := by
    intro hm; rw [hm] at hni; simp at hni; have := hU.hn; omega
  have hbd : ∃ bd, idxShape out (absL Li).batch = some bd := by
    unfold lazySetCore at hset
    cases hh : idxShape out Li.batch with
    | none => simp [hh] at hset
    | some bd => exact ⟨bd, hh⟩
  obtain ⟨bd, hbd⟩ := hbd
  exact setitem_refines_core Li bIn keys feat hUi hnei out (hsdi ▸ hp) hne hadv (hsdi ▸ hnd)
    (by intro t ht; rw [hsdi] at ht; rw [hni]; exact hdist t ht)
    piece hpk hpl bd hbd Li' hset

end TdVerif.C08
