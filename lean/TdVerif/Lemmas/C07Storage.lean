/-
  Helper lemmas about the C07 storage model (core Lean only).
-/
import TdVerif.Model.C07Storage

namespace TdVerif.C07

theorem upd_same (st : Store) (sid o : Nat) (v : Val) : upd st sid o v sid o = v := by
  simp [upd]

theorem upd_other (st : Store) (sid o : Nat) (v : Val) (s p : Nat) (h : ¬ (s = sid ∧ p = o)) :
    upd st sid o v s p = st s p := by
  simp [upd, h]

/-- cells of other storages are never touched by a write through a window -/
theorem writeAt_other_sid (sid s : Nat) (hs : s ≠ sid) :
    ∀ (os : List Nat) (vs : List Val) (st : Store) (p : Nat), writeAt st sid os vs s p = st s p
  | [], _, _, _ => by simp [writeAt]
  | _ :: _, [], _, _ => by simp [writeAt]
  | o :: os, v :: vs, st, p => by
      simp only [writeAt]
      rw [writeAt_other_sid sid s hs os vs]
      exact upd_other _ _ _ _ _ _ (by simp [hs])

/-- cells outside the window are never touched -/
theorem writeAt_not_mem (sid : Nat) :
    ∀ (os : List Nat) (vs : List Val) (st : Store) (p : Nat), p ∉ os → writeAt st sid os vs sid p = st sid p
  | [], _, _, _, _ => by simp [writeAt]
  | _ :: _, [], _, _, _ => by simp [writeAt]
  | o :: os, v :: vs, st, p, h => by
      simp only [writeAt]
      have h1 : p ∉ os := fun hm => h (List.mem_cons_of_mem _ hm)
      have h2 : p ≠ o := fun he => h (by simp [he])
      rw [writeAt_not_mem sid os vs _ p h1]
      exact upd_other _ _ _ _ _ _ (by simp [h2])

/-- generic frame: a cell is unchanged unless it is a cell of the window -/
theorem writeAt_frame (sid : Nat) (os : List Nat) (vs : List Val) (st : Store) (s p : Nat)
    (h : ¬ (s = sid ∧ p ∈ os)) : writeAt st sid os vs s p = st s p := by
  by_cases hs : s = sid
  · subst hs
    exact writeAt_not_mem s os vs st p (fun hm => h ⟨rfl, hm⟩)
  · exact writeAt_other_sid sid s hs os vs st p

/-- reading back through an injective window returns exactly what was written -/
theorem writeAt_read (sid : Nat) :
    ∀ (os : List Nat) (vs : List Val) (st : Store), os.Nodup → os.length = vs.length →
      os.map (writeAt st sid os vs sid) = vs
  | [], [], _, _, _ => by simp
  | [], _ :: _, _, _, h => by simp at h
  | _ :: _, [], _, _, h => by simp at h
  | o :: os, v :: vs, st, hnd, hlen => by
      have hnd' := List.nodup_cons.mp hnd
      simp only [List.map_cons, writeAt]
      rw [writeAt_not_mem sid os vs _ o hnd'.1, upd_same]
      rw [writeAt_read sid os vs _ hnd'.2 (by simpa using hlen)]

theorem readLeaf_writeLeaf_same (st : Store) (l : Leaf) (vals : List Val)
    (hnd : l.offs.Nodup) (hlen : l.offs.length = vals.length) :
    readLeaf (writeLeaf st l vals) l = vals := by
  unfold readLeaf writeLeaf
  exact writeAt_read l.sid l.offs vals st hnd hlen

/-- two windows are disjoint when they share no cell -/
def Disjoint (a b : Leaf) : Prop := a.sid = b.sid → ∀ o ∈ a.offs, o ∉ b.offs

theorem readLeaf_writeLeaf_disjoint (st : Store) (l l' : Leaf) (vals : List Val)
    (h : Disjoint l' l) : readLeaf (writeLeaf st l vals) l' = readLeaf st l' := by
  unfold readLeaf writeLeaf
  apply List.map_congr_left
  intro o ho
  apply writeAt_frame
  rintro ⟨hs, hm⟩
  exact h hs o ho hm

theorem readLeaf_congr (st st' : Store) (l : Leaf) (h : ∀ p, st' l.sid p = st l.sid p) :
    readLeaf st' l = readLeaf st l := by
  unfold readLeaf
  exact List.map_congr_left (fun o _ => h o)

/-- a view reads exactly the selected elements of its source, in *every* store -/
theorem readLeaf_viewOf (st : Store) (sel : List Nat) (l : Leaf) :
    readLeaf st (viewOf sel l) = sel.filterMap (fun i => (readLeaf st l)[i]?) := by
  unfold readLeaf viewOf
  simp only [List.map_filterMap, List.getElem?_map]

theorem viewOf_sid (sel : List Nat) (l : Leaf) : (viewOf sel l).sid = l.sid := rfl

theorem viewOf_offs_subset (sel : List Nat) (l : Leaf) : ∀ o ∈ (viewOf sel l).offs, o ∈ l.offs := by
  intro o ho
  simp only [viewOf, List.mem_filterMap] at ho
  obtain ⟨i, _, hi⟩ := ho
  exact List.mem_of_getElem? hi

theorem filterMap_eq_map_of {α β} (f : α → Option β) (g : α → β) :
    ∀ (l : List α), (∀ x ∈ l, f x = some (g x)) → l.filterMap f = l.map g
  | [], _ => rfl
  | x :: l, h => by
      have hx := h x (by simp)
      have ih := filterMap_eq_map_of f g l (fun y hy => h y (List.mem_cons_of_mem _ hy))
      simp [hx, ih]

theorem filterMap_getElem?_range (xs : List Nat) :
    (List.range xs.length).filterMap (fun i => xs[i]?) = xs := by
  have h : ∀ i ∈ List.range xs.length, xs[i]? = some (xs.getD i 0) := by
    intro i hi
    have hi' : i < xs.length := by simpa using hi
    simp [List.getD, hi']
  rw [filterMap_eq_map_of _ _ _ h]
  apply List.ext_getElem
  · simp
  · intro j h1 h2
    simp [List.getD, h2]

theorem viewOf_range (l : Leaf) : viewOf (List.range l.offs.length) l = l := by
  cases l with
  | mk sid offs => simp [viewOf, filterMap_getElem?_range]

/-! ### allocation and result construction -/

theorem allocLeaf_next (s : State) (vals : List Val) : (allocLeaf s vals).1.next = s.next + 1 := rfl
theorem allocLeaf_objs (s : State) (vals : List Val) : (allocLeaf s vals).1.objs = s.objs := rfl
theorem allocLeaf_sid (s : State) (vals : List Val) : (allocLeaf s vals).2.sid = s.next := rfl

theorem allocLeaf_frame (s : State) (vals : List Val) (sid : Nat) (h : sid ≠ s.next) (p : Nat) :
    (allocLeaf s vals).1.store sid p = s.store sid p := by
  simp only [allocLeaf, writeLeaf]
  exact writeAt_other_sid _ _ h _ _ _ _

theorem allocLeaf_read (s : State) (vals : List Val) :
    readLeaf (allocLeaf s vals).1.store (allocLeaf s vals).2 = vals := by
  simp only [allocLeaf]
  exact readLeaf_writeLeaf_same _ _ _ (by simpa using List.nodup_range) (by simp)

theorem mkLeaves_objs (src : Binds) : ∀ (specs : List (String × Spec)) (s : State),
    (mkLeaves src s specs).1.objs = s.objs
  | [], s => rfl
  | (k, .alias sk sel) :: rest, s => by
      simp only [mkLeaves]
      cases src.lookup sk <;> simp [mkLeaves_objs src rest]
  | (k, .fresh vals) :: rest, s => by
      simp only [mkLeaves]
      rw [mkLeaves_objs src rest]; rfl

theorem mkLeaves_next_ge (src : Binds) : ∀ (specs : List (String × Spec)) (s : State),
    s.next ≤ (mkLeaves src s specs).1.next
  | [], s => Nat.le_refl _
  | (k, .alias sk sel) :: rest, s => by
      simp only [mkLeaves]
      cases src.lookup sk <;> simp [mkLeaves_next_ge src rest]
  | (k, .fresh vals) :: rest, s => by
      simp only [mkLeaves]
      have := mkLeaves_next_ge src rest (allocLeaf s vals).1
      rw [allocLeaf_next] at this
      exact Nat.le_of_succ_le this

/-- result construction never touches an existing storage -/
theorem mkLeaves_frame (src : Binds) : ∀ (specs : List (String × Spec)) (s : State) (sid : Nat),
    sid < s.next → ∀ p, (mkLeaves src s specs).1.store sid p = s.store sid p
  | [], s, _, _, _ => rfl
  | (k, .alias sk sel) :: rest, s, sid, h, p => by
      simp only [mkLeaves]
      cases src.lookup sk <;> simp [mkLeaves_frame src rest s sid h p]
  | (k, .fresh vals) :: rest, s, sid, h, p => by
      simp only [mkLeaves]
      rw [mkLeaves_frame src rest (allocLeaf s vals).1 sid (by rw [allocLeaf_next]; omega) p]
      exact allocLeaf_frame s vals sid (by omega) p

/-- every result leaf lives in an allocated storage (given the source does) -/
theorem mkLeaves_wf (src : Binds) : ∀ (specs : List (String × Spec)) (s : State),
    (∀ q ∈ src, q.2.sid < s.next) → ∀ q ∈ (mkLeaves src s specs).2, q.2.sid < (mkLeaves src s specs).1.next
  | [], s, _, q, hq => by simp [mkLeaves] at hq
  | (k, .alias sk sel) :: rest, s, hsrc, q, hq => by
      simp only [mkLeaves] at hq ⊢
      cases hl : src.lookup sk with
      | none => simp only [hl] at hq ⊢; exact mkLeaves_wf src rest s hsrc q hq
      | some l =>
        simp only [hl, List.mem_cons] at hq ⊢
        rcases hq with rfl | hq
        · have hmem : (sk, l) ∈ src := by
            have := List.lookup_eq_some_iff.mp hl
            obtain ⟨l1, l2, rfl, _⟩ := this
            simp
          have := hsrc _ hmem
          have hge := mkLeaves_next_ge src rest s
          simp only [viewOf_sid]
          exact Nat.lt_of_lt_of_le this hge
        · exact mkLeaves_wf src rest s hsrc q hq
  | (k, .fresh vals) :: rest, s, hsrc, q, hq => by
      simp only [mkLeaves, List.mem_cons] at hq ⊢
      rcases hq with rfl | hq
      · have hge := mkLeaves_next_ge src rest (allocLeaf s vals).1
        rw [allocLeaf_next] at hge
        simp only [allocLeaf_sid]
        exact hge
      · exact mkLeaves_wf src rest (allocLeaf s vals).1
          (fun q' hq' => by rw [allocLeaf_next]; exact Nat.lt_succ_of_lt (hsrc q' hq')) q hq

/-! ### steps and histories -/

theorem mem_modifyAt {α} (f : α → α) : ∀ (l : List α) (i : Nat) (x : α),
    x ∈ modifyAt f l i → x ∈ l ∨ ∃ y ∈ l, x = f y
  | [], _, x, h => by simp [modifyAt] at h
  | a :: l, 0, x, h => by
      simp only [modifyAt, List.mem_cons] at h
      rcases h with rfl | h
      · exact Or.inr ⟨a, by simp, rfl⟩
      · exact Or.inl (by simp [h])
  | a :: l, i + 1, x, h => by
      simp only [modifyAt, List.mem_cons] at h
      rcases h with rfl | h
      · exact Or.inl (by simp)
      · rcases mem_modifyAt f l i x h with h | ⟨y, hy, rfl⟩
        · exact Or.inl (by simp [h])
        · exact Or.inr ⟨y, by simp [hy], rfl⟩

theorem mem_getD_objs (objs : List Binds) (td : Nat) (q : String × Leaf) (h : q ∈ objs.getD td []) :
    ∃ b ∈ objs, q ∈ b := by
  by_cases ht : td < objs.length
  · refine ⟨objs[td], List.getElem_mem ht, ?_⟩
    simpa [List.getD, ht] using h
  · simp [List.getD, List.getElem?_eq_none (Nat.le_of_not_lt ht)] at h

theorem WF.src {s : State} (h : WF s) (td : Nat) : ∀ q ∈ s.objs.getD td [], q.2.sid < s.next := by
  intro q hq
  obtain ⟨b, hb, hqb⟩ := mem_getD_objs _ _ _ hq
  exact h b hb q hqb

theorem mem_setBind (b : Binds) (k : String) (l : Leaf) (q : String × Leaf) (h : q ∈ setBind b k l) :
    q ∈ b ∨ q = (k, l) := by
  unfold setBind at h
  split at h
  · simp only [List.mem_map] at h
    obtain ⟨p, hp, rfl⟩ := h
    split
    · exact Or.inr rfl
    · exact Or.inl hp
  · simp only [List.mem_append, List.mem_singleton] at h
    exact h

theorem lookup_mem (b : Binds) (k : String) (l : Leaf) (h : b.lookup k = some l) : (k, l) ∈ b := by
  obtain ⟨l1, l2, rfl, _⟩ := List.lookup_eq_some_iff.mp h
  simp

theorem inplaceWrites_frame (b : Binds) : ∀ (writes : List (String × List Val)) (st : Store) (s p : Nat),
    (∀ q ∈ b, ¬ (s = q.2.sid ∧ p ∈ q.2.offs)) → inplaceWrites b st writes s p = st s p
  | [], _, _, _, _ => rfl
  | (k, vals) :: rest, st, s, p, h => by
      simp only [inplaceWrites]
      cases hl : b.lookup k with
      | none => exact inplaceWrites_frame b rest st s p h
      | some l =>
        simp only []
        rw [inplaceWrites_frame b rest _ s p h]
        exact writeAt_frame _ _ _ _ _ _ (h (k, l) (lookup_mem b k l hl))

theorem deriveStep_next_ge (s : State) (td : Nat) (specs : List (String × Spec)) :
    s.next ≤ (deriveStep s td specs).next := by
  simp only [deriveStep, pushObj]
  exact mkLeaves_next_ge _ _ _

theorem deriveStep_objs (s : State) (td : Nat) (specs : List (String × Spec)) :
    (deriveStep s td specs).objs = s.objs ++ [(mkLeaves (s.objs.getD td []) s specs).2] := by
  simp only [deriveStep, pushObj, mkLeaves_objs]

theorem deriveStep_frame (s : State) (td : Nat) (specs : List (String × Spec)) (sid : Nat)
    (h : sid < s.next) (p : Nat) : (deriveStep s td specs).store sid p = s.store sid p := by
  simp only [deriveStep, pushObj]
  exact mkLeaves_frame _ _ _ _ h p

theorem deriveStep_wf (s : State) (td : Nat) (specs : List (String × Spec)) (h : WF s) :
    WF (deriveStep s td specs) := by
  intro b hb q hq
  rw [deriveStep_objs] at hb
  simp only [List.mem_append, List.mem_singleton] at hb
  rcases hb with hb | rfl
  · exact Nat.lt_of_lt_of_le (h b hb q hq) (deriveStep_next_ge s td specs)
  · simp only [deriveStep, pushObj]
    exact mkLeaves_wf _ _ _ (h.src td) q hq

theorem step_next_ge (s : State) (t : Step) : s.next ≤ (step s t).next := by
  cases t with
  | inplace td w => exact Nat.le_refl _
  | derive td sp => exact deriveStep_next_ge s td sp
  | contiguous td => exact deriveStep_next_ge s td _
  | rebind td k o k2 =>
    simp only [step, rebindStep]; split <;> exact Nat.le_refl _
  | unbind td k => exact Nat.le_refl _
  | alloc k v => simp [step, allocStep, pushObj, allocLeaf]

theorem step_wf (s : State) (t : Step) (h : WF s) : WF (step s t) := by
  cases t with
  | inplace td w => exact h
  | derive td sp => exact deriveStep_wf s td sp h
  | contiguous td => exact deriveStep_wf s td _ h
  | rebind td k o k2 =>
    simp only [step, rebindStep]
    cases hl : (s.objs.getD o []).lookup k2 with
    | none => exact h
    | some l =>
      intro b hb q hq
      simp only [] at hb ⊢
      rcases mem_modifyAt _ _ _ _ hb with hb | ⟨y, hy, rfl⟩
      · exact h b hb q hq
      · rcases mem_setBind _ _ _ _ hq with hq | rfl
        · exact h y hy q hq
        · exact h.src o (k2, l) (lookup_mem _ _ _ hl)
  | unbind td k =>
    intro b hb q hq
    simp only [step, unbindStep] at hb ⊢
    rcases mem_modifyAt _ _ _ _ hb with hb | ⟨y, hy, rfl⟩
    · exact h b hb q hq
    · exact h y hy q (List.mem_filter.mp hq).1
  | alloc k v =>
    intro b hb q hq
    simp only [step, allocStep, pushObj, List.mem_append, List.mem_singleton] at hb ⊢
    rcases hb with hb | rfl
    · have := h b (by simpa [allocLeaf] using hb) q hq
      exact Nat.lt_succ_of_lt this
    · simp only [List.mem_singleton] at hq
      subst hq
      exact Nat.lt_succ_self _

theorem run_wf (h : List Step) : ∀ (s : State), WF s → WF (run s h) := by
  induction h with
  | nil => intro s hs; exact hs
  | cons t h ih => intro s hs; exact ih (step s t) (step_wf s t hs)

theorem run_next_ge (h : List Step) : ∀ (s : State), s.next ≤ (run s h).next := by
  induction h with
  | nil => intro s; exact Nat.le_refl _
  | cons t h ih => intro s; exact Nat.le_trans (step_next_ge s t) (ih (step s t))

/-- a step that is not in-place leaves every existing storage cell as it was -/
theorem step_pure_frame (s : State) (t : Step) (ht : t.isPure = true) (sid : Nat) (hs : sid < s.next) (p : Nat) :
    (step s t).store sid p = s.store sid p := by
  cases t with
  | inplace td w => simp [Step.isPure] at ht
  | derive td sp => exact deriveStep_frame s td sp sid hs p
  | contiguous td => exact deriveStep_frame s td _ sid hs p
  | rebind td k o k2 => simp only [step, rebindStep]; split <;> rfl
  | unbind td k => rfl
  | alloc k v =>
    simp only [step, allocStep, pushObj]
    exact allocLeaf_frame s v sid (by omega) p

/-- a class operation never changes an existing tensordict's bindings: it can only append objects -/
theorem step_class_objs (s : State) (t : Step) (ht : t.isClassOp = true) :
    ∃ ext, (step s t).objs = s.objs ++ ext := by
  cases t with
  | inplace td w => exact ⟨[], by simp [step, inplaceStep]⟩
  | derive td sp => exact ⟨_, deriveStep_objs s td sp⟩
  | contiguous td => exact ⟨_, deriveStep_objs s td _⟩
  | rebind td k o k2 => simp [Step.isClassOp] at ht
  | unbind td k => simp [Step.isClassOp] at ht
  | alloc k v => exact ⟨[[(k, (allocLeaf s v).2)]], by simp only [step, allocStep, pushObj, allocLeaf_objs]⟩

/-! ### helpers of the property theorems -/

/-- writes of an in-place operation through leaves other than `l` (pairwise cell-disjoint) leave `l` alone -/
theorem inplaceWrites_read_frame (b : Binds) (l : Leaf) :
    ∀ (writes : List (String × List Val)) (st : Store),
      (∀ w ∈ writes, ∀ l', b.lookup w.1 = some l' → Disjoint l l') →
      readLeaf (inplaceWrites b st writes) l = readLeaf st l
  | [], _, _ => rfl
  | (k, vals) :: rest, st, h => by
      simp only [inplaceWrites]
      cases hl : b.lookup k with
      | none => exact inplaceWrites_read_frame b l rest st (fun w hw => h w (List.mem_cons_of_mem _ hw))
      | some l' =>
        simp only []
        rw [inplaceWrites_read_frame b l rest _ (fun w hw => h w (List.mem_cons_of_mem _ hw))]
        exact readLeaf_writeLeaf_disjoint st l' l vals (h (k, vals) (by simp) l' hl)

theorem nodup_map_on {α β} (f : α → β) : ∀ (l : List α),
    (∀ x ∈ l, ∀ y ∈ l, f x = f y → x = y) → l.Nodup → (l.map f).Nodup
  | [], _, _ => by simp
  | x :: l, hinj, hnd => by
      have hnd' := List.nodup_cons.mp hnd
      simp only [List.map_cons, List.nodup_cons]
      refine ⟨?_, nodup_map_on f l (fun a ha b hb => hinj a (List.mem_cons_of_mem _ ha) b (List.mem_cons_of_mem _ hb)) hnd'.2⟩
      intro hm
      obtain ⟨y, hy, hxy⟩ := List.mem_map.mp hm
      have := hinj x (by simp) y (List.mem_cons_of_mem _ hy) hxy.symm
      exact hnd'.1 (this ▸ hy)

/-- the window of an in-range view is the image of the selector -/
theorem viewOf_offs_eq (l : Leaf) (sel : List Nat) (hr : ∀ i ∈ sel, i < l.offs.length) :
    (viewOf sel l).offs = sel.map (fun i => l.offs.getD i 0) := by
  simp only [viewOf]
  apply filterMap_eq_map_of
  intro i hi
  simp [List.getD, hr i hi]

theorem mkLeaves_read_frame (src : Binds) (specs : List (String × Spec)) (s : State) (l : Leaf)
    (h : l.sid < s.next) : readLeaf (mkLeaves src s specs).1.store l = readLeaf s.store l :=
  readLeaf_congr _ _ _ (fun p => mkLeaves_frame src specs s l.sid h p)

theorem lookup_of_mem_nodup : ∀ (b : Binds) (k : String) (l : Leaf),
    (b.map (·.1)).Nodup → (k, l) ∈ b → b.lookup k = some l
  | [], _, _, _, h => by simp at h
  | (k', l') :: b, k, l, hnd, h => by
      simp only [List.map_cons, List.nodup_cons] at hnd
      rcases List.mem_cons.mp h with he | h
      · cases he; simp [List.lookup]
      · have hne : k ≠ k' := by
          intro he
          have hm : k ∈ b.map (·.1) := List.mem_map.mpr ⟨(k, l), h, rfl⟩
          exact hnd.1 (he ▸ hm)
        simp only [List.lookup]
        have : (k == k') = false := by simpa using hne
        rw [this]
        exact lookup_of_mem_nodup b k l hnd.2 h

/-- the per-leaf relation between an entry and the entry `contiguous()` returns for it -/
def ContigRel (st0 st' : Store) (p q : String × Leaf) : Prop :=
  q.1 = p.1 ∧ (q.2.sid = p.2.sid ↔ isContig p.2 = true) ∧ (isContig p.2 = true → q.2 = p.2) ∧
  readLeaf st' q.2 = readLeaf st0 p.2

theorem contig_aux (b : Binds) (st0 : Store) (hk : (b.map (·.1)).Nodup) :
    ∀ (suffix : Binds) (s : State), (∀ q ∈ suffix, q ∈ b) → (∀ q ∈ b, q.2.sid < s.next) →
      (∀ q ∈ b, readLeaf s.store q.2 = readLeaf st0 q.2) →
      (mkLeaves b s (contigSpecs st0 suffix)).2.length = suffix.length ∧
      ∀ pq ∈ suffix.zip (mkLeaves b s (contigSpecs st0 suffix)).2,
        ContigRel st0 (mkLeaves b s (contigSpecs st0 suffix)).1.store pq.1 pq.2
  | [], s, _, _, _ => by simp [contigSpecs, mkLeaves]
  | (k, l) :: rest, s, hsub, hwf, hst => by
      have hmem : (k, l) ∈ b := hsub _ (by simp)
      have hsub' : ∀ q ∈ rest, q ∈ b := fun q hq => hsub q (List.mem_cons_of_mem _ hq)
      have hlsid : l.sid < s.next := hwf _ hmem
      by_cases hc : isContig l = true
      · -- already contiguous: `value.contiguous()` is `value`
        have hl := lookup_of_mem_nodup b k l hk hmem
        have ih := contig_aux b st0 hk rest s hsub' hwf hst
        simp only [contigSpecs, hc, if_true, mkLeaves, hl, List.length_cons, List.zip_cons_cons, List.mem_cons]
        refine ⟨by simp [ih.1], ?_⟩
        rintro pq (rfl | hpq)
        · refine ⟨rfl, ?_, ?_, ?_⟩
          · simp [viewOf_range, hc]
          · intro _; simp [viewOf_range]
          · simp only [viewOf_range]
            rw [mkLeaves_read_frame _ _ _ _ hlsid]; exact hst _ hmem
        · exact ih.2 pq hpq
      · -- packed into a fresh storage
        have hc' : isContig l = false := by simpa using hc
        have hwf' : ∀ q ∈ b, q.2.sid < (allocLeaf s (readLeaf st0 l)).1.next :=
          fun q hq => by rw [allocLeaf_next]; exact Nat.lt_succ_of_lt (hwf q hq)
        have hst' : ∀ q ∈ b, readLeaf (allocLeaf s (readLeaf st0 l)).1.store q.2 = readLeaf st0 q.2 := by
          intro q hq
          rw [← hst q hq]
          exact readLeaf_congr _ _ _ (fun p => allocLeaf_frame s _ _ (Nat.ne_of_lt (hwf q hq)) p)
        have ih := contig_aux b st0 hk rest (allocLeaf s (readLeaf st0 l)).1 hsub' hwf' hst'
        simp only [contigSpecs, hc', Bool.false_eq_true, if_false, mkLeaves, List.length_cons, List.zip_cons_cons, List.mem_cons]
        refine ⟨by simp [ih.1], ?_⟩
        rintro pq (rfl | hpq)
        · refine ⟨rfl, ?_, ?_, ?_⟩
          · simp only [allocLeaf_sid, hc', Bool.false_eq_true, iff_false]
            exact Nat.ne_of_gt hlsid
          · intro h; simp [hc'] at h
          · simp only []
            rw [mkLeaves_read_frame _ _ _ _ (by rw [allocLeaf_next, allocLeaf_sid]; exact Nat.lt_succ_self _)]
            exact allocLeaf_read s _
        · exact ih.2 pq hpq

theorem run_append (s : State) (h1 h2 : List Step) : run s (h1 ++ h2) = run (run s h1) h2 := by
  simp [run, List.foldl_append]


theorem getD_append_length {α} (l : List α) (b d : α) : (l ++ [b]).getD l.length d = b := by
  simp [List.getD]

theorem lookup_setBind_self (b : Binds) (k : String) (l : Leaf) : (setBind b k l).lookup k = some l := by
  unfold setBind
  cases h : b.lookup k with
  | none =>
    simp only [Option.isSome_none, Bool.false_eq_true, if_false]
    have : ∀ (b : Binds), b.lookup k = none → (b ++ [(k, l)]).lookup k = some l := by
      intro b
      induction b with
      | nil => intro _; simp [List.lookup]
      | cons p b ih =>
        intro hb
        obtain ⟨k', l'⟩ := p
        simp only [List.cons_append, List.lookup] at hb ⊢
        cases hkk : (k == k') with
        | true => simp [hkk] at hb
        | false => simp only [hkk] at hb ⊢; exact ih hb
    exact this b h
  | some l0 =>
    simp only [Option.isSome_some, if_true]
    have : ∀ (b : Binds) l0, b.lookup k = some l0 → (b.map (fun p => if p.1 = k then (k, l) else p)).lookup k = some l := by
      intro b
      induction b with
      | nil => intro l0 hb; simp [List.lookup] at hb
      | cons p b ih =>
        intro l0 hb
        obtain ⟨k', l'⟩ := p
        simp only [List.lookup] at hb
        simp only [List.map_cons]
        by_cases hk : k' = k
        · subst hk; simp [List.lookup]
        · have hne : (k == k') = false := by simpa using fun h => hk h.symm
          simp only [hne] at hb
          simp only [hk, if_false, List.lookup, hne]
          exact ih l0 hb
    exact this b l0 h


theorem filterMap_congr_mem {α β} (f g : α → Option β) : ∀ (l : List α), (∀ x ∈ l, f x = g x) → l.filterMap f = l.filterMap g
  | [], _ => rfl
  | x :: l, h => by
      have hx := h x (by simp)
      have ih := filterMap_congr_mem f g l (fun y hy => h y (List.mem_cons_of_mem _ hy))
      simp only [List.filterMap_cons, hx, ih]

end TdVerif.C07
