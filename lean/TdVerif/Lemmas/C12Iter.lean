import TdVerif.Model.C12Iter
import TdVerif.Lemmas.C12Split

namespace TdVerif.C12

theorem pick_eq_gather (rows : List α) (is : List Nat) : pick rows is = gather rows is := rfl

theorem pick_append (rows : List α) (a b : List Nat) : pick rows (a ++ b) = pick rows a ++ pick rows b := by
  simp [pick]

theorem pick_flatten (rows : List α) : ∀ (ls : List (List Nat)), (ls.map (pick rows)).flatten = pick rows ls.flatten
  | [] => by simp [pick]
  | l :: ls => by simp [pick_append, pick_flatten rows ls]

theorem pick_range (rows : List α) : pick rows (List.range rows.length) = rows := gather_range rows

/-- picking along a permutation of all positions permutes the rows -/
theorem pick_perm (rows : List α) (rp : List Nat) (h : rp.Perm (List.range rows.length)) : (pick rows rp).Perm rows := by
  have := List.Perm.filterMap (rows[·]?) h
  rw [show (List.range rows.length).filterMap (rows[·]?) = rows from pick_range rows] at this
  exact this

theorem pick_map (g : α → β) (rows : List α) (is : List Nat) : (pick rows is).map g = pick (rows.map g) is := by
  induction is with
  | nil => simp [pick]
  | cons i is ih =>
    simp only [pick, List.filterMap_cons, List.getElem?_map] at ih ⊢
    cases h : rows[i]? <;> simp [ih]

end TdVerif.C12
