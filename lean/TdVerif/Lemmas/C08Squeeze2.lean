/-
  C08 — `squeeze(dim)` on a stack of stacks (model: Model/C08Lazy2.lean `lazySqueeze2`): the inner
  stacks are squeezed with their own `_squeeze`, which may return their only member — the results
  are then plain tensordicts, so the lifting lemma is stated for dense values (`abs2_map_vals`).
-/
import TdVerif.Lemmas.C08Shape2
import TdVerif.Lemmas.C08Two
namespace TdVerif.C08

/-- `abs2_map` for inner results of any kind (given by their dense values) -/
theorem abs2_map_vals [Inhabited α] (Lo : Lazy2 α) (bIn : Shape) (keys : List String) (feat : String → Shape)
    (sdIn nIn : Nat) (hU : Uniform2 Lo bIn keys feat sdIn nIn) (hne0 : Lo.members ≠ [])
    (gb : Shape → Shape) (φ Φ : T α → T α) (sd' : Nat) (B : Shape)
    (hφs : ∀ t t' : T α, t.shape = t'.shape → (φ t).shape = (φ t').shape)
    (hsd' : ∀ k ∈ keys, ∀ t : T α, t.shape = (bIn.insertIdx sdIn nIn) ++ feat k → sd' ≤ (φ t).shape.length)
    (vals : List (TD α)) (hlen : vals.length = Lo.members.length)
    (hin : ∀ i (h1 : i < vals.length) (h2 : i < Lo.members.length),
      vals[i] ≈ (absL Lo.members[i]).mapLeaves (gb (absL Lo.members[i]).batch) φ)
    (hbatch : (gb (bIn.insertIdx sdIn nIn)).insertIdx sd' Lo.members.length = B)
    (hleaf : ∀ k ∈ keys, T.stack (((denseOf Lo).members.map fun m => m.leaf k).map φ) sd'
      ≈ₜ Φ (T.stack ((denseOf Lo).members.map fun m => m.leaf k) Lo.sd)) :
    stackTD vals sd' ≈ (abs2 Lo).mapLeaves B Φ := by
  have hUd := denseOf_uniform Lo bIn keys feat sdIn nIn hU
  have hned : (denseOf Lo).members ≠ [] := by simpa [denseOf] using hne0
  have hdense := absL_map (denseOf Lo) _ keys feat hUd hned gb φ Φ sd' B
    (by simpa [denseOf] using hbatch) hleaf
  rw [← abs2_eq] at hdense
  refine TD.Eqv.trans ?_ hdense
  show stackTD vals sd' ≈ stackTD ((denseOf Lo).members.map fun m => m.mapLeaves (gb m.batch) φ) sd'
  obtain ⟨d0, dr, hd0⟩ : ∃ d0 dr, (denseOf Lo).members = d0 :: dr := by
    cases h : (denseOf Lo).members with
    | nil => exact absurd h hned
    | cons a r => exact ⟨a, r, rfl⟩
  apply stackTD_congr' _ _ keys (fun k => (φ (d0.leaf k)).shape) sd'
    (by simp [denseOf, hlen]) (by simpa using hned)
  · intro y hy
    simp only [List.mem_map] at hy
    obtain ⟨m, hm, rfl⟩ := hy
    exact hUd.hkeys m hm
  · intro y hy k hk
    simp only [List.mem_map] at hy
    obtain ⟨m, hm, rfl⟩ := hy
    show (φ (m.leaf k)).shape = _
    apply hφs
    rw [hUd.hleaf m hm k hk, hUd.hleaf d0 (by rw [hd0]; simp) k hk]
  · intro k hk
    exact hsd' k hk _ (hUd.hleaf d0 (by rw [hd0]; simp) k hk)
  · intro i h1 h2
    simp only [List.length_map] at h2
    have h2' : i < Lo.members.length := by simpa [denseOf] using h2
    have := hin i h1 h2'
    simpa [denseOf] using this


theorem getElem?_insertIdx_other (sh : Shape) (n sd d e : Nat) (hsd : sd ≤ sh.length)
    (hne : d ≠ sd) (h1 : d > sd → e + 1 = d) (h2 : ¬ d > sd → e = d) :
    (sh.insertIdx sd n)[d]? = sh[e]? := by
  rw [List.getElem?_insertIdx]
  by_cases hgt : d > sd
  · have := h1 hgt
    have h1' : ¬ d < sd := by omega
    have h3 : d - 1 = e := by omega
    simp [h1', hne, h3]
  · have := h2 hgt
    have : d < sd := by omega
    simp [this, ‹e = d›]

/-- `squeeze(dim)` on a stack of stacks materialises to the dense squeeze of the dense stack of
dense stacks -/
theorem squeeze2_refines [Inhabited α] (Lo : Lazy2 α) (bIn : Shape) (keys : List String) (feat : String → Shape)
    (sdIn nIn : Nat) (hU : Uniform2 Lo bIn keys feat sdIn nIn) (hne0 : Lo.members ≠ []) (dim : Int)
    (r : LRes2 α) (h : lazySqueeze2 Lo dim = some r) :
    ∃ d : Nat, (d : Int) = (if dim < 0 then (Lo.batch.length : Int) + dim else dim) ∧
      d < Lo.batch.length ∧ absR2 r ≈ (abs2 Lo).squeezeDim d := by
  have hUd := denseOf_uniform Lo bIn keys feat sdIn nIn hU
  have hned : (denseOf Lo).members ≠ [] := by simpa [denseOf] using hne0
  have hB := absL_batch_eq (denseOf Lo) _ keys feat hUd hned
  have hlenD : (denseOf Lo).members.length = Lo.members.length := by simp [denseOf]
  have hsdD : (denseOf Lo).sd = Lo.sd := rfl
  have hbatchD : (abs2 Lo).batch = Lo.batch := by rw [abs2_eq]; exact denseOf_batch Lo
  have hLB : Lo.batch = (bIn.insertIdx sdIn nIn).insertIdx Lo.sd Lo.members.length := by
    rw [← denseOf_batch]
    show (absL (denseOf Lo)).batch = _
    rw [hB, hlenD]; rfl
  have hr : Lo.batch.length = (bIn.insertIdx sdIn nIn).length + 1 := by
    rw [hLB, List.length_insertIdx_of_le_length (by have := hUd.hsd; rw [hsdD] at this; exact this)]
  have hinner : ∀ Li ∈ Lo.members, Uniform Li bIn keys feat ∧ Li.members ≠ [] ∧
      (absL Li).batch = bIn.insertIdx sdIn nIn := by
    intro Li hLi
    obtain ⟨hUi, hsdi, hni⟩ := hU.inner Li hLi
    have hnei : Li.members ≠ [] := by
      intro hm; rw [hm] at hni; simp at hni; have := hU.hn; omega
    refine ⟨hUi, hnei, ?_⟩
    rw [absL_batch_eq Li bIn keys feat hUi hnei, hsdi, hni]
  unfold lazySqueeze2 at h
  dsimp only at h
  generalize hnd : (if dim < 0 then (Lo.batch.length : Int) + dim else dim) = nd at h ⊢
  by_cases hrange : nd > (Lo.batch.length : Int) - 1 ∨ nd < 0
  · rw [if_pos hrange] at h; simp at h
  rw [if_neg hrange] at h
  refine ⟨nd.toNat, by omega, by omega, ?_⟩
  unfold TD.squeezeDim
  rw [hbatchD]
  by_cases hone : Lo.batch[nd.toNat]? = some 1
  · rw [if_neg (by simpa using hone)] at h
    rw [if_pos hone]
    -- the inner squeeze at a non-negative dim `e` that is a singleton dim of the inner stacks
    have inner_at : ∀ (e : Nat) (rs : List (LRes α)), (bIn.insertIdx sdIn nIn)[e]? = some 1 →
        allSome (Lo.members.map fun Li => lazySqueeze Li (e : Int)) = some rs →
        rs.length = Lo.members.length ∧ ∀ i (h1 : i < (rs.map absR).length) (h2 : i < Lo.members.length),
          (rs.map absR)[i] ≈ (absL Lo.members[i]).mapLeaves ((absL Lo.members[i]).batch.eraseIdx e) (fun t => t.squeezeAt e) := by
      intro e rs he hrs
      obtain ⟨hl, hget⟩ := allSome_map_getElem _ _ _ hrs
      refine ⟨hl, ?_⟩
      intro i h1 h2
      simp only [List.length_map] at h1
      obtain ⟨hUi, hnei, hbi⟩ := hinner _ (List.getElem_mem h2)
      obtain ⟨d, hd, _, hres⟩ := squeeze_refines _ bIn keys feat hUi hnei (e : Int) _ (hget i h1 h2)
      have : d = e := by
        have h0 : ¬ ((e : Int) < 0) := by omega
        rw [if_neg h0] at hd; omega
      subst this
      unfold TD.squeezeDim at hres
      rw [if_pos (by rw [hbi]; exact he)] at hres
      simp only [List.getElem_map]
      exact hres
    split at h
    · -- the outer stack dim: the only inner stack
      rename_i hsd
      cases hm : Lo.members with
      | nil => exact absurd hm hne0
      | cons L0 rest =>
        simp only [hm, List.getElem?_cons_zero, Option.map_some, Option.some.injEq] at h
        subst h
        have key := squeeze_refines (denseOf Lo) _ keys feat hUd hned (nd.toNat : Int) (.member (absL L0))
          (by
            unfold lazySqueeze
            dsimp only
            have hb : (denseOf Lo).batch = Lo.batch := denseOf_batch Lo
            rw [hb]
            have h0 : ¬ ((nd.toNat : Int) < 0) := by omega
            rw [if_neg h0, if_neg (by omega)]
            simp only [Int.toNat_natCast]
            rw [if_neg (by simpa using hone), if_pos (by rw [hsdD]; exact hsd)]
            simp [denseOf, hm])
        obtain ⟨d, hd, _, hres⟩ := key
        have : d = nd.toNat := by
          have h0 : ¬ ((nd.toNat : Int) < 0) := by omega
          rw [if_neg h0] at hd; omega
        subst this
        unfold TD.squeezeDim at hres
        rw [← abs2_eq] at hres
        rw [if_pos (by rw [hbatchD]; exact hone)] at hres
        exact hres
    · rename_i hnsd
      split at h
      · rename_i hgt
        cases hrs : allSome (Lo.members.map fun Li => lazySqueeze Li ((nd.toNat - 1 : Nat) : Int)) with
        | none => rw [hrs] at h; simp at h
        | some rs =>
          rw [hrs] at h
          simp only [Option.bind_some, Option.map_eq_some_iff] at h
          obtain ⟨q, hq, rfl⟩ := h
          obtain ⟨rfl, _⟩ := lazyStackR_some _ _ _ hq
          obtain ⟨e, he⟩ : ∃ e, nd.toNat = e + 1 := ⟨nd.toNat - 1, by omega⟩
          have hone' : (bIn.insertIdx sdIn nIn)[nd.toNat - 1]? = some 1 := by
            rw [← hone, hLB]
            exact (getElem?_insertIdx_other _ _ _ _ _ hUd.hsd hnsd (by omega) (by omega)).symm
          obtain ⟨hl, hin⟩ := inner_at _ _ hone' hrs
          show stackTD (rs.map absR) Lo.sd ≈ _
          apply abs2_map_vals Lo bIn keys feat sdIn nIn hU hne0 (fun s => s.eraseIdx (nd.toNat - 1))
            (fun t => t.squeezeAt (nd.toNat - 1)) (fun t => t.squeezeAt nd.toNat) Lo.sd _
            (by intro t t' hh; simp [T.squeezeAt, hh])
            (by
              intro k hk t ht
              show Lo.sd ≤ (t.shape.eraseIdx (nd.toNat - 1)).length
              rw [ht, List.length_eraseIdx_of_lt (by simp; omega)]
              have := hUd.hsd; simp; omega)
            (rs.map absR) (by simp [hl]) hin
          · rw [hbatchD, hLB, he]; simp only [Nat.add_sub_cancel]
            exact List.insertIdx_eraseIdx_of_le (by omega) (by have := hUd.hsd; omega)
          · intro k hk
            have hhead := head_shape_of_all _ _ (leaf_shapes (denseOf Lo) _ keys feat hUd k hk) (by simpa using hned)
            exact select_stack_gt ((denseOf Lo).members.map fun m => m.leaf k) Lo.sd nd.toNat 0 (by simpa using hned) hgt
              (by rw [hhead]; simp; omega)
      · rename_i hngt
        cases hrs : allSome (Lo.members.map fun Li => lazySqueeze Li (nd.toNat : Int)) with
        | none => rw [hrs] at h; simp at h
        | some rs =>
          rw [hrs] at h
          simp only [Option.bind_some, Option.map_eq_some_iff] at h
          obtain ⟨q, hq, rfl⟩ := h
          obtain ⟨rfl, _⟩ := lazyStackR_some _ _ _ hq
          have hlt : nd.toNat < Lo.sd := by omega
          obtain ⟨e, he⟩ : ∃ e, Lo.sd = e + 1 := ⟨Lo.sd - 1, by omega⟩
          have hone' : (bIn.insertIdx sdIn nIn)[nd.toNat]? = some 1 := by
            rw [← hone, hLB]
            exact (getElem?_insertIdx_other _ _ _ _ _ hUd.hsd hnsd (by omega) (by omega)).symm
          obtain ⟨hl, hin⟩ := inner_at _ _ hone' hrs
          show stackTD (rs.map absR) (Lo.sd - 1) ≈ _
          apply abs2_map_vals Lo bIn keys feat sdIn nIn hU hne0 (fun s => s.eraseIdx nd.toNat)
            (fun t => t.squeezeAt nd.toNat) (fun t => t.squeezeAt nd.toNat) (Lo.sd - 1) _
            (by intro t t' hh; simp [T.squeezeAt, hh])
            (by
              intro k hk t ht
              show Lo.sd - 1 ≤ (t.shape.eraseIdx nd.toNat).length
              rw [ht, List.length_eraseIdx_of_lt (by have := hUd.hsd; simp; omega)]
              have := hUd.hsd; simp; omega)
            (rs.map absR) (by simp [hl]) hin
          · rw [hbatchD, hLB, he]; simp only [Nat.add_sub_cancel]
            exact List.insertIdx_eraseIdx_of_ge (by have := hUd.hsd; omega) (by omega)
          · intro k hk
            have hhead := head_shape_of_all _ _ (leaf_shapes (denseOf Lo) _ keys feat hUd k hk) (by simpa using hned)
            exact select_stack_lt ((denseOf Lo).members.map fun m => m.leaf k) Lo.sd nd.toNat 0 (by simpa using hned) hlt
              (by rw [hhead]; simp; have := hUd.hsd; omega)
  · rw [if_pos (by simpa using hone)] at h
    rw [if_neg hone]
    simp only [Option.some.injEq] at h
    subst h
    show stackTD ((Lo.members.map LRes.lazy).map absR) Lo.sd ≈ _
    rw [List.map_map]
    exact TD.Eqv.refl _

end TdVerif.C08
