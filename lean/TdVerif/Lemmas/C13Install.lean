/-
  C13 — `to_module(module, return_swap=False)` (`installEntriesWith`) against the default call (`swapEntries`):
  the two differ only when the memo is hit, i.e. when a submodule is reached twice through the parameter tensordict.
-/
import TdVerif.Lemmas.C13

namespace TdVerif.C13

/-- the submodules visited through the nested entries of the parameter tensordict, in order (with repetitions) -/
def reach (h : Heap) : MId → List (Name × PTree) → List MId
  | _, [] => []
  | m, (_, .leaf _) :: r => reach h m r
  | m, (k, .node es) :: r =>
    match Dict.get? (h m).kids k with
    | some (some c) => c :: (reach h c es ++ reach h m r)
    | _ => reach h m r

theorem reach_congr {h h' : Heap} (hk : ∀ c, (h' c).kids = (h c).kids) :
    ∀ (es : List (Name × PTree)) (m : MId), reach h' m es = reach h m es
  | [], _ => by simp [reach]
  | (_, .leaf _) :: r, m => by simp only [reach]; exact reach_congr hk r m
  | (k, .node es) :: r, m => by
    simp only [reach, hk m]
    split
    · rw [reach_congr hk es, reach_congr hk r]
    · exact reach_congr hk r m

/-- without a memo hit the default call and `return_swap=False` do the same writes; the modules newly recorded in the
memo are among the visited ones -/
theorem swap_install : ∀ (es : List (Name × PTree)) (h : Heap) (memo : Memo) (m : MId) (h1 : Heap)
    (memo1 : Memo) (outs : List (Name × PTree)),
    swapEntries h memo m es = .ok (h1, memo1, outs) → memo.find m = some none →
    (reach h m es).Nodup → (∀ c ∈ reach h m es, memo.find c = none) →
    installEntriesWith setTensor h m es = .ok h1 ∧
      (∀ x, memo.find x = none → memo1.find x ≠ none → x ∈ reach h m es)
  | [], h, memo, m, h1, memo1, outs, hr, _, _, _ => by
    rw [swapEntries_nil] at hr
    injection hr with hr; injection hr with e1 hr; injection hr with e2 e3
    subst e1 e2 e3
    exact ⟨by simp [installEntriesWith], fun x hx hx' => absurd hx hx'⟩
  | (k, .leaf t) :: rest, h, memo, m, h1, memo1, outs, hr, hm, hnd, hfresh => by
    obtain ⟨md, out, outs', hst, hrest, rfl⟩ := swapEntries_leaf_inv hr
    have hkids : ∀ c, ((h.upd m md) c).kids = (h c).kids := by
      intro c; unfold Heap.upd; split
      · rename_i hc; rw [(setTensor_ok hst).2.2, hc]
      · rfl
    simp only [reach] at hnd hfresh
    have ih := swap_install rest (h.upd m md) memo m h1 memo1 outs' hrest hm
      (by rw [reach_congr hkids]; exact hnd) (by rw [reach_congr hkids]; exact hfresh)
    refine ⟨by simp only [installEntriesWith, hst]; exact ih.1, ?_⟩
    intro x hx hx'
    simp only [reach]
    have := ih.2 x hx hx'
    rwa [reach_congr hkids] at this
  | (k, .node es) :: rest, h, memo, m, h1, memo1, outs, hr, hm, hnd, hfresh => by
    obtain ⟨c, hk, hcase⟩ := swapEntries_node_inv hr
    simp only [reach, hk] at hnd hfresh
    rcases hcase with ⟨sw, outs', hhit, _, _⟩ | ⟨h2, memo2, sw, outs', hmiss, hchild, hrest, rfl⟩
    · -- a hit is impossible: `c` is visited here for the first time
      have := hfresh c (by simp)
      rw [this] at hhit; cases hhit
    · have hcm : c ≠ m := by intro e; subst e; rw [hmiss] at hm; cases hm
      have hnd' := List.nodup_cons.1 hnd
      have hnd2 := List.nodup_append.1 hnd'.2
      have fr1 := swap_frame es h ((c, none) :: memo) c h2 memo2 sw hchild (by simp [find_cons])
      have ih1 := swap_install es h ((c, none) :: memo) c h2 memo2 sw hchild (by simp [find_cons]) hnd2.1
        (by
          intro x hx
          have hxc : c ≠ x := by intro e; subst e; exact hnd'.1 (List.mem_append_left _ hx)
          rw [find_cons, if_neg hxc]
          exact hfresh x (by simp [hx]))
      have hm2 : Memo.find ((c, some sw) :: memo2) m = some none := by
        rw [find_cons, if_neg hcm]; apply fr1.keep; rw [find_cons, if_neg hcm]; exact hm
      have hreach2 : reach h2 m rest = reach h m rest := reach_congr fr1.kids rest m
      have ih2 := swap_install rest h2 ((c, some sw) :: memo2) m h1 memo1 outs' hrest hm2
        (by rw [hreach2]; exact hnd2.2.1)
        (by
          rw [hreach2]
          intro x hx
          have hxc : c ≠ x := by intro e; subst e; exact hnd'.1 (List.mem_append_right _ hx)
          rw [find_cons, if_neg hxc]
          -- not recorded during the child's run: it would have been visited there
          cases h0 : Memo.find memo2 x with
          | none => rfl
          | some v =>
            exfalso
            have hin := ih1.2 x (by rw [find_cons, if_neg hxc]; exact hfresh x (by simp [hx])) (by rw [h0]; simp)
            exact hnd2.2.2 x hin x hx rfl)
      refine ⟨?_, ?_⟩
      · simp only [installEntriesWith, hk, ih1.1]
        exact ih2.1
      · intro x hx hx'
        simp only [reach, hk]
        by_cases hxc : c = x
        · subst hxc; simp
        · by_cases h2x : Memo.find memo2 x = none
          · have := ih2.2 x (by rw [find_cons, if_neg hxc]; exact h2x) hx'
            rw [hreach2] at this
            simp [this]
          · have := ih1.2 x (by rw [find_cons, if_neg hxc]; exact hx) h2x
            simp [this]

end TdVerif.C13
