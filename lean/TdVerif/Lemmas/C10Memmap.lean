/-
  Helper lemmas for C10: where the writer tasks write (path algebra), distinct targets, and that
  `load` reads back a directory that holds exactly what the tasks wrote.
-/
import TdVerif.Model.C10Memmap
import TdVerif.Lemmas.C12Pool
namespace TdVerif.C10
open TdVerif.C12



/-- every task of the kids lives at `dir ++ [entryName kid] ++ rest` for one of the kids -/
def Under (dir : Path) (names : List String) (p : Path) : Prop :=
  ∃ n ∈ names, ∃ rest, p = dir ++ n :: rest

mutual
theorem tasksTree_under (dir : Path) : ∀ (t : Tree), ∀ x ∈ tasksTree dir t, ∃ rest, rest ≠ [] ∧ x.1 = dir ++ rest
  | .leaf .., x, h => by simp [tasksTree] at h
  | .nontensor d b, x, h => by
    simp only [tasksTree, List.mem_singleton] at h
    subst h; exact ⟨["meta.json"], by simp, rfl⟩
  | .ntstack d sd, x, h => by
    simp only [tasksTree, List.mem_singleton] at h
    subst h; exact ⟨["meta.json"], by simp, rfl⟩
  | .node b d kids, x, h => by
    simp only [tasksTree, List.mem_append, List.mem_singleton] at h
    rcases h with h | h
    · obtain ⟨n, _, rest, hr⟩ := tasksKids_under dir kids x h
      exact ⟨n :: rest, by simp, hr⟩
    · subst h; exact ⟨["meta.json"], by simp, rfl⟩
  | .lazy sd ms, x, h => by
    simp only [tasksTree, List.mem_cons] at h
    rcases h with h | h
    · subst h; exact ⟨["meta.json"], by simp, rfl⟩
    · obtain ⟨n, _, rest, hr⟩ := tasksKids_under dir ms x h
      exact ⟨n :: rest, by simp, hr⟩
  | .tclass c f ms, x, h => by
    simp only [tasksTree, List.mem_cons] at h
    rcases h with h | h
    · subst h; exact ⟨["meta.json"], by simp, rfl⟩
    · obtain ⟨n, _, rest, hr⟩ := tasksKids_under dir ms x h
      exact ⟨n :: rest, by simp, hr⟩
theorem tasksKids_under (dir : Path) : ∀ (kids : List (String × Tree)), ∀ x ∈ tasksKids dir kids,
    Under dir (kids.map entryName) x.1
  | [], x, h => by simp [tasksKids] at h
  | (k, .leaf dt s b) :: rest, x, h => by
    simp only [tasksKids, List.mem_append] at h
    rcases h with h | h
    · by_cases hn : numel s = 0
      · simp [hn] at h
      · simp only [hn, if_false, List.mem_singleton] at h
        subst h
        exact ⟨k ++ ".memmap", by simp [entryName], [], by simp⟩
    · obtain ⟨n, hn, r, hr⟩ := tasksKids_under dir rest x h
      exact ⟨n, by simp only [List.map_cons, List.mem_cons]; right; exact hn, r, hr⟩
  | (k, .nontensor d b) :: rest, x, h => by
    simp only [tasksKids, List.mem_append] at h
    rcases h with h | h
    · obtain ⟨r, _, hr⟩ := tasksTree_under (dir ++ [k]) (.nontensor d b) x h
      exact ⟨k, by simp [entryName], r, by rw [hr]; simp⟩
    · obtain ⟨n, hn, r, hr⟩ := tasksKids_under dir rest x h
      exact ⟨n, by simp only [List.map_cons, List.mem_cons]; right; exact hn, r, hr⟩
  | (k, .node b d ks) :: rest, x, h => by
    simp only [tasksKids, List.mem_append] at h
    rcases h with h | h
    · obtain ⟨r, _, hr⟩ := tasksTree_under (dir ++ [k]) (.node b d ks) x h
      exact ⟨k, by simp [entryName], r, by rw [hr]; simp⟩
    · obtain ⟨n, hn, r, hr⟩ := tasksKids_under dir rest x h
      exact ⟨n, by simp only [List.map_cons, List.mem_cons]; right; exact hn, r, hr⟩
  | (k, .lazy sd ms) :: rest, x, h => by
    simp only [tasksKids, List.mem_append] at h
    rcases h with h | h
    · obtain ⟨r, _, hr⟩ := tasksTree_under (dir ++ [k]) (.lazy sd ms) x h
      exact ⟨k, by simp [entryName], r, by rw [hr]; simp⟩
    · obtain ⟨n, hn, r, hr⟩ := tasksKids_under dir rest x h
      exact ⟨n, by simp only [List.map_cons, List.mem_cons]; right; exact hn, r, hr⟩
  | (k, .tclass c f ms) :: rest, x, h => by
    simp only [tasksKids, List.mem_append] at h
    rcases h with h | h
    · obtain ⟨r, _, hr⟩ := tasksTree_under (dir ++ [k]) (.tclass c f ms) x h
      exact ⟨k, by simp [entryName], r, by rw [hr]; simp⟩
    · obtain ⟨n, hn, r, hr⟩ := tasksKids_under dir rest x h
      exact ⟨n, by simp only [List.map_cons, List.mem_cons]; right; exact hn, r, hr⟩
  | (k, .ntstack d sd) :: rest, x, h => by
    simp only [tasksKids, List.mem_append] at h
    rcases h with h | h
    · obtain ⟨r, _, hr⟩ := tasksTree_under (dir ++ [k]) (.ntstack d sd) x h
      exact ⟨k, by simp [entryName], r, by rw [hr]; simp⟩
    · obtain ⟨n, hn, r, hr⟩ := tasksKids_under dir rest x h
      exact ⟨n, by simp only [List.map_cons, List.mem_cons]; right; exact hn, r, hr⟩
end

theorem under_ne (dir : Path) (n1 n2 : String) (r1 r2 : List String) (h : n1 ≠ n2) :
    dir ++ n1 :: r1 ≠ dir ++ n2 :: r2 := by
  intro he
  have := List.append_cancel_left he
  simp only [List.cons.injEq] at this
  exact h this.1


theorem nodup_append' {l₁ l₂ : List α} (h1 : l₁.Nodup) (h2 : l₂.Nodup) (h : ∀ a ∈ l₁, ∀ b ∈ l₂, a ≠ b) :
    (l₁ ++ l₂).Nodup := by
  rw [List.nodup_append]
  exact ⟨h1, h2, h⟩

/-- paths of the head entry of a kids list all sit under the head's directory entry -/
theorem head_under (dir : Path) (k : String) (t : Tree) (_tl : List (String × Tree)) :
    ∀ x ∈ tasksKids dir [(k, t)], ∃ rest, x.1 = dir ++ entryName (k, t) :: rest := by
  intro x hx
  obtain ⟨n, hn, r, hr⟩ := tasksKids_under dir [(k, t)] x hx
  simp only [List.map_cons, List.map_nil, List.mem_singleton] at hn
  subst hn
  exact ⟨r, hr⟩

theorem tasksKids_cons (dir : Path) (k : String) (t : Tree) (rest : List (String × Tree)) :
    tasksKids dir ((k, t) :: rest) = tasksKids dir [(k, t)] ++ tasksKids dir rest := by
  cases t <;> simp [tasksKids]

mutual
theorem tasksTree_nodup (dir : Path) : ∀ (t : Tree), PathSafe t → ((tasksTree dir t).map (·.1)).Nodup
  | .leaf .., _ => by simp [tasksTree]
  | .nontensor .., _ => by simp [tasksTree]
  | .ntstack .., _ => by simp [tasksTree]
  | .node b d kids, h => by
    simp only [PathSafe] at h
    obtain ⟨hnd, _, hk⟩ := h
    rw [List.nodup_append] at hnd
    simp only [tasksTree, List.map_append, List.map_cons, List.map_nil]
    apply nodup_append' (tasksKids_nodup dir kids hk hnd.1) (by simp)
    intro a ha b hb
    simp only [List.mem_singleton] at hb
    subst hb
    obtain ⟨x, hx, rfl⟩ := List.mem_map.1 ha
    obtain ⟨n, hn, r, hr⟩ := tasksKids_under dir kids x hx
    rw [hr]
    apply under_ne
    intro he
    exact hnd.2.2 n hn "meta.json" (by simp) he
  | .lazy sd ms, h => by
    simp only [PathSafe] at h
    obtain ⟨hnd, _, hk⟩ := h
    rw [List.nodup_append] at hnd
    simp only [tasksTree, List.map_cons, List.nodup_cons]
    refine ⟨?_, tasksKids_nodup dir ms hk hnd.1⟩
    intro hmem
    obtain ⟨x, hx, hxe⟩ := List.mem_map.1 hmem
    obtain ⟨n, hn, r, hr⟩ := tasksKids_under dir ms x hx
    rw [hr] at hxe
    have := List.append_cancel_left hxe
    simp only [List.cons.injEq] at this
    exact hnd.2.2 n hn "meta.json" (by simp) this.1
  | .tclass c f ms, h => by
    simp only [PathSafe] at h
    obtain ⟨hnd, _, hk⟩ := h
    rw [List.nodup_append] at hnd
    simp only [tasksTree, List.map_cons, List.nodup_cons]
    refine ⟨?_, tasksKids_nodup dir ms hk hnd.1⟩
    intro hmem
    obtain ⟨x, hx, hxe⟩ := List.mem_map.1 hmem
    obtain ⟨n, hn, r, hr⟩ := tasksKids_under dir ms x hx
    rw [hr] at hxe
    have := List.append_cancel_left hxe
    simp only [List.cons.injEq] at this
    exact hnd.2.2 n hn "meta.json" (by simp) this.1
theorem tasksKids_nodup (dir : Path) : ∀ (kids : List (String × Tree)), PathSafeKids kids →
    (kids.map entryName).Nodup → ((tasksKids dir kids).map (·.1)).Nodup
  | [], _, _ => by simp [tasksKids]
  | (k, t) :: rest, hs, hn => by
    simp only [PathSafeKids] at hs
    simp only [List.map_cons, List.nodup_cons] at hn
    rw [tasksKids_cons, List.map_append]
    apply nodup_append' ?_ (tasksKids_nodup dir rest hs.2 hn.2)
    · intro a ha b hb
      obtain ⟨x, hx, rfl⟩ := List.mem_map.1 ha
      obtain ⟨y, hy, rfl⟩ := List.mem_map.1 hb
      obtain ⟨r, hr⟩ := head_under dir k t rest x hx
      obtain ⟨n, hn', r', hr'⟩ := tasksKids_under dir rest y hy
      rw [hr, hr']
      apply under_ne
      intro he
      exact hn.1 (he ▸ hn')
    · cases t with
      | leaf dt s bts =>
        by_cases h0 : numel s = 0 <;> simp [tasksKids, h0]
      | nontensor d bt =>
        have := tasksTree_nodup (dir ++ [k]) (.nontensor d bt) hs.1
        simpa [tasksKids] using this
      | node bt d ks =>
        have := tasksTree_nodup (dir ++ [k]) (.node bt d ks) hs.1
        simpa [tasksKids] using this
      | lazy sd ms =>
        have := tasksTree_nodup (dir ++ [k]) (.lazy sd ms) hs.1
        simpa [tasksKids] using this
      | tclass c f ms =>
        have := tasksTree_nodup (dir ++ [k]) (.tclass c f ms) hs.1
        simpa [tasksKids] using this
      | ntstack d sd =>
        have := tasksTree_nodup (dir ++ [k]) (.ntstack d sd) hs.1
        simpa [tasksKids] using this
end


/-! ### what the saved directory contains, and that `load` reads it back -/

def isColl : Tree → Bool
  | .leaf .. => false
  | _ => true

mutual
/-- a leaf without elements has no bytes; the members of a lazy stack are tensordicts keyed by their
    index -/
def WF : Tree → Prop
  | .leaf _ s b => numel s = 0 → b = []
  | .nontensor .. => True
  | .ntstack .. => True
  | .node _ _ kids => WFKids kids
  | .lazy _ ms =>
    (∀ j (h : j < ms.length), (ms[j]'h).1 = toString j) ∧ (∀ p ∈ ms, isColl p.2 = true) ∧ WFKids ms
  | .tclass cls _ inner =>
    -- the class is none of the built-in container types; its tensordict sits under `_tensordict`
    (cls ≠ "TensorDict" ∧ cls ≠ "NonTensorData" ∧ cls ≠ "LazyStackedTensorDict" ∧ cls ≠ "NonTensorStack")
      ∧ inner.map (·.1) = ["_tensordict"] ∧ (∀ p ∈ inner, isColl p.2 = true) ∧ WFKids inner
def WFKids : List (String × Tree) → Prop
  | [] => True
  | (_, t) :: rest => WF t ∧ WFKids rest
end

/-- `fs` holds what the tasks `ts` wrote (whatever else it holds) -/
def Exactly (fs : FS) (_dir : Path) (ts : List (Path × File)) : Prop :=
  ∀ x ∈ ts, fs x.1 = some x.2

theorem mem_tasksKids (dir : Path) : ∀ (kids : List (String × Tree)) (y : Path × File),
    y ∈ tasksKids dir kids ↔ ∃ kid ∈ kids, y ∈ tasksKids dir [kid]
  | [], y => by simp [tasksKids]
  | (k, t) :: rest, y => by
    rw [tasksKids_cons, List.mem_append, mem_tasksKids dir rest y]
    constructor
    · rintro (h | ⟨kid, hk, hy⟩)
      · exact ⟨(k, t), by simp, h⟩
      · exact ⟨kid, by simp [hk], hy⟩
    · rintro ⟨kid, hk, hy⟩
      rcases List.mem_cons.1 hk with h | h
      · left; rw [← h]; exact hy
      · right; exact ⟨kid, h, hy⟩

theorem inj_of_nodup_map {f : α → β} : ∀ (l : List α), (l.map f).Nodup → ∀ a ∈ l, ∀ b ∈ l, f a = f b → a = b
  | [], _, a, ha, _, _, _ => by simp at ha
  | x :: xs, h, a, ha, b, hb, hf => by
    simp only [List.map_cons, List.nodup_cons] at h
    rcases List.mem_cons.1 ha with ha | ha <;> rcases List.mem_cons.1 hb with hb | hb
    · rw [ha, hb]
    · exfalso; apply h.1; rw [← ha, hf]; exact List.mem_map_of_mem hb
    · exfalso; apply h.1; rw [← hb, ← hf]; exact List.mem_map_of_mem ha
    · exact inj_of_nodup_map xs h.2 a ha b hb hf

theorem single_under (dir : Path) (kid : String × Tree) : ∀ y ∈ tasksKids dir [kid], ∃ r, y.1 = dir ++ entryName kid :: r := by
  intro y hy
  obtain ⟨k, t⟩ := kid
  exact head_under dir k t [] y hy

/-- facts about one kid of a saved node -/
theorem kid_task_path (dir : Path) (b : List Nat) (d : String) (kids : List (String × Tree))
    (hs : PathSafe (.node b d kids)) (kid : String × Tree) (hk : kid ∈ kids)
    (y : Path × File) (hy : y ∈ tasksTree dir (.node b d kids)) (r : List String)
    (hp : y.1 = dir ++ entryName kid :: r) : y ∈ tasksKids dir [kid] := by
  simp only [PathSafe] at hs
  obtain ⟨hnd, _, _⟩ := hs
  rw [List.nodup_append] at hnd
  simp only [tasksTree, List.mem_append, List.mem_singleton] at hy
  rcases hy with hy | hy
  · obtain ⟨kid', hk', hy'⟩ := (mem_tasksKids dir kids y).1 hy
    obtain ⟨r', hr'⟩ := single_under dir kid' y hy'
    rw [hr'] at hp
    have := List.append_cancel_left hp
    simp only [List.cons.injEq] at this
    have : kid' = kid := inj_of_nodup_map kids hnd.1 kid' hk' kid hk this.1
    rw [← this]; exact hy'
  · exfalso
    subst hy
    simp only at hp
    have := List.append_cancel_left hp
    simp only [List.cons.injEq] at this
    exact hnd.2.2 (entryName kid) (List.mem_map_of_mem hk) "meta.json" (by simp) this.1.symm

theorem descendKids (fs : FS) (dir : Path) (kids : List (String × Tree))
    (he : ∀ x ∈ tasksKids dir kids, fs x.1 = some x.2)
    (k : String) (t : Tree) (hk : (k, t) ∈ kids) (hc : isColl t = true) :
    Exactly fs (dir ++ [k]) (tasksTree (dir ++ [k]) t) := by
  have hsub : ∀ x, x ∈ tasksTree (dir ++ [k]) t ↔ x ∈ tasksKids dir [(k, t)] := by
    intro x
    cases t with
    | leaf _ _ _ => simp [isColl] at hc
    | nontensor _ _ => simp [tasksKids]
    | node _ _ _ => simp [tasksKids]
    | lazy _ _ => simp [tasksKids]
    | tclass _ _ _ => simp [tasksKids]
    | ntstack _ _ => simp [tasksKids]
  intro x hx
  apply he
  exact (mem_tasksKids dir kids x).2 ⟨(k, t), hk, (hsub x).1 hx⟩

theorem descend (fs : FS) (dir : Path) (b : List Nat) (d : String) (kids : List (String × Tree))
    (he : Exactly fs dir (tasksTree dir (.node b d kids)))
    (k : String) (t : Tree) (hk : (k, t) ∈ kids) (hc : isColl t = true) :
    Exactly fs (dir ++ [k]) (tasksTree (dir ++ [k]) t) :=
  descendKids fs dir kids (fun x hx => he x (by simp only [tasksTree, List.mem_append]; left; exact hx)) k t hk hc

theorem leaf_cell (fs : FS) (dir : Path) (b : List Nat) (d : String) (kids : List (String × Tree))
    (he : Exactly fs dir (tasksTree dir (.node b d kids)))
    (k dt : String) (s bts : List Nat) (hk : (k, Tree.leaf dt s bts) ∈ kids) (h0 : numel s ≠ 0) :
    fs (dir ++ [k ++ ".memmap"]) = some (.bytes bts) := by
  have hmem : (dir ++ [k ++ ".memmap"], File.bytes bts) ∈ tasksTree dir (.node b d kids) := by
    simp only [tasksTree, List.mem_append]
    left
    exact (mem_tasksKids dir kids _).2 ⟨(k, .leaf dt s bts), hk, by simp [tasksKids, h0]⟩
  exact he _ hmem

theorem depth_le_of_mem : ∀ (kids : List (String × Tree)) (k : String) (t : Tree), (k, t) ∈ kids → depth t ≤ depthKids kids
  | [], _, _, h => by simp at h
  | (k', t') :: rest, k, t, h => by
    simp only [depthKids]
    rcases List.mem_cons.1 h with h | h
    · cases h; omega
    · have := depth_le_of_mem rest k t h; omega

theorem safe_of_mem : ∀ (kids : List (String × Tree)) (k : String) (t : Tree), (k, t) ∈ kids →
    PathSafeKids kids → WFKids kids → PathSafe t ∧ WF t
  | [], _, _, h, _, _ => by simp at h
  | (k', t') :: rest, k, t, h, hs, hw => by
    simp only [PathSafeKids, WFKids] at hs hw
    rcases List.mem_cons.1 h with h | h
    · cases h; exact ⟨hs.1, hw.1⟩
    · exact safe_of_mem rest k t h hs.2 hw.2

/-- the members are enumerated by index: if member `j` of `ms'` has key `toString (i + j)` and its
    directory loads as the member, `loadMembers` bounded by their number returns exactly them -/
theorem loadMembers_ok (f : Nat) (fs : FS) (dir : Path) : ∀ (ms' : List (String × Tree)) (i : Nat),
    (∀ j (h : j < ms'.length), (ms'[j]'h).1 = toString (i + j)) →
    (∀ kid ∈ ms', load f fs (dir ++ [kid.1]) = some kid.2) →
    loadMembers f fs dir i ms'.length = some ms'
  | [], i, _, _ => by simp [loadMembers]
  | (k, t) :: rest, i, hk, hl => by
    have h0 : k = toString i := by
      have := hk 0 (by simp)
      simp only [List.getElem_cons_zero, Nat.add_zero] at this
      exact this
    have hload := hl (k, t) List.mem_cons_self
    have hrest := loadMembers_ok f fs dir rest (i + 1)
      (by
        intro j h
        have := hk (j + 1) (by simp; omega)
        simp only [List.getElem_cons_succ] at this
        rw [this]; congr 1; omega)
      (fun kid hkid => hl kid (List.mem_cons_of_mem _ hkid))
    simp only [List.length_cons, loadMembers]
    rw [← h0]
    simp only at hload
    rw [hload, hrest]
    rfl

/-- `load` with enough budget reads back what the tasks wrote -/
theorem load_ok : ∀ (fuel : Nat) (t : Tree) (dir : Path) (fs : FS), isColl t = true → PathSafe t → WF t →
    depth t ≤ fuel → Exactly fs dir (tasksTree dir t) → load fuel fs dir = some t := by
  intro fuel
  induction fuel with
  | zero =>
    intro t dir fs hc _ _ hd _
    cases t with
    | leaf _ _ _ => simp [isColl] at hc
    | nontensor _ _ => simp [depth] at hd
    | node _ _ _ => simp [depth] at hd
    | lazy _ _ => simp [depth] at hd
    | tclass _ _ _ => simp [depth] at hd
    | ntstack _ _ => simp [depth] at hd
  | succ f ih =>
    intro t dir fs hc hs hw hd he
    cases t with
    | leaf _ _ _ => simp [isColl] at hc
    | nontensor data bt =>
      have := he (dir ++ ["meta.json"], .json (ntMeta data bt)) (by simp [tasksTree])
      simp only at this
      simp [load, this, ntMeta]
    | ntstack data sd =>
      have := he (dir ++ ["meta.json"], .json (ntsMeta data sd)) (by simp [tasksTree])
      simp only at this
      simp [load, this, ntsMeta]
    | node bt dv kids =>
      have hm := he (dir ++ ["meta.json"], .json (nodeMeta bt dv kids)) (by simp [tasksTree])
      simp only at hm
      have hdk : depthKids kids ≤ f := by simp only [depth] at hd; omega
      have hsk : PathSafeKids kids := by simp only [PathSafe] at hs; exact hs.2.2
      have hwk : WFKids kids := by simpa [WF] using hw
      -- the entries are read one by one
      have key : ∀ (ks : List (String × Tree)), (∀ x ∈ ks, x ∈ kids) →
          loadEntries f fs dir (ks.map fun p => (p.1, metaEntry p.2)) = some ks := by
        intro ks
        induction ks with
        | nil => intro _; simp [loadEntries]
        | cons kid rest ihk =>
          intro hsub
          obtain ⟨k, t⟩ := kid
          have hrest := ihk (fun x hx => hsub x (List.mem_cons_of_mem _ hx))
          have hmem : (k, t) ∈ kids := hsub (k, t) List.mem_cons_self
          cases t with
          | leaf dt s bts =>
            rw [List.map_cons]
            change loadEntries f fs dir ((k, MetaEntry.leaf dt s) :: _) = _
            simp only [loadEntries, hrest]
            by_cases h0 : numel s = 0
            · have hb : bts = [] := by
                have := (safe_of_mem kids k _ hmem hsk hwk).2
                simpa [WF] using this h0
              subst hb
              cases fs (dir ++ [k ++ ".memmap"]) with
              | none => simp [h0]
              | some fl => cases fl <;> simp [h0]
            · rw [leaf_cell fs dir bt dv kids he k dt s bts hmem h0]
              simp [h0]
          | nontensor data b2 =>
            have hex := descend fs dir bt dv kids he k (.nontensor data b2) hmem rfl
            have := ih (.nontensor data b2) (dir ++ [k]) fs rfl (by simp [PathSafe]) (by simp [WF])
              (by have := depth_le_of_mem kids k _ hmem; omega) hex
            rw [List.map_cons]
            change loadEntries f fs dir ((k, MetaEntry.coll "NonTensorData") :: _) = _
            simp only [loadEntries, hrest, this]
          | node b2 d2 ks2 =>
            have hex := descend fs dir bt dv kids he k (.node b2 d2 ks2) hmem rfl
            have hsw := safe_of_mem kids k _ hmem hsk hwk
            have := ih (.node b2 d2 ks2) (dir ++ [k]) fs rfl hsw.1 hsw.2
              (by have := depth_le_of_mem kids k _ hmem; omega) hex
            rw [List.map_cons]
            change loadEntries f fs dir ((k, MetaEntry.coll "TensorDict") :: _) = _
            simp only [loadEntries, hrest, this]
          | lazy sd2 ms2 =>
            have hex := descend fs dir bt dv kids he k (.lazy sd2 ms2) hmem rfl
            have hsw := safe_of_mem kids k _ hmem hsk hwk
            have := ih (.lazy sd2 ms2) (dir ++ [k]) fs rfl hsw.1 hsw.2
              (by have := depth_le_of_mem kids k _ hmem; omega) hex
            rw [List.map_cons]
            change loadEntries f fs dir ((k, MetaEntry.coll "LazyStackedTensorDict") :: _) = _
            simp only [loadEntries, hrest, this]
          | ntstack data2 sd2 =>
            have hex := descend fs dir bt dv kids he k (.ntstack data2 sd2) hmem rfl
            have := ih (.ntstack data2 sd2) (dir ++ [k]) fs rfl (by simp [PathSafe]) (by simp [WF])
              (by have := depth_le_of_mem kids k _ hmem; omega) hex
            rw [List.map_cons]
            change loadEntries f fs dir ((k, MetaEntry.coll "NonTensorStack") :: _) = _
            simp only [loadEntries, hrest, this]
          | tclass c2 f2 i2 =>
            have hex := descend fs dir bt dv kids he k (.tclass c2 f2 i2) hmem rfl
            have hsw := safe_of_mem kids k _ hmem hsk hwk
            have := ih (.tclass c2 f2 i2) (dir ++ [k]) fs rfl hsw.1 hsw.2
              (by have := depth_le_of_mem kids k _ hmem; omega) hex
            rw [List.map_cons]
            change loadEntries f fs dir ((k, MetaEntry.coll c2) :: _) = _
            simp only [loadEntries, hrest, this]
      have hk := key kids (fun x hx => hx)
      simp only [load, hm]
      have hkind : ¬ (nodeMeta bt dv kids).kind = "NonTensorData" := by simp [nodeMeta]
      simp only [hkind, if_false]
      have hent : (nodeMeta bt dv kids).entries = kids.map fun p => (p.1, metaEntry p.2) := rfl
      have hkind2 : ¬ (nodeMeta bt dv kids).kind = "LazyStackedTensorDict" := by simp [nodeMeta]
      simp only [hkind2, if_false]
      have hkind4 : ¬ (nodeMeta bt dv kids).kind = "NonTensorStack" := by simp [nodeMeta]
      simp only [hkind4, if_false]
      have hkind3 : (nodeMeta bt dv kids).kind = "TensorDict" := rfl
      simp only [hkind3, if_true]
      rw [hent, hk]
      rfl
    | lazy sd ms =>
      have hm := he (dir ++ ["meta.json"], .json (lazyMeta sd ms.length)) (by simp [tasksTree])
      simp only at hm
      have hdk : depthKids ms ≤ f := by simp only [depth] at hd; omega
      have hsk : PathSafeKids ms := by simp only [PathSafe] at hs; exact hs.2.2
      simp only [WF] at hw
      obtain ⟨hkeys, hcoll, hwk⟩ := hw
      have hkt : ∀ x ∈ tasksKids dir ms, fs x.1 = some x.2 :=
        fun x hx => he x (by simp only [tasksTree, List.mem_cons]; right; exact hx)
      -- every member is read back from its own directory
      have hmem : ∀ kid ∈ ms, load f fs (dir ++ [kid.1]) = some kid.2 := by
        intro kid hkid
        obtain ⟨k, t⟩ := kid
        have hex := descendKids fs dir ms hkt k t hkid (hcoll _ hkid)
        have hsw := safe_of_mem ms k t hkid hsk hwk
        exact ih t (dir ++ [k]) fs (hcoll _ hkid) hsw.1 hsw.2
          (by have := depth_le_of_mem ms k t hkid; omega) hex
      have hall := loadMembers_ok f fs dir ms 0 (by intro j h; simpa using hkeys j h) hmem
      simp only [load, hm, lazyMeta]
      simp [hall]
    | tclass cls fields inner =>
      have hm := he (dir ++ ["meta.json"], .json (tcMeta cls fields)) (by simp [tasksTree])
      simp only at hm
      have hdk : depthKids inner ≤ f := by simp only [depth] at hd; omega
      have hsk : PathSafeKids inner := by simp only [PathSafe] at hs; exact hs.2.2
      simp only [WF] at hw
      obtain ⟨⟨hc1, hc2, hc3, hc4⟩, hkeys, hcoll, hwk⟩ := hw
      have hkt : ∀ x ∈ tasksKids dir inner, fs x.1 = some x.2 :=
        fun x hx => he x (by simp only [tasksTree, List.mem_cons]; right; exact hx)
      -- `inner` is the single entry `_tensordict`
      cases inner with
      | nil => simp at hkeys
      | cons kid rest =>
        obtain ⟨k, t⟩ := kid
        simp only [List.map_cons, List.cons.injEq, List.map_eq_nil_iff] at hkeys
        obtain ⟨hk0, hrest⟩ := hkeys
        subst hrest
        subst hk0
        have hct : isColl t = true := hcoll ("_tensordict", t) (by simp)
        have hex := descendKids fs dir [("_tensordict", t)] hkt "_tensordict" t (by simp) hct
        have hsw := safe_of_mem [("_tensordict", t)] "_tensordict" t (by simp) hsk hwk
        have hl := ih t (dir ++ ["_tensordict"]) fs hct hsw.1 hsw.2
          (by have := depth_le_of_mem [("_tensordict", t)] "_tensordict" t (by simp); omega) hex
        simp only [load, hm, tcMeta]
        simp [hc1, hc2, hc3, hc4, hl]

/-! ### memmap_like -/

mutual
/-- forget the bytes: keys, nesting, kinds, batch sizes, dtypes, shapes, payloads -/
def skeleton : Tree → Tree
  | .leaf d s _ => .leaf d s []
  | .nontensor d b => .nontensor d b
  | .node b d kids => .node b d (skeletonKids kids)
  | .lazy sd ms => .lazy sd (skeletonKids ms)
  | .tclass c f i => .tclass c f (skeletonKids i)
  | .ntstack d sd => .ntstack d sd
def skeletonKids : List (String × Tree) → List (String × Tree)
  | [] => []
  | (k, t) :: rest => (k, skeleton t) :: skeletonKids rest
end

mutual
theorem like_skeleton : ∀ t : Tree, skeleton (likeTree t) = skeleton t
  | .leaf .. => by simp [likeTree, skeleton]
  | .nontensor .. => by simp [likeTree, skeleton]
  | .node b d kids => by simp [likeTree, skeleton, like_skeletonKids kids]
  | .lazy sd ms => by simp [likeTree, skeleton, like_skeletonKids ms]
  | .tclass c f i => by simp [likeTree, skeleton, like_skeletonKids i]
  | .ntstack .. => by simp [likeTree, skeleton]
theorem like_skeletonKids : ∀ kids : List (String × Tree), skeletonKids (likeKids kids) = skeletonKids kids
  | [] => by simp [likeKids, skeletonKids]
  | (k, t) :: rest => by simp [likeKids, skeletonKids, like_skeleton t, like_skeletonKids rest]
end

mutual
theorem like_tasks_paths (dir : Path) : ∀ t : Tree,
    (tasksTree dir (likeTree t)).map (·.1) = (tasksTree dir t).map (·.1)
  | .leaf .. => by simp [likeTree, tasksTree]
  | .nontensor .. => by simp [likeTree, tasksTree]
  | .node b d kids => by simp [likeTree, tasksTree, like_tasksKids_paths dir kids]
  | .lazy sd ms => by
    have hl : ∀ l : List (String × Tree), (likeKids l).length = l.length := by
      intro l; induction l with
      | nil => rfl
      | cons a as ih => obtain ⟨k, t⟩ := a; simp [likeKids, ih]
    simp [likeTree, tasksTree, like_tasksKids_paths dir ms, hl]
  | .tclass c f i => by simp [likeTree, tasksTree, like_tasksKids_paths dir i]
  | .ntstack .. => by simp [likeTree, tasksTree]
theorem like_tasksKids_paths (dir : Path) : ∀ kids : List (String × Tree),
    (tasksKids dir (likeKids kids)).map (·.1) = (tasksKids dir kids).map (·.1)
  | [] => by simp [likeKids, tasksKids]
  | (k, .leaf dt s b) :: rest => by
    simp only [likeKids, likeTree, tasksKids, List.map_append, like_tasksKids_paths dir rest]
    by_cases h : numel s = 0 <;> simp [h]
  | (k, .nontensor d b) :: rest => by
    simp only [likeKids, likeTree, tasksKids, List.map_append, like_tasksKids_paths dir rest]
  | (k, .node b d ks) :: rest => by
    have := like_tasks_paths (dir ++ [k]) (.node b d ks)
    simp only [likeTree] at this
    simp only [likeKids, likeTree, tasksKids, List.map_append, like_tasksKids_paths dir rest, this]
  | (k, .lazy sd ms) :: rest => by
    have := like_tasks_paths (dir ++ [k]) (.lazy sd ms)
    simp only [likeTree] at this
    simp only [likeKids, likeTree, tasksKids, List.map_append, like_tasksKids_paths dir rest, this]
  | (k, .tclass c f i) :: rest => by
    have := like_tasks_paths (dir ++ [k]) (.tclass c f i)
    simp only [likeTree] at this
    simp only [likeKids, likeTree, tasksKids, List.map_append, like_tasksKids_paths dir rest, this]
  | (k, .ntstack d sd) :: rest => by
    simp only [likeKids, likeTree, tasksKids, List.map_append, like_tasksKids_paths dir rest]
end


end TdVerif.C10
