/-
  C15 — lemmas about the interpreter of the installation program (`runProgram`) that hold for
  EVERY class configuration; the table-level facts they need are boolean checks on the
  generated program, discharged by `decide +kernel` in Props/C15.lean.
-/
import TdVerif.Model.C15Tensorclass

namespace TdVerif.C15
open TdVerif.Gen.Tc

/-- the step writes the slot of `m` whenever it is reached (no guard) -/
def uncond (m : Nat) : Step → Option Kind
  | .assign a [] k => bif Nat.beq a m then some k else none
  | .loop t [] k => bif mem m (tableOf t) then some k else none
  | _ => none

def hasInstalledGuard : List Guard → Bool
  | [] => false
  | .noAttr :: _ => true
  | .notOwn :: _ => true
  | _ :: r => hasInstalledGuard r

/-- the step cannot overwrite an already installed slot of `m` -/
def protects (m : Nat) : Step → Bool
  | .assign a gs _ => !Nat.beq a m || hasInstalledGuard gs
  | .loop t gs _ => !mem m (tableOf t) || hasInstalledGuard gs
  | .classmethodLoop _ => true

def allProtect (m : Nat) : List Step → Bool
  | [] => true
  | s :: r => protects m s && allProtect m r

/-- some step installs `k` for `m` unconditionally and no later step can replace it -/
def forcedBy (m : Nat) (k : Kind) : List Step → Bool
  | [] => false
  | s :: r => (uncond m s == some k && allProtect m r) || forcedBy m k r

theorem guardsOk_false_of_installed (cfg : ClassCfg) (m : Nat) :
    ∀ gs, hasInstalledGuard gs = true → guardsOk cfg m true gs = false
  | [], h => by simp [hasInstalledGuard] at h
  | .noAttr :: r, _ => by simp [guardsOk, guardOk]
  | .notOwn :: r, _ => by simp [guardsOk, guardOk]
  | .noField :: r, h => by
      simp only [hasInstalledGuard] at h
      simp [guardsOk, guardsOk_false_of_installed cfg m r h]
  | .notNonTensor :: r, h => by
      simp only [hasInstalledGuard] at h
      simp [guardsOk, guardsOk_false_of_installed cfg m r h]

theorem stepFor_protects (cfg : ClassCfg) (m : Nat) (k : Kind) (s : Step) (h : protects m s = true) :
    stepFor cfg m (some k) s = some k := by
  cases s with
  | assign a gs k' =>
    simp only [protects, Bool.or_eq_true, Bool.not_eq_eq_eq_not, Bool.not_true] at h
    rcases h with h | h
    · simp [stepFor, h]
    · simp [stepFor, guardsOk_false_of_installed cfg m gs h]
  | loop t gs k' =>
    simp only [protects, Bool.or_eq_true, Bool.not_eq_eq_eq_not, Bool.not_true] at h
    rcases h with h | h
    · simp [stepFor, h]
    · simp [stepFor, guardsOk_false_of_installed cfg m gs h]
  | classmethodLoop keep => simp [stepFor]

theorem runProgram_allProtect (cfg : ClassCfg) (m : Nat) (k : Kind) :
    ∀ prog, allProtect m prog = true → runProgram cfg m (some k) prog = some k
  | [], _ => rfl
  | s :: r, h => by
    simp only [allProtect, Bool.and_eq_true] at h
    simp only [runProgram, stepFor_protects cfg m k s h.1]
    exact runProgram_allProtect cfg m k r h.2

theorem stepFor_uncond (cfg : ClassCfg) (m : Nat) (k : Kind) (st : Option Kind) (s : Step)
    (h : uncond m s = some k) : stepFor cfg m st s = some k := by
  cases s with
  | assign a gs k' =>
    cases gs with
    | nil =>
      simp only [uncond] at h
      cases hb : Nat.beq a m <;> simp [hb] at h
      simp [stepFor, guardsOk, hb, h]
    | cons g r => simp [uncond] at h
  | loop t gs k' =>
    cases gs with
    | nil =>
      simp only [uncond] at h
      cases hb : mem m (tableOf t) <;> simp [hb] at h
      simp [stepFor, guardsOk, hb, h]
    | cons g r => simp [uncond] at h
  | classmethodLoop keep => simp [uncond] at h

/-- whatever the class looks like (user methods, bases, fields), a forced name ends up with kind `k` -/
theorem runProgram_forced (cfg : ClassCfg) (m : Nat) (k : Kind) :
    ∀ prog st, forcedBy m k prog = true → runProgram cfg m st prog = some k
  | [], _, h => by simp [forcedBy] at h
  | s :: r, st, h => by
    simp only [forcedBy, Bool.or_eq_true, Bool.and_eq_true, beq_iff_eq] at h
    rcases h with ⟨hu, hp⟩ | h
    · simp only [runProgram, stepFor_uncond cfg m k st s hu]
      exact runProgram_allProtect cfg m k r hp
    · simp only [runProgram]
      exact runProgram_forced cfg m k r _ h

theorem dispatch_forced (cfg : ClassCfg) (m : Nat) (k : Kind) (h : forcedBy m k installProgram = true) :
    dispatch cfg m = k := by
  simp [dispatch, installed, runProgram_forced cfg m k installProgram _ h]

/-- a method the user's class body defines survives when every statement touching it is guarded -/
theorem dispatch_user (cfg : ClassCfg) (m : Nat) (hown : mem m cfg.own = true)
    (h : allProtect m installProgram = true) : dispatch cfg m = .user := by
  simp [dispatch, installed, hown, runProgram_allProtect cfg m .user installProgram h]

/-- the guards never look at `cls.__dict__` as a whole (only at the slot being written) -/
theorem runProgram_own_irrelevant (cfg : ClassCfg) (o : List Nat) (m : Nat) :
    ∀ prog st, runProgram { cfg with own := o } m st prog = runProgram cfg m st prog := by
  have hg : ∀ g b, guardOk { cfg with own := o } m b g = guardOk cfg m b g := by
    intro g b; cases g <;> simp [guardOk]
  have hgs : ∀ gs b, guardsOk { cfg with own := o } m b gs = guardsOk cfg m b gs := by
    intro gs b; induction gs with
    | nil => rfl
    | cons g r ih => simp [guardsOk, hg, ih]
  have hs : ∀ s st, stepFor { cfg with own := o } m st s = stepFor cfg m st s := by
    intro s st; cases s <;> simp [stepFor, hgs]
  intro prog
  induction prog with
  | nil => intro st; rfl
  | cons s r ih => intro st; simp only [runProgram, hs, ih]

/-- the program never looks at the fields except through `noField` on the name itself -/
theorem stepFor_fields_irrelevant (cfg : ClassCfg) (fs : List Nat) (m : Nat) (st : Option Kind) (s : Step)
    (hm : mem m fs = false) (hc : mem m cfg.fields = false) :
    stepFor { cfg with fields := fs } m st s = stepFor cfg m st s := by
  have hg : ∀ g b, guardOk { cfg with fields := fs } m b g = guardOk cfg m b g := by
    intro g b; cases g <;> simp [guardOk, hm, hc]
  have hgs : ∀ gs b, guardsOk { cfg with fields := fs } m b gs = guardsOk cfg m b gs := by
    intro gs b; induction gs with
    | nil => rfl
    | cons g r ih => simp [guardsOk, hg, ih]
  cases s <;> simp [stepFor, hgs]

theorem runProgram_fields_irrelevant (cfg : ClassCfg) (fs : List Nat) (m : Nat)
    (hm : mem m fs = false) (hc : mem m cfg.fields = false) :
    ∀ prog st, runProgram { cfg with fields := fs } m st prog = runProgram cfg m st prog
  | [], _ => rfl
  | s :: r, st => by
    simp only [runProgram, stepFor_fields_irrelevant cfg fs m st s hm hc]
    exact runProgram_fields_irrelevant cfg fs m hm hc r _

/-- the dispatch of a name that is not itself a field does not depend on which fields the class declares -/
theorem dispatch_fields_irrelevant (cfg : ClassCfg) (fs : List Nat) (m : Nat)
    (hm : mem m fs = false) (hc : mem m cfg.fields = false) :
    dispatch { cfg with fields := fs } m = dispatch cfg m := by
  simp [dispatch, installed, runProgram_fields_irrelevant cfg fs m hm hc, hm, hc]

/-! boolean checkers for the generated tables (evaluated by `decide +kernel` in Props/C15.lean) -/

def idOf (s : String) : Nat := nameTable.idxOf s

def disjointB (a b : List Nat) : Bool := a.all (fun x => !mem x b)

def pairwiseDisjointB : List (List Nat) → Bool
  | [] => true
  | a :: r => r.all (disjointB a) && pairwiseDisjointB r

def nodupB : List Nat → Bool
  | [] => true
  | a :: r => !mem a r && nodupB r

theorem disjointB_spec {a b : List Nat} (h : disjointB a b = true) : ∀ m, m ∈ a → m ∉ b := by
  intro m ha hb
  have := (List.all_eq_true.mp h) m ha
  simp [mem_iff.mpr hb] at this

theorem pairwiseDisjointB_spec : ∀ {ls : List (List Nat)}, pairwiseDisjointB ls = true →
    ls.Pairwise (fun a b => ∀ m, m ∈ a → m ∉ b)
  | [], _ => List.Pairwise.nil
  | a :: r, h => by
    simp only [pairwiseDisjointB, Bool.and_eq_true] at h
    refine List.Pairwise.cons ?_ (pairwiseDisjointB_spec h.2)
    intro b hb
    exact disjointB_spec ((List.all_eq_true.mp h.1) b hb)

theorem nodupB_spec : ∀ {l : List Nat}, nodupB l = true → l.Nodup
  | [], _ => List.nodup_nil
  | a :: r, h => by
    simp only [nodupB, Bool.and_eq_true, Bool.not_eq_eq_eq_not, Bool.not_true] at h
    refine List.nodup_cons.mpr ⟨?_, nodupB_spec h.2⟩
    intro hm
    have := mem_iff.mpr hm
    simp [h.1] at this

/-- `dispatch` looks at the user's class body only through "is this very name defined there" -/
theorem dispatch_congr_own (cfg : ClassCfg) (o : List Nat) (m : Nat) (h : mem m o = mem m cfg.own) :
    dispatch { cfg with own := o } m = dispatch cfg m := by
  simp [dispatch, installed, h, runProgram_own_irrelevant]

/-- every name some installation statement can write -/
def namesOf : List Step → List Nat
  | [] => []
  | .assign a _ _ :: r => a :: namesOf r
  | .loop t _ _ :: r => tableOf t ++ namesOf r
  | .classmethodLoop _ :: r => tdOwnClassmethods ++ namesOf r

def installNames : List Nat := namesOf installProgram

theorem mem_append_false {m : Nat} {a b : List Nat} (h : mem m (a ++ b) = false) :
    mem m a = false ∧ mem m b = false := by
  constructor
  · cases h' : mem m a
    · rfl
    · have := mem_iff.mp h'
      have : mem m (a ++ b) = true := mem_iff.mpr (List.mem_append_left b this)
      simp [h] at this
  · cases h' : mem m b
    · rfl
    · have := mem_iff.mp h'
      have : mem m (a ++ b) = true := mem_iff.mpr (List.mem_append_right a this)
      simp [h] at this

theorem allProtect_of_not_mentioned (m : Nat) : ∀ prog, mem m (namesOf prog) = false → allProtect m prog = true
  | [], _ => rfl
  | .assign a gs k :: r, h => by
    simp only [namesOf, mem, Bool.or_eq_false_iff] at h
    have hne : Nat.beq a m = false := by
      cases hb : Nat.beq a m
      · rfl
      · have := Nat.eq_of_beq_eq_true hb; subst this; simp [Nat.beq_refl] at h
    simp [allProtect, protects, hne, allProtect_of_not_mentioned m r h.2]
  | .loop t gs k :: r, h => by
    simp only [namesOf] at h
    have := mem_append_false h
    simp [allProtect, protects, this.1, allProtect_of_not_mentioned m r this.2]
  | .classmethodLoop _ :: r, h => by
    simp only [namesOf] at h
    have := mem_append_false h
    simp [allProtect, protects, allProtect_of_not_mentioned m r this.2]

end TdVerif.C15
