/-
  Helper lemmas for C12: the loops of `split` and of the index generator enumerate `[start, n)`.
-/
import TdVerif.Model.C12Chunk

namespace TdVerif.C12

/-- rows selected by an unclamped slice out of `n` -/
def spanRowsClamp (n : Nat) (p : Nat × Nat) : List Nat := List.range' p.1 (min p.2 n - p.1)

theorem range'_split (a k m : Nat) (h : k ≤ m) :
    List.range' a m = List.range' a k ++ List.range' (a + k) (m - k) := by
  have : m = k + (m - k) := by omega
  conv => lhs; rw [this]
  exact List.range'_append_1 .. |>.symm

theorem splitLoop_rows (n ss idx1 : Nat) (hss : 0 < ss) (hle : idx1 ≤ n) :
    (splitLoop n ss idx1).flatMap (spanRowsClamp n) = List.range' idx1 (n - idx1) := by
  fun_induction splitLoop n ss idx1 with
  | case1 idx1 h ih =>
    simp only [List.flatMap_cons]
    rw [ih (by omega)]
    unfold spanRowsClamp
    simp only
    rw [range'_split idx1 (min (min n (idx1 + ss)) n - idx1) (n - idx1) (by omega)]
    congr 2 <;> omega
  | case2 idx1 h =>
    have : n - idx1 = 0 := by omega
    simp [this]

theorem splitSlices_rows (n ss : Nat) (hss : 0 < ss ∨ n = 0) :
    (splitSlices n ss).flatMap (spanRowsClamp n) = List.range n := by
  unfold splitSlices
  rcases hss with hss | hn
  · simp only [List.flatMap_cons]
    rw [splitLoop_rows n ss (min n ss) hss (by omega)]
    unfold spanRowsClamp
    simp only [Nat.sub_zero]
    rw [List.range_eq_range', range'_split 0 (min (min n ss) n) n (by omega)]
    simp
  · subst hn
    unfold splitLoop
    simp [spanRowsClamp]

theorem genLoop_rows (n cs start stop : Nat) (hcs : 0 < cs) (hst : stop = start + cs) :
    (genLoop n cs start stop).flatMap (spanRowsClamp n) = List.range' start (n - start) := by
  fun_induction genLoop n cs start stop with
  | case1 start stop h ih =>
    simp only [List.flatMap_cons]
    rw [ih rfl]
    unfold spanRowsClamp
    simp only
    rw [range'_split start (min stop n - start) (n - start) (by omega)]
    by_cases hin : stop ≤ n
    · congr 2 <;> omega
    · have e1 : n - stop = 0 := by omega
      have e2 : n - start - (min stop n - start) = 0 := by omega
      simp [e1, e2]
  | case2 start stop h =>
    have : n - start = 0 := by omega
    simp [this]

theorem splitLoop_at_end (n ss : Nat) : splitLoop n ss n = [] := by
  unfold splitLoop; simp

/-- clamping the generator's stops gives exactly the slices of `split` -/
theorem genLoop_clamp_eq_splitLoop (n cs start stop : Nat) (hcs : 0 < cs) (hst : stop = start + cs)
    (hle : start ≤ n) :
    (genLoop n cs start stop).map (fun p => (p.1, min n p.2)) = splitLoop n cs start := by
  fun_induction genLoop n cs start stop with
  | case1 start stop h ih =>
    subst hst
    rw [splitLoop]
    simp only [h.1, hcs, and_self, if_true, List.map_cons]
    congr 1
    by_cases hin : start + cs ≤ n
    · have e : min n (start + cs) = start + cs := by omega
      rw [e]
      exact ih rfl hin
    · have hm : min n (start + cs) = n := by omega
      rw [hm, splitLoop_at_end]
      unfold genLoop
      have : ¬ (start + cs < n) := by omega
      simp [this]
  | case2 start stop h =>
    subst hst
    rw [splitLoop]
    have : ¬ start < n := by omega
    simp [this]

theorem splitSlices_min (n cs : Nat) : splitSlices n (min n cs) = splitSlices n cs := by
  unfold splitSlices
  by_cases h : cs ≤ n
  · have e : min n cs = cs := by omega
    simp only [e]
  · have h1 : min n cs = n := by omega
    have h2 : min n n = n := by omega
    rw [h1, h2, splitLoop_at_end]
    unfold splitLoop
    simp

theorem ceilDiv_step (m ss : Nat) (hss : 0 < ss) : ceilDiv (m + ss) ss = ceilDiv m ss + 1 := by
  unfold ceilDiv
  have : m + ss + ss - 1 = (m + ss - 1) + ss := by omega
  rw [this, Nat.add_div_right _ hss]

theorem ceilDiv_small (m ss : Nat) (h0 : 0 < m) (h1 : m ≤ ss) : ceilDiv m ss = 1 := by
  unfold ceilDiv
  apply Nat.div_eq_of_lt_le <;> omega

theorem ceilDiv_zero (ss : Nat) (hss : 0 < ss) : ceilDiv 0 ss = 0 := by
  unfold ceilDiv
  apply Nat.div_eq_of_lt; omega

/-- number of slices produced by the loop of `split` -/
theorem splitLoop_length (n ss idx1 : Nat) (hss : 0 < ss) (hle : idx1 ≤ n) :
    (splitLoop n ss idx1).length = ceilDiv (n - idx1) ss := by
  fun_induction splitLoop n ss idx1 with
  | case1 idx1 h ih =>
    simp only [List.length_cons]
    rw [ih (by omega)]
    by_cases hin : idx1 + ss ≤ n
    · have e : min n (idx1 + ss) = idx1 + ss := by omega
      rw [e]
      have : n - idx1 = (n - (idx1 + ss)) + ss := by omega
      rw [this, ceilDiv_step _ _ hss]
    · have e : min n (idx1 + ss) = n := by omega
      rw [e, Nat.sub_self, ceilDiv_zero _ hss, ceilDiv_small _ _ (by omega) (by omega)]
  | case2 idx1 h =>
    have : n - idx1 = 0 := by omega
    rw [this, ceilDiv_zero _ hss]
    rfl

/-! ### pieces as index lists -/


/-- rows of `rows` at the given indices (out-of-range indices select nothing) -/
def gather (rows : List α) (idxs : List Nat) : List α := idxs.filterMap (rows[·]?)

theorem gather_append (rows : List α) (a b : List Nat) :
    gather rows (a ++ b) = gather rows a ++ gather rows b := by
  simp [gather]

theorem gather_range' (rows : List α) : ∀ (k s : Nat),
    gather rows (List.range' s k) = (rows.drop s).take k := by
  intro k
  induction k with
  | zero => intro s; simp [gather]
  | succ k ih =>
    intro s
    rw [List.range'_succ]
    have ih' := ih (s + 1)
    unfold gather at ih' ⊢
    rw [List.filterMap_cons]
    cases h : rows[s]? with
    | none =>
      simp only
      rw [ih']
      have : rows.length ≤ s := by simpa using h
      rw [List.drop_eq_nil_of_le (by omega), List.drop_eq_nil_of_le this]
      simp
    | some a =>
      simp only
      rw [ih']
      have hlt : s < rows.length := by
        rcases Nat.lt_or_ge s rows.length with h1 | h1
        · exact h1
        · simp [List.getElem?_eq_none h1] at h
      rw [List.drop_eq_getElem_cons hlt]
      have : rows[s] = a := by
        rw [List.getElem?_eq_getElem hlt] at h; exact Option.some.inj h
      simp [this]

theorem gather_range (rows : List α) : gather rows (List.range rows.length) = rows := by
  rw [List.range_eq_range', gather_range']
  simp

theorem extract_eq_gather (rows : List α) (p : Piece) :
    p.extract rows = gather rows (p.rows rows.length) := by
  cases p with
  | rng s e =>
    simp only [Piece.extract, Piece.rows]
    rw [gather_range']
    apply List.ext_getElem?
    intro i
    simp only [List.getElem?_take, List.getElem?_drop]
    by_cases h1 : i < e - s
    · by_cases h2 : i < min e rows.length - s
      · simp [h1, h2]
      · simp only [h1, h2, if_true, if_false]
        apply List.getElem?_eq_none
        omega
    · have h2 : ¬ i < min e rows.length - s := by omega
      simp [h1, h2]
  | idx i =>
    simp only [Piece.extract, Piece.rows]
    by_cases h : i < rows.length
    · simp only [h, if_true]
      have := gather_range' rows 1 i
      simpa using this.symm
    · simp only [h, if_false]
      rw [List.drop_eq_nil_of_le (by omega)]
      simp [gather]

theorem gather_flatMap (rows : List α) (ps : List Piece) (n : Nat) :
    (ps.map fun p => gather rows (p.rows n)).flatten = gather rows (ps.flatMap (Piece.rows n)) := by
  induction ps with
  | nil => simp [gather]
  | cons p ps ih => simp [gather_append, ih]


/-! ### reassembly into `out` -/


/-- per-chunk specification of a write-into-`out` map: the rows of each chunk hold the chunk's
    result, or are left as they were when the function returned `None` for that chunk -/
def fill : List β → List (Nat × Option (List β)) → List β
  | rest, [] => rest
  | rest, (len, r) :: tl => r.getD (rest.take len) ++ fill (rest.drop len) tl

def WellSized (items : List (Nat × Option (List β))) : Prop :=
  ∀ x ∈ items, ∀ item, x.2 = some item → item.length = x.1

theorem writeRows_ok (out : List β) (start : Nat) (item : List β)
    (h : start + item.length ≤ out.length) :
    writeRows out start item = some (out.take start ++ item ++ out.drop (start + item.length)) := by
  simp [writeRows, h]

theorem reassembleOut_spec : ∀ (items : List (Nat × Option (List β))) (start : Nat) (out : List β),
    WellSized items → start + (items.map (·.1)).sum ≤ out.length →
    reassembleOut start out items = some (out.take start ++ fill (out.drop start) items) := by
  intro items
  induction items with
  | nil => intro start out _ _; simp [reassembleOut, fill]
  | cons x tl ih =>
    intro start out hw hlen
    obtain ⟨len, r⟩ := x
    have hw' : WellSized tl := fun y hy => hw y (List.mem_cons_of_mem _ hy)
    simp only [List.map_cons, List.sum_cons] at hlen
    cases r with
    | none =>
      simp only [reassembleOut, fill, Option.getD_none]
      rw [ih (start + len) out hw' (by omega)]
      congr 1
      rw [← List.append_assoc]
      congr 1
      · rw [List.take_add]
      · rw [List.drop_drop]
    | some item =>
      have hl : item.length = len := hw (len, some item) (List.mem_cons_self) item rfl
      subst hl
      simp only [reassembleOut, fill, Option.getD_some]
      rw [writeRows_ok out start item (by omega)]
      simp only
      have hA : (out.take start ++ item).length = start + item.length := by
        simp; omega
      have hlen2 : (out.take start ++ item ++ out.drop (start + item.length)).length = out.length := by
        simp; omega
      rw [ih (start + item.length) _ hw' (by omega)]
      rw [List.take_left' hA, List.drop_left' hA, List.drop_drop, List.append_assoc]

end TdVerif.C12
