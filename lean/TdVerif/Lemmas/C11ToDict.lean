import TdVerif.Model.C11ToDict

namespace TdVerif.C11

mutual
theorem fromDict_toDict (b : List Nat) (n : Option (List String)) (d : Option String) :
    ∀ t : PT, Uniform b n d t → fromDict b n d (toDict t) = unlockAll t
  | .leaf v, _ => by simp [toDict, fromDict, unlockAll]
  | .node b' n' d' l kids, h => by
    simp only [Uniform] at h
    obtain ⟨rfl, rfl, rfl, hk⟩ := h
    simp [toDict, fromDict, unlockAll, fromDictKids_toDictKids b' n' d' kids hk]
theorem fromDictKids_toDictKids (b : List Nat) (n : Option (List String)) (d : Option String) :
    ∀ kids : List (String × PT), UniformKids b n d kids → fromDictKids b n d (toDictKids kids) = unlockKids kids
  | [], _ => by simp [toDictKids, fromDictKids, unlockKids]
  | (k, t) :: rest, h => by
    simp only [UniformKids] at h
    simp [toDictKids, fromDictKids, unlockKids, fromDict_toDict b n d t h.1, fromDictKids_toDictKids b n d rest h.2]
end

end TdVerif.C11
