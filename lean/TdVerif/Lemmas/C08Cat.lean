/-
  C08 — torch.cat of lazy stacks (tensor level): along the stack dim the member lists are appended,
  along another dim the i-th members are concatenated.
-/
import TdVerif.Lemmas.C08Perm
namespace TdVerif.C08

theorem T.cat2_get (a b : T α) (d : Nat) (c : List Nat) :
    (T.cat2 a b d).get c = if at0 c d < at0 a.shape d then a.get c else b.get (c.set d (at0 c d - at0 a.shape d)) := rfl

theorem T.cat2_shape (a b : T α) (d : Nat) :
    (T.cat2 a b d).shape = a.shape.set d (at0 a.shape d + at0 b.shape d) := rfl

/-- cat along the stack dim: the member lists are appended -/
theorem cat2_stack_same [Inhabited α] (ms1 ms2 : List (T α)) (sh : Shape) (sd : Nat)
    (h1 : ∀ m ∈ ms1, m.shape = sh) (h2 : ∀ m ∈ ms2, m.shape = sh) (hne1 : ms1 ≠ []) (hne2 : ms2 ≠ [])
    (hsd : sd ≤ sh.length) :
    T.stack (ms1 ++ ms2) sd ≈ₜ T.cat2 (T.stack ms1 sd) (T.stack ms2 sd) sd := by
  have hh1 := head_shape_of_all ms1 sh h1 hne1
  have hh2 := head_shape_of_all ms2 sh h2 hne2
  have hh : ((ms1 ++ ms2).head?.map T.shape).getD [] = sh := by
    cases ms1 with
    | nil => exact absurd rfl hne1
    | cons a r => simpa using h1 a (by simp)
  have hat : ∀ n, at0 (sh.insertIdx sd n) sd = n := by
    intro n; simp [at0, List.getElem?_insertIdx_self, hsd]
  constructor
  · rw [T.stack_shape, T.cat2_shape, T.stack_shape, T.stack_shape, hh, hh1, hh2, hat, hat]
    apply List.ext_getElem?
    intro i
    simp only [List.getElem?_set, List.getElem?_insertIdx, List.length_append,
      List.length_insertIdx_of_le_length hsd]
    by_cases h : i = sd
    · subst h; simp [hsd]; omega
    · have : ¬ sd = i := fun h' => h h'.symm
      simp [h, this]
  · intro c hc
    rw [T.stack_shape, hh] at hc
    have hlt : at0 c sd < (ms1 ++ ms2).length := InB.at0_lt_of_insert c sh sd _ hsd hc
    rw [T.stack_get, T.cat2_get, T.stack_shape, hh1, hat, T.stack_get, T.stack_get]
    by_cases hlt1 : at0 c sd < ms1.length
    · rw [if_pos hlt1, List.getElem?_append_left hlt1]
    · rw [if_neg hlt1, List.getElem?_append_right (by omega)]
      have hcl : sd < c.length := by
        rw [InB.length hc, List.length_insertIdx_of_le_length hsd]; omega
      have e1 : at0 (c.set sd (at0 c sd - ms1.length)) sd = at0 c sd - ms1.length := by
        simp [at0, List.getElem?_set, hcl]
      rw [e1, List.eraseIdx_set_eq]

/-- cat along a dim other than the stack dim: the i-th members are concatenated along the
shifted dim -/
theorem cat2_stack_other [Inhabited α] (ms1 ms2 : List (T α)) (sh1 sh2 : Shape) (sd dim : Nat)
    (h1 : ∀ m ∈ ms1, m.shape = sh1) (h2 : ∀ m ∈ ms2, m.shape = sh2) (hne1 : ms1 ≠ [])
    (hlen : ms1.length = ms2.length) (hl12 : sh1.length = sh2.length)
    (hsd : sd ≤ sh1.length) (hdim : dim < sh1.length + 1) (hne : dim ≠ sd) :
    T.stack ((ms1.zip ms2).map fun p => T.cat2 p.1 p.2 (if dim > sd then dim - 1 else dim)) sd
      ≈ₜ T.cat2 (T.stack ms1 sd) (T.stack ms2 sd) dim := by
  have hne2 : ms2 ≠ [] := by
    intro h; rw [h] at hlen; exact hne1 (List.length_eq_zero_iff.mp hlen)
  have hh1 := head_shape_of_all ms1 sh1 h1 hne1
  have hh2 := head_shape_of_all ms2 sh2 h2 hne2
  obtain ⟨nd, hnd⟩ : ∃ nd, nd = (if dim > sd then dim - 1 else dim) := ⟨_, rfl⟩
  rw [← hnd]
  have hnd1 : dim > sd → nd + 1 = dim := by intro h; rw [hnd, if_pos h]; omega
  have hnd2 : ¬ dim > sd → nd = dim := by intro h; rw [hnd, if_neg h]
  have hatS : ∀ (sh : Shape), sd ≤ sh.length → ∀ n, at0 (sh.insertIdx sd n) dim = at0 sh nd := by
    intro sh hs n
    unfold at0
    rw [List.getElem?_insertIdx]
    by_cases hgt : dim > sd
    · have h1' : ¬ dim < sd := by omega
      have := hnd1 hgt
      have e : dim - 1 = nd := by omega
      simp [h1', hne, e]
    · have h1' : dim < sd := by omega
      rw [hnd2 hgt]
      simp [h1']
  have hzh : (((ms1.zip ms2).map fun p => T.cat2 p.1 p.2 nd).head?.map T.shape).getD []
      = sh1.set nd (at0 sh1 nd + at0 sh2 nd) := by
    cases ms1 with
    | nil => exact absurd rfl hne1
    | cons a r =>
      cases ms2 with
      | nil => exact absurd rfl hne2
      | cons a' r' =>
        simp only [List.zip_cons_cons, List.map_cons, List.head?_cons, Option.map_some, Option.getD_some,
          T.cat2_shape, h1 a (by simp), h2 a' (by simp)]
  constructor
  · rw [T.stack_shape, hzh, T.cat2_shape, T.stack_shape, T.stack_shape, hh1, hh2,
      hatS sh1 hsd, hatS sh2 (hl12 ▸ hsd)]
    simp only [List.length_map, List.length_zip, hlen, Nat.min_self]
    apply List.ext_getElem?
    intro i
    simp only [List.getElem?_set, List.getElem?_insertIdx, List.length_set,
      List.length_insertIdx_of_le_length hsd]
    by_cases hgt : dim > sd
    · have := hnd1 hgt
      by_cases hi1 : i < sd <;> by_cases hi2 : i = sd <;> by_cases hi3 : i = dim <;>
        simp [hi1, hi2, hi3] <;> grind
    · have := hnd2 hgt
      by_cases hi1 : i < sd <;> by_cases hi2 : i = sd <;> by_cases hi3 : i = dim <;>
        simp [hi1, hi2, hi3] <;> grind
  · intro c hc
    rw [T.stack_shape, hzh] at hc
    have hsd' : sd ≤ (sh1.set nd (at0 sh1 nd + at0 sh2 nd)).length := by simpa using hsd
    have hlt := InB.at0_lt_of_insert c _ sd _ hsd' hc
    simp only [List.length_map, List.length_zip, hlen, Nat.min_self] at hlt
    have hcl : c.length = sh1.length + 1 := by
      rw [InB.length hc, List.length_insertIdx_of_le_length hsd']; simp
    have hlt1 : at0 c sd < ms1.length := by omega
    rw [T.stack_get, T.cat2_get, T.stack_shape, hh1, hatS sh1 hsd, T.stack_get, T.stack_get]
    have hk : ((ms1.zip ms2).map fun p => T.cat2 p.1 p.2 nd)[at0 c sd]?
        = some (T.cat2 (ms1[at0 c sd]'hlt1) (ms2[at0 c sd]'hlt) nd) := by
      rw [List.getElem?_map, List.getElem?_zip_eq_some.mpr
        (show ms1[at0 c sd]? = some (ms1[at0 c sd]'hlt1, ms2[at0 c sd]'hlt).1 ∧
              ms2[at0 c sd]? = some (ms1[at0 c sd]'hlt1, ms2[at0 c sd]'hlt).2 from
          ⟨List.getElem?_eq_getElem hlt1, List.getElem?_eq_getElem hlt⟩)]
      rfl
    rw [hk, Option.getD_some, T.cat2_get, h1 _ (List.getElem_mem _)]
    have hcd : at0 (c.eraseIdx sd) nd = at0 c dim := by
      by_cases hgt : dim > sd
      · have := hnd1 hgt
        rw [at0_eraseIdx_of_le c sd nd (by omega), this]
      · rw [hnd2 hgt]
        exact at0_eraseIdx_of_gt c sd dim (by omega)
    rw [hcd]
    by_cases hin : at0 c dim < at0 sh1 nd
    · rw [if_pos hin, if_pos hin, List.getElem?_eq_getElem hlt1, Option.getD_some]
    · rw [if_neg hin, if_neg hin]
      have e1 : at0 (c.set dim (at0 c dim - at0 sh1 nd)) sd = at0 c sd := by
        simp [at0, List.getElem?_set, hne]
      have e2 : (c.set dim (at0 c dim - at0 sh1 nd)).eraseIdx sd = (c.eraseIdx sd).set nd (at0 c dim - at0 sh1 nd) := by
        by_cases hgt : dim > sd
        · have := hnd1 hgt
          rw [List.eraseIdx_set_lt (show sd < dim from hgt)]
          congr 1; omega
        · rw [hnd2 hgt, List.eraseIdx_set_gt (show dim < sd by omega)]
      rw [e1, e2, List.getElem?_eq_getElem hlt, Option.getD_some]

theorem allSome_map_some {β γ} (l : List β) (f : β → γ) : allSome (l.map fun x => some (f x)) = some (l.map f) := by
  induction l with
  | nil => rfl
  | cons a r ih => simp [allSome, ih]

/-- `torch.cat([L1, L2], stack_dim)` of two lazy stacks (same stack dim, same member shape):
the member lists are appended; materialises to the dense cat -/
theorem cat2_refines_same [Inhabited α] (L1 L2 : Lazy α) (b : Shape) (keys : List String) (feat : String → Shape)
    (hU1 : Uniform L1 b keys feat) (hU2 : Uniform L2 b keys feat) (hne1 : L1.members ≠ []) (hne2 : L2.members ≠ [])
    (hsd : L2.sd = L1.sd) :
    absL (⟨L1.members ++ L2.members, L1.sd⟩ : Lazy α) ≈ TD.cat2 (absL L1) (absL L2) L1.sd := by
  have hB1 := absL_batch_eq L1 b keys feat hU1 hne1
  have hB2 := absL_batch_eq L2 b keys feat hU2 hne2
  obtain ⟨_, hk1⟩ := head_batch_of_uniform L1 b keys feat hU1 hne1
  have hU : Uniform (⟨L1.members ++ L2.members, L1.sd⟩ : Lazy α) b keys feat := by
    refine ⟨?_, ?_, ?_, hU1.hsd⟩
    · intro m hm
      rcases List.mem_append.mp hm with h | h
      · exact hU1.hbatch m h
      · exact hU2.hbatch m h
    · intro m hm
      rcases List.mem_append.mp hm with h | h
      · exact hU1.hkeys m h
      · exact hU2.hkeys m h
    · intro m hm
      rcases List.mem_append.mp hm with h | h
      · exact hU1.hleaf m h
      · exact hU2.hleaf m h
  have hne : L1.members ++ L2.members ≠ [] := by simp [hne1]
  have hB := absL_batch_eq _ b keys feat hU hne
  obtain ⟨_, hk⟩ := head_batch_of_uniform _ b keys feat hU hne
  refine ⟨?_, ?_, ?_⟩
  · rw [hB]
    show _ = (absL L1).batch.set L1.sd (at0 (absL L1).batch L1.sd + at0 (absL L2).batch L1.sd)
    rw [hB1, hB2, hsd]
    have hat : ∀ n, at0 (b.insertIdx L1.sd n) L1.sd = n := by
      intro n; simp [at0, List.getElem?_insertIdx_self, hU1.hsd]
    rw [hat, hat]
    apply List.ext_getElem?
    intro i
    simp only [List.getElem?_set, List.getElem?_insertIdx, List.length_append,
      List.length_insertIdx_of_le_length hU1.hsd]
    by_cases h : i = L1.sd
    · subst h; simp [hU1.hsd]; have := hU1.hsd; omega
    · have : ¬ L1.sd = i := fun h' => h h'.symm
      simp [h, this]
  · show (absL (⟨L1.members ++ L2.members, L1.sd⟩ : Lazy α)).keys = (absL L1).keys
    exact hk.trans hk1.symm
  · intro k hkk
    have hkeys : k ∈ keys := by rw [← hk]; exact hkk
    show T.stack ((L1.members ++ L2.members).map fun m => m.leaf k) L1.sd
      ≈ₜ T.cat2 (T.stack (L1.members.map fun m => m.leaf k) L1.sd) (T.stack (L2.members.map fun m => m.leaf k) L2.sd) L1.sd
    rw [List.map_append, hsd]
    exact cat2_stack_same _ _ (b ++ feat k) L1.sd (leaf_shapes L1 b keys feat hU1 k hkeys)
      (leaf_shapes L2 b keys feat hU2 k hkeys) (by simpa using hne1) (by simpa using hne2)
      (by simp; have := hU1.hsd; omega)


theorem cat_shape_other (sh1 sh2 : Shape) (n sd dim nd : Nat) (hsd : sd ≤ sh1.length) (hl : sh1.length = sh2.length)
    (hne : dim ≠ sd) (hnd1 : dim > sd → nd + 1 = dim) (hnd2 : ¬ dim > sd → nd = dim) :
    (sh1.set nd (at0 sh1 nd + at0 sh2 nd)).insertIdx sd n
      = (sh1.insertIdx sd n).set dim (at0 (sh1.insertIdx sd n) dim + at0 (sh2.insertIdx sd n) dim) := by
  have hatS : ∀ (sh : Shape), sd ≤ sh.length → at0 (sh.insertIdx sd n) dim = at0 sh nd := by
    intro sh hs
    unfold at0
    rw [List.getElem?_insertIdx]
    by_cases hgt : dim > sd
    · have h1' : ¬ dim < sd := by omega
      have := hnd1 hgt
      have e : dim - 1 = nd := by omega
      simp [h1', hne, e]
    · have h1' : dim < sd := by omega
      rw [hnd2 hgt]
      simp [h1']
  rw [hatS sh1 hsd, hatS sh2 (hl ▸ hsd)]
  apply List.ext_getElem?
  intro i
  simp only [List.getElem?_set, List.getElem?_insertIdx, List.length_set,
    List.length_insertIdx_of_le_length hsd]
  by_cases hgt : dim > sd
  · have := hnd1 hgt
    by_cases hi1 : i < sd <;> by_cases hi2 : i = sd <;> by_cases hi3 : i = dim <;>
      simp [hi1, hi2, hi3] <;> grind
  · have := hnd2 hgt
    by_cases hi1 : i < sd <;> by_cases hi2 : i = sd <;> by_cases hi3 : i = dim <;>
      simp [hi1, hi2, hi3] <;> grind

/-- `torch.cat([L1, L2], dim)` along a dim other than the common stack dim: the i-th members are
concatenated along the shifted dim; materialises to the dense cat -/
theorem cat2_refines_other [Inhabited α] (L1 L2 : Lazy α) (b1 b2 : Shape) (keys : List String) (feat : String → Shape)
    (hU1 : Uniform L1 b1 keys feat) (hU2 : Uniform L2 b2 keys feat) (hne1 : L1.members ≠ [])
    (hlen : L1.members.length = L2.members.length) (hsd : L2.sd = L1.sd) (hbl : b1.length = b2.length)
    (dim : Nat) (hdim : dim < b1.length + 1) (hne : dim ≠ L1.sd) :
    absL (⟨(L1.members.zip L2.members).map fun p => TD.cat2 p.1 p.2 (if dim > L1.sd then dim - 1 else dim), L1.sd⟩ : Lazy α)
      ≈ TD.cat2 (absL L1) (absL L2) dim := by
  have hne2 : L2.members ≠ [] := by
    intro h; rw [h] at hlen; exact hne1 (List.length_eq_zero_iff.mp hlen)
  have hB1 := absL_batch_eq L1 b1 keys feat hU1 hne1
  have hB2 := absL_batch_eq L2 b2 keys feat hU2 hne2
  obtain ⟨_, hk1⟩ := head_batch_of_uniform L1 b1 keys feat hU1 hne1
  obtain ⟨nd, hnd⟩ : ∃ nd, nd = (if dim > L1.sd then dim - 1 else dim) := ⟨_, rfl⟩
  rw [← hnd]
  have hnd1 : dim > L1.sd → nd + 1 = dim := by intro h; rw [hnd, if_pos h]; omega
  have hnd2 : ¬ dim > L1.sd → nd = dim := by intro h; rw [hnd, if_neg h]
  have hatS : ∀ (sh : Shape), L1.sd ≤ sh.length → ∀ n, at0 (sh.insertIdx L1.sd n) dim = at0 sh nd := by
    intro sh hs n
    unfold at0
    rw [List.getElem?_insertIdx]
    by_cases hgt : dim > L1.sd
    · have h1' : ¬ dim < L1.sd := by omega
      have := hnd1 hgt
      have e : dim - 1 = nd := by omega
      simp [h1', hne, e]
    · have h1' : dim < L1.sd := by omega
      rw [hnd2 hgt]
      simp [h1']
  obtain ⟨m1, r1, hm1⟩ : ∃ m r, L1.members = m :: r := by
    cases h : L1.members with
    | nil => exact absurd h hne1
    | cons m r => exact ⟨m, r, rfl⟩
  obtain ⟨m2, r2, hm2⟩ : ∃ m r, L2.members = m :: r := by
    cases h : L2.members with
    | nil => exact absurd h hne2
    | cons m r => exact ⟨m, r, rfl⟩
  have hm1b : m1.batch = b1 := hU1.hbatch m1 (by simp [hm1])
  have hm2b : m2.batch = b2 := hU2.hbatch m2 (by simp [hm2])
  have hm1k : m1.keys = keys := hU1.hkeys m1 (by simp [hm1])
  refine ⟨?_, ?_, ?_⟩
  · show ((((L1.members.zip L2.members).map fun p => TD.cat2 p.1 p.2 nd).head?.map TD.batch).getD []).insertIdx L1.sd
      ((L1.members.zip L2.members).map fun p => TD.cat2 p.1 p.2 nd).length
      = (absL L1).batch.set dim (at0 (absL L1).batch dim + at0 (absL L2).batch dim)
    rw [hB1, hB2, hsd]
    have hrl : (L1.members.zip L2.members).length = L1.members.length := by simp [hlen]
    simp only [List.length_map, hrl]
    rw [← hlen, ← cat_shape_other b1 b2 L1.members.length L1.sd dim nd hU1.hsd hbl hne hnd1 hnd2]
    simp only [hm1, hm2, List.zip_cons_cons, List.map_cons, List.head?_cons, Option.map_some, Option.getD_some,
      TD.cat2, hm1b, hm2b]
  · show ((((L1.members.zip L2.members).map fun p => TD.cat2 p.1 p.2 nd).head?.map TD.keys).getD []) = (absL L1).keys
    simp only [hm1, hm2, List.zip_cons_cons, List.map_cons, List.head?_cons, Option.map_some, Option.getD_some, TD.cat2]
    show m1.keys = (L1.members.head?.map TD.keys).getD []
    rw [hm1]; simp
  · intro k hkk
    have hkeys : k ∈ keys := by
      have : (absL (⟨(L1.members.zip L2.members).map fun p => TD.cat2 p.1 p.2 nd, L1.sd⟩ : Lazy α)).keys = keys := by
        show ((((L1.members.zip L2.members).map fun p => TD.cat2 p.1 p.2 nd).head?.map TD.keys).getD []) = keys
        simp only [hm1, hm2, List.zip_cons_cons, List.map_cons, List.head?_cons, Option.map_some, Option.getD_some, TD.cat2]
        exact hm1k
      rwa [this] at hkk
    show T.stack (((L1.members.zip L2.members).map fun p => TD.cat2 p.1 p.2 nd).map fun m => m.leaf k) L1.sd
      ≈ₜ T.cat2 (T.stack (L1.members.map fun m => m.leaf k) L1.sd) (T.stack (L2.members.map fun m => m.leaf k) L2.sd) dim
    have hlist : (((L1.members.zip L2.members).map fun p => TD.cat2 p.1 p.2 nd).map fun m => m.leaf k)
        = ((L1.members.map fun m => m.leaf k).zip (L2.members.map fun m => m.leaf k)).map fun p => T.cat2 p.1 p.2 nd := by
      rw [List.map_map, List.zip_map, List.map_map]
      rfl
    rw [hlist, hsd]
    have := cat2_stack_other (L1.members.map fun m => m.leaf k) (L2.members.map fun m => m.leaf k)
      (b1 ++ feat k) (b2 ++ feat k) L1.sd dim (leaf_shapes L1 b1 keys feat hU1 k hkeys)
      (leaf_shapes L2 b2 keys feat hU2 k hkeys) (by simpa using hne1) (by simpa using hlen)
      (by simp; omega) (by simp; have := hU1.hsd; omega) (by simp; omega) hne
    rw [← hnd] at this
    exact this

/-- **`torch.cat([L1, L2], dim)` of two lazy stacks (no `out`) is the dense cat** — along the
common stack dim (member lists appended) and along any other dim (i-th members concatenated
along the shifted dim), for every rank, member count and sign spelling of `dim`. -/
theorem cat_refines2 [Inhabited α] (L1 L2 : Lazy α) (b1 b2 : Shape) (keys : List String) (feat : String → Shape)
    (hU1 : Uniform L1 b1 keys feat) (hU2 : Uniform L2 b2 keys feat) (hne1 : L1.members ≠ []) (hne2 : L2.members ≠ [])
    (hbl : b1.length = b2.length) (dim : Int) (L' : Lazy α) (h : lazyCat [L1, L2] dim = some L') :
    ∃ d : Nat, (d : Int) = (if dim < 0 then (L1.batch.length : Int) + dim else dim) ∧ d < L1.batch.length ∧
      L2.sd = L1.sd ∧
      ((d = L1.sd → b1 = b2) → (d ≠ L1.sd → L1.members.length = L2.members.length) →
        absL L' ≈ TD.cat2 (absL L1) (absL L2) d) := by
  have hB1 := absL_batch_eq L1 b1 keys feat hU1 hne1
  have hr : L1.batch.length = b1.length + 1 := by
    show (absL L1).batch.length = _
    rw [hB1, List.length_insertIdx_of_le_length hU1.hsd]
  unfold lazyCat at h
  dsimp only at h
  generalize hd : (if dim < 0 then (L1.batch.length : Int) + dim else dim) = d at h ⊢
  by_cases hrange : d ≥ (L1.batch.length : Int) ∨ d < 0
  · rw [if_pos hrange] at h; simp at h
  rw [if_neg hrange] at h
  have hsd : L2.sd = L1.sd := by
    by_cases hs : L2.sd = L1.sd
    · exact hs
    · have : ([L1, L2].any fun L => L.sd != L1.sd) = true := by simp [hs]
      rw [if_pos this] at h; simp at h
  have hany : ¬ (([L1, L2].any fun L => L.sd != L1.sd) = true) := by simp [hsd]
  rw [if_neg hany] at h
  refine ⟨d.toNat, by omega, by omega, hsd, ?_⟩
  intro hb hn
  by_cases hds : d.toNat = L1.sd
  · rw [if_pos hds] at h
    have hfl : ([L1, L2].filter fun L => L.members.length != 0).flatMap Lazy.members = L1.members ++ L2.members := by
      have h1 : (L1.members.length != 0) = true := by simpa using hne1
      have h2 : (L2.members.length != 0) = true := by simpa using hne2
      simp [List.filter_cons, h1, h2]
    rw [hfl] at h
    obtain ⟨rfl, _⟩ := lazyStack_some' _ _ _ h
    have := hb hds
    subst this
    rw [hds]
    exact cat2_refines_same L1 L2 b1 keys feat hU1 hU2 hne1 hne2 hsd
  · rw [if_neg hds] at h
    have hlen := hn hds
    have hcols : allSome ((List.range L1.members.length).map fun i =>
          (allSome ([L1, L2].map fun L => L.members[i]?)).map fun col =>
            TD.catList col (if d.toNat > L1.sd then d.toNat - 1 else d.toNat))
        = some ((L1.members.zip L2.members).map fun p => TD.cat2 p.1 p.2 (if d.toNat > L1.sd then d.toNat - 1 else d.toNat)) := by
      rw [allSome_eq_some]
      apply List.ext_getElem
      · simp [hlen]
      · intro i h1 h2
        have hi1 : i < L1.members.length := by simpa using h1
        have hi2 : i < L2.members.length := by omega
        simp [List.getElem?_eq_getElem hi1, List.getElem?_eq_getElem hi2, allSome, TD.catList]
    rw [hcols] at h
    simp only [Option.bind_some] at h
    obtain ⟨rfl, _⟩ := lazyStack_some' _ _ _ h
    exact cat2_refines_other L1 L2 b1 b2 keys feat hU1 hU2 hne1 hlen hsd hbl d.toNat (by omega) hds


theorem filter_range_getElem_inj (n : Nat) (p : Nat → Bool) (j j' : Nat)
    (hj : j < ((List.range n).filter p).length) (hj' : j' < ((List.range n).filter p).length)
    (h : ((List.range n).filter p)[j]?.getD 0 = ((List.range n).filter p)[j']?.getD 0) : j = j' := by
  have hn : ((List.range n).filter p).Nodup := List.Nodup.sublist List.filter_sublist List.nodup_range
  rw [List.getElem?_eq_getElem hj, List.getElem?_eq_getElem hj'] at h
  exact (List.getElem_inj hn).mp (by simpa using h)

/-- **Writes with a rank-1 mask on the stack dim**: the kept members, in order, receive the
successive slices of the value along `split_dim = mask_loc - num_single` (through the index
without the mask); the dense stack of the members afterwards is `dense[ix] = v`. -/
theorem setitem_refines_mask1 [Inhabited α] (L : Lazy α) (b : Shape) (keys : List String)
    (feat : String → Shape) (hU : Uniform L b keys feat) (hne0 : L.members ≠ []) (ix : List Ix)
    (hp : PlainM L.sd ix) (hne : ∀ it ∈ ix, it ≠ Ix.ell) (hadv : AtMostOneAdv ix)
    (m : T Bool) (hitem : (splitRec L.sd ix).item = some (.mask m))
    (hnd : NoDupTargets (splitRec L.sd ix).out)
    (v : TD α) (hvk : v.keys = keys) (hvl : ∀ k ∈ keys, (v.leaf k).shape = v.batch ++ feat k)
    (bd : Shape) (hbd : idxShape ix (absL L).batch = some bd)
    (L' : Lazy α) (h : lazySetCore L ix v = some L') :
    L'.sd = L.sd ∧ Uniform L' b keys feat ∧ L'.members.length = L.members.length ∧
    ∀ k ∈ keys, IsSetT ix ((absL L).leaf k) (v.leaf k) ((absL L').leaf k) := by
  obtain ⟨st', hloop, hspec⟩ := splitLoop_mask L.sd L.members.length L.batch m ix L.sd 0 {} (by simp) hp hne
    (by simpa [AtMostOneAdv] using hadv) hitem rfl
  have hrank := plainM_mask_rank1 ix L.sd m hp hitem
  obtain ⟨k, hk⟩ : ∃ k, m.shape = [k] := by
    match hm : m.shape with
    | [k] => exact ⟨k, rfl⟩
    | [] => simp [hm] at hrank
    | _ :: _ :: _ => simp [hm] at hrank
  have hcat : (st'.maskLoc : Int) - st'.numSingle = (splitRec L.sd ix).pos := by
    have := hspec.catDim; simpa using this
  have hsplitDim : st'.splitDim = ((splitRec L.sd ix).pos : Int) := by rw [hspec.splitDim, hcat]
  have hB := absL_batch_eq L b keys feat hU hne0
  have hLb : L.batch = b.insertIdx L.sd L.members.length := hB
  rw [hB] at hbd
  have hsplit := shape_splitM L.members.length ix L.sd b hU.hsd hp
  rw [hbd, hitem] at hsplit
  cases hso : idxShape (splitRec L.sd ix).out b with
  | none => simp [hso] at hsplit
  | some so =>
  simp only [hso, Option.getD_some, itemShape, Option.bind_some] at hsplit
  have hkn : k = L.members.length := by
    by_cases h' : m.shape = [L.members.length]
    · rw [hk] at h'; simpa using h'
    · simp [h'] at hsplit
  subst hkn
  have hnz := nonzero_rank1 m _ hk
  unfold lazySetCore splitIndex at h
  rw [hLb, hbd] at h
  simp only [Option.bind_some] at h
  split at h
  · simp at h
  rename_i hvb
  have hvb : v.batch = bd := by simpa using hvb
  rw [hvb] at hvl
  rw [← hLb] at h
  have hsel : (st'.sel.ids L.members.length).length ≤ m.shape.headD 0 := by
    rw [hspec.sel, hk]; simp [Sel.ids]
  simp only [hloop, Option.bind_some, hspec.hasBool, if_true, hspec.maskAt] at h
  rw [if_pos hsel] at h
  simp only [Option.bind_some, hspec.hasBool, if_true, hspec.maskAt, hk, hsplitDim,
    hspec.outWo, List.nil_append, Int.toNat_natCast] at h
  have hneg : ¬ (L.members.length ≠ L.members.length ∨ ((splitRec L.sd ix).pos : Int) < 0) := by omega
  rw [if_neg hneg] at h
  generalize hch : ((List.range L.members.length).filter fun i => m.get [i]) = chosen at h hnz
  split at h
  · simp at h
  simp only [Option.map_eq_some_iff] at h
  obtain ⟨ms', hw, rfl⟩ := h
  have hcnt : (nonzero m).length = chosen.length := by rw [hnz]; simp
  have hw' : writeAll (splitRec L.sd ix).out ((List.range chosen.length).map fun j =>
      (chosen[j]?.getD 0, v.select (splitRec L.sd ix).pos j)) L.members = some ms' := by
    rw [← hw]; congr 1
    apply List.map_congr_left
    intro j hj
    simp [List.getElem?_eq_getElem (List.mem_range.mp hj)]
  obtain ⟨h1, h2, h3⟩ := set_one_case L b keys feat hU hne0 ix hp bd hbd chosen.length
    (fun j => chosen[j]?.getD 0) (by simp [hitem]) (by simp [hitem, itemShape, hk, hcnt])
    (by
      intro x
      simp only [hitem, Option.getD_some, itemCoord, at0, List.getElem?_cons_zero, Option.getD_some]
      rw [hnz]
      by_cases hx : x < chosen.length
      · simp [List.getElem?_map, List.getElem?_eq_getElem hx]
      · simp [List.getElem?_map, List.getElem?_eq_none (show chosen.length ≤ x by omega)])
    (by
      intro j j' hj hj' heq
      rw [← hch] at hj hj' heq
      exact filter_range_getElem_inj _ _ j j' hj hj' heq)
    hnd v hvk hvl ms' hw'
  exact ⟨rfl, h1, h2, h3⟩

end TdVerif.C08
