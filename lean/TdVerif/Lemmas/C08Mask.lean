/-
  C08 — masks addressed to the stack dim (the has_bool branch of `__getitem__`).
-/
import TdVerif.Lemmas.C08ShapeOps
namespace TdVerif.C08

/-- `idx_stack_get` for the wider grammar `PlainM` -/
theorem idx_stack_getM [Inhabited α] (ms : List (T α)) (sh : Shape) (sd : Nat) (ix : List Ix)
    (hhead : (ms.head?.map T.shape).getD [] = sh) (hsd : sd ≤ sh.length) (hp : PlainM sd ix)
    (s : Shape) (hs : idxShape ix (sh.insertIdx sd ms.length) = some s) (cc : List Nat) (hcs : InB cc s) :
    (idxT ix (T.stack ms sd)).get cc =
      (ms[itemCoord ((splitRec sd ix).item.getD Ix.full) ms.length
            ((cc.drop (splitRec sd ix).pos).take ((splitRec sd ix).item.getD Ix.full).outRank)]?.getD default).get
        (idxCoord (splitRec sd ix).out sh
          (cc.take (splitRec sd ix).pos ++ cc.drop ((splitRec sd ix).pos + ((splitRec sd ix).item.getD Ix.full).outRank))) := by
  have hfit := fits_of_inB ix _ s cc hs hcs
  obtain ⟨h1, h2⟩ := coord_splitM ms.length ix sd sh cc hsd hp hfit
  simp only [T.stack_get, idxT_get, T.stack_shape, hhead, h1, h2]

/-- T-level read refinement for any stack-dim item producing ONE result dim of size `len`
(slice, absent, rank-1 integer tensor, rank-1 mask): the stack, at the result position of the
stack dim, of the members `ids 0, …, ids (len-1)` indexed by the member index. -/
theorem idx_stack_one [Inhabited α] (ms : List (T α)) (sh : Shape) (sd : Nat) (ix : List Ix)
    (hsh : ∀ m ∈ ms, m.shape = sh) (hne : ms ≠ []) (hsd : sd ≤ sh.length) (hp : PlainM sd ix)
    (s so : Shape) (hs : idxShape ix (sh.insertIdx sd ms.length) = some s)
    (hso : idxShape (splitRec sd ix).out sh = some so)
    (len : Nat) (ids : Nat → Nat) (hlen : 0 < len)
    (hrank : ((splitRec sd ix).item.getD Ix.full).outRank = 1)
    (hishape : itemShape ((splitRec sd ix).item.getD Ix.full) ms.length = some [len])
    (hmid : ∀ x, x < len → itemCoord ((splitRec sd ix).item.getD Ix.full) ms.length [x] = ids x)
    (hin : ∀ j, j < len → ids j < ms.length) :
    T.stack ((List.range len).map fun j => idxT (splitRec sd ix).out (ms[ids j]?.getD default)) (splitRec sd ix).pos
      ≈ₜ idxT ix (T.stack ms sd) := by
  have hhead := head_shape_of_all ms sh hsh hne
  have hpos := pos_leM ix sd sh so hsd hp hso
  have hmem : ∀ j, j < len → (ms[ids j]?.getD default).shape = sh := by
    intro j hj
    rw [List.getElem?_eq_getElem (hin j hj)]
    exact hsh _ (List.getElem_mem _)
  have hsplit := shape_splitM ms.length ix sd sh hsd hp
  rw [hs, hso, hishape] at hsplit
  simp only [Option.bind_some, Option.map_some, Option.some.injEq] at hsplit
  have hsins : s = so.insertIdx (splitRec sd ix).pos len := by
    rw [hsplit, insertIdx_eq_take_drop _ _ _ hpos]
  have hshape : (T.stack ((List.range len).map fun j =>
        idxT (splitRec sd ix).out (ms[ids j]?.getD default)) (splitRec sd ix).pos).shape = s := by
    rw [T.stack_shape]
    cases len with
    | zero => omega
    | succ l =>
      simp only [List.range_succ_eq_map, List.map_cons, List.head?_cons, Option.map_some,
        Option.getD_some, idxT_shape, List.length_cons, List.length_map, List.length_range]
      rw [hmem 0 (by omega), hso, hsins]
      rfl
  constructor
  · rw [hshape, idxT_shape, T.stack_shape, hhead, hs]; rfl
  · intro cc hcc
    rw [hshape] at hcc
    rw [idx_stack_getM ms sh sd ix hhead hsd hp s hs cc hcc]
    have hlt : at0 cc (splitRec sd ix).pos < len := by
      apply InB.at0_lt hcc
      rw [hsins]; simp [List.getElem?_insertIdx_self, hpos]
    have hcl : (splitRec sd ix).pos < cc.length := by
      rw [InB.length hcc, hsins, List.length_insertIdx_of_le_length hpos]; omega
    have hkk : (List.map (fun j => idxT (splitRec sd ix).out (ms[ids j]?.getD default))
        (List.range len))[at0 cc (splitRec sd ix).pos]? =
        some (idxT (splitRec sd ix).out (ms[ids (at0 cc (splitRec sd ix).pos)]?.getD default)) := by
      simp [hlt]
    rw [T.stack_get, hkk, Option.getD_some, idxT_get, hmem _ hlt, hrank, take_one_drop cc _ hcl,
      hmid _ hlt, ← List.eraseIdx_eq_take_drop_succ]

/-- what the loop leaves when the stack-dim item is a mask (has_bool) -/
structure MaskSpec (sd n : Nat) (st st' : SplitSt) (S : Split) (i : Nat) (m : T Bool) : Prop where
  hasBool : st'.hasBool = true
  maskAt : st'.out[st'.maskLoc]? = some (.mask m)
  outWo : st'.out.eraseIdx st'.maskLoc = st.out ++ S.out
  catDim : (st'.maskLoc : Int) - st'.numSingle = (i : Int) - st.numSingle + S.pos
  sel : st'.sel = .range 0 1 n
  splitDim : st'.splitDim = (st'.maskLoc : Int) - st'.numSingle

theorem splitLoop_mask (sd n : Nat) (shape : Shape) (m : T Bool) : ∀ (ix : List Ix) (rem i : Nat) (st : SplitSt),
    st.cursor + rem = sd → PlainM rem ix → (∀ it ∈ ix, it ≠ Ix.ell) →
    ix.countP Ix.isAdv ≤ 1 → (splitRec rem ix).item = some (.mask m) → i = st.out.length →
    ∃ st', splitLoop sd n shape ix i st = some st' ∧ MaskSpec sd n st st' (splitRec rem ix) i m
  | [], rem, i, st, _, _, _, _, hit, _ => by simp [splitRec] at hit
  | .none :: r, rem, i, st, hc, hp, hne, hadv, hit, hi => by
    obtain ⟨st', h1, h2⟩ := splitLoop_mask sd n shape m r rem (i + 1)
      { st with out := st.out ++ [.none], numNone := st.numNone + (if st.cursor ≤ sd then 1 else 0) }
      hc (by simpa [PlainM] using hp) (fun x hx => hne x (by simp [hx]))
      (by simpa [List.countP_cons, Ix.isAdv] using hadv) (by simpa [splitRec] using hit) (by simp [hi])
    refine ⟨st', by simpa [splitLoop, splitStep] using h1, ?_⟩
    obtain ⟨a, b, c, d, e, f⟩ := h2
    refine ⟨a, b, by simpa [splitRec] using c, ?_, e, f⟩
    simp only [splitRec] at d ⊢
    push_cast at d ⊢
    omega
  | .mask m' :: r, 0, i, st, hc, hp, hne, hadv, hit, hi => by
    have hc0 : st.cursor = sd := by omega
    simp only [splitRec, Option.some.injEq, Ix.mask.injEq] at hit
    subst hit
    have hne' : ∀ it ∈ r, it ≠ Ix.ell := fun x hx => hne x (by simp [hx])
    obtain ⟨st', h1, h2, h3⟩ := splitLoop_after sd n shape r (i + 1)
      { st with hasBool := true, sel := .range 0 1 n, out := st.out ++ [.mask m'],
                splitDim := (i : Int) - st.numSingle, maskLoc := i, maskDim := st.cursor,
                cursor := st.cursor + 1 } (by simp; omega) hne'
    refine ⟨st', by simpa [splitLoop, splitStep, hc0] using h1, ?_⟩
    obtain ⟨a, b, c, d, e, f, g, hml, hsp⟩ := h3
    simp only at a b c d e f g hml h2 hsp
    have hlen : i < st'.out.length := by rw [h2]; simp [hi]
    refine ⟨by simpa using f, ?_, ?_, ?_, by simpa using g, by rw [hsp, hml, a]⟩
    · rw [hml, h2, hi]; simp
    · rw [hml, h2, hi]
      simp only [splitRec, List.append_assoc, List.singleton_append]
      rw [List.eraseIdx_append_of_length_le (by omega)]
      simp
    · rw [hml, a]; simp [splitRec]
  | .int k :: r, 0, i, st, hc, hp, hne, hadv, hit, hi => by simp [splitRec] at hit
  | .slice a b c :: r, 0, i, st, hc, hp, hne, hadv, hit, hi => by simp [splitRec] at hit
  | .tens t :: r, 0, i, st, hc, hp, hne, hadv, hit, hi => by simp [splitRec] at hit
  | .ell :: r, 0, i, st, hc, hp, hne, hadv, hit, hi => by simp [PlainM] at hp
  | .ell :: r, rem + 1, i, st, hc, hp, hne, hadv, hit, hi => by simp [PlainM] at hp
  | .int k :: r, rem + 1, i, st, hc, hp, hne, hadv, hit, hi => by
    have hc0 : ¬ st.cursor = sd := by omega
    have hc1 : st.cursor < sd := by omega
    obtain ⟨st', h1, h2⟩ := splitLoop_mask sd n shape m r rem (i + 1)
      { st with numSingle := if st.cursor < sd then st.numSingle + 1 else st.numSingle,
                out := st.out ++ [.int k], cursor := st.cursor + 1 }
      (by simp; omega) (by simpa [PlainM] using hp) (fun x hx => hne x (by simp [hx]))
      (by simpa [List.countP_cons, Ix.isAdv] using hadv) (by simpa [splitRec] using hit) (by simp [hi])
    refine ⟨st', by simpa [splitLoop, splitStep, hc0] using h1, ?_⟩
    obtain ⟨a, b, c, d, e, f⟩ := h2
    refine ⟨a, b, by simpa [splitRec] using c, ?_, e, f⟩
    simp only [splitRec, hc1, if_true, Ix.outRank_int] at d ⊢
    push_cast at d ⊢
    omega
  | .slice x y z :: r, rem + 1, i, st, hc, hp, hne, hadv, hit, hi => by
    have hc0 : ¬ st.cursor = sd := by omega
    obtain ⟨st', h1, h2⟩ := splitLoop_mask sd n shape m r rem (i + 1)
      { st with out := st.out ++ [.slice x y z], cursor := st.cursor + 1 }
      (by simp; omega) (by simpa [PlainM] using hp) (fun x hx => hne x (by simp [hx]))
      (by simpa [List.countP_cons, Ix.isAdv] using hadv) (by simpa [splitRec] using hit) (by simp [hi])
    refine ⟨st', by simpa [splitLoop, splitStep, hc0] using h1, ?_⟩
    obtain ⟨a, b, c, d, e, f⟩ := h2
    refine ⟨a, b, by simpa [splitRec] using c, ?_, e, f⟩
    simp only [splitRec, Ix.outRank_slice] at d ⊢
    push_cast at d ⊢
    omega
  | .tens t :: r, rem + 1, i, st, hc, hp, hne, hadv, hit, hi => by
    -- a second advanced item before the mask is excluded by the grammar
    have hmem := splitRec_item_mem r rem _ (by simpa [splitRec] using hit)
    have : r.countP Ix.isAdv = 0 := by
      simp only [List.countP_cons, Ix.isAdv, if_true] at hadv; omega
    have := (List.countP_eq_zero.mp this) _ hmem
    simp [Ix.isAdv] at this
  | .mask m' :: r, rem + 1, i, st, hc, hp, hne, hadv, hit, hi => by
    have hmem := splitRec_item_mem r _ _ (by simpa [splitRec] using hit)
    have : r.countP Ix.isAdv = 0 := by
      simp only [List.countP_cons, Ix.isAdv, if_true] at hadv; omega
    have := (List.countP_eq_zero.mp this) _ hmem
    simp [Ix.isAdv] at this


/-- generic TensorDict-level read refinement for a one-dim stack item: the lazy stack (at the
result position of the stack dim) of the members `ids 0 … ids (len-1)` indexed by the member
index materialises to the dense index -/
theorem get_one_case [Inhabited α] (L : Lazy α) (b : Shape) (keys : List String) (feat : String → Shape)
    (hU : Uniform L b keys feat) (ix : List Ix) (hp : PlainM L.sd ix)
    (len : Nat) (ids : Nat → Nat)
    (hrank : ((splitRec L.sd ix).item.getD Ix.full).outRank = 1)
    (hishape : itemShape ((splitRec L.sd ix).item.getD Ix.full) L.members.length = some [len])
    (hmid : ∀ x, x < len → itemCoord ((splitRec L.sd ix).item.getD Ix.full) L.members.length [x] = ids x)
    (res : List (TD α)) (hres0 : res ≠ [])
    (hres : allSome ((List.range len).map fun j => memberIndex L (splitRec L.sd ix).out (ids j)) = some res)
    (d : TD α) (hd : (absL L).index ix = some d) :
    absL (⟨res, (splitRec L.sd ix).pos⟩ : Lazy α) ≈ d := by
  have hmap := (allSome_eq_some _ _).mp hres
  have hlen : len = res.length := by
    have := congrArg List.length hmap; simpa using this
  have hlen0 : 0 < len := by rw [hlen]; exact List.length_pos_iff.mpr hres0
  have hj : ∀ j (h : j < len), memberIndex L (splitRec L.sd ix).out (ids j) = some (res[j]'(hlen ▸ h)) := by
    intro j h
    have := congrArg (fun l => l[j]?) hmap
    simp [h, hlen ▸ h] at this
    exact this
  obtain ⟨hi0, so, hso, hr0⟩ := memberIndex_some L b keys feat hU _ _ _ (hj 0 hlen0)
  have hne : L.members ≠ [] := by intro h; simp [h] at hi0
  obtain ⟨hb, hk⟩ := head_batch_of_uniform L b keys feat hU hne
  have hjj : ∀ j (h : j < len), ∃ (hi : ids j < L.members.length),
      res[j]'(hlen ▸ h) = (L.members[ids j]).mapLeaves so (idxT (splitRec L.sd ix).out) := by
    intro j h
    obtain ⟨hi, so', hso', hr⟩ := memberIndex_some L b keys feat hU _ _ _ (hj j h)
    rw [hso] at hso'; cases hso'
    exact ⟨hi, hr⟩
  have hpos := pos_leM ix L.sd b so hU.hsd hp hso
  simp only [TD.index, Option.map_eq_some_iff] at hd
  obtain ⟨bd, hbd, rfl⟩ := hd
  have hbatch := absL_batch_eq L b keys feat hU hne
  rw [hbatch] at hbd
  have hsplit := shape_splitM L.members.length ix L.sd b hU.hsd hp
  rw [hbd, hso, hishape] at hsplit
  simp only [Option.bind_some, Option.map_some, Option.some.injEq] at hsplit
  obtain ⟨m0, rest, hres0'⟩ : ∃ m0 rest, res = m0 :: rest := by
    cases res with
    | nil => exact absurd rfl hres0
    | cons a r => exact ⟨a, r, rfl⟩
  have hm0 : m0 = (L.members[ids 0]'hi0).mapLeaves so (idxT (splitRec L.sd ix).out) := by
    have := hr0; simp only [hres0', List.getElem_cons_zero] at this; exact this
  have hkeysEq : (absL (⟨res, (splitRec L.sd ix).pos⟩ : Lazy α)).keys = keys := by
    show (res.head?.map TD.keys).getD [] = keys
    rw [hres0']
    simp only [List.head?_cons, Option.map_some, Option.getD_some, hm0, TD.mapLeaves]
    exact hU.hkeys _ (List.getElem_mem _)
  refine ⟨?_, ?_, ?_⟩
  · show ((res.head?.map TD.batch).getD []).insertIdx (splitRec L.sd ix).pos res.length = bd
    rw [hsplit, ← hlen, hres0']
    simp only [List.head?_cons, Option.map_some, Option.getD_some, hm0, TD.mapLeaves]
    rw [insertIdx_eq_take_drop _ _ _ hpos]
  · rw [hkeysEq]
    show keys = (L.members.head?.map TD.keys).getD []
    rw [hk]
  · intro k hkk
    rw [hkeysEq] at hkk
    show T.stack (res.map fun m => m.leaf k) (splitRec L.sd ix).pos
        ≈ₜ idxT ix (T.stack (L.members.map fun m => m.leaf k) L.sd)
    have hms : (L.members.map fun m => m.leaf k).length = L.members.length := by simp
    have hlist : (res.map fun m => m.leaf k) = (List.range len).map fun j =>
        idxT (splitRec L.sd ix).out ((L.members.map fun m => m.leaf k)[ids j]?.getD default) := by
      apply List.ext_getElem
      · simp [hlen]
      · intro j h1 h2
        have hjl : j < len := by simpa using h2
        obtain ⟨hi, hr⟩ := hjj j hjl
        simp only [List.getElem_map, List.getElem_range, hr, TD.mapLeaves, List.getElem?_map,
          List.getElem?_eq_getElem hi, Option.map_some, Option.getD_some]
    rw [hlist]
    exact idx_stack_one (L.members.map fun m => m.leaf k) (b ++ feat k) L.sd ix
      (leaf_shapes L b keys feat hU k hkk) (by simpa using hne)
      (by simp; have := hU.hsd; omega) hp (bd ++ feat k) (so ++ feat k)
      (by rw [hms, insertIdx_append_of_le _ _ _ _ hU.hsd]; exact idxShape_append _ _ _ _ hbd)
      (idxShape_append _ _ _ _ hso) len ids hlen0 hrank (by rw [hms]; exact hishape)
      (by rw [hms]; exact hmid) (by intro j hjl; rw [hms]; exact (hjj j hjl).1)

theorem plainM_mask_rank1 : ∀ (ix : List Ix) (sd : Nat) (m : T Bool), PlainM sd ix →
    (splitRec sd ix).item = some (.mask m) → m.shape.length = 1
  | [], sd, m, _, h => by simp [splitRec] at h
  | .none :: r, sd, m, hp, h => plainM_mask_rank1 r sd m (by simpa [PlainM] using hp) (by simpa [splitRec] using h)
  | .mask m' :: r, 0, m, hp, h => by
    simp only [splitRec, Option.some.injEq, Ix.mask.injEq] at h
    subst h; simpa [PlainM] using hp
  | .int k :: r, 0, m, hp, h => by simp [splitRec] at h
  | .slice a b c :: r, 0, m, hp, h => by simp [splitRec] at h
  | .tens t :: r, 0, m, hp, h => by simp [splitRec] at h
  | .ell :: r, 0, m, hp, h => by simp [PlainM] at hp
  | .int k :: r, sd + 1, m, hp, h => plainM_mask_rank1 r sd m (by simpa [PlainM] using hp) (by simpa [splitRec] using h)
  | .slice a b c :: r, sd + 1, m, hp, h => plainM_mask_rank1 r sd m (by simpa [PlainM] using hp) (by simpa [splitRec] using h)
  | .tens t :: r, sd + 1, m, hp, h => plainM_mask_rank1 r sd m (by simpa [PlainM] using hp) (by simpa [splitRec] using h)
  | .ell :: r, sd + 1, m, hp, h => by simp [PlainM] at hp
  | .mask m' :: r, sd + 1, m, hp, h => by
    simp only [PlainM] at hp
    exact plainM_mask_rank1 r _ m hp.2.2 (by simpa [splitRec] using h)

/-- on a valid index the unvalidated helper `_getitem_batch_size` computes torch's result shape -/
theorem getitemBatchSize_eq : ∀ (ix : List Ix) (sh s : Shape), idxShape ix sh = some s →
    getitemBatchSize ix sh = some s
  | [], sh, s, h => by simpa [idxShape, getitemBatchSize] using h
  | .none :: r, sh, s, h => by
    simp only [idxShape, Option.map_eq_some_iff] at h
    obtain ⟨s', hs', rfl⟩ := h
    simp [getitemBatchSize, getitemBatchSize_eq r sh s' hs']
  | .ell :: r, sh, s, h => by simp [idxShape] at h
  | .mask m :: r, sh, s, h => by
    simp only [idxShape] at h
    split at h
    · simp only [Option.map_eq_some_iff] at h
      obtain ⟨s', hs', rfl⟩ := h
      simp [getitemBatchSize, getitemBatchSize_eq r _ s' hs']
    · simp at h
  | .int _ :: _, [], _, h => by simp [idxShape] at h
  | .slice .. :: _, [], _, h => by simp [idxShape] at h
  | .tens _ :: _, [], _, h => by simp [idxShape] at h
  | .int i :: r, d :: sh, s, h => by
    simp only [idxShape] at h
    split at h
    · simp [getitemBatchSize, getitemBatchSize_eq r sh s h]
    · simp at h
  | .slice a b c :: r, d :: sh, s, h => by
    simp only [idxShape, sliceNorm] at h
    simp only [getitemBatchSize]
    cases hi : SliceSpec.indices a b c d with
    | error e => simp [hi] at h
    | ok p =>
      obtain ⟨s0, e0, st⟩ := p
      simp only [hi] at h ⊢
      split at h
      · simp only [Option.map_eq_some_iff] at h
        obtain ⟨s', hs', rfl⟩ := h
        simp [getitemBatchSize_eq r sh s' hs']
      · simp at h
  | .tens t :: r, d :: sh, s, h => by
    simp only [idxShape] at h
    split at h
    · simp only [Option.map_eq_some_iff] at h
      obtain ⟨s', hs', rfl⟩ := h
      simp [getitemBatchSize, getitemBatchSize_eq r sh s' hs']
    · simp at h

theorem allCoords_one (n : Nat) : allCoords [n] = (List.range n).map fun i => [i] := by
  simp only [allCoords, List.map_cons, List.map_nil]
  induction (List.range n) with
  | nil => rfl
  | cons a l ih => simp [List.flatMap_cons, ih]

theorem nonzero_rank1 (m : T Bool) (n : Nat) (hm : m.shape = [n]) :
    nonzero m = ((List.range n).filter fun i => m.get [i]).map fun i => [i] := by
  unfold nonzero
  rw [hm, allCoords_one, List.filter_map]
  rfl

/-- what a read must satisfy: an empty lazy stack (nothing selected) only has a batch size to
compare; any other result materialises to the dense result -/
def ReadOK [Inhabited α] (r : LRes α) (d : TD α) : Prop :=
  match r with
  | .empty bb => bb = d.batch
  | r => absR r ≈ d

/-- **Reads, stage 3a**: a rank-1 boolean mask addressed to the stack dim (ints, slices, None
around it).  `lazy[ix]` is the lazy stack of the members the mask keeps (each indexed by the
remaining items), stacked at `mask_loc - num_single`; it materialises to `dense[ix]`.  When the
mask keeps nothing the result is an empty lazy stack whose batch size is the dense one. -/
theorem getitem_refines_mask1 [Inhabited α] (L : Lazy α) (b : Shape) (keys : List String)
    (feat : String → Shape) (hU : Uniform L b keys feat) (hne0 : L.members ≠ []) (ix : List Ix)
    (hp : PlainM L.sd ix) (hne : ∀ it ∈ ix, it ≠ Ix.ell) (hadv : AtMostOneAdv ix)
    (m : T Bool) (hitem : (splitRec L.sd ix).item = some (.mask m))
    (r : LRes α) (hr : lazyGetCore L ix = some r)
    (d : TD α) (hd : (absL L).index ix = some d) :
    ReadOK r d := by
  obtain ⟨st', hloop, hspec⟩ := splitLoop_mask L.sd L.members.length L.batch m ix L.sd 0 {} (by simp) hp hne
    (by simpa [AtMostOneAdv] using hadv) hitem rfl
  have hrank := plainM_mask_rank1 ix L.sd m hp hitem
  obtain ⟨k, hk⟩ : ∃ k, m.shape = [k] := by
    match hm : m.shape with
    | [k] => exact ⟨k, rfl⟩
    | [] => simp [hm] at hrank
    | _ :: _ :: _ => simp [hm] at hrank
  have hcat : (st'.maskLoc : Int) - st'.numSingle = (splitRec L.sd ix).pos := by
    have := hspec.catDim; simpa using this
  have hB := absL_batch_eq L b keys feat hU hne0
  -- the dense side
  have hd' := hd
  simp only [TD.index, Option.map_eq_some_iff] at hd'
  obtain ⟨bd, hbd, hdd⟩ := hd'
  rw [hB] at hbd
  have hsplit := shape_splitM L.members.length ix L.sd b hU.hsd hp
  rw [hbd, hitem] at hsplit
  cases hso : idxShape (splitRec L.sd ix).out b with
  | none => simp [hso] at hsplit
  | some so =>
  simp only [hso, Option.getD_some, itemShape, Option.bind_some] at hsplit
  have hkn : k = L.members.length := by
    by_cases h : m.shape = [L.members.length]
    · rw [hk] at h; simpa using h
    · simp [h] at hsplit
  subst hkn
  simp only [hk, if_true, Option.map_some, Option.some.injEq] at hsplit
  have hnz := nonzero_rank1 m _ hk
  -- unfold the lazy side
  unfold lazyGetCore splitIndex at hr
  simp only [hloop, Option.bind_some, hspec.hasBool, if_true, hspec.maskAt] at hr
  have hsel : (st'.sel.ids L.members.length).length ≤ m.shape.headD 0 := by
    rw [hspec.sel, hk]; simp [Sel.ids]
  simp only [hsel, if_true, Option.bind_some, hspec.hasBool, hspec.maskAt, hcat] at hr
  have hneg : ¬ (((splitRec L.sd ix).pos : Int) < 0) := by omega
  simp only [hneg, if_false, hk, ne_eq, not_true_eq_false, Int.toNat_natCast, hspec.outWo,
    List.nil_append] at hr
  generalize hch : ((List.range L.members.length).filter fun i => m.get [i]) = chosen at hr hnz
  cases hres : allSome (chosen.map fun i => (L.members[i]?).bind fun mm => mm.index (splitRec L.sd ix).out) with
  | none => rw [hres] at hr; simp at hr
  | some res =>
    rw [hres] at hr
    simp only [Option.bind_some] at hr
    have hcnt : (nonzero m).length = chosen.length := by rw [hnz]; simp
    cases res with
    | nil =>
      -- nothing kept: only the batch size
      simp only [Option.map_eq_some_iff] at hr
      obtain ⟨bsz, hbsz, rfl⟩ := hr
      have hgbs := getitemBatchSize_eq ix L.batch bd (by show idxShape ix (absL L).batch = _; rw [hB]; exact hbd)
      rw [hgbs] at hbsz
      simp only [Option.some.injEq] at hbsz
      subst hbsz
      have hch0 : chosen = [] := by
        have := congrArg List.length ((allSome_eq_some _ _).mp hres)
        simpa using this
      have hpos := pos_leM ix L.sd b so hU.hsd hp hso
      show (bd.eraseIdx (splitRec L.sd ix).pos).insertIdx (splitRec L.sd ix).pos 0 = d.batch
      rw [← hdd]
      show _ = bd
      rw [hsplit, hcnt, hch0]
      simp only [List.length_nil]
      rw [← insertIdx_eq_take_drop _ _ _ hpos, List.eraseIdx_insertIdx_self]
    | cons r0 rrest =>
      simp only [Option.some.injEq] at hr
      subst hr
      show absL (⟨r0 :: rrest, (splitRec L.sd ix).pos⟩ : Lazy α) ≈ d
      apply get_one_case L b keys feat hU ix hp chosen.length (fun j => chosen[j]?.getD 0)
        (by simp [hitem]) (by simp [hitem, itemShape, hk, hcnt])
        (by
          intro x hx
          simp only [hitem, Option.getD_some, itemCoord, at0, List.getElem?_cons_zero, Option.getD_some]
          rw [hnz]
          simp [List.getElem?_map, List.getElem?_eq_getElem hx])
        (r0 :: rrest) (by simp) _ d hd
      rw [← hres]
      congr 1
      apply List.ext_getElem
      · simp
      · intro j h1 h2
        simp only [List.length_map, List.length_range] at h1
        simp [memberIndex_eq, List.getElem?_eq_getElem h1]


/-- `convert_ellipsis_to_idx` leaves no Ellipsis behind and adds only full slices -/
theorem convertEllipsis_spec (ix ix' : List Ix) (rank : Nat) (h : convertEllipsis ix rank = some ix') :
    (∀ it ∈ ix', it ≠ Ix.ell) ∧ ix'.countP Ix.isAdv = ix.countP Ix.isAdv := by
  unfold convertEllipsis at h
  simp only [] at h
  split at h
  · rename_i h0
    simp only [Option.some.injEq] at h
    subst h
    refine ⟨?_, rfl⟩
    intro it hit heq
    subst heq
    have : 0 < ix.countP Ix.isEll := List.countP_pos_iff.mpr ⟨_, hit, rfl⟩
    omega
  · rename_i h0
    split at h
    · simp at h
    split at h
    · simp at h
    rename_i hone
    split at h
    · simp at h
    simp only [Option.some.injEq] at h
    subst h
    have hcnt : ix.countP Ix.isEll = 1 := by omega
    -- the position of the single Ellipsis
    have hfind : ix.findIdx Ix.isEll < ix.length := by
      apply List.findIdx_lt_length_of_exists
      have : 0 < ix.countP Ix.isEll := by omega
      obtain ⟨x, hx, hxe⟩ := List.countP_pos_iff.mp this
      exact ⟨x, hx, hxe⟩
    generalize hs : ix.findIdx Ix.isEll = start at *
    have hsplit : ix = ix.take start ++ ix[start] :: ix.drop (start + 1) := by
      rw [List.getElem_cons_drop, List.take_append_drop]
    have hell : Ix.isEll ix[start] = true := by
      subst hs; exact List.findIdx_getElem
    have hbefore : ∀ it ∈ ix.take start, Ix.isEll it = false := by
      intro it hit
      obtain ⟨j, hj, rfl⟩ := List.getElem_of_mem hit
      simp only [List.length_take] at hj
      rw [List.getElem_take]
      have := List.not_of_lt_findIdx (p := Ix.isEll) (xs := ix) (i := j) (by omega)
      simpa using this
    have hafter : ∀ it ∈ ix.drop (start + 1), Ix.isEll it = false := by
      have hc := congrArg (List.countP Ix.isEll) hsplit
      rw [List.countP_append, List.countP_cons, hell, hcnt] at hc
      simp only [if_true] at hc
      have h0' : (ix.drop (start + 1)).countP Ix.isEll = 0 := by omega
      intro it hit
      have := (List.countP_eq_zero.mp h0') it hit
      simpa using this
    have htake : (List.drop (start + 1) ix).take (List.drop (start + 1) ix).length = List.drop (start + 1) ix :=
      List.take_length
    rw [htake]
    constructor
    · intro it hit heq
      subst heq
      simp only [List.mem_append, List.mem_replicate] at hit
      rcases hit with (h1 | h1) | h1
      · have := hbefore _ h1; simp [Ix.isEll] at this
      · simp [Ix.full] at h1
      · have := hafter _ h1; simp [Ix.isEll] at this
    · have hadv0 : Ix.isAdv ix[start] = false := by
        cases hx : ix[start] <;> simp [hx, Ix.isEll] at hell <;> simp [Ix.isAdv]
      have hc := congrArg (List.countP Ix.isAdv) hsplit
      rw [List.countP_append, List.countP_cons, hadv0] at hc
      rw [hc]
      simp [List.countP_append, List.countP_replicate, Ix.full, Ix.isAdv]

theorem PlainM.toPlain : ∀ (ix : List Ix) (sd : Nat), PlainM sd ix →
    (∀ m, (splitRec sd ix).item ≠ some (.mask m)) → Plain sd ix
  | [], _, _, _ => trivial
  | .none :: r, sd, h, hn => by
    simpa [Plain] using PlainM.toPlain r sd (by simpa [PlainM] using h) (by simpa [splitRec] using hn)
  | .int _ :: _, 0, _, _ => by simp [Plain]
  | .slice .. :: _, 0, _, _ => by simp [Plain]
  | .tens _ :: _, 0, _, _ => by simp [Plain]
  | .mask m :: _, 0, _, hn => by exact absurd (by simp [splitRec]) (hn m)
  | .ell :: _, 0, h, _ => by simp [PlainM] at h
  | .int _ :: r, sd + 1, h, hn => by
    simpa [Plain] using PlainM.toPlain r sd (by simpa [PlainM] using h) (by simpa [splitRec] using hn)
  | .slice .. :: r, sd + 1, h, hn => by
    simpa [Plain] using PlainM.toPlain r sd (by simpa [PlainM] using h) (by simpa [splitRec] using hn)
  | .tens _ :: r, sd + 1, h, hn => by
    simpa [Plain] using PlainM.toPlain r sd (by simpa [PlainM] using h) (by simpa [splitRec] using hn)
  | .ell :: _, sd + 1, h, _ => by simp [PlainM] at h
  | .mask m :: r, sd + 1, h, hn => by
    simp only [PlainM] at h
    exact ⟨h.1, h.2.1, PlainM.toPlain r _ h.2.2 (by simpa [splitRec] using hn)⟩

/-- **Reads, all proved stages with Ellipsis**: `lazy[index]` (Ellipsis expanded against the
batch rank exactly as the dense stack does) materialises to `dense[index]`, for every index of
the grammar whose mask — if it touches the stack dim — is a rank-1 mask addressed to it. -/
theorem getitem_refines_all [Inhabited α] (L : Lazy α) (b : Shape) (keys : List String)
    (feat : String → Shape) (hU : Uniform L b keys feat) (hne0 : L.members ≠ []) (ix : List Ix)
    (hadv : AtMostOneAdv ix)
    (hp : ∀ ix', convertEllipsis ix L.batch.length = some ix' → PlainM L.sd ix')
    (r : LRes α) (hr : lazyGet L ix = some r)
    (d : TD α) (hd : (absL L).getitem ix = some d) :
    ReadOK r d := by
  unfold lazyGet at hr
  unfold TD.getitem at hd
  rw [show (absL L).batch = L.batch from rfl] at hd
  cases hc : convertEllipsis ix L.batch.length with
  | none => simp [hc] at hr
  | some ix' =>
    simp only [hc, Option.bind_some] at hr hd
    obtain ⟨hnoell, hcount⟩ := convertEllipsis_spec ix ix' _ hc
    have hadv' : AtMostOneAdv ix' := by unfold AtMostOneAdv at hadv ⊢; omega
    have hpm := hp ix' hc
    by_cases hmask : ∃ m, (splitRec L.sd ix').item = some (.mask m)
    · obtain ⟨m, hm⟩ := hmask
      exact getitem_refines_mask1 L b keys feat hU hne0 ix' hpm hnoell hadv' m hm r hr d hd
    · have hplain := PlainM.toPlain ix' L.sd hpm (fun m hm => hmask ⟨m, hm⟩)
      have := getitem_refines_core L b keys feat hU ix' hplain hnoell hadv' r hr d hd
      -- the non-mask branches never build an empty stack
      cases r with
      | empty bb =>
        exfalso
        have hB := splitLoop_before L.sd L.members.length L.batch ix' L.sd 0 {} (by simp) hplain hnoell
          (by simpa [AtMostOneAdv] using hadv') rfl rfl rfl rfl
        unfold lazyGetCore splitIndex at hr
        cases hsel : selOf L.members.length (splitRec L.sd ix').item with
        | none => simp [hB.1 hsel] at hr
        | some p =>
          obtain ⟨sel, ii, nd⟩ := p
          obtain ⟨st', hloop, hspec⟩ := hB.2 sel ii nd hsel
          simp only [hloop, Option.bind_some, hspec.hasBool, Bool.false_eq_true, if_false] at hr
          split at hr
          · split at hr
            · split at hr
              · simp at hr
              · split at hr
                · simp only [Option.map_eq_some_iff] at hr
                  obtain ⟨_, _, h⟩ := hr; cases h
                · simp only [Option.bind_eq_some_iff] at hr
                  obtain ⟨rows, _, h⟩ := hr
                  split at h
                  · simp at h
                  · split at h <;> simp at h
                · simp at hr
            · simp at hr
          · split at hr
            · split at hr
              · simp only [Option.map_eq_some_iff] at hr
                obtain ⟨_, _, h⟩ := hr; cases h
              · simp at hr
            · simp only [Option.bind_eq_some_iff, Option.map_eq_some_iff] at hr
              obtain ⟨_, _, _, _, h⟩ := hr; cases h
      | member _ => exact this
      | lazy _ => exact this
      | lazy2 _ _ => exact this

end TdVerif.C08
