/-
  `TensorDict._new_unsafe`: the compile-branch fallback to the checked constructor agrees with the unchecked eager
  constructor on what its callers pass.
-/
import TdVerif.Model.NewUnsafe

namespace TdVerif.NewUnsafe

-- lemmas ----------------------------------------------------------------------------------------

theorem distinctCount_nodup : ∀ (l : List String), l.Nodup → distinctCount l = l.length
  | [], _ => rfl
  | x :: xs, h => by
    have hx : ¬ x ∈ xs := (List.nodup_cons.1 h).1
    have ih := distinctCount_nodup xs (List.nodup_cons.1 h).2
    simp [distinctCount, hx, ih]; omega

theorem filterMap_countP : ∀ (l : List (Option String)),
    (l.filterMap id).length + l.countP (·.isNone) = l.length
  | [] => rfl
  | none :: xs => by have := filterMap_countP xs; simp; omega
  | some s :: xs => by have := filterMap_countP xs; simp; omega

theorem all_none_of_count : ∀ (l : List (Option String)), l.countP (·.isNone) = l.length → ∀ x ∈ l, x = none
  | [], _ => by simp
  | none :: xs, h => by
    intro x hx
    have h' : xs.countP (·.isNone) = xs.length := by simpa [List.countP_cons] using h
    rcases List.mem_cons.1 hx with rfl | hx
    · rfl
    · exact all_none_of_count xs h' x hx
  | some s :: xs, h => by
    have := List.countP_le_length (p := fun (o : Option String) => o.isNone) (l := xs)
    simp at h; omega

theorem eq_map_none (batch : List Nat) : ∀ (l : List (Option String)), l.length = batch.length →
    (∀ x ∈ l, x = none) → l = batch.map (fun _ => none) := by
  induction batch with
  | nil => intro l h _; simpa using h
  | cons b bs ih =>
    intro l h hall
    cases l with
    | nil => simp at h
    | cons x xs =>
      have hx : x = none := hall x (by simp)
      have := ih xs (by simpa using h) (fun y hy => hall y (by simp [hy]))
      simp [hx, ← this]

/-- on what its callers pass, the compile-branch fallback to the checked constructor builds exactly the tensordict
that the unchecked eager constructor builds -/
theorem new_unsafe_agree (src : List (String × List Nat)) (batch : List Nat) (names : Option (List (Option String)))
    (lock : Bool) (h : Pre src batch names) :
    newUnsafeCompile src batch names lock = newUnsafeEager src batch names lock := by
  obtain ⟨hsrc, hnames⟩ := h
  have hall : src.all (fun kv => hasPrefix batch kv.2) = true := by
    rw [List.all_eq_true]; exact hsrc
  unfold newUnsafeCompile newUnsafeEager
  cases names with
  | none => simp [setNames, hall]
  | some l =>
    obtain ⟨hlen, hnd⟩ := hnames l rfl
    have hcnt := filterMap_countP l
    have hdc := distinctCount_nodup _ hnd
    simp only [setNames]
    by_cases hall_none : l.countP (·.isNone) = batch.length
    · have hl : l = batch.map (fun _ => none) :=
        eq_map_none batch l hlen (all_none_of_count l (by omega))
      simp [hall_none, hall, namesProp, ← hl]
    · have h1 : distinctCount (l.filterMap id) + (if l.countP (·.isNone) > 0 then 1 else 0)
          = l.length - (l.countP (·.isNone) - 1) := by
        rw [hdc]; split <;> omega
      rw [if_neg hall_none, if_neg (by intro hne; exact hne h1), if_neg (by intro hne; exact hne hlen)]
      simp [hall, namesProp]

end TdVerif.NewUnsafe
