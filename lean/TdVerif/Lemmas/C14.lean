/-
  C14 helper lemmas: environments, one module, agreement of runs.
-/
import TdVerif.Model.C14Seq

namespace TdVerif.C14

namespace Env

theorem get?_set (e : Env) (k k' : Key) (v : V) :
    (e.set k v).get? k' = if k = k' then some v else e.get? k' := by
  induction e with
  | nil => simp [set, get?]
  | cons kv r ih =>
    obtain ⟨k0, v0⟩ := kv
    simp only [set]
    by_cases h0 : k0 = k
    · subst h0; simp only [if_true, get?]; split <;> rfl
    · simp only [h0, if_false, get?, ih]
      by_cases h1 : k0 = k'
      · subst h1; simp [Ne.symm h0]
      · simp [h1]

theorem get?_filter (e : Env) (p : Key → Bool) (k : Key) :
    Env.get? (e.filter (fun kv => p kv.1)) k = if p k then e.get? k else none := by
  induction e with
  | nil => simp [get?]
  | cons kv r ih =>
    obtain ⟨k0, v0⟩ := kv
    simp only [List.filter_cons]
    by_cases hp : p k0
    · simp only [hp, if_true, get?, ih]
      by_cases h1 : k0 = k
      · subst h1; simp [hp]
      · simp [h1]
    · simp only [hp, Bool.false_eq_true, if_false, ih, get?]
      by_cases h1 : k0 = k
      · subst h1; simp [hp]
      · simp [h1]

end Env

/-- two environments agree on the keys satisfying `P` -/
def Agree (P : Key → Prop) (e1 e2 : Env) : Prop := ∀ k, P k → e1.get? k = e2.get? k

theorem readArgs_agree {e1 e2 : Env} : ∀ (ks : List Key), (∀ k ∈ ks, e1.get? k = e2.get? k) →
    readArgs e1 ks = readArgs e2 ks
  | [], _ => rfl
  | k :: ks, h => by
    simp only [readArgs, h k (by simp), readArgs_agree ks (fun k' hk' => h k' (by simp [hk']))]

theorem readArgs_some_iff {e : Env} : ∀ (ks : List Key), (readArgs e ks).isSome ↔ ∀ k ∈ ks, (e.get? k).isSome
  | [] => by simp [readArgs]
  | k :: ks => by
    have ih := readArgs_some_iff (e := e) ks
    simp only [readArgs, List.mem_cons, forall_eq_or_imp]
    cases h1 : e.get? k <;> cases h2 : readArgs e ks <;> simp [h2] at ih ⊢ <;> exact ih

theorem writeOuts_notin (f : FnId) (args : List V) : ∀ (ks : List Key) (e : Env) (i : Nat) (k : Key),
    k ∉ ks → (writeOuts f args e ks i).get? k = e.get? k
  | [], e, i, k, _ => rfl
  | k0 :: ks, e, i, k, h => by
    simp only [List.mem_cons, not_or] at h
    simp only [writeOuts]
    split
    · exact writeOuts_notin f args ks e (i + 1) k h.2
    · rw [writeOuts_notin f args ks _ (i + 1) k h.2, Env.get?_set, if_neg (Ne.symm h.1)]

/-- the value written under an out-key does not depend on the environment written into -/
theorem writeOuts_same (f : FnId) (args : List V) : ∀ (ks : List Key) (e1 e2 : Env) (i : Nat) (k : Key),
    k ∈ ks → k ≠ sink → (writeOuts f args e1 ks i).get? k = (writeOuts f args e2 ks i).get? k
  | [], _, _, _, _, h, _ => by simp at h
  | k0 :: ks, e1, e2, i, k, h, hs => by
    simp only [writeOuts]
    by_cases h0 : k0 = sink
    · simp only [h0, if_true]
      have : k ∈ ks := by
        rcases List.mem_cons.1 h with rfl | h'
        · exact absurd h0 hs
        · exact h'
      exact writeOuts_same f args ks e1 e2 (i + 1) k this hs
    · simp only [h0, if_false]
      by_cases hk : k ∈ ks
      · exact writeOuts_same f args ks _ _ (i + 1) k hk hs
      · have hk0 : k = k0 := by
          rcases List.mem_cons.1 h with rfl | h'
          · rfl
          · exact absurd h' hk
        subst hk0
        rw [writeOuts_notin f args ks _ (i + 1) k hk, writeOuts_notin f args ks _ (i + 1) k hk,
          Env.get?_set, Env.get?_set]; simp

theorem writeOuts_has (f : FnId) (args : List V) : ∀ (ks : List Key) (e : Env) (i : Nat) (k : Key),
    (k ∈ ks ∧ k ≠ sink) ∨ (e.get? k).isSome → ((writeOuts f args e ks i).get? k).isSome
  | [], e, i, k, h => by
    rcases h with ⟨h, _⟩ | h
    · simp at h
    · exact h
  | k0 :: ks, e, i, k, h => by
    simp only [writeOuts]
    by_cases h0 : k0 = sink
    · simp only [h0, if_true]
      apply writeOuts_has f args ks e (i + 1) k
      rcases h with ⟨h, hs⟩ | h
      · left
        rcases List.mem_cons.1 h with rfl | h'
        · exact absurd h0 hs
        · exact ⟨h', hs⟩
      · right; exact h
    · simp only [h0, if_false]
      apply writeOuts_has f args ks _ (i + 1) k
      rcases h with ⟨h, hs⟩ | h
      · rcases List.mem_cons.1 h with rfl | h'
        · right; simp [Env.get?_set]
        · left; exact ⟨h', hs⟩
      · right; rw [Env.get?_set]; split <;> simp [h]

theorem runMod_inv {m : Mod} {e e' : Env} (h : runMod m e = some e') :
    ∃ args, readArgs e m.ins = some args ∧ e' = writeOuts m.f args e m.outs 0 := by
  unfold runMod at h
  split at h
  · cases h
  · rename_i args ha; injection h with h; exact ⟨args, ha, h.symm⟩

/-- a module reads only its in_keys: agreeing environments give agreeing results -/
theorem runMod_agree {P : Key → Prop} {m : Mod} {e1 e2 e1' : Env} (ha : Agree P e1 e2)
    (hins : ∀ k ∈ m.ins, P k) (h1 : runMod m e1 = some e1') :
    ∃ e2', runMod m e2 = some e2' ∧ Agree (fun k => P k ∨ (k ∈ m.outs ∧ k ≠ sink)) e1' e2' := by
  obtain ⟨args, hr, rfl⟩ := runMod_inv h1
  have hr2 : readArgs e2 m.ins = some args := by
    rw [← readArgs_agree m.ins (fun k hk => ha k (hins k hk))]; exact hr
  refine ⟨writeOuts m.f args e2 m.outs 0, by simp [runMod, hr2], ?_⟩
  intro k hk
  by_cases hko : k ∈ m.outs ∧ k ≠ sink
  · exact writeOuts_same m.f args m.outs e1 e2 0 k hko.1 hko.2
  · rcases hk with hk | hk
    · by_cases hin : k ∈ m.outs
      · have hs : k = sink := by
          by_cases hs : k = sink
          · exact hs
          · exact absurd ⟨hin, hs⟩ hko
        -- the sink is never written
        have hw : ∀ (ks : List Key) (e : Env) (i : Nat), (writeOuts m.f args e ks i).get? sink = e.get? sink := by
          intro ks
          induction ks with
          | nil => intro e i; rfl
          | cons k0 ks ih =>
            intro e i
            simp only [writeOuts]
            split
            · exact ih e (i + 1)
            · rename_i h0
              rw [ih, Env.get?_set, if_neg h0]
        subst hs
        rw [hw, hw]; exact ha _ hk
      · rw [writeOuts_notin _ _ _ _ _ _ hin, writeOuts_notin _ _ _ _ _ _ hin]; exact ha k hk
    · exact absurd hk hko


theorem runMod_frame {m : Mod} {e e' : Env} {k : Key} (h : runMod m e = some e') (hk : k ∉ m.outs) :
    e'.get? k = e.get? k := by
  obtain ⟨args, _, rfl⟩ := runMod_inv h
  exact writeOuts_notin _ _ _ _ _ _ hk

theorem runMod_has {m : Mod} {e e' : Env} {k : Key} (h : runMod m e = some e')
    (hk : (k ∈ m.outs ∧ k ≠ sink) ∨ (e.get? k).isSome) : (e'.get? k).isSome := by
  obtain ⟨args, _, rfl⟩ := runMod_inv h
  exact writeOuts_has _ _ _ _ _ _ hk

theorem run_cons_inv {m : Mod} {ms : List Mod} {e r : Env} (h : run (m :: ms) e = some r) :
    ∃ e', runMod m e = some e' ∧ run ms e' = some r := by
  simp only [run] at h
  split at h
  · cases h
  · rename_i e' he; exact ⟨e', he, h⟩

theorem run_frame : ∀ (ms : List Mod) (e r : Env) (k : Key), run ms e = some r → k ∉ allOuts ms →
    r.get? k = e.get? k
  | [], e, r, k, h, _ => by simp [run] at h; subst h; rfl
  | m :: ms, e, r, k, h, hk => by
    obtain ⟨e', h1, h2⟩ := run_cons_inv h
    simp only [allOuts, List.flatMap_cons, List.mem_append, not_or] at hk
    rw [run_frame ms e' r k h2 (by simpa [allOuts] using hk.2), runMod_frame h1 hk.1]

theorem run_append : ∀ (a b : List Mod) (e : Env), run (a ++ b) e = (run a e).bind (run b)
  | [], b, e => by simp [run]
  | m :: a, b, e => by
    simp only [List.cons_append, run]
    cases runMod m e with
    | none => simp
    | some e' => simpa using run_append a b e'

/-! ### `_compute_in_and_out_keys` -/

theorem addIns_sub (outs : List Key) : ∀ (ks acc : List Key) (k : Key), k ∈ acc → k ∈ addIns outs acc ks
  | [], acc, k, h => h
  | k0 :: ks, acc, k, h => by
    simp only [addIns]
    split
    · exact addIns_sub outs ks acc k h
    · exact addIns_sub outs ks _ k (by simp [h])

theorem addIns_covers (outs : List Key) : ∀ (ks acc : List Key) (k : Key), k ∈ ks →
    k ∈ outs ∨ k ∈ addIns outs acc ks
  | [], _, _, h => by simp at h
  | k0 :: ks, acc, k, h => by
    simp only [addIns]
    rcases List.mem_cons.1 h with rfl | h'
    · split
      · rename_i hin
        rcases List.mem_append.1 hin with h1 | h1
        · left; exact h1
        · right; exact addIns_sub outs ks acc k h1
      · right; exact addIns_sub outs ks _ k (by simp)
    · split
      · exact addIns_covers outs ks acc k h'
      · exact addIns_covers outs ks _ k h'

theorem inOutAux_ins_mono : ∀ (ms : List Mod) (ins outs : List Key) (k : Key), k ∈ ins →
    k ∈ (inOutAux ms ins outs).1
  | [], _, _, _, h => h
  | m :: ms, ins, outs, k, h => by
    simp only [inOutAux]
    exact inOutAux_ins_mono ms _ _ k (addIns_sub outs m.ins ins k h)

theorem inOutAux_outs : ∀ (ms : List Mod) (ins outs : List Key),
    (inOutAux ms ins outs).2 = outs ++ allOuts ms
  | [], _, outs => by simp [inOutAux, allOuts]
  | m :: ms, ins, outs => by
    simp only [inOutAux, inOutAux_outs ms, allOuts, List.flatMap_cons, List.append_assoc]

theorem mem_dedupLast : ∀ (l : List Key) (k : Key), k ∈ dedupLast l ↔ k ∈ l
  | [], k => by simp [dedupLast]
  | k0 :: l, k => by
    simp only [dedupLast]
    split
    · rename_i h
      rw [mem_dedupLast l k]
      constructor
      · intro h'; exact List.mem_cons_of_mem _ h'
      · intro h'
        rcases List.mem_cons.1 h' with rfl | h''
        · exact h
        · exact h''
    · simp [mem_dedupLast l k]

theorem nodup_dedupLast : ∀ (l : List Key), (dedupLast l).Nodup
  | [] => by simp [dedupLast]
  | k0 :: l => by
    simp only [dedupLast]
    split
    · exact nodup_dedupLast l
    · rename_i h
      exact List.nodup_cons.2 ⟨by rw [mem_dedupLast]; exact h, nodup_dedupLast l⟩

/-- every in_key of every module is provided: by the advertised in_keys or by an earlier out_key -/
theorem run_sufficient : ∀ (ms : List Mod) (ins outs : List Key) (e : Env),
    (∀ k ∈ (inOutAux ms ins outs).1, (e.get? k).isSome) →
    (∀ k ∈ outs, k ≠ sink → (e.get? k).isSome) →
    (∀ m ∈ ms, sink ∉ m.ins) → ∃ r, run ms e = some r
  | [], _, _, e, _, _, _ => ⟨e, rfl⟩
  | m :: ms, ins, outs, e, hF, hO, hwf => by
    simp only [inOutAux] at hF
    have hargs : (readArgs e m.ins).isSome := by
      rw [readArgs_some_iff]
      intro k hk
      rcases addIns_covers outs m.ins ins k hk with h | h
      · exact hO k h (by intro hs; subst hs; exact hwf m (by simp) hk)
      · exact hF k (inOutAux_ins_mono ms _ _ k h)
    obtain ⟨args, ha⟩ := Option.isSome_iff_exists.1 hargs
    have hm : runMod m e = some (writeOuts m.f args e m.outs 0) := by simp [runMod, ha]
    obtain ⟨r, hr⟩ := run_sufficient ms _ (outs ++ m.outs) (writeOuts m.f args e m.outs 0)
      (fun k hk => runMod_has hm (Or.inr (hF k hk)))
      (by
        intro k hk hs
        rcases List.mem_append.1 hk with h | h
        · exact runMod_has hm (Or.inr (hO k h hs))
        · exact runMod_has hm (Or.inl ⟨h, hs⟩))
      (fun m' hm' => hwf m' (by simp [hm']))
    exact ⟨r, by simp [run, hm, hr]⟩

/-- two runs from environments that agree on the advertised in_keys (and on what was written so
far) agree on the in_keys and on everything written -/
theorem run_determine : ∀ (ms : List Mod) (ins outs : List Key) (e1 e2 r1 : Env),
    Agree (fun k => k ∈ (inOutAux ms ins outs).1 ∨ (k ∈ outs ∧ k ≠ sink)) e1 e2 →
    (∀ m ∈ ms, sink ∉ m.ins) → run ms e1 = some r1 →
    ∃ r2, run ms e2 = some r2 ∧
      Agree (fun k => k ∈ (inOutAux ms ins outs).1 ∨ (k ∈ outs ++ allOuts ms ∧ k ≠ sink)) r1 r2
  | [], ins, outs, e1, e2, r1, ha, _, h => by
    simp [run] at h; subst h
    refine ⟨e2, rfl, ?_⟩
    intro k hk
    apply ha k
    simpa [allOuts, inOutAux] using hk
  | m :: ms, ins, outs, e1, e2, r1, ha, hwf, h => by
    obtain ⟨e1', h1, h2⟩ := run_cons_inv h
    simp only [inOutAux] at ha
    obtain ⟨e2', h3, ha'⟩ := runMod_agree ha (by
      intro k hk
      rcases addIns_covers outs m.ins ins k hk with h | h
      · right; exact ⟨h, by intro hs; subst hs; exact hwf m (by simp) hk⟩
      · left; exact inOutAux_ins_mono ms _ _ k h) h1
    obtain ⟨r2, h4, ha''⟩ := run_determine ms _ (outs ++ m.outs) e1' e2' r1 (by
      intro k hk
      apply ha' k
      rcases hk with hk | ⟨hk, hs⟩
      · left; left; exact hk
      · rcases List.mem_append.1 hk with h | h
        · left; right; exact ⟨h, hs⟩
        · right; exact ⟨h, hs⟩) (fun m' hm' => hwf m' (by simp [hm'])) h2
    refine ⟨r2, by simp [run, h3, h4], ?_⟩
    intro k hk
    apply ha'' k
    rcases hk with hk | ⟨hk, hs⟩
    · left; simpa only [inOutAux] using hk
    · right
      refine ⟨?_, hs⟩
      simpa [allOuts, List.append_assoc] using hk


/-! ### `select_subsequence` -/

theorem selOut_need_mono : ∀ (ms : List Mod) (need : List Key) (k : Key), k ∈ need → k ∈ (selOut ms need).2
  | [], _, _, h => h
  | m :: ms, need, k, h => by
    simp only [selOut]
    split
    · exact List.mem_append_left _ (selOut_need_mono ms need k h)
    · exact selOut_need_mono ms need k h

/-- backward slicing is sound on every sequence (overwritten keys included): the kept modules,
run from any environment agreeing on the final needed keys, reproduce the needed values -/
theorem selOut_sound : ∀ (ms : List Mod) (need : List Key) (e1 e2 r1 : Env),
    Agree (fun k => k ∈ (selOut ms need).2) e1 e2 → run ms e1 = some r1 →
    ∃ r2, run (selOut ms need).1 e2 = some r2 ∧ Agree (fun k => k ∈ need) r1 r2
  | [], need, e1, e2, r1, ha, h => by
    simp [run] at h; subst h
    exact ⟨e2, rfl, fun k hk => ha k hk⟩
  | m :: ms, need, e1, e2, r1, ha, h => by
    obtain ⟨e1', h1, h2⟩ := run_cons_inv h
    simp only [selOut] at ha ⊢
    split
    · rename_i hkeep
      simp only [hkeep, if_true] at ha
      obtain ⟨e2', h3, ha'⟩ := runMod_agree (P := fun k => k ∈ (selOut ms need).2 ++ m.ins) ha
        (fun k hk => List.mem_append_right _ hk) h1
      obtain ⟨r2, h4, ha''⟩ := selOut_sound ms need e1' e2' r1
        (fun k hk => ha' k (Or.inl (List.mem_append_left _ hk))) h2
      exact ⟨r2, by simp [run, h3, h4], ha''⟩
    · rename_i hdrop
      simp only [hdrop] at ha
      have hnot : ∀ k ∈ (selOut ms need).2, k ∉ m.outs := by
        intro k hk hin
        apply hdrop
        simp only [List.any_eq_true, decide_eq_true_eq]
        exact ⟨k, hin, hk⟩
      obtain ⟨r2, h4, ha''⟩ := selOut_sound ms need e1' e2 r1
        (fun k hk => by rw [runMod_frame h1 (hnot k hk)]; exact ha k hk) h2
      exact ⟨r2, h4, ha''⟩

/-- single assignment: no module overwrites a key it or an earlier module read, and every
(non-sink) key is written at most once -/
def SSA : List Mod → Prop
  | [] => True
  | m :: ms => (∀ k ∈ m.ins, k ∉ allOuts (m :: ms)) ∧ (∀ k ∈ m.outs, k ≠ sink → k ∉ allOuts ms) ∧ SSA ms

/-- forward slicing under single assignment: fed with the values the keys of `avail` have at the end
of the full run, the kept modules run and recompute the same values -/
theorem selIn_sound : ∀ (ms : List Mod) (avail : List Key) (e r s : Env), SSA ms →
    (∀ m ∈ ms, sink ∉ m.ins) → run ms e = some r →
    (∀ k ∈ avail, k ≠ sink → s.get? k = r.get? k) →
    ∃ s', run (selIn ms avail) s = some s' ∧
      ∀ k ∈ avail ++ allOuts (selIn ms avail), k ≠ sink → s'.get? k = r.get? k
  | [], avail, e, r, s, _, _, h, hs => by
    simp [run] at h; subst h
    exact ⟨s, rfl, by simpa [selIn, allOuts] using hs⟩
  | m :: ms, avail, e, r, s, hssa, hwf, h, hs => by
    obtain ⟨e', h1, h2⟩ := run_cons_inv h
    obtain ⟨hread, hwrite, hssa'⟩ := hssa
    have hwf' : ∀ m' ∈ ms, sink ∉ m'.ins := fun m' hm' => hwf m' (by simp [hm'])
    simp only [selIn]
    split
    · rename_i hkeep
      simp only [List.all_eq_true, decide_eq_true_eq] at hkeep
      obtain ⟨args, hargs, he'⟩ := runMod_inv h1
      -- what the module reads in the sub-run is what it read in the full run
      have hsame : readArgs s m.ins = some args := by
        rw [← hargs]
        apply readArgs_agree
        intro k hk
        have hks : k ≠ sink := by intro hsk; subst hsk; exact hwf m (by simp) hk
        rw [hs k (hkeep k hk) hks]
        exact run_frame (m :: ms) e r k h (hread k hk)
      have hm : runMod m s = some (writeOuts m.f args s m.outs 0) := by simp [runMod, hsame]
      obtain ⟨s', hrun, hall⟩ := selIn_sound ms (avail ++ m.outs) e' r (writeOuts m.f args s m.outs 0)
        hssa' hwf' h2 (by
          intro k hk hks
          by_cases hko : k ∈ m.outs
          · rw [writeOuts_same m.f args m.outs s e 0 k hko hks, ← he']
            exact (run_frame ms e' r k h2 (hwrite k hko hks)).symm
          · have hka : k ∈ avail := by
              rcases List.mem_append.1 hk with h' | h'
              · exact h'
              · exact absurd h' hko
            rw [writeOuts_notin _ _ _ _ _ _ hko]; exact hs k hka hks)
      refine ⟨s', by simp [run, hm, hrun], ?_⟩
      intro k hk hks
      apply hall k _ hks
      simpa [allOuts, List.append_assoc] using hk
    · exact selIn_sound ms avail e' r s hssa' hwf' h2 hs


/-- with the sequence's own in_keys the forward pass keeps every module -/
theorem selIn_all : ∀ (ms : List Mod) (ins outs avail : List Key),
    (∀ k ∈ (inOutAux ms ins outs).1, k ∈ avail) → (∀ k ∈ outs, k ∈ avail) → selIn ms avail = ms
  | [], _, _, _, _, _ => rfl
  | m :: ms, ins, outs, avail, hF, hO => by
    simp only [inOutAux] at hF
    have hkeep : m.ins.all (fun k => decide (k ∈ avail)) = true := by
      simp only [List.all_eq_true, decide_eq_true_eq]
      intro k hk
      rcases addIns_covers outs m.ins ins k hk with h | h
      · exact hO k h
      · exact hF k (inOutAux_ins_mono ms _ _ k h)
    simp only [selIn, hkeep, if_true]
    rw [selIn_all ms _ (outs ++ m.outs) (avail ++ m.outs)
      (fun k hk => List.mem_append_left _ (hF k hk))
      (fun k hk => by
        rcases List.mem_append.1 hk with h | h
        · exact List.mem_append_left _ (hO k h)
        · exact List.mem_append_right _ h)]

end TdVerif.C14
