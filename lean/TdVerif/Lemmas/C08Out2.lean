/-
  C08 — torch.cat of lazy stacks with out=<lazy stack>, the configurations where `out` is not
  stacked like the operands (model: Model/C08Out.lean `lazyCatOut`):
  * `cat_out_onto_stack_dim`: `out.stack_dim == dim`, operands stacked along another dim — the
    members of `out` receive the slices `L.unbind(dim)`;
  * `cat_out_other_dim`: `out.stack_dim != dim` — member `i` of `out` receives the cat of the
    sub-reads `L[(:,)*out.stack_dim + (i,)]`.
  Tensor-level facts: `stack_pieces_catList`, `stack_selcat_catList`, `idxT_full_int`.
-/
import TdVerif.Lemmas.C08Mask2Get
import TdVerif.Lemmas.C08Out
import TdVerif.Lemmas.C08Resize
import TdVerif.Lemmas.C08Perm
import TdVerif.Lemmas.C08Shape2
namespace TdVerif.C08

theorem insertIdx_eraseIdx_set (c : List Nat) (d p : Nat) (h : d < c.length) :
    (c.eraseIdx d).insertIdx d p = c.set d p := by
  apply List.ext_getElem?
  intro i
  have hl : d ≤ (c.eraseIdx d).length := by rw [List.length_eraseIdx_of_lt h]; omega
  rw [List.getElem?_insertIdx, List.getElem?_set]
  by_cases h1 : i < d
  · have : ¬ d = i := by omega
    simp [h1, this, List.getElem?_eraseIdx]
  · by_cases h2 : i = d
    · subst h2; simp [h, hl]
    · have h3 : ¬ d = i := fun hh => h2 hh.symm
      have h4 : ¬ i - 1 < d := by omega
      have h5 : i - 1 + 1 = i := by omega
      simp only [h1, h2, h3, if_false, List.getElem?_eraseIdx, h4, h5]
      try (split
           · rfl
           · rename_i hh
             have : c.length ≤ i := by rw [List.length_eraseIdx_of_lt h] at hh; omega
             simp [this])

theorem sum_map_pos_exists {β} (f : β → Nat) : ∀ (l : List β), 0 < (l.map f).sum → ∃ x ∈ l, 0 < f x
  | [], h => by simp at h
  | a :: l, h => by
    simp only [List.map_cons, List.sum_cons] at h
    by_cases ha : 0 < f a
    · exact ⟨a, by simp, ha⟩
    · obtain ⟨x, hx, hp⟩ := sum_map_pos_exists f l (by omega)
      exact ⟨x, by simp [hx], hp⟩

/-- stacking along `d`, in order, pieces that are the slices `t.unbind(d)` of every operand gives
`torch.cat(ts, d)` (the operands are indexed by any type: lazy stacks, tensors, …) -/
theorem stack_pieces_catList [Inhabited α] {ι : Type} (base : Shape) (d : Nat) (hd : d < base.length)
    (Ls : List ι) (tOf : ι → T α) (f : ι → List (T α)) (hne : Ls ≠ [])
    (hsh : ∀ x ∈ Ls, (tOf x).shape = base.set d (at0 (tOf x).shape d))
    (hlen : ∀ x ∈ Ls, (f x).length = at0 (tOf x).shape d)
    (hpiece : ∀ x ∈ Ls, ∀ p (hp : p < (f x).length), (f x)[p] ≈ₜ (tOf x).select d p)
    (hpos : 0 < (Ls.map fun x => at0 (tOf x).shape d).sum) :
    T.stack (Ls.flatMap f) d ≈ₜ T.catList (Ls.map tOf) d := by
  have hall : ∀ y ∈ Ls.flatMap f, y.shape = base.eraseIdx d := by
    intro y hy
    simp only [List.mem_flatMap] at hy
    obtain ⟨x, hx, hyx⟩ := hy
    obtain ⟨p, hp, rfl⟩ := List.getElem_of_mem hyx
    rw [(hpiece x hx p hp).1]
    show (tOf x).shape.eraseIdx d = _
    rw [hsh x hx, List.eraseIdx_set_eq]
  have hmapeq : (Ls.map fun x => (f x).length) = (Ls.map fun x => at0 (tOf x).shape d) :=
    List.map_congr_left hlen
  have hflen : (Ls.flatMap f).length = (Ls.map fun x => at0 (tOf x).shape d).sum := by
    rw [List.length_flatMap, hmapeq]
  have hfne : Ls.flatMap f ≠ [] := by
    intro hh; rw [hh] at hflen; simp at hflen; omega
  have hshape : (T.stack (Ls.flatMap f) d).shape = base.set d (Ls.map fun x => at0 (tOf x).shape d).sum := by
    rw [T.stack_shape, head_shape_of_all _ _ hall hfne, hflen]
    exact insertIdx_eraseIdx_set base d _ hd
  have hsizes : ((Ls.map tOf).map fun t => at0 t.shape d) = (Ls.map fun x => at0 (tOf x).shape d) := by
    rw [List.map_map]; rfl
  have hcs : (T.catList (Ls.map tOf) d).shape = base.set d (Ls.map fun x => at0 (tOf x).shape d).sum := by
    apply T.catList_shape base d hd (Ls.map tOf) (Ls.map fun x => at0 (tOf x).shape d) (by simpa using hne) (by simp)
    intro i h1 h2
    simp only [List.getElem_map]
    exact hsh _ (List.getElem_mem _)
  refine ⟨by rw [hshape, hcs], ?_⟩
  intro c hc
  rw [hshape] at hc
  have hcl : c.length = base.length := by rw [InB.length hc, List.length_set]
  have hdc : d < c.length := by omega
  have hk : at0 c d < (Ls.map fun x => at0 (tOf x).shape d).sum := by
    apply InB.at0_lt hc d
    simp [hd]
  rw [T.catList_get (Ls.map tOf) d c (by simpa using hne) (by rw [hsizes]; exact hk) hdc, T.stack_get, hsizes]
  obtain ⟨hb1, hb2, _⟩ := blockOf_spec (Ls.map fun x => at0 (tOf x).shape d) (at0 c d) hk
  have hfb := getElem?_flatMap_block f Ls (at0 c d) (by rw [hmapeq]; exact hk)
  rw [hmapeq] at hfb
  rw [hfb]
  generalize blockOf (Ls.map fun x => at0 (tOf x).shape d) (at0 c d) = jp at hb1 hb2 ⊢
  simp only [List.length_map] at hb1
  simp only [List.getElem?_map, List.getElem?_eq_getElem hb1, Option.map_some, Option.getD_some] at hb2 ⊢
  simp only [Option.bind_some]
  have hx : Ls[jp.1] ∈ Ls := List.getElem_mem _
  have hp : jp.2 < (f Ls[jp.1]).length := by rw [hlen _ hx]; exact hb2
  rw [List.getElem?_eq_getElem hp, Option.getD_some]
  have hpe := hpiece _ hx jp.2 hp
  have hin : InB (c.eraseIdx d) ((f Ls[jp.1])[jp.2]).shape := by
    rw [hall _ (List.mem_flatMap.mpr ⟨_, hx, List.getElem_mem _⟩)]
    have := InB.eraseIdx d hc
    rwa [List.eraseIdx_set_eq] at this
  rw [hpe.2 _ hin]
  simp only [T.select]
  rw [insertIdx_eraseIdx_set c d _ hdc]

end TdVerif.C08

namespace TdVerif.C08

theorem insertIdx_append_left {β} (l r : List β) (i : Nat) (x : β) (h : i ≤ l.length) :
    (l ++ r).insertIdx i x = l.insertIdx i x ++ r := by
  induction l generalizing i with
  | nil => have : i = 0 := by simpa using h
           subst this; simp
  | cons a l ih =>
    cases i with
    | zero => simp
    | succ i => simp only [List.cons_append, List.insertIdx_succ_cons]; rw [ih i (by simpa using h)]

theorem head_of_all {β γ} (g : β → γ) (z v : γ) (l : List β) (hne : l ≠ []) (h : ∀ y ∈ l, g y = v) :
    (l.head?.map g).getD z = v := by
  cases l with
  | nil => exact absurd rfl hne
  | cons a _ => simpa using h a (by simp)

/-- leaf shapes of the dense stack: the stack's batch size followed by the feature dims -/
theorem absL_leaf_shape' [Inhabited α] (L : Lazy α) (b : Shape) (keys : List String) (feat : String → Shape)
    (hU : Uniform L b keys feat) (hne : L.members ≠ []) (k : String) (hk : k ∈ keys) :
    ((absL L).leaf k).shape = L.batch ++ feat k := by
  rw [absL_leaf_shape L b keys feat hU hne k hk]
  have hB : L.batch = b.insertIdx L.sd L.members.length := absL_batch_eq L b keys feat hU hne
  rw [hB, insertIdx_append_left _ _ _ _ hU.hsd]

theorem absL_keys [Inhabited α] (L : Lazy α) (b : Shape) (keys : List String) (feat : String → Shape)
    (hU : Uniform L b keys feat) (hne : L.members ≠ []) : (absL L).keys = keys :=
  head_of_all TD.keys [] keys L.members hne hU.hkeys

/-- **`torch.cat([L1, …, Lk], dim, out=O)` with `O` stacked along the cat dim and the operands
stacked along ANOTHER (common) dim**: the members of `O`, in order, receive the slices
`Lj.unbind(dim)` of the operands; `O` then materialises to the dense cat. -/
theorem cat_out_onto_stack_dim [Inhabited α] (L0 : Lazy α) (rest : List (Lazy α)) (keys : List String)
    (feat : String → Shape) (base : Shape) (d : Nat)
    (hU : ∀ L ∈ L0 :: rest, (∃ b, Uniform L b keys feat) ∧ L.members ≠ [] ∧
      L.batch = base.set d (at0 L.batch d))
    (out : Lazy α) (dim : Int) (out' : Lazy α)
    (hd : (if dim < 0 then (L0.batch.length : Int) + dim else dim) = (d : Int))
    (hne : d ≠ L0.sd) (hout : out.sd = d)
    (hpos : 0 < ((L0 :: rest).map fun L => at0 L.batch d).sum)
    (h : lazyCatOut (L0 :: rest) dim out = some out') :
    out'.sd = out.sd ∧ out'.members.length = out.members.length ∧
      absL out' ≈ TD.catList ((L0 :: rest).map absL) d := by
  unfold lazyCatOut at h
  dsimp only at h
  rw [hd] at h
  split at h
  · simp at h
  rename_i hrange
  split at h
  · simp at h
  rename_i hany
  have hsds : ∀ L ∈ L0 :: rest, L.sd = L0.sd := by
    intro L hL
    by_cases hs : L.sd = L0.sd
    · exact hs
    · exact absurd (List.any_eq_true.mpr ⟨L, hL, by simpa using hs⟩) hany
  split at h
  · simp at h
  simp only [Int.toNat_natCast] at h
  rw [if_neg (by rw [hout]; simp)] at h
  split at h
  · simp at h
  rename_i hplen
  simp only [Option.some.injEq] at h
  subst h
  have hdb : d < base.length := by
    obtain ⟨_, _, hb0⟩ := hU L0 (by simp)
    have : d < L0.batch.length := by
      have h1 : ¬ ((d : Int) ≥ (L0.batch.length : Int) ∨ (d : Int) < 0) := hrange
      omega
    rw [hb0, List.length_set] at this
    exact this
  generalize hLs : L0 :: rest = Ls at *
  have hLne : Ls ≠ [] := by rw [← hLs]; simp
  -- the pieces of one operand
  let P : Lazy α → List (TD α) := fun L => (lazyUnbind L d).map absR
  have hPlen : ∀ L ∈ Ls, (P L).length = at0 L.batch d := by
    intro L hL
    have : d ≠ L.sd := by rw [hsds L hL]; exact hne
    simp only [P, lazyUnbind, if_neg this, List.length_map, List.length_range, at0]
  have hdL : ∀ L ∈ Ls, d < L.batch.length := by
    intro L hL
    rw [(hU L hL).2.2, List.length_set]; exact hdb
  have hPpiece : ∀ L ∈ Ls, ∀ p (hp : p < (P L).length),
      (P L)[p] ≈ (absL L).mapLeaves ((absL L).batch.eraseIdx d) (fun t => t.select d p) := by
    intro L hL p hp
    obtain ⟨⟨b, hUb⟩, hne0, _⟩ := hU L hL
    have hdsd : d ≠ L.sd := by rw [hsds L hL]; exact hne
    obtain ⟨r, hr, hrr⟩ := unbind_refines L b keys feat hUb hne0 d (hdL L hL) hdsd p
      (by rw [hPlen L hL] at hp; exact hp)
    have : (P L)[p] = absR r := by
      have h1 : (P L)[p]? = some (absR r) := by simp only [P, List.getElem?_map, hr, Option.map_some]
      rw [List.getElem?_eq_getElem hp] at h1
      exact Option.some.inj h1
    rw [this]; exact hrr
  have hflat : (Ls.flatMap P).length = (Ls.map fun L => at0 L.batch d).sum := by
    rw [List.length_flatMap]; congr 1; exact List.map_congr_left hPlen
  have hfne : Ls.flatMap P ≠ [] := by
    intro hh; rw [hh] at hflat; simp at hflat; omega
  have hmem : ∀ y ∈ Ls.flatMap P, y.batch = base.eraseIdx d ∧ y.keys = keys := by
    intro y hy
    simp only [List.mem_flatMap] at hy
    obtain ⟨L, hL, hyL⟩ := hy
    obtain ⟨p, hp, rfl⟩ := List.getElem_of_mem hyL
    obtain ⟨⟨b, hUb⟩, hne0, hbb⟩ := hU L hL
    have := hPpiece L hL p hp
    refine ⟨?_, ?_⟩
    · rw [this.1]
      show (absL L).batch.eraseIdx d = _
      show L.batch.eraseIdx d = _
      rw [hbb, List.eraseIdx_set_eq]
    · rw [this.2.1]
      exact absL_keys L b keys feat hUb hne0
  refine ⟨rfl, (Decidable.not_not.mp hplen).symm ▸ rfl, ?_⟩
  show stackTD (Ls.flatMap P) out.sd ≈ _
  rw [hout]
  obtain ⟨La, Lr, hLar⟩ : ∃ La Lr, Ls = La :: Lr := by
    cases Ls with
    | nil => exact absurd rfl hLne
    | cons a r => exact ⟨a, r, rfl⟩
  have hkeysR : (TD.catList (Ls.map absL) d).keys = keys := by
    rw [hLar, List.map_cons, TD.catList_keys]
    obtain ⟨⟨b, hUb⟩, hne0, _⟩ := hU La (by rw [hLar]; simp)
    exact absL_keys La b keys feat hUb hne0
  refine ⟨?_, ?_, ?_⟩
  · -- batch sizes
    show ((List.head? (Ls.flatMap P)).map TD.batch |>.getD []).insertIdx d (Ls.flatMap P).length = _
    rw [head_of_all TD.batch [] (base.eraseIdx d) _ hfne (fun y hy => (hmem y hy).1), hflat,
      insertIdx_eraseIdx_set base d _ hdb, TD.catList_batch _ d (by simpa using hLne)]
    symm
    have := T.catList_shape (α := α) base d hdb ((Ls.map absL).map fun t => (⟨t.batch, fun _ => default⟩ : T α))
      (Ls.map fun L => at0 L.batch d) (by simpa using hLne) (by simp)
      (by
        intro i h1 h2
        simp only [List.getElem_map]
        exact (hU _ (List.getElem_mem _)).2.2)
    exact this
  · show ((List.head? (Ls.flatMap P)).map TD.keys |>.getD []) = _
    rw [head_of_all TD.keys [] keys _ hfne (fun y hy => (hmem y hy).2), hkeysR]
  · intro k hk
    have hk' : k ∈ keys := by
      have : (stackTD (Ls.flatMap P) d).keys = keys :=
        head_of_all TD.keys [] keys _ hfne (fun y hy => (hmem y hy).2)
      rw [this] at hk; exact hk
    show T.stack ((Ls.flatMap P).map fun m => m.leaf k) d ≈ₜ _
    rw [TD.catList_leaf _ d k (by simpa using hLne), List.map_map, List.map_flatMap]
    have hshape : ∀ L ∈ Ls, ((absL L).leaf k).shape = L.batch ++ feat k := by
      intro L hL
      obtain ⟨⟨b, hUb⟩, hne0, _⟩ := hU L hL
      exact absL_leaf_shape' L b keys feat hUb hne0 k hk'
    have hat : ∀ L ∈ Ls, at0 ((absL L).leaf k).shape d = at0 L.batch d := by
      intro L hL
      rw [hshape L hL]
      simp only [at0]
      rw [List.getElem?_append_left (hdL L hL)]
    apply stack_pieces_catList (base ++ feat k) d (by simp; omega) Ls (fun L => (absL L).leaf k)
      (fun L => (P L).map fun m => m.leaf k) hLne
    · intro L hL
      show ((absL L).leaf k).shape = _
      rw [hat L hL, hshape L hL, List.set_append_left _ _ hdb]
      congr 1
      exact (hU L hL).2.2
    · intro L hL
      rw [List.length_map, hPlen L hL, hat L hL]
    · intro L hL p hp
      have hp' : p < (P L).length := by simpa using hp
      have hpe := hPpiece L hL p hp'
      have hkk : k ∈ ((P L)[p]).keys := by
        rw [(hmem _ (List.mem_flatMap.mpr ⟨L, hL, List.getElem_mem _⟩)).2]; exact hk'
      have := hpe.2.2 k hkk
      simp only [List.getElem_map]
      exact this
    · have : (Ls.map fun L => at0 ((absL L).leaf k).shape d) = (Ls.map fun L => at0 L.batch d) :=
        List.map_congr_left hat
      rw [this]; exact hpos

end TdVerif.C08

namespace TdVerif.C08

theorem normInt_nat (i d : Nat) (h : i < d) : normInt (i : Int) d = some i := by
  unfold normInt
  rw [if_pos ⟨by omega, by omega⟩]
  simp

/-- `x[:, …, :, i]` (k full slices): shape -/
theorem idxShape_full_int : ∀ (k : Nat) (sh : Shape) (i : Nat), k < sh.length → i < at0 sh k →
    idxShape (List.replicate k Ix.full ++ [.int (i : Int)]) sh = some (sh.eraseIdx k)
  | 0, d :: sh, i, _, hi => by
    have hi' : i < d := by simpa [at0] using hi
    simp [idxShape, normInt_nat i d hi']
  | k + 1, d :: sh, i, hk, hi => by
    have ih := idxShape_full_int k sh i (by simpa using hk) (by simpa [at0] using hi)
    simp only [List.replicate_succ, List.cons_append, Ix.full, idxShape, sliceNorm_full]
    simp only [Ix.full] at ih
    simp [ih]
  | _, [], _, hk, _ => by simp at hk

/-- `x[:, …, :, i]` (k full slices): coordinates -/
theorem idxCoord_full_int : ∀ (k : Nat) (sh : Shape) (i : Nat) (c : List Nat), k < sh.length → i < at0 sh k →
    k ≤ c.length →
    idxCoord (List.replicate k Ix.full ++ [.int (i : Int)]) sh c = c.insertIdx k i
  | 0, d :: sh, i, c, _, hi, _ => by
    have hi' : i < d := by simpa [at0] using hi
    simp [idxCoord, normInt_nat i d hi']
  | k + 1, d :: sh, i, [], _, _, hc => by simp at hc
  | k + 1, d :: sh, i, c0 :: c, hk, hi, hc => by
    have ih := idxCoord_full_int k sh i c (by simpa using hk) (by simpa [at0] using hi) (by simpa using hc)
    simp only [List.replicate_succ, List.cons_append, Ix.full, idxCoord, sliceNormD_full, List.tail_cons]
    simp only [Ix.full] at ih
    rw [ih]
    simp [sliceAt, at0]
  | _, [], _, _, hk, _, _ => by simp at hk

theorem idxT_full_int (k i : Nat) (t : T α) (hk : k < t.shape.length) (hi : i < at0 t.shape k) :
    idxT (List.replicate k Ix.full ++ [.int (i : Int)]) t ≈ₜ t.select k i := by
  refine ⟨?_, ?_⟩
  · simp [idxT, T.select, idxShape_full_int k t.shape i hk hi]
  · intro c hc
    simp only [idxT, idxShape_full_int k t.shape i hk hi, Option.getD_some] at hc
    have hl : k ≤ c.length := by
      rw [InB.length hc, List.length_eraseIdx_of_lt hk]; omega
    simp only [idxT, T.select, idxCoord_full_int k t.shape i c hk hi hl]

end TdVerif.C08

namespace TdVerif.C08

theorem InB_set : ∀ (c : List Nat) (s : Shape) (k p y : Nat), InB c s → p < y → InB (c.set k p) (s.set k y)
  | [], [], _, _, _, _, _ => by simp [InB]
  | [], _ :: _, _, _, _, h, _ => by simp [InB] at h
  | _ :: _, [], _, _, _, h, _ => by simp [InB] at h
  | c0 :: c, a :: s, 0, p, y, h, hp => by
    simp only [List.set_cons_zero, InB] at h ⊢
    exact ⟨hp, h.2⟩
  | c0 :: c, a :: s, k + 1, p, y, h, hp => by
    simp only [List.set_cons_succ, InB] at h ⊢
    exact ⟨h.1, InB_set c s k p y h.2 hp⟩

/-- stacking along `o` the cats (along the shifted dim) of the slices `t.select(o, i)` of the
operands gives `torch.cat(ts, d)` — the columns may be any pieces equal to those slices -/
theorem stack_selcat_catList [Inhabited α] (base : Shape) (d o sub n : Nat) (hd : d < base.length)
    (ho : o < base.length) (hne : d ≠ o) (hs1 : d > o → sub + 1 = d) (hs2 : ¬ d > o → sub = d)
    (hn : at0 base o = n) (hnpos : 0 < n)
    (ts : List (T α)) (hts : ts ≠ [])
    (hsh : ∀ t ∈ ts, t.shape = base.set d (at0 t.shape d))
    (cols : Nat → List (T α)) (hcl : ∀ i < n, (cols i).length = ts.length)
    (hcol : ∀ i < n, ∀ j (h1 : j < (cols i).length) (h2 : j < ts.length), (cols i)[j] ≈ₜ (ts[j]).select o i) :
    T.stack ((List.range n).map fun i => T.catList (cols i) sub) o ≈ₜ T.catList ts d := by
  have hsubl : sub < (base.eraseIdx o).length := by
    rw [List.length_eraseIdx_of_lt ho]
    by_cases h : d > o
    · have := hs1 h; omega
    · have := hs2 h; omega
  have hcolshape : ∀ i < n, ∀ j (h1 : j < (cols i).length) (h2 : j < ts.length),
      ((cols i)[j]).shape = (base.eraseIdx o).set sub (at0 (ts[j]).shape d) := by
    intro i hi j h1 h2
    rw [(hcol i hi j h1 h2).1]
    show (ts[j]).shape.eraseIdx o = _
    rw [hsh _ (List.getElem_mem _)]
    have h3 : at0 (base.set d (at0 (ts[j]).shape d)) d = at0 (ts[j]).shape d := by simp [at0, hd]
    rw [h3]
    exact eraseIdx_set_other base o d sub _ hne hs1 hs2
  have hpiece_shape : ∀ i < n, (T.catList (cols i) sub).shape
      = (base.eraseIdx o).set sub (ts.map fun t => at0 t.shape d).sum := by
    intro i hi
    apply T.catList_shape (base.eraseIdx o) sub hsubl (cols i) (ts.map fun t => at0 t.shape d)
    · intro hh; have := hcl i hi; rw [hh] at this
      exact hts (List.length_eq_zero_iff.mp this.symm)
    · rw [List.length_map, hcl i hi]
    · intro j h1 h2
      simp only [List.getElem_map]
      exact hcolshape i hi j h1 (by simpa using h2)
  have hshape : (T.stack ((List.range n).map fun i => T.catList (cols i) sub) o).shape
      = base.set d (ts.map fun t => at0 t.shape d).sum := by
    rw [T.stack_shape]
    have hall : ∀ y ∈ ((List.range n).map fun i => T.catList (cols i) sub),
        y.shape = (base.eraseIdx o).set sub (ts.map fun t => at0 t.shape d).sum := by
      intro y hy
      simp only [List.mem_map, List.mem_range] at hy
      obtain ⟨i, hi, rfl⟩ := hy
      exact hpiece_shape i hi
    rw [head_shape_of_all _ _ hall (by simp; omega), List.length_map, List.length_range]
    rw [set_insertIdx_other (base.eraseIdx o) n o d sub _ (by rw [List.length_eraseIdx_of_lt ho]; omega) hne hs1 hs2]
    rw [← hn, insertIdx_eraseIdx_self base o ho]
  have hcs : (T.catList ts d).shape = base.set d (ts.map fun t => at0 t.shape d).sum := by
    apply T.catList_shape base d hd ts (ts.map fun t => at0 t.shape d) hts (by simp)
    intro i h1 h2
    simp only [List.getElem_map]
    exact hsh _ (List.getElem_mem _)
  refine ⟨by rw [hshape, hcs], ?_⟩
  intro c hc
  rw [hshape] at hc
  have hcl' : c.length = base.length := by rw [InB.length hc, List.length_set]
  have hk : at0 c d < (ts.map fun t => at0 t.shape d).sum := by
    apply InB.at0_lt hc d; simp [hd]
  have hi : at0 c o < n := by
    apply InB.at0_lt hc o
    have hdo : ¬ d = o := hne
    simp only [List.getElem?_set, hdo, if_false]
    rw [← hn]; simp [at0, ho]
  rw [T.catList_get ts d c hts hk (by omega), T.stack_get]
  rw [List.getElem?_map, List.getElem?_range hi]
  simp only [Option.map_some, Option.getD_some]
  -- the inner cat
  have hc' : InB (c.eraseIdx o) ((base.eraseIdx o).set sub (ts.map fun t => at0 t.shape d).sum) := by
    have := InB.eraseIdx o hc
    rwa [eraseIdx_set_other base o d sub _ hne hs1 hs2] at this
  have hat : at0 (c.eraseIdx o) sub = at0 c d := at0_eraseIdx_other c o d sub hne hs1 hs2
  have hsizes : ((cols (at0 c o)).map fun t => at0 t.shape sub) = (ts.map fun t => at0 t.shape d) := by
    apply List.ext_getElem
    · simp [hcl _ hi]
    · intro j h1 h2
      simp only [List.length_map] at h1 h2
      simp only [List.getElem_map]
      rw [hcolshape _ hi j h1 h2]
      simp [at0, hsubl]
  have hcne : cols (at0 c o) ≠ [] := by
    intro hh; have := hcl _ hi; rw [hh] at this
    exact hts (List.length_eq_zero_iff.mp this.symm)
  rw [T.catList_get (cols (at0 c o)) sub (c.eraseIdx o) hcne (by rw [hsizes, hat]; exact hk)
    (by rw [InB.length hc', List.length_set]; exact hsubl), hsizes, hat]
  obtain ⟨hb1, hb2, _⟩ := blockOf_spec (ts.map fun t => at0 t.shape d) (at0 c d) hk
  generalize blockOf (ts.map fun t => at0 t.shape d) (at0 c d) = jp at hb1 hb2 ⊢
  simp only [List.length_map] at hb1
  simp only [List.getElem?_map, List.getElem?_eq_getElem hb1, Option.map_some, Option.getD_some] at hb2
  have hb1' : jp.1 < (cols (at0 c o)).length := by rw [hcl _ hi]; exact hb1
  rw [List.getElem?_eq_getElem hb1', List.getElem?_eq_getElem hb1]
  simp only [Option.getD_some]
  have hpe := hcol _ hi jp.1 hb1' hb1
  have hin : InB ((c.eraseIdx o).set sub jp.2) ((cols (at0 c o))[jp.1]).shape := by
    rw [hcolshape _ hi jp.1 hb1' hb1]
    have := InB_set _ _ sub jp.2 (at0 (ts[jp.1]).shape d) hc' hb2
    rwa [List.set_set] at this
  rw [hpe.2 _ hin]
  simp only [T.select]
  rw [set_insertIdx_other (c.eraseIdx o) (at0 c o) o d sub _
    (by rw [List.length_eraseIdx_of_lt (by omega)]; omega) hne hs1 hs2,
    insertIdx_eraseIdx_self c o (by omega)]

end TdVerif.C08

namespace TdVerif.C08

theorem plain_full_int : ∀ (k sd : Nat) (i : Int), Plain sd (List.replicate k Ix.full ++ [.int i])
  | 0, 0, i => by simp [Plain]
  | 0, sd + 1, i => by simp [Plain]
  | k + 1, 0, i => by simp [List.replicate_succ, Plain, Ix.full]
  | k + 1, sd + 1, i => by
    simp only [List.replicate_succ, List.cons_append, Ix.full, Plain]
    exact plain_full_int k sd i

/-- the sub-read `L[:, …, :, i]` (`o` full slices) of a lazy stack materialises to slice `i` along
`o` of the dense stack -/
theorem get_full_int_refines [Inhabited α] (L : Lazy α) (b : Shape) (keys : List String)
    (feat : String → Shape) (hU : Uniform L b keys feat) (hne0 : L.members ≠ []) (o i : Nat)
    (ho : o < L.batch.length) (hi : i < at0 L.batch o) (r : LRes α)
    (hr : lazyGetCore L (List.replicate o Ix.full ++ [.int (i : Int)]) = some r) :
    (absR r).batch = L.batch.eraseIdx o ∧ (absR r).keys = keys ∧
      ∀ k ∈ keys, (absR r).leaf k ≈ₜ ((absL L).leaf k).select o i := by
  have hidx : (absL L).index (List.replicate o Ix.full ++ [.int (i : Int)])
      = some ((absL L).mapLeaves (L.batch.eraseIdx o) (idxT (List.replicate o Ix.full ++ [.int (i : Int)]))) := by
    unfold TD.index
    show (idxShape _ L.batch).map _ = _
    rw [idxShape_full_int o L.batch i ho hi]
    rfl
  have hkey := getitem_refines_core L b keys feat hU _ (plain_full_int o L.sd i)
    (by
      intro it hit
      simp only [List.mem_append, List.mem_replicate, List.mem_singleton] at hit
      rcases hit with ⟨_, rfl⟩ | rfl <;> simp [Ix.full])
    (by simp [AtMostOneAdv, List.countP_append, List.countP_replicate, Ix.full, Ix.isAdv])
    r hr _ hidx
  have hk0 : (absL L).keys = keys := absL_keys L b keys feat hU hne0
  refine ⟨hkey.1, by rw [hkey.2.1]; exact hk0, ?_⟩
  intro k hk
  have hkk : k ∈ (absR r).keys := by rw [hkey.2.1]; show k ∈ (absL L).keys; rw [hk0]; exact hk
  refine T.Eqv.trans (hkey.2.2 k hkk) ?_
  show idxT _ ((absL L).leaf k) ≈ₜ _
  have hs := absL_leaf_shape' L b keys feat hU hne0 k hk
  apply idxT_full_int
  · rw [hs, List.length_append]; omega
  · rw [hs]; simp only [at0]; rw [List.getElem?_append_left ho]; exact hi


/-- the batch size as a value-free tensor (to reuse tensor-level shape lemmas) -/
def TD.bt [Inhabited α] (m : TD α) : T α := ⟨m.batch, fun _ => default⟩

theorem stackTD_batch_bt [Inhabited α] (ms : List (TD α)) (sd : Nat) :
    (stackTD ms sd).batch = (T.stack (ms.map TD.bt) sd).shape := by
  cases ms <;> simp [stackTD, T.stack, TD.bt]

/-- **`torch.cat([L1, …, Lk], dim, out=O)` with `O` stacked along a dim OTHER than the cat dim**:
member `i` of `O` receives `torch.cat([Lj[(:,)*O.stack_dim + (i,)] for j], sub_dim)`; `O` then
materialises to the dense cat. -/
theorem cat_out_other_dim [Inhabited α] (L0 : Lazy α) (rest : List (Lazy α)) (keys : List String)
    (feat : String → Shape) (base : Shape) (d : Nat)
    (hU : ∀ L ∈ L0 :: rest, (∃ b, Uniform L b keys feat) ∧ L.members ≠ [] ∧
      L.batch = base.set d (at0 L.batch d))
    (out : Lazy α) (dim : Int) (out' : Lazy α)
    (hd : (if dim < 0 then (L0.batch.length : Int) + dim else dim) = (d : Int))
    (hout : out.sd ≠ d) (ho : out.sd < out.batch.length) (hmpos : out.members ≠ [])
    (h : lazyCatOut (L0 :: rest) dim out = some out') :
    out'.sd = out.sd ∧ out'.members.length = out.members.length ∧
      absL out' ≈ TD.catList ((L0 :: rest).map absL) d := by
  unfold lazyCatOut at h
  dsimp only at h
  rw [hd] at h
  split at h
  · simp at h
  rename_i hrange
  split at h
  · simp at h
  split at h
  · simp at h
  rename_i hob
  simp only [Int.toNat_natCast] at h hob
  rw [if_pos hout] at h
  have hob : out.batch = L0.batch.set d ((L0 :: rest).map fun L => at0 L.batch d).sum := Decidable.not_not.mp hob
  have hdb : d < base.length := by
    obtain ⟨_, _, hb0⟩ := hU L0 (by simp)
    have : d < L0.batch.length := by
      have h1 : ¬ ((d : Int) ≥ (L0.batch.length : Int) ∨ (d : Int) < 0) := hrange
      omega
    rw [hb0, List.length_set] at this
    exact this
  have hb0 := (hU L0 (by simp)).2.2
  have hob' : out.batch = base.set d ((L0 :: rest).map fun L => at0 L.batch d).sum := by
    rw [hob, hb0, List.set_set]
  have hob_len : out.batch.length = base.length := by rw [hob', List.length_set]
  have hobase : out.sd < base.length := by omega
  -- the member count of `out` is the size of the operands along `out.sd`
  have hm : at0 base out.sd = out.members.length := by
    have h1 : at0 out.batch out.sd = at0 base out.sd := by
      rw [hob']; simp only [at0]
      rw [List.getElem?_set]
      have : ¬ d = out.sd := fun hh => hout hh.symm
      simp [this]
    rw [← h1]
    show at0 (((out.members.head?.map TD.batch).getD []).insertIdx out.sd out.members.length) out.sd = _
    have hle : out.sd ≤ ((out.members.head?.map TD.batch).getD []).length := by
      apply Decidable.byContradiction
      intro hgt
      have hlen : out.batch.length = ((out.members.head?.map TD.batch).getD []).length := by
        show (((out.members.head?.map TD.batch).getD []).insertIdx out.sd out.members.length).length = _
        rw [List.insertIdx_of_length_lt (by omega)]
      omega
    simp [at0, List.getElem?_insertIdx_self, hle]
  have hnpos : 0 < out.members.length := by
    cases hmm : out.members with
    | nil => exact absurd hmm hmpos
    | cons _ _ => simp
  generalize hn : out.members.length = n at *
  generalize hLs : L0 :: rest = Ls at *
  have hLne : Ls ≠ [] := by rw [← hLs]; simp
  generalize hsubd : (if d < out.sd then d else d - 1) = sub at h
  have hs1 : d > out.sd → sub + 1 = d := by intro hh; rw [← hsubd, if_neg (by omega)]; omega
  have hs2 : ¬ d > out.sd → sub = d := by intro hh; rw [← hsubd, if_pos (by omega)]
  have hdne : d ≠ out.sd := fun hh => hout hh.symm
  -- unroll the model
  simp only [Option.map_eq_some_iff] at h
  obtain ⟨ms, hms, rfl⟩ := h
  obtain ⟨hmslen, hmsi⟩ := allSome_map_getElem _ _ _ hms
  simp only [List.length_range] at hmslen hmsi
  let ixOf : Nat → List Ix := fun i => List.replicate out.sd Ix.full ++ [.int (i : Int)]
  let C : Nat → List (TD α) := fun i => Ls.map fun L => ((lazyGetCore L (ixOf i)).map absR).getD default
  have hcolfacts : ∀ i (hi : i < n), ms[i]'(by omega) = TD.catList (C i) sub ∧
      ∀ L ∈ Ls, ∃ r, lazyGetCore L (ixOf i) = some r := by
    intro i hi
    have := hmsi i (by omega) hi
    simp only [List.getElem_range, Option.map_eq_some_iff] at this
    obtain ⟨col, hcol, hmi⟩ := this
    obtain ⟨hcl, hci⟩ := allSome_map_getElem _ _ _ hcol
    have hall : ∀ L ∈ Ls, ∃ r, lazyGetCore L (ixOf i) = some r := by
      intro L hL
      obtain ⟨j, hj, rfl⟩ := List.getElem_of_mem hL
      have := hci j (by omega) hj
      simp only [Option.map_eq_some_iff] at this
      obtain ⟨r, hr, _⟩ := this
      exact ⟨r, hr⟩
    refine ⟨?_, hall⟩
    rw [← hmi]
    congr 1
    apply List.ext_getElem
    · simp [C, hcl]
    · intro j h1 h2
      have := hci j h1 (by omega)
      simp only [C, List.getElem_map]
      show col[j] = (Option.map absR (lazyGetCore Ls[j] (ixOf i))).getD default
      rw [this]; rfl
  have hms_eq : ms = (List.range n).map fun i => TD.catList (C i) sub := by
    apply List.ext_getElem
    · simp [hmslen]
    · intro i h1 h2
      simp only [List.getElem_map, List.getElem_range]
      exact (hcolfacts i (by omega)).1
  -- every column entry is the slice of the dense operand
  have hbo : ∀ L ∈ Ls, out.sd < L.batch.length ∧ at0 L.batch out.sd = n := by
    intro L hL
    have hbL := (hU L hL).2.2
    refine ⟨by rw [hbL, List.length_set]; exact hobase, ?_⟩
    rw [hbL]; simp only [at0]; rw [List.getElem?_set]
    simp only [hdne, if_false]
    exact hm
  have hCfacts : ∀ i (hi : i < n) (j : Nat) (hj : j < Ls.length),
      ((C i)[j]'(by simp [C]; exact hj)).batch = (Ls[j]).batch.eraseIdx out.sd ∧
      ((C i)[j]'(by simp [C]; exact hj)).keys = keys ∧
      ∀ k ∈ keys, ((C i)[j]'(by simp [C]; exact hj)).leaf k ≈ₜ ((absL Ls[j]).leaf k).select out.sd i := by
    intro i hi j hj
    have hL : Ls[j] ∈ Ls := List.getElem_mem _
    obtain ⟨r, hr⟩ := (hcolfacts i hi).2 _ hL
    obtain ⟨⟨b, hUb⟩, hne0, _⟩ := hU _ hL
    have := get_full_int_refines Ls[j] b keys feat hUb hne0 out.sd i (hbo _ hL).1
      (by rw [(hbo _ hL).2]; exact hi) r hr
    have he : (C i)[j]'(by simp [C]; exact hj) = absR r := by
      simp only [C, List.getElem_map]
      show (Option.map absR (lazyGetCore Ls[j] (ixOf i))).getD default = _
      rw [hr]; rfl
    rw [he]; exact this
  have hClen : ∀ i, (C i).length = Ls.length := by intro i; simp [C]
  have hLa : ∃ La Lr, Ls = La :: Lr := by
    cases Ls with
    | nil => exact absurd rfl hLne
    | cons a r => exact ⟨a, r, rfl⟩
  obtain ⟨La, Lr, hLar⟩ := hLa
  have hCne : ∀ i, C i ≠ [] := by
    intro i hh; have := hClen i; rw [hh, hLar] at this; simp at this
  have hkeysL : (stackTD ms out.sd).keys = keys := by
    rw [hms_eq]
    show (((List.range n).map fun i => TD.catList (C i) sub).head?.map TD.keys).getD [] = keys
    apply head_of_all TD.keys [] keys _ (by simp; omega)
    intro y hy
    simp only [List.mem_map, List.mem_range] at hy
    obtain ⟨i, hi, rfl⟩ := hy
    obtain ⟨c0, cr, hc0⟩ : ∃ c0 cr, C i = c0 :: cr := by
      cases hh : C i with
      | nil => exact absurd hh (hCne i)
      | cons a r => exact ⟨a, r, rfl⟩
    rw [hc0, TD.catList_keys]
    have := (hCfacts i hi 0 (by rw [hLar]; simp)).2.1
    simp only [hc0, List.getElem_cons_zero] at this
    exact this
  have hkeysR : (TD.catList (Ls.map absL) d).keys = keys := by
    rw [hLar, List.map_cons, TD.catList_keys]
    obtain ⟨⟨b, hUb⟩, hne0, _⟩ := hU La (by rw [hLar]; simp)
    exact absL_keys La b keys feat hUb hne0
  refine ⟨rfl, by rw [hmslen], ?_, ?_, ?_⟩
  · -- batch sizes, through value-free tensors
    show (stackTD ms out.sd).batch = _
    rw [stackTD_batch_bt, TD.catList_batch _ d (by simpa using hLne), hms_eq, List.map_map]
    have key := stack_selcat_catList (α := α) base d out.sd sub n hdb hobase hdne hs1 hs2 hm hnpos
      (Ls.map fun L => (absL L).bt) (by simpa using hLne)
      (by
        intro t ht
        simp only [List.mem_map] at ht
        obtain ⟨L, hL, rfl⟩ := ht
        exact (hU L hL).2.2)
      (fun i => (C i).map TD.bt) (by intro i _; simp [hClen])
      (by
        intro i hi j h1 h2
        simp only [List.length_map] at h1 h2
        simp only [List.getElem_map]
        refine ⟨?_, fun _ _ => rfl⟩
        show ((C i)[j]).batch = (Ls[j]).batch.eraseIdx out.sd
        exact (hCfacts i hi j h2).1)
    have e1 : ((List.range n).map ((fun m => TD.bt m) ∘ fun i => TD.catList (C i) sub))
        = (List.range n).map fun i => (⟨(T.catList ((C i).map TD.bt) sub).shape, fun _ => default⟩ : T α) := by
      apply List.map_congr_left
      intro i _
      simp only [Function.comp, TD.bt]
      rw [TD.catList_batch _ sub (hCne i)]
      rfl
    have e2 : (T.stack ((List.range n).map fun i => (⟨(T.catList ((C i).map TD.bt) sub).shape, fun _ => default⟩ : T α)) out.sd).shape
        = (T.stack ((List.range n).map fun i => T.catList ((C i).map TD.bt) sub) out.sd).shape := by
      simp only [T.stack_shape, List.length_map]
      congr 1
      cases n with
      | zero => omega
      | succ n' => simp [List.range_succ_eq_map]
    show (T.stack ((List.range n).map ((fun m => TD.bt m) ∘ fun i => TD.catList (C i) sub)) out.sd).shape = _
    rw [e1, e2, key.1]
    rw [List.map_map]
    rfl
  · show (stackTD ms out.sd).keys = _
    rw [hkeysL, hkeysR]
  · intro k hk
    have hk' : k ∈ keys := by
      have hk2 : k ∈ (stackTD ms out.sd).keys := hk
      rw [hkeysL] at hk2; exact hk2
    show T.stack (ms.map fun m => m.leaf k) out.sd ≈ₜ _
    rw [TD.catList_leaf _ d k (by simpa using hLne), List.map_map, hms_eq, List.map_map]
    have e1 : ((List.range n).map ((fun m : TD α => m.leaf k) ∘ fun i => TD.catList (C i) sub))
        = (List.range n).map fun i => T.catList ((C i).map fun m => m.leaf k) sub := by
      apply List.map_congr_left
      intro i _
      simp only [Function.comp]
      rw [TD.catList_leaf _ sub k (hCne i)]
    rw [e1]
    have hshape : ∀ L ∈ Ls, ((absL L).leaf k).shape = L.batch ++ feat k := by
      intro L hL
      obtain ⟨⟨b, hUb⟩, hne0, _⟩ := hU L hL
      exact absL_leaf_shape' L b keys feat hUb hne0 k hk'
    have hdL : ∀ L ∈ Ls, d < L.batch.length := by
      intro L hL; rw [(hU L hL).2.2, List.length_set]; exact hdb
    apply stack_selcat_catList (base ++ feat k) d out.sd sub n (by simp; omega) (by simp; omega) hdne hs1 hs2
      (by simp only [at0]; rw [List.getElem?_append_left hobase]; exact hm) hnpos
      (Ls.map ((fun m : TD α => m.leaf k) ∘ absL)) (by simpa using hLne)
    · intro t ht
      simp only [List.mem_map, Function.comp] at ht
      obtain ⟨L, hL, rfl⟩ := ht
      rw [hshape L hL]
      have : at0 (L.batch ++ feat k) d = at0 L.batch d := by
        simp only [at0]; rw [List.getElem?_append_left (hdL L hL)]
      rw [this, List.set_append_left _ _ hdb]
      congr 1
      exact (hU L hL).2.2
    · intro i _; simp [hClen]
    · intro i hi j h1 h2
      simp only [List.length_map] at h1 h2
      simp only [List.getElem_map, Function.comp]
      exact (hCfacts i hi j h2).2.2 k hk'

end TdVerif.C08
