/-
  C08 — one-dim resizes (narrow / repeat_interleave) and repeat through a lazy stack: generic
  commutation lemmas with a re-indexing of the member list (stack_reindex2, absL_map2), Lemma A
  (resize along another dim) and Lemma B (resize along the stack dim = re-indexed member list).
-/
import TdVerif.Model.C08Resize
import TdVerif.Lemmas.C08CatN
namespace TdVerif.C08

theorem at0_insertIdx_other (sh : Shape) (n sd dim nd : Nat) (hsd : sd ≤ sh.length)
    (hne : dim ≠ sd) (hnd1 : dim > sd → nd + 1 = dim) (hnd2 : ¬ dim > sd → nd = dim) :
    at0 (sh.insertIdx sd n) dim = at0 sh nd := by
  unfold at0
  rw [List.getElem?_insertIdx]
  by_cases hgt : dim > sd
  · have h1' : ¬ dim < sd := by omega
    have := hnd1 hgt
    have e : dim - 1 = nd := by omega
    simp [h1', hne, e]
  · have h1' : dim < sd := by omega
    rw [hnd2 hgt]
    simp [h1']

theorem eraseIdx_set_other (c : List Nat) (sd dim nd y : Nat)
    (hne : dim ≠ sd) (hnd1 : dim > sd → nd + 1 = dim) (hnd2 : ¬ dim > sd → nd = dim) :
    (c.set dim y).eraseIdx sd = (c.eraseIdx sd).set nd y := by
  apply List.ext_getElem?
  intro i
  simp only [List.getElem?_eraseIdx, List.getElem?_set, List.length_eraseIdx]
  by_cases hgt : dim > sd
  · have := hnd1 hgt
    by_cases hi1 : i < sd <;> by_cases hi3 : i = nd <;> simp [hi1, hi3] <;> grind
  · have := hnd2 hgt
    by_cases hi1 : i < sd <;> by_cases hi3 : i = nd <;> simp [hi1, hi3] <;> grind

theorem at0_eraseIdx_other (c : List Nat) (sd dim nd : Nat)
    (hne : dim ≠ sd) (hnd1 : dim > sd → nd + 1 = dim) (hnd2 : ¬ dim > sd → nd = dim) :
    at0 (c.eraseIdx sd) nd = at0 c dim := by
  unfold at0
  rw [List.getElem?_eraseIdx]
  by_cases hgt : dim > sd
  · have := hnd1 hgt
    have : ¬ nd < sd := by omega
    simp [this]; congr 2
  · have := hnd2 hgt
    have : nd < sd := by omega
    simp [this]; congr 2

theorem at0_set_other (c : List Nat) (a b y : Nat) (h : a ≠ b) : at0 (c.set a y) b = at0 c b := by
  simp [at0, List.getElem?_set, h]

end TdVerif.C08

namespace TdVerif.C08

/-- generic commutation with a re-indexing of the MEMBERS too: output member `j` is `φ` of input
member `σ j`; the dense operation `Φ` reads the stack at `ρ c` -/
theorem stack_reindex2 [Inhabited α] (ms : List (T α)) (sh : Shape) (sd sd' n' : Nat)
    (hsh : ∀ m ∈ ms, m.shape = sh) (hne : ms ≠ []) (hn' : 0 < n')
    (σ : Nat → Nat) (hσ : ∀ j, j < n' → σ j < ms.length)
    (φ : T α → T α) (Φt : T α) (ψ ρ : List Nat → List Nat) (rs RS : Shape)
    (hφg : ∀ t ∈ ms, ∀ c, (φ t).get c = t.get (ψ c)) (hφs : ∀ t ∈ ms, (φ t).shape = rs)
    (hΦg : ∀ c, Φt.get c = (T.stack ms sd).get (ρ c)) (hΦs : Φt.shape = RS)
    (hshape : RS = rs.insertIdx sd' n')
    (hsd' : sd' ≤ rs.length)
    (hcoord : ∀ c, InB c (rs.insertIdx sd' n') →
      (ρ c).eraseIdx sd = ψ (c.eraseIdx sd') ∧ at0 (ρ c) sd = σ (at0 c sd')) :
    T.stack ((List.range n').map fun j => φ (ms[σ j]?.getD default)) sd' ≈ₜ Φt := by
  have hs1 : (T.stack ((List.range n').map fun j => φ (ms[σ j]?.getD default)) sd').shape = rs.insertIdx sd' n' := by
    rw [T.stack_shape]
    have h0 : σ 0 < ms.length := hσ 0 hn'
    have : ((List.range n').map fun j => φ (ms[σ j]?.getD default)).head? = some (φ (ms[σ 0])) := by
      cases n' with
      | zero => omega
      | succ k => simp [List.range_succ_eq_map, List.getElem?_eq_getElem h0]
    rw [this]
    simp [hφs _ (List.getElem_mem h0)]
  refine ⟨by rw [hs1, hΦs, hshape], ?_⟩
  intro c hc
  rw [hs1] at hc
  obtain ⟨h1, h2⟩ := hcoord c hc
  have hlt : at0 c sd' < n' := InB.at0_lt_of_insert c rs sd' n' hsd' hc
  have hσlt := hσ _ hlt
  rw [hΦg, T.stack_get, T.stack_get, h1, h2]
  simp only [List.getElem?_map, List.getElem?_range hlt, Option.map_some, Option.getD_some,
    List.getElem?_eq_getElem hσlt]
  exact hφg _ (List.getElem_mem _) _

end TdVerif.C08
namespace TdVerif.C08

/-- generic lifting with a re-indexing of the members: output member `j` is input member `σ j`
with every leaf mapped by `φ` -/
theorem absL_map2 [Inhabited α] (L : Lazy α) (b : Shape) (keys : List String) (feat : String → Shape)
    (hU : Uniform L b keys feat) (n' : Nat) (hn' : 0 < n') (σ : Nat → Nat)
    (hσ : ∀ j, j < n' → σ j < L.members.length) (gbb : Shape) (φ Φ : T α → T α) (sd' : Nat) (B : Shape)
    (hbatch : gbb.insertIdx sd' n' = B)
    (hleaf : ∀ k ∈ keys, T.stack ((List.range n').map fun j => φ ((L.members.map fun m => m.leaf k)[σ j]?.getD default)) sd'
      ≈ₜ Φ (T.stack (L.members.map fun m => m.leaf k) L.sd)) :
    absL (⟨(List.range n').map fun j => (L.members[σ j]?.getD default).mapLeaves gbb φ, sd'⟩ : Lazy α)
      ≈ (absL L).mapLeaves B Φ := by
  have h0 : σ 0 < L.members.length := hσ 0 hn'
  have hne0 : L.members ≠ [] := by intro h; rw [h] at h0; simp at h0
  obtain ⟨_, hk⟩ := head_batch_of_uniform L b keys feat hU hne0
  have hhead : ((List.range n').map fun j => (L.members[σ j]?.getD default).mapLeaves gbb φ).head?
      = some ((L.members[σ 0]).mapLeaves gbb φ) := by
    cases n' with
    | zero => omega
    | succ k => simp [List.range_succ_eq_map, List.getElem?_eq_getElem h0]
  have hk0 : (L.members[σ 0]).keys = keys := hU.hkeys _ (List.getElem_mem _)
  refine ⟨?_, ?_, ?_⟩
  · show (((((List.range n').map fun j => (L.members[σ j]?.getD default).mapLeaves gbb φ)).head?.map TD.batch).getD []).insertIdx sd'
      ((List.range n').map fun j => (L.members[σ j]?.getD default).mapLeaves gbb φ).length = B
    rw [hhead]; simpa [TD.mapLeaves] using hbatch
  · show ((((List.range n').map fun j => (L.members[σ j]?.getD default).mapLeaves gbb φ)).head?.map TD.keys).getD [] = (absL L).keys
    rw [hhead]
    show (L.members[σ 0]).keys = (L.members.head?.map TD.keys).getD []
    rw [hk0, hk]
  · intro k hkk
    have hkeys : k ∈ keys := by
      have : (absL (⟨(List.range n').map fun j => (L.members[σ j]?.getD default).mapLeaves gbb φ, sd'⟩ : Lazy α)).keys = keys := by
        show ((((List.range n').map fun j => (L.members[σ j]?.getD default).mapLeaves gbb φ)).head?.map TD.keys).getD [] = keys
        rw [hhead]; exact hk0
      rwa [this] at hkk
    have := hleaf k hkeys
    show T.stack ((((List.range n').map fun j => (L.members[σ j]?.getD default).mapLeaves gbb φ)).map fun m => m.leaf k) sd'
      ≈ₜ Φ (T.stack (L.members.map fun m => m.leaf k) L.sd)
    have e : (((List.range n').map fun j => (L.members[σ j]?.getD default).mapLeaves gbb φ)).map (fun m => m.leaf k)
        = (List.range n').map fun j => φ ((L.members.map fun m => m.leaf k)[σ j]?.getD default) := by
      rw [List.map_map]
      apply List.map_congr_left
      intro j hj
      have hj' := hσ j (List.mem_range.mp hj)
      simp [TD.mapLeaves, List.getElem?_eq_getElem hj']
    rw [e]; exact this

end TdVerif.C08

namespace TdVerif.C08

/-- Lemma A: a one-dim resize of the members along a dim other than the stack dim is the same
resize of the stack along the shifted dim -/
theorem dimOp_stack_other [Inhabited α] (ms : List (T α)) (sh : Shape) (sd dim nd : Nat)
    (hsh : ∀ m ∈ ms, m.shape = sh) (hne0 : ms ≠ []) (hsd : sd ≤ sh.length)
    (hne : dim ≠ sd) (hnd1 : dim > sd → nd + 1 = dim) (hnd2 : ¬ dim > sd → nd = dim)
    (ns : Nat → Nat) (f : Nat → Nat → Nat) :
    T.stack (ms.map fun m => m.dimOp nd ns f) sd ≈ₜ (T.stack ms sd).dimOp dim ns f := by
  have hhead := head_shape_of_all ms sh hsh hne0
  have hn : 0 < ms.length := List.length_pos_iff.mpr hne0
  have hat := at0_insertIdx_other sh ms.length sd dim nd hsd hne hnd1 hnd2
  have hstk : (T.stack ms sd).shape = sh.insertIdx sd ms.length := by rw [T.stack_shape, hhead]
  have key := stack_reindex2 ms sh sd sd ms.length hsh hne0 hn (fun j => j) (fun j h => h)
    (fun t => t.dimOp nd ns f) ((T.stack ms sd).dimOp dim ns f)
    (fun c => c.set nd (f (at0 sh nd) (at0 c nd))) (fun c => c.set dim (f (at0 sh nd) (at0 c dim)))
    (sh.set nd (ns (at0 sh nd))) ((sh.insertIdx sd ms.length).set dim (ns (at0 sh nd)))
    (by intro t ht c; simp [T.dimOp, hsh t ht])
    (by intro t ht; simp [T.dimOp, hsh t ht])
    (by intro c; simp [T.dimOp, hstk, hat])
    (by simp [T.dimOp, hstk, hat])
    (by rw [set_insertIdx_other sh ms.length sd dim nd _ hsd hne hnd1 hnd2])
    (by simpa using hsd)
    (by
      intro c _
      refine ⟨?_, ?_⟩
      · rw [eraseIdx_set_other c sd dim nd _ hne hnd1 hnd2, at0_eraseIdx_other c sd dim nd hne hnd1 hnd2]
      · exact at0_set_other c dim sd _ hne)
  have e : (List.range ms.length).map (fun j => (ms[j]?.getD default).dimOp nd ns f) = ms.map fun m => m.dimOp nd ns f := by
    apply List.ext_getElem
    · simp
    · intro i h1 h2
      have : i < ms.length := by simpa using h2
      simp [List.getElem?_eq_getElem this]
  rw [e] at key
  exact key

theorem eraseIdx_set_self' (c : List Nat) (sd y : Nat) : (c.set sd y).eraseIdx sd = c.eraseIdx sd := by
  apply List.ext_getElem?
  intro i
  simp only [List.getElem?_eraseIdx, List.getElem?_set]
  by_cases h : i < sd
  · have : ¬ sd = i := by omega
    simp [h, this]
  · have : ¬ sd = i + 1 := by omega
    simp [h, this]

/-- Lemma B: re-indexing the MEMBER LIST (`ns n` members, the `j`-th one being member `f n j`) is
the one-dim resize of the stack along the stack dim -/
theorem dimOp_stack_same [Inhabited α] (ms : List (T α)) (sh : Shape) (sd : Nat)
    (hsh : ∀ m ∈ ms, m.shape = sh) (hne0 : ms ≠ []) (hsd : sd ≤ sh.length)
    (ns : Nat → Nat) (f : Nat → Nat → Nat) (hpos : 0 < ns ms.length)
    (hf : ∀ j, j < ns ms.length → f ms.length j < ms.length) :
    T.stack ((List.range (ns ms.length)).map fun j => ms[f ms.length j]?.getD default) sd
      ≈ₜ (T.stack ms sd).dimOp sd ns f := by
  have hhead := head_shape_of_all ms sh hsh hne0
  have hstk : (T.stack ms sd).shape = sh.insertIdx sd ms.length := by rw [T.stack_shape, hhead]
  have hat : at0 (sh.insertIdx sd ms.length) sd = ms.length := at0_insertIdx_self sh sd _ hsd
  exact stack_reindex2 ms sh sd sd (ns ms.length) hsh hne0 hpos (f ms.length) hf
    (fun t => t) ((T.stack ms sd).dimOp sd ns f)
    (fun c => c) (fun c => c.set sd (f ms.length (at0 c sd)))
    sh ((sh.insertIdx sd ms.length).set sd (ns ms.length))
    (by intro t _ c; rfl) (by intro t ht; exact hsh t ht)
    (by intro c; simp [T.dimOp, hstk, hat])
    (by simp [T.dimOp, hstk, hat])
    (by rw [insertIdx_set_self sh sd _ _ hsd])
    hsd
    (by
      intro c hc
      have hlen : sd < c.length := by
        rw [InB.length hc, List.length_insertIdx_of_le_length hsd]; omega
      exact ⟨eraseIdx_set_self' c sd _, by simp [at0, hlen]⟩)

end TdVerif.C08
namespace TdVerif.C08

theorem TD.mapLeaves_id (m : TD α) (b : Shape) (h : m.batch = b) : m.mapLeaves b (fun t => t) = m := by
  cases m; simp_all [TD.mapLeaves]

/-- TD-level Lemma A -/
theorem dimOp_refines_other [Inhabited α] (L : Lazy α) (b : Shape) (keys : List String) (feat : String → Shape)
    (hU : Uniform L b keys feat) (hne0 : L.members ≠ []) (dim nd : Nat)
    (hne : dim ≠ L.sd) (hnd1 : dim > L.sd → nd + 1 = dim) (hnd2 : ¬ dim > L.sd → nd = dim)
    (ns : Nat → Nat) (f : Nat → Nat → Nat) :
    absL (⟨L.members.map fun m => m.dimOp nd ns f, L.sd⟩ : Lazy α) ≈ (absL L).dimOp dim ns f := by
  have hB := absL_batch_eq L b keys feat hU hne0
  have h := absL_map L b keys feat hU hne0 (fun bb => bb.set nd (ns (at0 bb nd)))
    (fun t => t.dimOp nd ns f) (fun t => t.dimOp dim ns f) L.sd
    ((absL L).batch.set dim (ns (at0 (absL L).batch dim)))
    (by
      rw [hB, at0_insertIdx_other b _ L.sd dim nd hU.hsd hne hnd1 hnd2,
        set_insertIdx_other b _ L.sd dim nd _ hU.hsd hne hnd1 hnd2])
    (by
      intro k hk
      exact dimOp_stack_other _ (b ++ feat k) L.sd dim nd (leaf_shapes L b keys feat hU k hk)
        (by simpa using hne0) (by simp; have := hU.hsd; omega) hne hnd1 hnd2 ns f)
  exact h

/-- TD-level Lemma B -/
theorem dimOp_refines_same [Inhabited α] (L : Lazy α) (b : Shape) (keys : List String) (feat : String → Shape)
    (hU : Uniform L b keys feat) (hne0 : L.members ≠ [])
    (ns : Nat → Nat) (f : Nat → Nat → Nat) (hpos : 0 < ns L.members.length)
    (hf : ∀ j, j < ns L.members.length → f L.members.length j < L.members.length) :
    absL (⟨(List.range (ns L.members.length)).map fun j => L.members[f L.members.length j]?.getD default, L.sd⟩ : Lazy α)
      ≈ (absL L).dimOp L.sd ns f := by
  have hB := absL_batch_eq L b keys feat hU hne0
  have h := absL_map2 L b keys feat hU (ns L.members.length) hpos (f L.members.length) hf b
    (fun t => t) (fun t => t.dimOp L.sd ns f) L.sd
    ((absL L).batch.set L.sd (ns (at0 (absL L).batch L.sd)))
    (by rw [hB, at0_insertIdx_self b L.sd _ hU.hsd, insertIdx_set_self b L.sd _ _ hU.hsd])
    (by
      intro k hk
      have := dimOp_stack_same (L.members.map fun m => m.leaf k) (b ++ feat k) L.sd
        (leaf_shapes L b keys feat hU k hk) (by simpa using hne0) (by simp; have := hU.hsd; omega)
        ns f (by simpa using hpos) (by simpa using hf)
      simpa using this)
  have e : ((List.range (ns L.members.length)).map fun j => (L.members[f L.members.length j]?.getD default).mapLeaves b fun t => t)
      = (List.range (ns L.members.length)).map fun j => L.members[f L.members.length j]?.getD default := by
    apply List.map_congr_left
    intro j hj
    have hj' := hf j (List.mem_range.mp hj)
    rw [List.getElem?_eq_getElem hj']
    exact TD.mapLeaves_id _ b (hU.hbatch _ (List.getElem_mem _))
  rw [e] at h
  exact h

end TdVerif.C08

namespace TdVerif.C08

theorem repeat_shape_insert (sh reps' : Shape) (sd n rd : Nat) (hsd : sd ≤ sh.length) (hsd2 : sd ≤ reps'.length) :
    (sh.insertIdx sd n).mapIdx (fun i s => s * ((reps'.insertIdx sd rd)[i]?.getD 1))
      = (sh.mapIdx fun i s => s * (reps'[i]?.getD 1)).insertIdx sd (n * rd) := by
  apply List.ext_getElem?
  intro i
  simp only [List.getElem?_mapIdx, List.getElem?_insertIdx, List.length_mapIdx]
  by_cases h1 : i < sd
  · simp [h1]
  · by_cases h2 : i = sd
    · subst h2; simp [hsd, hsd2]
    · have h3 : sd < i := by omega
      have h4 : ¬ i - 1 < sd := by omega
      simp [h1, h2]


theorem repeat_coord_erase (c sh : List Nat) (sd n k : Nat) (hsd : sd ≤ sh.length) (hk : sd ≤ k) :
    (c.mapIdx fun i x => if i < k + 1 then x % at0 (sh.insertIdx sd n) i else x).eraseIdx sd
      = (c.eraseIdx sd).mapIdx fun i x => if i < k then x % at0 sh i else x := by
  apply List.ext_getElem?
  intro i
  simp only [List.getElem?_eraseIdx, List.getElem?_mapIdx, at0, List.getElem?_insertIdx]
  by_cases h1 : i < sd
  · have : i < k + 1 := by omega
    have : i < k := by omega
    simp [h1, *]
  · have h2 : ¬ i + 1 < sd := by omega
    have h3 : ¬ i + 1 = sd := by omega
    simp [h1, h2, h3]

end TdVerif.C08

namespace TdVerif.C08

/-- Lemma R: the member list replicated `rd` times, every member repeated by `reps'`, is the
stack repeated by `reps'` with `rd` inserted at the stack dim -/
theorem repeat_stack [Inhabited α] (ms : List (T α)) (sh : Shape) (sd rd : Nat) (reps' : List Nat)
    (hsh : ∀ m ∈ ms, m.shape = sh) (hne0 : ms ≠ []) (hsd : sd ≤ sh.length) (hsd2 : sd ≤ reps'.length)
    (hrd : 0 < rd) :
    T.stack ((List.range (ms.length * rd)).map fun j => (ms[j % ms.length]?.getD default).repeat reps') sd
      ≈ₜ (T.stack ms sd).repeat (reps'.insertIdx sd rd) := by
  have hhead := head_shape_of_all ms sh hsh hne0
  have hn : 0 < ms.length := List.length_pos_iff.mpr hne0
  have hstk : (T.stack ms sd).shape = sh.insertIdx sd ms.length := by rw [T.stack_shape, hhead]
  have hlenr : (reps'.insertIdx sd rd).length = reps'.length + 1 := List.length_insertIdx_of_le_length hsd2 _
  exact stack_reindex2 ms sh sd sd (ms.length * rd) hsh hne0 (Nat.mul_pos hn hrd)
    (fun j => j % ms.length) (fun j _ => Nat.mod_lt _ hn)
    (fun t => t.repeat reps') ((T.stack ms sd).repeat (reps'.insertIdx sd rd))
    (fun c => c.mapIdx fun i x => if i < reps'.length then x % at0 sh i else x)
    (fun c => c.mapIdx fun i x => if i < reps'.length + 1 then x % at0 (sh.insertIdx sd ms.length) i else x)
    (sh.mapIdx fun i s => s * (reps'[i]?.getD 1))
    ((sh.insertIdx sd ms.length).mapIdx fun i s => s * ((reps'.insertIdx sd rd)[i]?.getD 1))
    (by intro t ht c; simp [T.repeat, hsh t ht])
    (by intro t ht; simp [T.repeat, hsh t ht])
    (by intro c; simp [T.repeat, hstk, hlenr])
    (by simp [T.repeat, hstk])
    (repeat_shape_insert sh reps' sd ms.length rd hsd hsd2)
    (by simpa using hsd)
    (by
      intro c hc
      have hlen : sd < c.length := by
        rw [InB.length hc, List.length_insertIdx_of_le_length (by simpa using hsd)]; simp; omega
      refine ⟨repeat_coord_erase c sh sd ms.length reps'.length hsd hsd2, ?_⟩
      have h1 : sd < reps'.length + 1 := by omega
      simp [at0, List.getElem?_mapIdx, List.getElem?_eq_getElem hlen, h1, List.getElem?_insertIdx_self, hsd])

end TdVerif.C08
namespace TdVerif.C08

theorem getElem?_flatten_replicate {β} (l : List β) (hl : 0 < l.length) : ∀ (r j : Nat), j < l.length * r →
    (List.replicate r l).flatten[j]? = l[j % l.length]?
  | 0, j, h => by simp at h
  | r + 1, j, h => by
    rw [List.replicate_succ, List.flatten_cons, List.getElem?_append]
    by_cases hj : j < l.length
    · simp [hj, Nat.mod_eq_of_lt hj]
    · simp only [hj, if_false]
      have h' : j - l.length < l.length * r := by
        have : l.length * (r + 1) = l.length * r + l.length := by rw [Nat.mul_succ]
        omega
      rw [getElem?_flatten_replicate l hl r (j - l.length) h']
      congr 1
      have hge : l.length ≤ j := Nat.le_of_not_lt hj
      conv => rhs; rw [← Nat.sub_add_cancel hge]
      rw [Nat.add_mod_right]

theorem getElem?_flatMap_replicate {β} (k : Nat) (hk : 0 < k) : ∀ (l : List β) (j : Nat), j < l.length * k →
    (l.flatMap fun m => List.replicate k m)[j]? = l[j / k]?
  | [], j, h => by simp at h
  | a :: l, j, h => by
    rw [List.flatMap_cons, List.getElem?_append]
    by_cases hj : j < k
    · simp [hj, Nat.div_eq_of_lt hj, List.getElem?_replicate]
    · simp only [List.length_replicate, hj, if_false]
      have hge : k ≤ j := Nat.le_of_not_lt hj
      have h' : j - k < l.length * k := by
        simp only [List.length_cons, Nat.succ_mul] at h; omega
      rw [getElem?_flatMap_replicate k hk l (j - k) h']
      have : j / k = (j - k) / k + 1 := by
        conv => lhs; rw [← Nat.sub_add_cancel hge]
        rw [Nat.add_div_right _ hk]
      rw [this, List.getElem?_cons_succ]

end TdVerif.C08
namespace TdVerif.C08

theorem normDim (r : Nat) (dim : Int) (h : ¬ ((if dim < 0 then (r : Int) + dim else dim) < 0 ∨ (if dim < 0 then (r : Int) + dim else dim) ≥ r)) :
    ∃ d : Nat, (d : Int) = (if dim < 0 then (r : Int) + dim else dim) ∧ d < r ∧
      (if dim < 0 then (r : Int) + dim else dim).toNat = d := by
  refine ⟨(if dim < 0 then (r : Int) + dim else dim).toNat, ?_, ?_, rfl⟩ <;> omega

/-- **`lazy.repeat_interleave(k, dim)`** is `dense.repeat_interleave(k, dim)` -/
theorem repeat_interleave_refines [Inhabited α] (L : Lazy α) (b : Shape) (keys : List String) (feat : String → Shape)
    (hU : Uniform L b keys feat) (hne0 : L.members ≠ []) (k : Nat) (dim : Int)
    (L' : Lazy α) (h : lazyRepeatInterleave L k dim = some L') :
    ∃ d : Nat, (d : Int) = (if dim < 0 then (L.batch.length : Int) + dim else dim) ∧ d < L.batch.length ∧
      absL L' ≈ (absL L).repeatInterleave d k := by
  unfold lazyRepeatInterleave at h
  dsimp only at h
  by_cases hr : (if dim < 0 then (L.batch.length : Int) + dim else dim) < 0 ∨ (if dim < 0 then (L.batch.length : Int) + dim else dim) ≥ L.batch.length
  · rw [if_pos hr] at h; simp at h
  rw [if_neg hr] at h
  obtain ⟨d, hd1, hd2, hd3⟩ := normDim L.batch.length dim hr
  rw [hd3] at h
  refine ⟨d, hd1, hd2, ?_⟩
  by_cases hds : d = L.sd
  · rw [if_pos hds] at h
    by_cases hk : k = 0
    · rw [if_pos hk] at h; simp at h
    rw [if_neg hk] at h
    simp only [Option.some.injEq] at h
    subst h
    have hk' : 0 < k := Nat.pos_of_ne_zero hk
    have hn : 0 < L.members.length := List.length_pos_iff.mpr hne0
    have e : (L.members.flatMap fun m => List.replicate k m)
        = (List.range (L.members.length * k)).map fun j => L.members[j / k]?.getD default := by
      apply List.ext_getElem?
      intro j
      by_cases hj : j < L.members.length * k
      · rw [getElem?_flatMap_replicate k hk' L.members j hj]
        have hjk : j / k < L.members.length := by
          apply Nat.div_lt_of_lt_mul; rw [Nat.mul_comm]; exact hj
        simp [hj, List.getElem?_eq_getElem hjk]
      · have hlen' : ∀ l : List (TD α), (l.flatMap fun m => List.replicate k m).length = l.length * k := by
          intro l
          induction l with
          | nil => simp
          | cons a r ih => simp only [List.flatMap_cons, List.length_append, List.length_replicate, ih, List.length_cons, Nat.succ_mul]; omega
        have hlen := hlen' L.members
        rw [List.getElem?_eq_none (by rw [hlen]; omega), List.getElem?_eq_none (by simp; omega)]
    rw [e, hds]
    exact dimOp_refines_same L b keys feat hU hne0 (· * k) (fun _ x => x / k) (Nat.mul_pos hn hk')
      (by intro j hj; apply Nat.div_lt_of_lt_mul; rw [Nat.mul_comm]; exact hj)
  · rw [if_neg hds] at h
    simp only [Option.some.injEq] at h
    subst h
    exact dimOp_refines_other L b keys feat hU hne0 d _ hds
      (by intro hgt; rw [if_neg (by omega)]; omega) (by intro hgt; rw [if_pos (by omega)]) _ _

end TdVerif.C08
namespace TdVerif.C08

/-- **`lazy.repeat(*reps)`** is `dense.repeat(*reps)` -/
theorem repeat_refines [Inhabited α] (L : Lazy α) (b : Shape) (keys : List String) (feat : String → Shape)
    (hU : Uniform L b keys feat) (hne0 : L.members ≠ []) (reps : List Nat)
    (L' : Lazy α) (h : lazyRepeat L reps = some L') :
    L'.sd = L.sd ∧ L'.members.length = L.members.length * at0 reps L.sd ∧ absL L' ≈ (absL L).repeat reps := by
  have hB := absL_batch_eq L b keys feat hU hne0
  have hr : L.batch.length = b.length + 1 := by
    show (absL L).batch.length = _
    rw [hB, List.length_insertIdx_of_le_length hU.hsd]
  unfold lazyRepeat at h
  by_cases hl : reps.length ≠ L.batch.length
  · rw [if_pos hl] at h; simp at h
  rw [if_neg hl] at h
  have hl' : reps.length = b.length + 1 := by rw [← hr]; exact Decidable.not_not.mp hl
  dsimp only at h
  by_cases h0 : at0 reps L.sd = 0
  · rw [if_pos h0] at h; simp at h
  rw [if_neg h0] at h
  simp only [Option.some.injEq] at h
  subst h
  have hrd : 0 < at0 reps L.sd := Nat.pos_of_ne_zero h0
  have hn : 0 < L.members.length := List.length_pos_iff.mpr hne0
  have hsdl : L.sd < reps.length := by have := hU.hsd; omega
  have hreps : (reps.eraseIdx L.sd).insertIdx L.sd (at0 reps L.sd) = reps := insertIdx_eraseIdx_self reps L.sd hsdl
  have hlen' : (reps.eraseIdx L.sd).length = b.length := by rw [List.length_eraseIdx_of_lt hsdl]; omega
  -- the member list
  have e : (List.replicate (at0 reps L.sd) (L.members.map fun m => m.repeat (reps.eraseIdx L.sd))).flatten
      = (List.range (L.members.length * at0 reps L.sd)).map fun j =>
          (L.members[j % L.members.length]?.getD default).mapLeaves
            (b.mapIdx fun i s => s * ((reps.eraseIdx L.sd)[i]?.getD 1)) (fun t => t.repeat (reps.eraseIdx L.sd)) := by
    apply List.ext_getElem?
    intro j
    have hml : (L.members.map fun m => m.repeat (reps.eraseIdx L.sd)).length = L.members.length := by simp
    by_cases hj : j < L.members.length * at0 reps L.sd
    · rw [getElem?_flatten_replicate _ (by rw [hml]; exact hn) _ j (by rw [hml]; exact hj), hml]
      have hjm : j % L.members.length < L.members.length := Nat.mod_lt _ hn
      simp only [List.getElem?_map, List.getElem?_range hj, List.getElem?_eq_getElem hjm, Option.map_some, Option.getD_some]
      congr 1
      unfold TD.repeat
      rw [hU.hbatch _ (List.getElem_mem _)]
    · have hfl : ∀ (r : Nat) (l : List (TD α)), (List.replicate r l).flatten.length = l.length * r := by
        intro r l
        induction r with
        | zero => simp
        | succ r ih => rw [List.replicate_succ, List.flatten_cons, List.length_append, ih, Nat.mul_succ]; omega
      rw [List.getElem?_eq_none (by rw [hfl, hml]; omega), List.getElem?_eq_none (by simp; omega)]
  refine ⟨rfl, ?_, ?_⟩
  · show ((List.replicate (at0 reps L.sd) (L.members.map fun m => m.repeat (reps.eraseIdx L.sd))).flatten).length = _
    rw [e]; simp
  rw [show (⟨(List.replicate (at0 reps L.sd) (L.members.map fun m => m.repeat (reps.eraseIdx L.sd))).flatten, L.sd⟩ : Lazy α)
      = ⟨(List.range (L.members.length * at0 reps L.sd)).map fun j =>
          (L.members[j % L.members.length]?.getD default).mapLeaves
            (b.mapIdx fun i s => s * ((reps.eraseIdx L.sd)[i]?.getD 1)) (fun t => t.repeat (reps.eraseIdx L.sd)), L.sd⟩ by rw [e]]
  have key := absL_map2 L b keys feat hU (L.members.length * at0 reps L.sd) (Nat.mul_pos hn hrd)
    (fun j => j % L.members.length) (fun j _ => Nat.mod_lt _ hn)
    (b.mapIdx fun i s => s * ((reps.eraseIdx L.sd)[i]?.getD 1)) (fun t => t.repeat (reps.eraseIdx L.sd))
    (fun t => t.repeat reps) L.sd
    ((absL L).batch.mapIdx fun i s => s * (reps[i]?.getD 1))
    (by
      rw [hB]
      have := repeat_shape_insert b (reps.eraseIdx L.sd) L.sd L.members.length (at0 reps L.sd) hU.hsd (by omega)
      rw [hreps] at this
      exact this.symm)
    (by
      intro k hk
      have := repeat_stack (L.members.map fun m => m.leaf k) (b ++ feat k) L.sd (at0 reps L.sd) (reps.eraseIdx L.sd)
        (leaf_shapes L b keys feat hU k hk) (by simpa using hne0) (by simp; have := hU.hsd; omega) (by omega) hrd
      rw [hreps] at this
      simpa using this)
  exact key

end TdVerif.C08
namespace TdVerif.C08

theorem pieceStarts_length : ∀ (l : List Nat) (s : Nat), (pieceStarts l s).length = l.length
  | [], _ => rfl
  | _ :: r, s => by simp [pieceStarts, pieceStarts_length r]

/-- **`lazy.split(sizes, dim)`**: piece `j` materialises to the `j`-th piece of the dense split
(`dense.narrow(dim, start_j, size_j)`) -/
theorem split_refines [Inhabited α] (L : Lazy α) (b : Shape) (keys : List String) (feat : String → Shape)
    (hU : Uniform L b keys feat) (hne0 : L.members ≠ []) (sizes : List Nat) (dim : Int)
    (pieces : List (LRes α)) (h : lazySplit L sizes dim = some pieces) :
    ∃ d : Nat, (d : Int) = (if dim < 0 then (L.batch.length : Int) + dim else dim) ∧ d < L.batch.length ∧
      pieces.length = sizes.length ∧
      ∀ j (hj : j < sizes.length), 0 < sizes[j] →
        (d = L.sd → (pieceStarts sizes 0)[j]'(by rw [pieceStarts_length]; exact hj) + sizes[j] ≤ L.members.length) →
        ∃ r, pieces[j]? = some r ∧
          absR r ≈ (absL L).narrow d ((pieceStarts sizes 0)[j]'(by rw [pieceStarts_length]; exact hj)) sizes[j] := by
  unfold lazySplit at h
  dsimp only at h
  by_cases hr : (if dim < 0 then (L.batch.length : Int) + dim else dim) < 0 ∨ (if dim < 0 then (L.batch.length : Int) + dim else dim) ≥ L.batch.length
  · rw [if_pos hr] at h; simp at h
  rw [if_neg hr] at h
  obtain ⟨d, hd1, hd2, hd3⟩ := normDim L.batch.length dim hr
  rw [hd3] at h
  refine ⟨d, hd1, hd2, ?_⟩
  have hzl : ((pieceStarts sizes 0).zip sizes).length = sizes.length := by simp [pieceStarts_length]
  by_cases hds : d = L.sd
  · rw [if_pos hds] at h
    simp only [Option.some.injEq] at h
    subst h
    refine ⟨by simp [hzl], ?_⟩
    intro j hj hpos hfit
    have hjs : j < (pieceStarts sizes 0).length := by rw [pieceStarts_length]; exact hj
    refine ⟨_, by simp [List.getElem?_map, List.getElem?_eq_getElem (hzl ▸ hj)]; rfl, ?_⟩
    have hne : ¬ sizes[j] = 0 := by omega
    simp only [List.getElem_zip, hne, if_false]
    show absL (⟨(L.members.drop (pieceStarts sizes 0)[j]).take sizes[j], L.sd⟩ : Lazy α) ≈ _
    have hf := hfit hds
    have e : (L.members.drop (pieceStarts sizes 0)[j]).take sizes[j]
        = (List.range sizes[j]).map fun i => L.members[i + (pieceStarts sizes 0)[j]]?.getD default := by
      apply List.ext_getElem?
      intro i
      by_cases hi : i < sizes[j]
      · have : i + (pieceStarts sizes 0)[j] < L.members.length := by omega
        simp [List.getElem?_take, hi, List.getElem?_drop, Nat.add_comm, List.getElem?_eq_getElem this]
      · simp [List.getElem?_take, hi]
    rw [e, hds]
    exact dimOp_refines_same L b keys feat hU hne0 (fun _ => sizes[j]) (fun _ x => x + (pieceStarts sizes 0)[j]) hpos
      (by intro i hi; omega)
  · rw [if_neg hds] at h
    by_cases hsum : sizes.sum ≠ at0 L.batch d
    · rw [if_pos hsum] at h; simp at h
    rw [if_neg hsum] at h
    simp only [Option.some.injEq] at h
    subst h
    refine ⟨by simp [hzl], ?_⟩
    intro j hj hpos _
    refine ⟨_, by simp [List.getElem?_map, List.getElem?_eq_getElem (hzl ▸ hj)]; rfl, ?_⟩
    exact dimOp_refines_other L b keys feat hU hne0 d _ hds
      (by intro hgt; rw [if_neg (by omega)]; omega) (by intro hgt; rw [if_pos (by omega)]) _ _

end TdVerif.C08

namespace TdVerif.C08

theorem expand_coord_erase (c sh : List Nat) (lead sd n rb : Nat) (hsd : sd ≤ sh.length) (hrb : sd ≤ rb) :
    ((c.drop lead).mapIdx fun i x => if i < rb + 1 ∧ at0 (sh.insertIdx sd n) i = 1 then 0 else x).eraseIdx sd
      = ((c.eraseIdx (lead + sd)).drop lead).mapIdx fun i x => if i < rb ∧ at0 sh i = 1 then 0 else x := by
  apply List.ext_getElem?
  intro i
  simp only [List.getElem?_eraseIdx, List.getElem?_mapIdx, List.getElem?_drop, at0, List.getElem?_insertIdx]
  by_cases h1 : i < sd
  · have h2 : lead + i < lead + sd := by omega
    have h3 : i < rb := by omega
    have h4 : i < rb + 1 := by omega
    simp [h1, h2, h3, h4]
  · have h2 : ¬ lead + i < lead + sd := by omega
    have h3 : ¬ i + 1 < sd := by omega
    have h4 : ¬ i + 1 = sd := by omega
    simp [h1, h2, h3, h4, Nat.add_assoc]

theorem drop_insertIdx_le {β} (l : List β) (sd rb : Nat) (x : β) (h1 : sd ≤ rb) (h2 : sd ≤ l.length) :
    (l.insertIdx sd x).drop (rb + 1) = l.drop rb := by
  apply List.ext_getElem?
  intro i
  simp only [List.getElem?_drop, List.getElem?_insertIdx]
  have h3 : ¬ rb + 1 + i < sd := by omega
  have h4 : ¬ rb + 1 + i = sd := by omega
  simp [h3, h4]

theorem append_insertIdx_left {β} (a b : List β) (i : Nat) (x : β) (h : i ≤ a.length) :
    (a ++ b).insertIdx i x = a.insertIdx i x ++ b := by
  apply List.ext_getElem?
  intro j
  simp only [List.getElem?_insertIdx, List.getElem?_append, List.length_insertIdx_of_le_length h]
  by_cases h1 : j < i
  · have : j < a.length := by omega
    have : j < a.length + 1 := by omega
    simp [h1, *]
  · by_cases h2 : j = i
    · subst h2
      have h5 : j < a.length + 1 := by omega
      have h6 : j ≤ a.length + b.length := by omega
      simp [h5, h6, h]
    · by_cases h3 : j < a.length + 1
      · have : j - 1 < a.length := by omega
        simp [h1, h2, h3, this]
      · have : ¬ j - 1 < a.length := by omega
        simp [h1, h2, h3, this]; congr 1; omega

end TdVerif.C08
namespace TdVerif.C08

/-- expanding the members (to the target without the stack dim) and listing a single member `k`
times is expanding the stack -/
theorem expand_stack [Inhabited α] (ms : List (T α)) (sh : Shape) (sd lead rb k : Nat) (tb' : Shape)
    (hsh : ∀ m ∈ ms, m.shape = sh) (hne0 : ms ≠ []) (hrbs : rb ≤ sh.length) (hsd : sd ≤ rb)
    (hk : 0 < k) (hkn : k = ms.length ∨ ms.length = 1) (htb : tb'.length = lead + rb) :
    T.stack ((List.range k).map fun j => (ms[if ms.length = 1 then 0 else j]?.getD default).expandTo lead rb tb') (lead + sd)
      ≈ₜ (T.stack ms sd).expandTo lead (rb + 1) (tb'.insertIdx (lead + sd) k) := by
  have hhead := head_shape_of_all ms sh hsh hne0
  have hn : 0 < ms.length := List.length_pos_iff.mpr hne0
  have hsdl : sd ≤ sh.length := by omega
  have hstk : (T.stack ms sd).shape = sh.insertIdx sd ms.length := by rw [T.stack_shape, hhead]
  have hsd' : lead + sd ≤ tb'.length := by omega
  exact stack_reindex2 ms sh sd (lead + sd) k hsh hne0 hk
    (fun j => if ms.length = 1 then 0 else j)
    (by intro j hj; show (if ms.length = 1 then 0 else j) < ms.length; split <;> rcases hkn with h | h <;> omega)
    (fun t => t.expandTo lead rb tb') ((T.stack ms sd).expandTo lead (rb + 1) (tb'.insertIdx (lead + sd) k))
    (fun c => (c.drop lead).mapIdx fun i x => if i < rb ∧ at0 sh i = 1 then 0 else x)
    (fun c => (c.drop lead).mapIdx fun i x => if i < rb + 1 ∧ at0 (sh.insertIdx sd ms.length) i = 1 then 0 else x)
    (tb' ++ sh.drop rb) (tb'.insertIdx (lead + sd) k ++ sh.drop rb)
    (by intro t ht c; simp [T.expandTo, hsh t ht])
    (by intro t ht; simp [T.expandTo, hsh t ht])
    (by intro c; simp [T.expandTo, hstk])
    (by simp only [T.expandTo, hstk]; rw [drop_insertIdx_le sh sd rb _ hsd hsdl])
    (by rw [append_insertIdx_left _ _ _ _ hsd'])
    (by simp; omega)
    (by
      intro c hc
      have hlen : lead + sd < c.length := by
        rw [InB.length hc, List.length_insertIdx_of_le_length (by simp; omega)]; simp; omega
      refine ⟨expand_coord_erase c sh lead sd ms.length rb hsdl hsd, ?_⟩
      have h1 : sd < rb + 1 := by omega
      have h2 : lead + sd < c.length := hlen
      simp only [at0, List.getElem?_mapIdx, List.getElem?_drop, List.getElem?_eq_getElem h2, Option.map_some,
        Option.getD_some, h1, true_and, List.getElem?_insertIdx_self, hsdl, if_true])

end TdVerif.C08
namespace TdVerif.C08

/-- **`lazy.expand(*shape)`** is `dense.expand(*shape)` -/
theorem expand_refines [Inhabited α] (L : Lazy α) (b : Shape) (keys : List String) (feat : String → Shape)
    (hU : Uniform L b keys feat) (hne0 : L.members ≠ []) (shape : List Nat)
    (L' : Lazy α) (h : lazyExpand L shape = some L') :
    L'.sd = shape.length + L.sd - L.batch.length ∧ absL L' ≈ (absL L).expandTo shape := by
  have hB := absL_batch_eq L b keys feat hU hne0
  have hr : L.batch.length = b.length + 1 := by
    show (absL L).batch.length = _
    rw [hB, List.length_insertIdx_of_le_length hU.hsd]
  have hn : 0 < L.members.length := List.length_pos_iff.mpr hne0
  unfold lazyExpand at h
  dsimp only at h
  by_cases hl : shape.length < L.batch.length
  · rw [if_pos hl] at h; simp at h
  rw [if_neg hl] at h
  obtain ⟨lead, hlead⟩ : ∃ lead, shape.length = lead + (b.length + 1) := ⟨shape.length - (b.length + 1), by omega⟩
  have hsd' : shape.length + L.sd - L.batch.length = lead + L.sd := by omega
  rw [hsd'] at h ⊢
  have hsdlt : lead + L.sd < shape.length := by have := hU.hsd; omega
  have htb : (shape.eraseIdx (lead + L.sd)).length = lead + b.length := by
    rw [List.length_eraseIdx_of_lt hsdlt]; omega
  split at h
  · simp at h
  have hshape : (shape.eraseIdx (lead + L.sd)).insertIdx (lead + L.sd) (at0 shape (lead + L.sd)) = shape :=
    insertIdx_eraseIdx_self shape _ hsdlt
  -- both outcomes are the re-indexed member list of `absL_map2`
  have key : ∀ k, 0 < k → (k = L.members.length ∨ L.members.length = 1) → at0 shape (lead + L.sd) = k →
      absL (⟨(List.range k).map fun j => (L.members[if L.members.length = 1 then 0 else j]?.getD default).mapLeaves
          (shape.eraseIdx (lead + L.sd)) (fun t => t.expandTo lead b.length (shape.eraseIdx (lead + L.sd))), lead + L.sd⟩ : Lazy α)
        ≈ (absL L).expandTo shape := by
    intro k hk hkn hat
    subst hat
    have := absL_map2 L b keys feat hU _ hk (fun j => if L.members.length = 1 then 0 else j)
      (by intro j hj; show (if L.members.length = 1 then 0 else j) < L.members.length; split <;> rcases hkn with h' | h' <;> omega)
      (shape.eraseIdx (lead + L.sd)) (fun t => t.expandTo lead b.length (shape.eraseIdx (lead + L.sd)))
      (fun t => t.expandTo lead (b.length + 1) shape) (lead + L.sd) shape
      hshape
      (by
        intro kk hkk
        have := expand_stack (L.members.map fun m => m.leaf kk) (b ++ feat kk) L.sd lead b.length _ (shape.eraseIdx (lead + L.sd))
          (leaf_shapes L b keys feat hU kk hkk) (by simpa using hne0) (by simp) hU.hsd hk (by simpa using hkn) htb
        rw [hshape] at this
        simpa using this)
    have e : (absL L).expandTo shape = (absL L).mapLeaves shape (fun t => t.expandTo lead (b.length + 1) shape) := by
      unfold TD.expandTo
      have e1 : shape.length - (absL L).batch.length = lead := by
        rw [hB, List.length_insertIdx_of_le_length hU.hsd]; omega
      have e2 : (absL L).batch.length = b.length + 1 := by
        rw [hB, List.length_insertIdx_of_le_length hU.hsd]
      rw [e1, e2]
    rw [e]; exact this
  have hms : ∀ j (hj : j < L.members.length),
      (L.members[j]).expandTo (shape.eraseIdx (lead + L.sd))
        = (L.members[j]).mapLeaves (shape.eraseIdx (lead + L.sd)) (fun t => t.expandTo lead b.length (shape.eraseIdx (lead + L.sd))) := by
    intro j hj
    unfold TD.expandTo
    have e1 : (shape.eraseIdx (lead + L.sd)).length - (L.members[j]).batch.length = lead := by
      rw [hU.hbatch _ (List.getElem_mem _), htb]; omega
    rw [e1, hU.hbatch _ (List.getElem_mem _)]
  split at h
  · rename_i hk
    split at h
    · simp at h
    rename_i hcond
    have h1 : L.members.length = 1 := by
      by_cases hh : L.members.length = 1
      · exact hh
      · exact absurd (Or.inl hh) hcond
    have hk0 : 0 < at0 shape (lead + L.sd) := by
      by_cases hh : at0 shape (lead + L.sd) = 0
      · exact absurd (Or.inr hh) hcond
      · omega
    simp only [Option.some.injEq] at h
    subst h
    refine ⟨rfl, ?_⟩
    have := key _ hk0 (Or.inr h1) rfl
    have e : (List.replicate (at0 shape (lead + L.sd)) (L.members.map fun m => m.expandTo (shape.eraseIdx (lead + L.sd)))).flatten
        = (List.range (at0 shape (lead + L.sd))).map fun j => (L.members[if L.members.length = 1 then 0 else j]?.getD default).mapLeaves
          (shape.eraseIdx (lead + L.sd)) (fun t => t.expandTo lead b.length (shape.eraseIdx (lead + L.sd))) := by
      apply List.ext_getElem?
      intro j
      have hml : (L.members.map fun m => m.expandTo (shape.eraseIdx (lead + L.sd))).length = 1 := by simp [h1]
      by_cases hj : j < at0 shape (lead + L.sd)
      · rw [getElem?_flatten_replicate _ (by omega) _ j (by rw [hml]; omega), hml]
        have h0 : 0 < L.members.length := by omega
        simp [h1, hj, Nat.mod_one, List.getElem?_eq_getElem h0, hms 0 h0]
      · have hfl : ∀ (r : Nat) (l : List (TD α)), (List.replicate r l).flatten.length = l.length * r := by
          intro r l
          induction r with
          | zero => simp
          | succ r ih => rw [List.replicate_succ, List.flatten_cons, List.length_append, ih, Nat.mul_succ]; omega
        rw [List.getElem?_eq_none (by rw [hfl, hml]; omega), List.getElem?_eq_none (by simp; omega)]
    rw [e]; exact this
  · rename_i hk
    have hk' : at0 shape (lead + L.sd) = L.members.length := Decidable.not_not.mp hk
    simp only [Option.some.injEq] at h
    subst h
    refine ⟨rfl, ?_⟩
    have := key _ hn (Or.inl rfl) hk'
    have e : (L.members.map fun m => m.expandTo (shape.eraseIdx (lead + L.sd)))
        = (List.range L.members.length).map fun j => (L.members[if L.members.length = 1 then 0 else j]?.getD default).mapLeaves
          (shape.eraseIdx (lead + L.sd)) (fun t => t.expandTo lead b.length (shape.eraseIdx (lead + L.sd))) := by
      apply List.ext_getElem
      · simp
      · intro j h1 h2
        have hj : j < L.members.length := by simpa using h1
        have hσ : (if L.members.length = 1 then 0 else j) = j := by split <;> omega
        simp [hσ, List.getElem?_eq_getElem hj, hms j hj]
    rw [e]; exact this

end TdVerif.C08
