/-
  C10 — refresh (`load_memmap_` / `memmap_refresh_`): loading into a tensordict that already maps the directory
  gives what a fresh load of the directory gives, as long as everything the tensordict holds is still there.
-/
import TdVerif.Model.C10Memmap

namespace TdVerif.C10

/-- if refreshing every child the tensordict holds gives what loading its sub-directory gives, then binding the
    entries of the metadata into the tensordict gives what loading them gives -/
theorem loadIntoEntries_eq (fuel : Nat) (fs : FS) (dir : Path) (oldKids : List (String × Tree))
    (hk : ∀ k oc, kid? oldKids k = some oc → loadInto fuel fs (dir ++ [k]) oc = load fuel fs (dir ++ [k])) :
    ∀ es, loadIntoEntries fuel fs dir es oldKids = loadEntries fuel fs dir es := by
  intro es
  induction es with
  | nil => simp [loadIntoEntries, loadEntries]
  | cons e rest ih =>
    obtain ⟨k, me⟩ := e
    cases me with
    | leaf dt sh => simp only [loadIntoEntries, loadEntries, ih]
    | coll ty =>
      simp only [loadIntoEntries, loadEntries, ih]
      cases hl : loadEntries fuel fs dir rest with
      | none => rfl
      | some tl =>
        simp only
        cases ho : kid? oldKids k with
        | none => rfl
        | some oc => simp only [hk k oc ho]

mutual
/-- **the tensordict is still in the directory**: at every level it holds, the node's batch size and device are the
    directory's, the directory describes a plain tensordict, and every key it holds is among the keys a load of the
    directory binds (nothing it holds was removed from the directory) -/
def Current : Tree → Nat → FS → Path → Prop
  | .node ob od oldKids, fuel, fs, dir =>
    match fuel with
    | 0 => True
    | f + 1 =>
      ∃ m, fs (dir ++ ["meta.json"]) = some (.json m) ∧ m.kind = "TensorDict"
        ∧ m.batch = ob ∧ m.device = od
        ∧ (∀ kids, loadEntries f fs dir m.entries = some kids → ∀ p ∈ oldKids, (kids.any fun q => q.1 == p.1) = true)
        ∧ CurrentKids oldKids f fs dir
  | .leaf .., _, _, _ => True
  | .nontensor .., _, _, _ => True
  | .lazy .., _, _, _ => True
  | .tclass .., _, _, _ => True
  | .ntstack .., _, _, _ => True
def CurrentKids : List (String × Tree) → Nat → FS → Path → Prop
  | [], _, _, _ => True
  | (k, oc) :: rest, fuel, fs, dir => Current oc fuel fs (dir ++ [k]) ∧ CurrentKids rest fuel fs dir
end

mutual
theorem refresh_eq_load_aux : ∀ (old : Tree) (fuel : Nat) (fs : FS) (dir : Path),
    Current old fuel fs dir → loadInto fuel fs dir old = load fuel fs dir
  | .leaf .., 0, _, _, _ => by simp [loadInto, load]
  | .leaf .., _ + 1, _, _, _ => by simp [loadInto]
  | .nontensor .., 0, _, _, _ => by simp [loadInto, load]
  | .nontensor .., _ + 1, _, _, _ => by simp [loadInto]
  | .lazy .., 0, _, _, _ => by simp [loadInto, load]
  | .lazy .., _ + 1, _, _, _ => by simp [loadInto]
  | .tclass .., 0, _, _, _ => by simp [loadInto, load]
  | .tclass .., _ + 1, _, _, _ => by simp [loadInto]
  | .ntstack .., 0, _, _, _ => by simp [loadInto, load]
  | .ntstack .., _ + 1, _, _, _ => by simp [loadInto]
  | .node _ _ _, 0, _, _, _ => by simp [loadInto, load]
  | .node ob od oldKids, f + 1, fs, dir, h => by
    simp only [Current] at h
    obtain ⟨m, hm, hkd, hb, hd, hstale, hkids⟩ := h
    have hk := refresh_kids_aux oldKids f fs dir hkids
    have he := loadIntoEntries_eq f fs dir oldKids hk m.entries
    have hn1 : ¬ m.kind = "NonTensorData" := by rw [hkd]; decide
    have hn2 : ¬ m.kind = "LazyStackedTensorDict" := by rw [hkd]; decide
    simp only [loadInto, load, hm, hn1, hn2, hkd, ne_eq, not_true_eq_false, if_false, if_true, he]
    cases hl : loadEntries f fs dir m.entries with
    | none => rfl
    | some kids =>
      have hf : (oldKids.filter fun p => !(kids.any fun q => q.1 == p.1)) = [] := by
        apply List.filter_eq_nil_iff.2
        intro p hp
        simp [hstale kids hl p hp]
      simp [hf, hb, hd]
theorem refresh_kids_aux : ∀ (oldKids : List (String × Tree)) (fuel : Nat) (fs : FS) (dir : Path),
    CurrentKids oldKids fuel fs dir →
    ∀ k oc, kid? oldKids k = some oc → loadInto fuel fs (dir ++ [k]) oc = load fuel fs (dir ++ [k])
  | [], _, _, _, _ => by intro k oc h; simp [kid?] at h
  | (k0, oc0) :: rest, fuel, fs, dir, h => by
    intro k oc hko
    simp only [CurrentKids] at h
    simp only [kid?, List.lookup] at hko
    cases hkk : k == k0 with
    | true =>
      simp only [hkk, Option.some.injEq] at hko
      subst hko
      have : k = k0 := by simpa using hkk
      subst this
      exact refresh_eq_load_aux oc0 fuel fs (dir ++ [k]) h.1
    | false =>
      simp only [hkk] at hko
      exact refresh_kids_aux rest fuel fs dir h.2 k oc hko
end

end TdVerif.C10
