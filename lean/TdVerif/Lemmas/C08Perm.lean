/-
  C08 — permutations: `_permute` / the roll of `_transpose` refine the dense permute.
-/
import TdVerif.Lemmas.C08Mask
namespace TdVerif.C08

def downD (sd d : Nat) : Nat := if d < sd then d else d - 1
def upD (sd i : Nat) : Nat := if i < sd then i else i + 1

theorem down_up (sd i : Nat) : downD sd (upD sd i) = i := by
  unfold downD upD
  by_cases h : i < sd
  · simp [h]
  · have : ¬ i + 1 < sd := by omega
    simp [h, this]

theorem idxOf_of_getElem? (l : List Nat) (hn : l.Nodup) (j x : Nat) (h : l[j]? = some x) : l.idxOf x = j := by
  obtain ⟨hj, rfl⟩ := List.getElem?_eq_some_iff.mp h
  exact List.Nodup.idxOf_getElem hn j hj

theorem getElem?_idxOf (l : List Nat) (x : Nat) (h : x ∈ l) : l[l.idxOf x]? = some x := by
  have hk := List.idxOf_lt_length_of_mem h
  rw [List.getElem?_eq_getElem hk, List.getElem_idxOf hk]

theorem nodup_erase_ne (P : List Nat) (hn : P.Nodup) (k x : Nat) (hk : P[k]? = some x) :
    ∀ y ∈ P.eraseIdx k, y ≠ x := by
  intro y hy heq
  subst heq
  obtain ⟨j, hjk, hj⟩ := List.mem_eraseIdx_iff_getElem?.mp hy
  obtain ⟨hj', hjy⟩ := List.getElem?_eq_some_iff.mp hj
  obtain ⟨hk', hky⟩ := List.getElem?_eq_some_iff.mp hk
  have := (List.getElem_inj hn (h₀ := hj') (h₁ := hk')).mp (hjy.trans hky.symm)
  exact hjk this

/-- the member permutation: drop the stack dim from `P`, renumber the dims after it -/
def memberPerm (P : List Nat) (sd : Nat) : List Nat := (P.eraseIdx (P.idxOf sd)).map (downD sd)

theorem memberPerm_nodup (P : List Nat) (sd : Nat) (hn : P.Nodup) (hmem : sd ∈ P) : (memberPerm P sd).Nodup := by
  unfold memberPerm
  have hne := nodup_erase_ne P hn _ sd (getElem?_idxOf P sd hmem)
  rw [List.Nodup, List.pairwise_map]
  apply List.Pairwise.imp_of_mem _ (List.Nodup.eraseIdx _ hn)
  intro a b ha hb hab heq
  have h1 := hne a ha
  have h2 := hne b hb
  unfold downD at heq
  apply hab
  by_cases ha' : a < sd <;> by_cases hb' : b < sd <;> simp [ha', hb'] at heq <;> omega

/-- position of member dim `i` in the member permutation -/
theorem memberPerm_idxOf (P : List Nat) (sd i : Nat) (hn : P.Nodup) (hmem : sd ∈ P) (hi : upD sd i ∈ P) :
    (memberPerm P sd).idxOf i =
      (if P.idxOf (upD sd i) < P.idxOf sd then P.idxOf (upD sd i) else P.idxOf (upD sd i) - 1) := by
  have hPk := getElem?_idxOf P sd hmem
  have hPq := getElem?_idxOf P (upD sd i) hi
  have hne : P.idxOf (upD sd i) ≠ P.idxOf sd := by
    intro h
    rw [h, hPk] at hPq
    have : sd = upD sd i := Option.some.inj hPq
    unfold upD at this
    by_cases h' : i < sd <;> simp [h'] at this <;> omega
  generalize P.idxOf (upD sd i) = q at *
  apply idxOf_of_getElem? _ (memberPerm_nodup P sd hn hmem)
  unfold memberPerm
  generalize P.idxOf sd = k at *
  rw [List.getElem?_map, List.getElem?_eraseIdx]
  by_cases hqk : q < k
  · simp [hqk, hPq, down_up]
  · have h1 : ¬ q - 1 < k := by omega
    have h2 : q - 1 + 1 = q := by omega
    simp [hqk, h1, h2, hPq, down_up]

/-- `stack_reindex` with the member-side hypotheses only for the members -/
theorem stack_reindex' [Inhabited α] (ms : List (T α)) (sh : Shape) (sd sd' : Nat)
    (hsh : ∀ m ∈ ms, m.shape = sh) (hne : ms ≠ [])
    (φ : T α → T α) (Φt : T α) (ψ ρ : List Nat → List Nat) (rs : Shape)
    (hφg : ∀ t ∈ ms, ∀ c, (φ t).get c = t.get (ψ c)) (hφs : ∀ t ∈ ms, (φ t).shape = rs)
    (hΦg : ∀ c, Φt.get c = (T.stack ms sd).get (ρ c))
    (hΦs : Φt.shape = rs.insertIdx sd' ms.length)
    (hsd' : sd' ≤ rs.length)
    (hcoord : ∀ c, InB c (rs.insertIdx sd' ms.length) →
      (ρ c).eraseIdx sd = ψ (c.eraseIdx sd') ∧ at0 (ρ c) sd = at0 c sd') :
    T.stack (ms.map φ) sd' ≈ₜ Φt := by
  have hs1 : (T.stack (ms.map φ) sd').shape = rs.insertIdx sd' ms.length := by
    rw [T.stack_shape]
    cases hm : ms with
    | nil => exact absurd hm hne
    | cons m0 rest => simp [hφs m0 (by simp [hm])]
  refine ⟨by rw [hs1, hΦs], ?_⟩
  intro c hc
  rw [hs1] at hc
  obtain ⟨h1, h2⟩ := hcoord c hc
  have hlt : at0 c sd' < ms.length := InB.at0_lt_of_insert c rs sd' ms.length hsd' hc
  rw [hΦg, T.stack_get, T.stack_get, h1, h2]
  simp only [List.getElem?_map, List.getElem?_eq_getElem hlt, Option.map_some, Option.getD_some]
  exact hφg _ (List.getElem_mem _) _

theorem getElem?_scatter (p c : List Nat) (rank j : Nat) :
    (scatterCoord p c rank)[j]? = if j < rank then some (at0 c (p.idxOf j)) else none := by
  unfold scatterCoord
  rw [List.getElem?_map]
  by_cases h : j < rank
  · simp [List.getElem?_range h, h]
  · simp [h, List.getElem?_eq_none (show (List.range rank).length ≤ j by simp; omega)]

/-- a permutation of `0..R-1` -/
structure IsPerm (P : List Nat) (R : Nat) : Prop where
  nodup : P.Nodup
  len : P.length = R
  mem : ∀ j, j < R → j ∈ P
  lt : ∀ j ∈ P, j < R


/-- shapes: permuting the stacked shape = permuting the member shape and inserting `n` where
the stack dim sits in `P` -/
theorem perm_shape (sh : Shape) (n sd : Nat) (P : List Nat) (hsd : sd ≤ sh.length)
    (hP : IsPerm P (sh.length + 1)) :
    P.map (fun j => (sh.insertIdx sd n)[j]?.getD 0)
      = ((memberPerm P sd).map fun j => sh[j]?.getD 0).insertIdx (P.idxOf sd) n := by
  have hsdP : sd ∈ P := hP.mem sd (by omega)
  have hk : P.idxOf sd < P.length := List.idxOf_lt_length_of_mem hsdP
  have hPk := getElem?_idxOf P sd hsdP
  have hlenM : (memberPerm P sd).length = sh.length := by
    unfold memberPerm; rw [List.length_map, List.length_eraseIdx_of_lt hk, hP.len]; omega
  apply List.ext_getElem?
  intro i
  rw [List.getElem?_map, List.getElem?_insertIdx, List.getElem?_map, List.getElem?_map]
  simp only [List.length_map, hlenM]
  unfold memberPerm
  simp only [List.getElem?_map, List.getElem?_eraseIdx]
  have hne' := nodup_erase_ne P hP.nodup _ sd hPk
  by_cases h1 : i < P.idxOf sd
  · have h2 : ¬ i = P.idxOf sd := by omega
    simp only [h1, h2, if_true, if_false]
    cases hpi : P[i]? with
    | none => simp
    | some d =>
      have hd : d ≠ sd := hne' d (List.mem_eraseIdx_iff_getElem?.mpr ⟨i, by omega, hpi⟩)
      simp only [Option.map_some, downD]
      rw [List.getElem?_insertIdx]
      by_cases hds : d < sd
      · simp [hds]
      · have : ¬ d = sd := hd
        simp [hds, this]
  · by_cases h2 : i = P.idxOf sd
    · subst h2
      have : P.idxOf sd ≤ sh.length := by rw [hP.len] at hk; omega
      simp only [Nat.lt_irrefl, if_false, if_true, hPk, Option.map_some, this,
        List.getElem?_insertIdx_self, hsd, Option.getD_some]
    · have h3 : ¬ i - 1 < P.idxOf sd := by omega
      have h4 : i - 1 + 1 = i := by omega
      simp only [h1, h2, h3, h4, if_false]
      cases hpi : P[i]? with
      | none => simp
      | some d =>
        have hd : d ≠ sd := hne' d (List.mem_eraseIdx_iff_getElem?.mpr ⟨i, by omega, hpi⟩)
        simp only [Option.map_some, downD]
        rw [List.getElem?_insertIdx]
        by_cases hds : d < sd
        · simp [hds]
        · have : ¬ d = sd := hd
          simp [hds, this]

/-- T-level: permuting the dense stack by `P` = permuting the members by `memberPerm P sd`
and stacking them where `sd` sits in `P` -/
theorem permute_stack [Inhabited α] (ms : List (T α)) (sh : Shape) (sd : Nat) (P : List Nat)
    (hsh : ∀ m ∈ ms, m.shape = sh) (hne : ms ≠ []) (hsd : sd ≤ sh.length)
    (hP : IsPerm P (sh.length + 1)) :
    T.stack (ms.map fun (m : T α) => m.permute (memberPerm P sd)) (P.idxOf sd) ≈ₜ (T.stack ms sd).permute P := by
  have hhead := head_shape_of_all ms sh hsh hne
  have hsdP : sd ∈ P := hP.mem sd (by omega)
  have hk : P.idxOf sd < P.length := List.idxOf_lt_length_of_mem hsdP
  have hPk := getElem?_idxOf P sd hsdP
  have hSt : (T.stack ms sd).shape = sh.insertIdx sd ms.length := by rw [T.stack_shape, hhead]
  have hlenM : (memberPerm P sd).length = sh.length := by
    unfold memberPerm; rw [List.length_map, List.length_eraseIdx_of_lt hk, hP.len]; omega
  apply stack_reindex' ms sh sd (P.idxOf sd) hsh hne _ _
    (fun c => scatterCoord (memberPerm P sd) c sh.length) (fun c => scatterCoord P c (sh.length + 1))
    ((memberPerm P sd).map fun j => sh[j]?.getD 0)
  · intro t ht c
    show t.get (scatterCoord _ c t.shape.length) = _
    rw [hsh t ht]
  · intro t ht
    show (memberPerm P sd).map (fun j => t.shape[j]?.getD 0) = _
    rw [hsh t ht]
  · intro c
    show (T.stack ms sd).get (scatterCoord P c (T.stack ms sd).shape.length) = _
    rw [hSt, List.length_insertIdx_of_le_length hsd]
  · -- shapes
    show P.map (fun j => (T.stack ms sd).shape[j]?.getD 0) = _
    rw [hSt]
    exact perm_shape sh ms.length sd P hsd hP
  · rw [List.length_map, hlenM]; rw [hP.len] at hk; omega
  · -- coordinates
    intro c hc
    constructor
    · apply List.ext_getElem?
      intro i
      rw [List.getElem?_eraseIdx, getElem?_scatter, getElem?_scatter, getElem?_scatter]
      by_cases hi : i < sh.length
      · have hup : upD sd i < sh.length + 1 := by unfold upD; split <;> omega
        have hmemUp : upD sd i ∈ P := hP.mem _ hup
        rw [if_pos hi, memberPerm_idxOf P sd i hP.nodup hsdP hmemUp]
        have hq := getElem?_idxOf P _ hmemUp
        have hneq : P.idxOf (upD sd i) ≠ P.idxOf sd := by
          intro h
          rw [h, hPk] at hq
          have : sd = upD sd i := Option.some.inj hq
          unfold upD at this
          by_cases h' : i < sd <;> simp [h'] at this <;> omega
        have hval : at0 (c.eraseIdx (P.idxOf sd))
            (if P.idxOf (upD sd i) < P.idxOf sd then P.idxOf (upD sd i) else P.idxOf (upD sd i) - 1)
            = at0 c (P.idxOf (upD sd i)) := by
          unfold at0
          rw [List.getElem?_eraseIdx]
          by_cases hlt : P.idxOf (upD sd i) < P.idxOf sd
          · simp [hlt]
          · have h1 : ¬ P.idxOf (upD sd i) - 1 < P.idxOf sd := by omega
            have h2 : P.idxOf (upD sd i) - 1 + 1 = P.idxOf (upD sd i) := by omega
            simp [hlt, h1, h2]
        rw [hval]
        by_cases his : i < sd
        · have : i < sh.length + 1 := by omega
          simp [his, this, upD]
        · have : i + 1 < sh.length + 1 := by omega
          simp [his, this, upD]
      · rw [if_neg hi]
        by_cases his : i < sd
        · omega
        · have : ¬ i + 1 < sh.length + 1 := by omega
          simp [his, this]
    · unfold at0
      rw [getElem?_scatter, if_pos (by omega)]
      rfl


/-- the leaf permutation of `td.permute(p)`: the batch dims by `p`, the feature dims in place -/
def extPerm (p : List Nat) (R : Nat) : List Nat := p ++ (List.range (R - p.length)).map (· + p.length)

theorem extPerm_isPerm (p : List Nat) (r R : Nat) (hp : IsPerm p r) (hr : r ≤ R) : IsPerm (extPerm p R) R := by
  unfold extPerm
  rw [hp.len]
  refine ⟨?_, by simp [hp.len]; omega, ?_, ?_⟩
  · rw [List.nodup_append]
    refine ⟨hp.nodup, ?_, ?_⟩
    · rw [List.Nodup, List.pairwise_map]
      apply List.Pairwise.imp_of_mem _ (List.pairwise_lt_range (n := R - r))
      intro a b _ _ hab; omega
    · intro a ha b hb heq
      have ha' : a < r := hp.lt a ha
      simp only [List.mem_map, List.mem_range] at hb
      obtain ⟨j, _, rfl⟩ := hb
      omega
  · intro j hj
    by_cases h : j < r
    · exact List.mem_append_left _ (hp.mem j h)
    · apply List.mem_append_right
      simp only [List.mem_map, List.mem_range]
      exact ⟨j - r, by omega, by omega⟩
  · intro j hj
    rcases List.mem_append.mp hj with h | h
    · have := hp.lt j h; omega
    · simp only [List.mem_map, List.mem_range] at h
      obtain ⟨i, hi, rfl⟩ := h
      omega

theorem filter_ne_eq_eraseIdx : ∀ (p : List Nat) (sd : Nat), p.Nodup → sd ∈ p →
    p.filter (· != sd) = p.eraseIdx (p.idxOf sd)
  | [], _, _, h => by simp at h
  | a :: l, sd, hn, hm => by
    rw [List.nodup_cons] at hn
    by_cases ha : a = sd
    · subst ha
      simp only [List.filter_cons, bne_self_eq_false, Bool.false_eq_true, if_false, List.idxOf_cons_self,
        List.eraseIdx_zero, List.tail_cons]
      rw [List.filter_eq_self]
      intro x hx
      have : x ≠ a := fun h => hn.1 (h ▸ hx)
      simpa using this
    · have hm' : sd ∈ l := by
        rcases List.mem_cons.mp hm with h | h
        · exact absurd h.symm ha
        · exact h
      have hne : (a != sd) = true := by simpa using ha
      have hbeq : (a == sd) = false := by simpa using ha
      simp only [List.filter_cons, hne, if_true, List.idxOf_cons, hbeq, cond_false, List.eraseIdx_cons_succ]
      rw [filter_ne_eq_eraseIdx l sd hn.2 hm']

theorem idxOf_ext (p : List Nat) (R sd : Nat) (h : sd ∈ p) : (extPerm p R).idxOf sd = p.idxOf sd := by
  unfold extPerm
  rw [List.idxOf_append, if_pos h]

theorem memberPerm_ext (p : List Nat) (r R sd : Nat) (hp : IsPerm p r) (hsd : sd < r) (hr : r ≤ R) :
    memberPerm (extPerm p R) sd = extPerm (memberPerm p sd) (R - 1) := by
  have hmem : sd ∈ p := hp.mem sd hsd
  have hk : p.idxOf sd < p.length := List.idxOf_lt_length_of_mem hmem
  unfold memberPerm
  rw [idxOf_ext p R sd hmem]
  unfold extPerm
  rw [List.eraseIdx_append_of_lt_length hk, List.map_append, List.length_map,
    List.length_eraseIdx_of_lt hk, hp.len]
  congr 1
  have : R - 1 - (r - 1) = R - r := by omega
  rw [this, List.map_map]
  apply List.map_congr_left
  intro j _
  simp only [Function.comp, downD]
  have : ¬ j + r < sd := by omega
  simp [this]; omega


theorem TD.permute_eq (m : TD α) (p : List Nat) :
    m.permute p = m.mapLeaves (p.map fun j => m.batch[j]?.getD 0) (fun t => t.permute (extPerm p t.shape.length)) := rfl

/-- generic: members permuted by `memberPerm p sd` and stacked where `sd` sits in `p` -/
theorem permute_members_refines [Inhabited α] (L : Lazy α) (b : Shape) (keys : List String)
    (feat : String → Shape) (hU : Uniform L b keys feat) (hne0 : L.members ≠ [])
    (p : List Nat) (hp : IsPerm p (b.length + 1)) :
    absL (⟨L.members.map fun m => m.permute (memberPerm p L.sd), p.idxOf L.sd⟩ : Lazy α)
      ≈ (absL L).permute p := by
  have hB := absL_batch_eq L b keys feat hU hne0
  have hsd : L.sd < b.length + 1 := by have := hU.hsd; omega
  rw [TD.permute_eq]
  have hmap : (L.members.map fun m => m.permute (memberPerm p L.sd))
      = L.members.map fun m => m.mapLeaves ((fun s : Shape => (memberPerm p L.sd).map fun j => s[j]?.getD 0) m.batch)
          (fun t => t.permute (extPerm (memberPerm p L.sd) t.shape.length)) := rfl
  rw [hmap]
  refine absL_map L b keys feat hU hne0 (fun s : Shape => (memberPerm p L.sd).map fun j => s[j]?.getD 0)
    (fun t => t.permute (extPerm (memberPerm p L.sd) t.shape.length))
    (fun t => t.permute (extPerm p t.shape.length)) (p.idxOf L.sd)
    (p.map fun j => (absL L).batch[j]?.getD 0) ?_ ?_
  · rw [hB]; exact (perm_shape b L.members.length L.sd p hU.hsd hp).symm
  · intro k hk
    have hshapes := leaf_shapes L b keys feat hU k hk
    have hne : (L.members.map fun m => m.leaf k) ≠ [] := by simpa using hne0
    have hhead := head_shape_of_all _ _ hshapes hne
    have hlenS : (T.stack (L.members.map fun m => m.leaf k) L.sd).shape.length = (b ++ feat k).length + 1 := by
      rw [T.stack_shape, hhead, List.length_insertIdx_of_le_length (by simp; have := hU.hsd; omega)]
    have hP := extPerm_isPerm p (b.length + 1) ((b ++ feat k).length + 1) hp (by simp)
    have := permute_stack (L.members.map fun m => m.leaf k) (b ++ feat k) L.sd
      (extPerm p ((b ++ feat k).length + 1)) hshapes hne (by simp; have := hU.hsd; omega) hP
    rw [memberPerm_ext p (b.length + 1) _ L.sd hp hsd (by simp), idxOf_ext p _ L.sd (hp.mem _ hsd)] at this
    simp only [Nat.add_sub_cancel] at this
    show T.stack ((L.members.map fun m => m.leaf k).map fun t => t.permute (extPerm (memberPerm p L.sd) t.shape.length)) _
      ≈ₜ (T.stack (L.members.map fun m => m.leaf k) L.sd).permute (extPerm p (T.stack (L.members.map fun m => m.leaf k) L.sd).shape.length)
    rw [hlenS]
    have hcongr : ((L.members.map fun m => m.leaf k).map fun t => t.permute (extPerm (memberPerm p L.sd) t.shape.length))
        = (L.members.map fun m => m.leaf k).map fun t => t.permute (extPerm (memberPerm p L.sd) (b ++ feat k).length) := by
      apply List.map_congr_left
      intro t ht
      rw [hshapes t ht]
    rw [hcongr]
    exact this

/-- `lazy.permute(dims)` (dims a permutation of the batch dims, any sign spelling): the members
permuted by the remaining dims renumbered, stacked at `argsort(dims)[stack_dim]`, materialise to
`dense.permute(dims)` -/
theorem permute_refines [Inhabited α] (L : Lazy α) (b : Shape) (keys : List String)
    (feat : String → Shape) (hU : Uniform L b keys feat) (hne0 : L.members ≠ []) (dims : List Int)
    (L' : Lazy α) (h : lazyPermute L dims = some L') :
    ∃ p : List Nat, IsPerm p L.batch.length ∧
      p = (dims.map fun d => if d ≥ 0 then d else (L.batch.length : Int) + d).map Int.toNat ∧
      absL L' ≈ (absL L).permute p := by
  have hB := absL_batch_eq L b keys feat hU hne0
  have hr : L.batch.length = b.length + 1 := by
    show (absL L).batch.length = _
    rw [hB, List.length_insertIdx_of_le_length hU.hsd]
  unfold lazyPermute at h
  dsimp only at h
  generalize hdl : (dims.map fun d => if d ≥ 0 then d else (L.batch.length : Int) + d) = dl at h ⊢
  split at h
  · simp at h
  rename_i h1
  split at h
  · simp at h
  rename_i h2
  have h1' : (∀ d ∈ dl, 0 ≤ d ∧ d < (L.batch.length : Int)) ∧ dl.length = L.batch.length := by
    constructor
    · intro d hd
      have : ¬ (dl.any fun d => decide (d < 0 ∨ d ≥ (L.batch.length : Int))) = true := fun hh => h1 (Or.inl hh)
      rw [List.any_eq_true] at this
      have hnd : ¬ (d < 0 ∨ d ≥ (L.batch.length : Int)) := fun hh => this ⟨d, hd, by simpa using hh⟩
      omega
    · by_cases hl : dl.length = L.batch.length
      · exact hl
      · exact absurd (Or.inr hl) h1
  have hp : IsPerm (dl.map Int.toNat) L.batch.length := by
    refine ⟨?_, by simp [h1'.2], ?_, ?_⟩
    · by_cases hn : (dl.map Int.toNat).Nodup
      · exact hn
      · exact absurd (Or.inr hn) h2
    · intro j hj
      have : ¬ ((List.range L.batch.length).any fun j => !(dl.map Int.toNat).contains j) = true := fun hh => h2 (Or.inl hh)
      rw [List.any_eq_true] at this
      have hc : (dl.map Int.toNat).contains j = true := by
        cases hcc : (dl.map Int.toNat).contains j
        · exact absurd ⟨j, List.mem_range.mpr hj, by rw [hcc]; rfl⟩ this
        · rfl
      simpa using hc
    · intro j hj
      simp only [List.mem_map] at hj
      obtain ⟨d, hd, rfl⟩ := hj
      have := h1'.1 d hd
      omega
  refine ⟨dl.map Int.toNat, hp, rfl, ?_⟩
  generalize dl.map Int.toNat = p at *
  have hsd : L.sd ∈ p := hp.mem _ (by have := hU.hsd; omega)
  have hmp : ((p.filter (· != L.sd)).map fun d => if d < L.sd then d else d - 1) = memberPerm p L.sd := by
    unfold memberPerm
    rw [filter_ne_eq_eraseIdx p L.sd hp.nodup hsd]
    rfl
  rw [hmp] at h
  obtain ⟨rfl, _⟩ := lazyStack_some' _ _ _ h
  exact permute_members_refines L b keys feat hU hne0 p (hr ▸ hp)


def swapF (a b i : Nat) : Nat := if i = b then a else if i = a then b else i

theorem swapF_invol (a b i : Nat) : swapF a b (swapF a b i) = i := by
  unfold swapF
  by_cases h1 : i = b <;> by_cases h2 : i = a <;> simp [h1, h2] <;> (try omega)
  all_goals (split <;> (try split) <;> omega)

theorem swapF_lt (R a b i : Nat) (ha : a < R) (hb : b < R) (hi : i < R) : swapF a b i < R := by
  unfold swapF; split <;> (try split) <;> omega

theorem getElem?_swapRange (R a b i : Nat) (ha : a < R) (hb : b < R) (hi : i < R) :
    (swapAt (List.range R) a b)[i]? = some (swapF a b i) := by
  rw [getElem?_swapAt _ _ _ _ (by simpa using ha) (by simpa using hb)]
  unfold swapF
  by_cases h1 : i = b
  · subst h1; simp [List.getElem?_range ha]
  · by_cases h2 : i = a
    · subst h2; simp [h1, List.getElem?_range hb]
    · simp [h1, h2, List.getElem?_range hi]

theorem swapRange_isPerm (R a b : Nat) (ha : a < R) (hb : b < R) : IsPerm (swapAt (List.range R) a b) R := by
  have hlen : (swapAt (List.range R) a b).length = R := by simp [length_swapAt]
  have hget := fun i hi => getElem?_swapRange R a b i ha hb hi
  refine ⟨?_, hlen, ?_, ?_⟩
  · rw [List.Nodup, List.pairwise_iff_getElem]
    intro i j hi hj hij heq
    rw [hlen] at hi hj
    have h1 := hget i hi
    have h2 := hget j hj
    rw [List.getElem?_eq_getElem (by omega)] at h1 h2
    have e1 := Option.some.inj h1
    have e2 := Option.some.inj h2
    rw [e1, e2] at heq
    have := congrArg (swapF a b) heq
    rw [swapF_invol, swapF_invol] at this
    omega
  · intro j hj
    rw [List.mem_iff_getElem?]
    exact ⟨swapF a b j, by rw [hget _ (swapF_lt R a b j ha hb hj), swapF_invol]⟩
  · intro j hj
    obtain ⟨i, hi, rfl⟩ := List.getElem_of_mem hj
    rw [hlen] at hi
    have := hget i hi
    rw [List.getElem?_eq_getElem (by omega)] at this
    rw [Option.some.inj this]
    exact swapF_lt R a b i ha hb hi

theorem idxOf_swapRange (R a b j : Nat) (ha : a < R) (hb : b < R) (hj : j < R) :
    (swapAt (List.range R) a b).idxOf j = swapF a b j := by
  apply idxOf_of_getElem? _ (swapRange_isPerm R a b ha hb).nodup
  rw [getElem?_swapRange R a b _ ha hb (swapF_lt R a b j ha hb hj), swapF_invol]

/-- permuting by the transposition `(a b)` is `transpose(a, b)` -/
theorem permute_swap_eq_transpose (t : T α) (a b : Nat) (ha : a < t.shape.length) (hb : b < t.shape.length) :
    t.permute (swapAt (List.range t.shape.length) a b) ≈ₜ t.transpose a b := by
  constructor
  · show (swapAt (List.range t.shape.length) a b).map (fun j => t.shape[j]?.getD 0) = swapAt t.shape a b
    apply List.ext_getElem?
    intro i
    rw [List.getElem?_map, getElem?_swapAt t.shape a b i ha hb]
    by_cases hi : i < t.shape.length
    · rw [getElem?_swapRange _ a b i ha hb hi]
      unfold swapF
      by_cases h1 : i = b
      · subst h1; simp [List.getElem?_eq_getElem ha]
      · by_cases h2 : i = a
        · subst h2; simp [h1, List.getElem?_eq_getElem hb]
        · simp [h1, h2, List.getElem?_eq_getElem hi]
    · have h1 : ¬ i = b := by omega
      have h2 : ¬ i = a := by omega
      simp [h1, h2, List.getElem?_eq_none (show (swapAt (List.range t.shape.length) a b).length ≤ i by simp [length_swapAt]; omega),
        List.getElem?_eq_none (show t.shape.length ≤ i by omega)]
  · intro c hc
    show t.get (scatterCoord _ c t.shape.length) = t.get (swapAt c a b)
    congr 1
    have hcl : c.length = t.shape.length := by
      have := InB.length hc
      rw [this]
      show ((swapAt (List.range t.shape.length) a b).map _).length = _
      simp [length_swapAt]
    apply List.ext_getElem?
    intro i
    rw [getElem?_scatter, getElem?_swapAt c a b i (by omega) (by omega)]
    by_cases hi : i < t.shape.length
    · rw [if_pos hi, idxOf_swapRange _ a b i ha hb hi]
      unfold swapF at0
      by_cases h1 : i = b
      · subst h1; simp [List.getElem?_eq_getElem (show a < c.length by omega)]
      · by_cases h2 : i = a
        · subst h2; simp [h1, List.getElem?_eq_getElem (show b < c.length by omega)]
        · simp [h1, h2, List.getElem?_eq_getElem (show i < c.length by omega)]
    · have h1 : ¬ i = b := by omega
      have h2 : ¬ i = a := by omega
      simp [hi, h1, h2, List.getElem?_eq_none (show c.length ≤ i by omega)]

theorem getElem?_range_ite (n k : Nat) : (List.range n)[k]? = if k < n then some k else none := by
  by_cases h : k < n
  · simp [List.getElem?_range h, h]
  · simp [h, List.getElem?_eq_none (show (List.range n).length ≤ k by simp; omega)]

theorem getElem?_swapRange_ite (R a b i : Nat) (ha : a < R) (hb : b < R) :
    (swapAt (List.range R) a b)[i]? = if i < R then some (swapF a b i) else none := by
  by_cases hi : i < R
  · rw [if_pos hi]; exact getElem?_swapRange R a b i ha hb hi
  · rw [if_neg hi]; exact List.getElem?_eq_none (by simp [length_swapAt]; omega)

/-- the stack dim is the smaller of the swapped dims: the members are rolled `b-1 → a` -/
theorem memberPerm_swap_left (r a b : Nat) (hab : a < b) (hb : b < r) :
    memberPerm (swapAt (List.range r) a b) a = rollPerm (r - 1) (b - 1) a := by
  have ha : a < r := by omega
  unfold memberPerm rollPerm
  rw [idxOf_swapRange r a b a ha hb ha]
  have hsw : swapF a b a = b := by unfold swapF; simp
  rw [hsw]
  apply List.ext_getElem?
  intro i
  rw [List.getElem?_map, List.getElem?_eraseIdx, List.getElem?_insertIdx]
  simp only [getElem?_swapRange_ite r a b _ ha hb, List.getElem?_eraseIdx, getElem?_range_ite,
    List.length_eraseIdx, List.length_range]
  unfold swapF downD
  by_cases h1 : i < b <;> by_cases h2 : i < a <;> by_cases h3 : i = a <;> simp [h1, h2, h3] <;> (try grind)

/-- the stack dim is the larger of the swapped dims: the members are rolled `a → b-1` -/
theorem memberPerm_swap_right (r a b : Nat) (hab : a < b) (hb : b < r) :
    memberPerm (swapAt (List.range r) a b) b = rollPerm (r - 1) a (b - 1) := by
  have ha : a < r := by omega
  unfold memberPerm rollPerm
  rw [idxOf_swapRange r a b b ha hb hb]
  have hsw : swapF a b b = a := by unfold swapF; simp
  rw [hsw]
  apply List.ext_getElem?
  intro i
  rw [List.getElem?_map, List.getElem?_eraseIdx, List.getElem?_insertIdx]
  simp only [getElem?_swapRange_ite r a b _ ha hb, List.getElem?_eraseIdx, getElem?_range_ite,
    List.length_eraseIdx, List.length_range]
  unfold swapF downD
  by_cases h1 : i < a <;> by_cases h2 : i < b - 1 <;> by_cases h3 : i = b - 1 <;> simp [h1, h2, h3] <;> (try grind)

theorem extPerm_swap (r R a b : Nat) (ha : a < r) (hb : b < r) (hr : r ≤ R) :
    extPerm (swapAt (List.range r) a b) R = swapAt (List.range R) a b := by
  unfold extPerm
  apply List.ext_getElem?
  intro i
  rw [getElem?_swapRange_ite R a b i (by omega) (by omega), List.getElem?_append]
  simp only [length_swapAt, List.length_range, getElem?_swapRange_ite r a b i ha hb, List.getElem?_map,
    getElem?_range_ite]
  unfold swapF
  by_cases h1 : i < r <;> by_cases h2 : i < R <;> simp [h1, h2] <;> (try grind)

theorem T.Eqv.trans {a b c : T α} (h1 : a ≈ₜ b) (h2 : b ≈ₜ c) : a ≈ₜ c :=
  ⟨h1.1.trans h2.1, fun x hx => (h1.2 x hx).trans (h2.2 x (h1.1 ▸ hx))⟩

theorem TD.Eqv.trans {a b c : TD α} (h1 : a ≈ b) (h2 : b ≈ c) : a ≈ c :=
  ⟨h1.1.trans h2.1, h1.2.1.trans h2.2.1,
    fun k hk => T.Eqv.trans (h1.2.2 k hk) (h2.2.2 k (h1.2.1 ▸ hk))⟩

/-- `td.permute(transposition)` is `td.transpose` -/
theorem TD.permute_swap (m : TD α) (a b : Nat) (ha : a < m.batch.length) (hb : b < m.batch.length)
    (hleaf : ∀ k ∈ m.keys, m.batch.length ≤ (m.leaf k).shape.length) :
    m.permute (swapAt (List.range m.batch.length) a b) ≈ m.transpose a b := by
  refine ⟨?_, rfl, ?_⟩
  · show (swapAt (List.range m.batch.length) a b).map (fun j => m.batch[j]?.getD 0) = swapAt m.batch a b
    have := (permute_swap_eq_transpose (⟨m.batch, fun _ => ()⟩ : T Unit) a b ha hb).1
    exact this
  · intro k hk
    show (m.leaf k).permute (extPerm (swapAt (List.range m.batch.length) a b) (m.leaf k).shape.length)
      ≈ₜ (m.leaf k).transpose a b
    rw [extPerm_swap _ _ a b ha hb (hleaf k hk)]
    exact permute_swap_eq_transpose (m.leaf k) a b (by have := hleaf k hk; omega) (by have := hleaf k hk; omega)

/-- **`lazy.transpose(dim0, dim1)` is `dense.transpose(dim0, dim1)`** for every pair of dims (any
sign spelling), every rank and every stack dim — including the roll of the members when the
stack dim is swapped with a non-adjacent dim (the branch repaired by commit f2d15fe). -/
theorem transpose_refines_full [Inhabited α] (L : Lazy α) (b : Shape) (keys : List String)
    (feat : String → Shape) (hU : Uniform L b keys feat) (hne0 : L.members ≠ []) (dim0 dim1 : Int)
    (L' : Lazy α) (h : lazyTranspose L dim0 dim1 = some L') :
    ∃ x y : Nat, (x : Int) = (if dim0 < 0 then (L.batch.length : Int) + dim0 else dim0) ∧
      (y : Int) = (if dim1 < 0 then (L.batch.length : Int) + dim1 else dim1) ∧
      x < L.batch.length ∧ y < L.batch.length ∧
      absL L' ≈ (absL L).transpose (min x y) (max x y) := by
  obtain ⟨x, y, hx, hy, hxr, hyr, himp⟩ := transpose_refines L b keys feat hU hne0 dim0 dim1 L' h
  refine ⟨x, y, hx, hy, hxr, hyr, ?_⟩
  by_cases hadj : (min x y = L.sd → max x y = L.sd + 1) ∧ (max x y = L.sd → min x y + 1 = L.sd)
  · exact himp hadj.1 hadj.2
  -- the roll branches
  have hB := absL_batch_eq L b keys feat hU hne0
  have hr : L.batch.length = b.length + 1 := by
    show (absL L).batch.length = _
    rw [hB, List.length_insertIdx_of_le_length hU.hsd]
  have hleafLen : ∀ k ∈ (absL L).keys, (absL L).batch.length ≤ ((absL L).leaf k).shape.length := by
    intro k hk
    obtain ⟨_, hkk⟩ := head_batch_of_uniform L b keys feat hU hne0
    have hkeys : k ∈ keys := by rw [← hkk]; exact hk
    have hhead := head_shape_of_all _ _ (leaf_shapes L b keys feat hU k hkeys) (by simpa using hne0)
    show _ ≤ (T.stack (L.members.map fun m => m.leaf k) L.sd).shape.length
    rw [T.stack_shape, hhead, hB, List.length_insertIdx_of_le_length hU.hsd,
      List.length_insertIdx_of_le_length (by simp; have := hU.hsd; omega)]
    simp
  unfold lazyTranspose at h
  dsimp only at h
  rw [← hx, ← hy] at h
  have hrange : ¬ ((x : Int) < 0 ∨ (y : Int) < 0 ∨ (x : Int) ≥ (L.batch.length : Int) ∨ (y : Int) ≥ (L.batch.length : Int)) := by
    have : ∀ (x y n : Nat), x < n → y < n → ¬ ((x : Int) < 0 ∨ (y : Int) < 0 ∨ (x : Int) ≥ (n : Int) ∨ (y : Int) ≥ (n : Int)) := by
      intro x y n h1 h2; omega
    exact this x y _ hxr hyr
  rw [if_neg hrange] at h
  have hmin : (min (x : Int) (y : Int)).toNat = min x y := by
    have : ∀ (x y : Nat), (min (x : Int) (y : Int)).toNat = min x y := by intro x y; omega
    exact this x y
  have hmax : (max (x : Int) (y : Int)).toNat = max x y := by
    have : ∀ (x y : Nat), (max (x : Int) (y : Int)).toNat = max x y := by intro x y; omega
    exact this x y
  rw [hmin, hmax] at h
  generalize hA : min x y = A at h hadj ⊢
  generalize hBB : max x y = B at h hadj ⊢
  have hAB : A ≤ B := by omega
  have hBr : B < b.length + 1 := by omega
  by_cases heq : A = B
  · rw [if_pos heq] at h
    simp only [Option.some.injEq] at h
    subst h
    subst heq
    refine ⟨by show (absL L).batch = swapAt (absL L).batch A A; rw [swapAt_self], rfl, ?_⟩
    intro k _
    refine ⟨by show _ = swapAt _ A A; rw [swapAt_self], ?_⟩
    intro c _
    show _ = ((absL L).leaf k).get (swapAt c A A)
    rw [swapAt_self]
  have hne : A ≠ B := heq
  rw [if_neg hne] at h
  have hlt : A < B := by omega
  have hrn : (L.batch.length : Int).toNat = b.length + 1 := by omega
  by_cases h1 : A = L.sd
  · rw [if_pos h1] at h
    have h2 : ¬ B = A + 1 := by
      intro h2; apply hadj
      exact ⟨fun _ => by omega, fun h' => by omega⟩
    rw [if_neg h2, hrn] at h
    obtain ⟨rfl, _⟩ := lazyStack_some' _ _ _ h
    have hp := swapRange_isPerm (b.length + 1) A B (by omega) hBr
    have hroll := memberPerm_swap_left (b.length + 1) A B hlt hBr
    have hidx : (swapAt (List.range (b.length + 1)) A B).idxOf L.sd = B := by
      rw [← h1, idxOf_swapRange _ A B A (by omega) hBr (by omega)]
      unfold swapF; simp
    have := permute_members_refines L b keys feat hU hne0 _ hp
    rw [hidx, ← h1, hroll] at this
    simp only [Nat.add_sub_cancel] at this ⊢
    refine TD.Eqv.trans this ?_
    have hsw := TD.permute_swap (absL L) A B (by rw [hB, List.length_insertIdx_of_le_length hU.hsd]; omega)
      (by rw [hB, List.length_insertIdx_of_le_length hU.hsd]; omega) hleafLen
    rw [hB, List.length_insertIdx_of_le_length hU.hsd] at hsw
    rw [h1] at hsw ⊢
    exact hsw
  · rw [if_neg h1] at h
    have h2 : B = L.sd := by
      by_cases h2 : B = L.sd
      · exact h2
      · exfalso; apply hadj
        exact ⟨fun h' => absurd h' h1, fun h' => absurd h' h2⟩
    rw [if_pos h2] at h
    have h3 : ¬ A + 1 = B := by
      intro h3; apply hadj
      exact ⟨fun h' => absurd h' h1, fun _ => by omega⟩
    rw [if_neg h3, hrn] at h
    obtain ⟨rfl, _⟩ := lazyStack_some' _ _ _ h
    have hp := swapRange_isPerm (b.length + 1) A B (by omega) hBr
    have hroll := memberPerm_swap_right (b.length + 1) A B hlt hBr
    have hidx : (swapAt (List.range (b.length + 1)) A B).idxOf L.sd = A := by
      rw [← h2, idxOf_swapRange _ A B B (by omega) hBr hBr]
      unfold swapF; simp
    have := permute_members_refines L b keys feat hU hne0 _ hp
    rw [hidx, ← h2, hroll] at this
    simp only [Nat.add_sub_cancel] at this ⊢
    refine TD.Eqv.trans this ?_
    have hsw := TD.permute_swap (absL L) A B (by rw [hB, List.length_insertIdx_of_le_length hU.hsd]; omega)
      (by rw [hB, List.length_insertIdx_of_le_length hU.hsd]; omega) hleafLen
    rw [hB, List.length_insertIdx_of_le_length hU.hsd] at hsw
    rw [h2] at hsw ⊢
    exact hsw

end TdVerif.C08
