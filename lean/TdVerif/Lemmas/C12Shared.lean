/-
  C12 — the shared / memmap `out=` buffer end to end: the pieces `_split_tensordict` produces (eager or generator mode)
  tile the mapped dim from 0 to n, and writing every worker's result into its own piece of the buffer fills the buffer
  with the row-wise result.
-/
import TdVerif.Lemmas.C12Split

namespace TdVerif.C12

/-- the pieces tile `[start, n)` in order, none of them empty (a generator slice may stick out beyond `n`) -/
inductive Tiles (n : Nat) : Nat → List Piece → Prop
  | nil : Tiles n n []
  | rng (s e : Nat) (rest : List Piece) : s < min e n → Tiles n (min e n) rest → Tiles n s (.rng s e :: rest)
  | idx (i : Nat) (rest : List Piece) : i < n → Tiles n (i + 1) rest → Tiles n i (.idx i :: rest)

theorem splitLoop_tiles (n ss idx1 : Nat) (hss : 0 < ss) (hle : idx1 ≤ n) :
    Tiles n idx1 ((splitLoop n ss idx1).map fun p => Piece.rng p.1 p.2) := by
  fun_induction splitLoop n ss idx1 with
  | case1 idx1 h ih =>
    simp only [List.map_cons]
    apply Tiles.rng
    · omega
    · have e : min (min n (idx1 + ss)) n = min n (idx1 + ss) := by omega
      rw [e]; exact ih (by omega)
  | case2 idx1 h =>
    have : idx1 = n := by omega
    subst this
    exact Tiles.nil

theorem splitSlices_tiles (n ss : Nat) (hn : 0 < n) (hss : 0 < ss) :
    Tiles n 0 ((splitSlices n ss).map fun p => Piece.rng p.1 p.2) := by
  unfold splitSlices
  simp only [List.map_cons]
  apply Tiles.rng
  · omega
  · have e : min (min n ss) n = min n ss := by omega
    rw [e]; exact splitLoop_tiles n ss (min n ss) hss (by omega)

theorem genLoop_nil_of_ge (n cs start stop : Nat) (h : n ≤ start) : genLoop n cs start stop = [] := by
  rw [genLoop]; simp; omega

theorem genLoop_tiles (n cs start stop : Nat) (hcs : 0 < cs) (hst : stop = start + cs) (hle : start ≤ n) :
    Tiles n start ((genLoop n cs start stop).map fun p => Piece.rng p.1 p.2) := by
  fun_induction genLoop n cs start stop with
  | case1 start stop h ih =>
    simp only [List.map_cons]
    apply Tiles.rng
    · omega
    · by_cases hin : stop ≤ n
      · have e : min stop n = stop := by omega
        rw [e]; exact ih rfl hin
      · have e : min stop n = n := by omega
        rw [e, genLoop_nil_of_ge n cs stop _ (by omega)]
        exact Tiles.nil
  | case2 start stop h =>
    have : start = n := by omega
    subst this
    exact Tiles.nil

theorem idx_tiles (n : Nat) : ∀ (k s : Nat), s + k = n → Tiles n s ((List.range' s k).map Piece.idx) := by
  intro k
  induction k with
  | zero => intro s h; simp at h; subst h; exact Tiles.nil
  | succ k ih =>
    intro s h
    rw [List.range'_succ]
    simp only [List.map_cons]
    exact Tiles.idx s _ (by omega) (ih (s + 1) (by omega))

/-- every split that `_split_tensordict` accepts tiles the mapped dim (n > 0) -/
theorem split_tiles (n : Nat) (hn : 0 < n) (cs nc : Option Nat) (w : Nat) (gen : Bool) (ps : List Piece)
    (h : splitTensordict n cs nc w gen = .ok ps) : Tiles n 0 ps := by
  have byCount : ∀ k, splitByCount n k gen = .ok ps → Tiles n 0 ps := by
    intro k hk
    cases gen with
    | true =>
      by_cases h0 : effChunks n k = 0
      · simp [splitByCount, h0] at hk
      · simp only [splitByCount, if_true, h0, if_false, Except.ok.injEq] at hk
        subst hk
        have hc : 0 < ceilDiv n (effChunks n k) := ceilDiv_pos _ _ hn (by omega)
        exact genLoop_tiles n _ 0 _ hc (by omega) (by omega)
    | false =>
      by_cases h0 : effChunks n k < 1
      · simp [splitByCount, chunkSlices, h0] at hk
      · simp only [splitByCount, chunkSlices, h0, if_false, Except.ok.injEq, Bool.false_eq_true] at hk
        subst hk
        exact splitSlices_tiles n _ hn (ceilDiv_pos _ _ hn (by omega))
  cases cs with
  | none =>
    cases nc with
    | none => exact byCount w (by simpa [splitTensordict] using h)
    | some k => exact byCount k (by simpa [splitTensordict] using h)
  | some c =>
    cases nc with
    | some k => simp [splitTensordict] at h
    | none =>
      simp only [splitTensordict] at h
      by_cases hc : c = 0
      · subst hc
        simp only [splitBySize, if_true, Except.ok.injEq] at h
        subst h
        rw [List.range_eq_range']
        exact idx_tiles n n 0 (by omega)
      · cases gen with
        | true =>
          simp only [splitBySize, hc, if_false, if_true, Except.ok.injEq] at h
          subst h
          exact genLoop_tiles n c 0 c (by omega) (by omega) (by omega)
        | false =>
          simp only [splitBySize, hc, if_false, Except.ok.injEq, Bool.false_eq_true] at h
          subst h
          exact splitSlices_tiles n _ hn (by omega)

theorem writePiece_rng (cur : List β) (s e : Nat) (item : List β) (hlen : item.length = min e cur.length - s)
    (hfit : s + item.length ≤ cur.length) :
    writePiece cur (.rng s e) (some item) = some (cur.take s ++ item ++ cur.drop (s + item.length)) := by
  simp [writePiece, hlen, writeRows]
  omega

theorem writePiece_idx (cur : List β) (i : Nat) (item : List β) (hlen : item.length = 1) (hfit : i + 1 ≤ cur.length) :
    writePiece cur (.idx i) (some item) = some (cur.take i ++ item ++ cur.drop (i + item.length)) := by
  simp [writePiece, hlen, writeRows]
  omega

/-- the rows a clamped slice extracts, mapped, are the corresponding rows of the mapped list -/
theorem seg_map (g : α → β) (rows : List α) (start e : Nat) :
    ((rows.drop start).take (e - start)).map g = ((rows.map g).drop start).take (min e rows.length - start) := by
  rw [List.map_take, List.map_drop]
  apply List.ext_getElem?
  intro i
  simp only [List.getElem?_take]
  by_cases hi : i < e - start
  · by_cases hi2 : i < min e rows.length - start
    · simp [hi, hi2]
    · simp only [hi, hi2, if_true, if_false]
      simp only [List.getElem?_drop, List.getElem?_map]
      have : rows.length ≤ start + i := by omega
      simp [List.getElem?_eq_none this]
  · have hi2 : ¬ i < min e rows.length - start := by omega
    simp [hi, hi2]

/-- writing, piece by piece, the row-wise result of every piece into a buffer of the input's length replaces the rows from
    `start` on by the row-wise result -/
theorem mapSharedOut_tiles (g : α → β) (rows : List α) : ∀ (ps : List Piece) (start : Nat) (cur : List β),
    Tiles rows.length start ps → cur.length = rows.length →
    mapSharedOut cur (ps.zip (ps.map fun p => some ((p.extract rows).map g)))
      = some (cur.take start ++ (rows.map g).drop start) := by
  intro ps
  induction ps with
  | nil =>
    intro start cur ht hl
    cases ht
    simp [mapSharedOut, ← hl]
  | cons p ps ih =>
    intro start cur ht hl
    cases ht with
    | rng s e rest hlt hrest =>
      have hseg := seg_map g rows start e
      have hex : ((Piece.rng start e).extract rows).map g = ((rows.map g).drop start).take (min e rows.length - start) := hseg
      have hilen : (((Piece.rng start e).extract rows).map g).length = min e rows.length - start := by
        rw [hex]; simp; omega
      simp only [List.map_cons, List.zip_cons_cons, mapSharedOut]
      rw [writePiece_rng cur start e _ (by rw [hilen, hl]) (by rw [hilen]; omega)]
      simp only
      rw [ih (min e rows.length) _ hrest (by simp [hilen]; omega)]
      congr 1
      rw [hilen, hex]
      have h1 : (cur.take start ++ ((rows.map g).drop start).take (min e rows.length - start)).length = min e rows.length := by
        simp; omega
      rw [List.take_append_of_le_length (Nat.le_of_eq h1.symm)]
      rw [List.take_of_length_le (Nat.le_of_eq h1)]
      rw [List.append_assoc]
      congr 1
      have : (rows.map g).drop (min e rows.length) = ((rows.map g).drop start).drop (min e rows.length - start) := by
        rw [List.drop_drop]; congr 1; omega
      rw [this, List.take_append_drop]
    | idx i rest hlt hrest =>
      have hex : ((Piece.idx start).extract rows).map g = ((rows.map g).drop start).take 1 := by
        simp [Piece.extract, List.map_take, List.map_drop]
      have hilen : (((Piece.idx start).extract rows).map g).length = 1 := by
        rw [hex]; simp; omega
      simp only [List.map_cons, List.zip_cons_cons, mapSharedOut]
      rw [writePiece_idx cur start _ hilen (by omega)]
      simp only
      rw [ih (start + 1) _ hrest (by simp [hilen]; omega)]
      congr 1
      rw [hilen, hex]
      have h1 : (cur.take start ++ ((rows.map g).drop start).take 1).length = start + 1 := by
        simp; omega
      rw [List.take_append_of_le_length (Nat.le_of_eq h1.symm)]
      rw [List.take_of_length_le (Nat.le_of_eq h1)]
      rw [List.append_assoc]
      congr 1
      have : (rows.map g).drop (start + 1) = ((rows.map g).drop start).drop 1 := by
        rw [List.drop_drop]
      rw [this, List.take_append_drop]

end TdVerif.C12
