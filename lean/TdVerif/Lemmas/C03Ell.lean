/-
  C03 lemmas, part 3: `convert_ellipsis_to_idx` against torch's own ellipsis expansion.
-/
import TdVerif.Lemmas.C03Asm

namespace TdVerif.C03
open TorchSpec Td

/-- net change of `num_dims` over the items: +1 per `None`, −(ndim−1) per boolean mask -/
def ndDelta : List Ix → Int
  | [] => 0
  | x :: r => (if x = Ix.none then 1 else - maskExtra x) + ndDelta r

theorem ellLoop_pre (pre : List Ix) : ∀ (rest : List Ix) (i a : Nat) (nd : Int), noEll pre = true →
    ellLoop (pre ++ rest) i none a nd = ellLoop rest (i + pre.length) none a (nd + ndDelta pre) := by
  induction pre with
  | nil => intro rest i a nd _; simp [ndDelta]
  | cons x r ih =>
    intro rest i a nd hn
    simp only [noEll_cons, Bool.and_eq_true, bne_iff_ne, ne_eq] at hn
    obtain ⟨hx, hr⟩ := hn
    have e1 : ellLoop (x :: (r ++ rest)) i none a nd
        = ellLoop (r ++ rest) (i + 1) none a (if x = Ix.none then nd + 1 else nd - maskExtra x) := by
      simp [ellLoop, hx]
    rw [List.cons_append, e1, ih rest _ _ _ hr]
    congr 1
    · simp; omega
    · simp only [ndDelta]; split <;> omega

theorem ellLoop_post (post : List Ix) : ∀ (i sp a : Nat) (nd : Int), noEll post = true →
    ellLoop post i (some sp) a nd = .ok (some sp, a + post.length, nd + ndDelta post) := by
  induction post with
  | nil => intro i sp a nd _; simp [ellLoop, ndDelta]
  | cons x r ih =>
    intro i sp a nd hn
    simp only [noEll_cons, Bool.and_eq_true, bne_iff_ne, ne_eq] at hn
    obtain ⟨hx, hr⟩ := hn
    have e1 : ellLoop (x :: r) i (some sp) a nd
        = ellLoop r (i + 1) (some sp) (a + 1) (if x = Ix.none then nd + 1 else nd - maskExtra x) := by
      simp [ellLoop, hx]
    rw [e1, ih _ _ _ _ hr]
    simp only [ndDelta, List.length_cons]
    congr 3
    · omega
    · split <;> omega

/-- torch's count of named dims, in the terms `convert_ellipsis_to_idx` computes with -/
theorem specified_eq (items : List Ix) (hn : noEll items = true) :
    (specified items : Int) = items.length - ndDelta items := by
  induction items with
  | nil => rfl
  | cons x r ih =>
    simp only [noEll_cons, Bool.and_eq_true] at hn
    obtain ⟨hx, hr⟩ := hn
    have := ih hr
    cases x with
    | ell => simp at hx
    | none => simp [specified, ndDelta]; omega
    | mask s d => simp [specified, ndDelta, maskExtra]; omega
    | int i => simp [specified, ndDelta, maskExtra]; omega
    | slice a b c => simp [specified, ndDelta, maskExtra]; omega
    | list l => simp [specified, ndDelta, maskExtra]; omega
    | range a b c => simp [specified, ndDelta, maskExtra]; omega
    | tensor s d => simp [specified, ndDelta, maskExtra]; omega

/-- the first test of `convert_ellipsis_to_idx` in torch's terms -/
theorem extra_nones_eq (items : List Ix) (hn : noEll items = true) :
    (items.length : Int) - items.count Ix.none + (items.map maskExtra).sum = specified items := by
  induction items with
  | nil => rfl
  | cons x r ih =>
    simp only [noEll_cons, Bool.and_eq_true] at hn
    obtain ⟨hx, hr⟩ := hn
    have := ih hr
    cases x with
    | ell => simp at hx
    | none => simp [specified, maskExtra, List.count_cons]; omega
    | mask s d => simp [specified, maskExtra, List.count_cons]; omega
    | int i => simp [specified, maskExtra, List.count_cons]; omega
    | slice a b c => simp [specified, maskExtra, List.count_cons]; omega
    | list l => simp [specified, maskExtra, List.count_cons]; omega
    | range a b c => simp [specified, maskExtra, List.count_cons]; omega
    | tensor s d => simp [specified, maskExtra, List.count_cons]; omega

end TdVerif.C03

namespace TdVerif.C03
open TorchSpec Td

theorem count_ell_of_noEll (l : List Ix) (h : noEll l = true) : l.count Ix.ell = 0 := by
  induction l with
  | nil => rfl
  | cons x r ih =>
    simp only [noEll_cons, Bool.and_eq_true, bne_iff_ne, ne_eq] at h
    have : (x == Ix.ell) = false := by simpa using h.1
    simp [List.count_cons, this, ih h.2]

theorem ellLoop_one (pre post : List Ix) (n : Nat) (hpre : noEll pre = true) (hpost : noEll post = true) :
    ellLoop (pre ++ Ix.ell :: post) 0 none 0 n =
      .ok (some pre.length, post.length, (n : Int) + ndDelta pre + ndDelta post) := by
  rw [ellLoop_pre pre _ _ _ _ hpre]
  have e1 : ∀ i a nd, ellLoop (Ix.ell :: post) i none a nd = ellLoop post (i + 1) (some i) a nd := by
    intro i a nd; simp [ellLoop, maskExtra]
  rw [e1, ellLoop_post post _ _ _ _ hpost]
  simp

/-- `convert_ellipsis_to_idx` on an index with exactly one Ellipsis: the Ellipsis becomes as many full slices as
    torch lets it stand for (boolean masks of any rank) -/
theorem convertEllipsis_one (pre post : List Ix) (n : Nat)
    (hpre : noEll pre = true) (hpost : noEll post = true)
    (hs : specified pre + specified post ≤ n) :
    convertEllipsis (.tuple (pre ++ Ix.ell :: post)) n =
      .ok (.tuple (pre ++ List.replicate (n - specified pre - specified post) slAll ++ post)) := by
  have h1 := specified_eq pre hpre
  have h2 := specified_eq post hpost
  have g1 := extra_nones_eq pre hpre
  have g2 := extra_nones_eq post hpost
  have hc1 := count_ell_of_noEll pre hpre
  have hc2 := count_ell_of_noEll post hpost
  have hne : (pre ++ Ix.ell :: post).all (· != Ix.ell) = false := by simp
  have hcnt : (pre ++ Ix.ell :: post).count Ix.ell = 1 := by simp [List.count_append, hc1, hc2]
  have hnones : (pre ++ Ix.ell :: post).count Ix.none = pre.count Ix.none + post.count Ix.none := by
    simp [List.count_append, List.count_cons]
  have hlen : (pre ++ Ix.ell :: post).length = pre.length + post.length + 1 := by simp; omega
  have hextra : ((pre ++ Ix.ell :: post).map maskExtra).sum = (pre.map maskExtra).sum + (post.map maskExtra).sum := by
    simp [List.sum_append, maskExtra]
  simp only [convertEllipsis, hne, PyIndex.items, hcnt, hnones, hlen, hextra, ellLoop_one pre post n hpre hpost]
  have hlt : ¬ ((n : Int) < ((pre.length + post.length + 1 : Nat) : Int) - (1 : Nat) - ((pre.count Ix.none + post.count Ix.none : Nat) : Int)
      + ((pre.map maskExtra).sum + (post.map maskExtra).sum)) := by
    push_cast; omega
  simp only [Bool.false_eq_true, if_false, hlt]
  have hell : (((n : Int) + ndDelta pre + ndDelta post) - (post.length : Nat) - (pre.length : Nat)).toNat
      = n - specified pre - specified post := by omega
  rw [hell]
  have ht : (pre ++ Ix.ell :: post).take pre.length = pre := by simp
  have hd : ((pre ++ Ix.ell :: post).drop (pre.length + 1)).take post.length = post := by
    have : (pre ++ Ix.ell :: post).drop (pre.length + 1) = post := by
      rw [show pre ++ Ix.ell :: post = (pre ++ [Ix.ell]) ++ post by simp]
      rw [List.drop_append_of_le_length (by simp)]
      simp
    rw [this]; simp
  simp only [ht, hd]
  have hl : ((pre ++ List.replicate (n - specified pre - specified post) slAll ++ post).length : Int)
      = (n : Int) + ndDelta pre + ndDelta post := by
    simp; omega
  simp only [hl]; simp

end TdVerif.C03

namespace TdVerif.C03
open TorchSpec Td

/-- without an Ellipsis the ellipsis width is irrelevant -/
theorem walk_e_irrel (items : List Ix) : ∀ (e e' : Nat) (dims : Shape), noEll items = true →
    walk e dims items = walk e' dims items := by
  induction items with
  | nil => intro e e' dims _; simp [walk]
  | cons x r ih =>
    intro e e' dims hn
    simp only [noEll_cons, Bool.and_eq_true] at hn
    obtain ⟨hx, hr⟩ := hn
    cases x with
    | ell => simp at hx
    | none => simp only [walk, ih e e' _ hr]
    | mask s d => simp only [walk, ih e e' _ hr]
    | int i => cases dims <;> simp only [walk, ih e e' _ hr]
    | slice a b c => cases dims <;> simp only [walk, ih e e' _ hr]
    | list l => cases dims <;> simp only [walk, ih e e' _ hr]
    | range a b c => cases dims <;> simp only [walk, ih e e' _ hr]
    | tensor s d => cases dims <;> cases s <;> simp only [walk, ih e e' _ hr]

theorem indices_full (n : Nat) : SliceSpec.indices none none none (n : Int) = .ok (0, (n : Int), 1) := by
  simp [SliceSpec.indices]

theorem rangeLen_full (n : Nat) : (SliceSpec.rangeLen 0 (n : Int) 1).toNat = n := by
  unfold SliceSpec.rangeLen
  simp
  split <;> omega

/-- `:` keeps the dim whole -/
theorem consSlice_full (n : Nat) (rest : Except Err (List Piece)) :
    consSlice n none none none rest = rest.map (Piece.full n :: ·) := by
  simp [consSlice, indices_full, rangeLen_full, Piece.full]

theorem map_map_except {α β γ} (f : α → β) (g : β → γ) (x : Except Err α) :
    (x.map f).map g = x.map (g ∘ f) := by
  cases x <;> rfl

theorem walk_replicate (k : Nat) : ∀ (e : Nat) (dims : Shape) (r : List Ix), k ≤ dims.length →
    walk e dims (List.replicate k slAll ++ r) = (walk e (dims.drop k) r).map ((dims.take k).map Piece.full ++ ·) := by
  induction k with
  | zero => intro e dims r _; cases h : walk e dims r <;> simp [Except.map, h]
  | succ k ih =>
    intro e dims r hk
    cases dims with
    | nil => simp at hk
    | cons n ds =>
      simp only [List.replicate_succ, List.cons_append, slAll, walk, consSlice_full]
      have := ih e ds r (by simpa using hk)
      simp only [slAll] at this
      rw [this, map_map_except]
      simp [Function.comp_def]

theorem specified_append (a b : List Ix) : specified (a ++ b) = specified a + specified b := by
  induction a with
  | nil => simp [specified]
  | cons x r ih => cases x <;> simp [specified, ih] <;> omega

theorem specified_ell (pre post : List Ix) : specified (pre ++ Ix.ell :: post) = specified pre + specified post := by
  simp [specified_append, specified]

/-- torch's expansion of the Ellipsis is the same plan as `e` explicit full slices -/
theorem walk_ell_convert (pre : List Ix) : ∀ (post : List Ix) (e e' : Nat) (dims : Shape),
    noEll pre = true → noEll post = true → e + specified pre ≤ dims.length →
    walk e dims (pre ++ Ix.ell :: post) = walk e' dims (pre ++ List.replicate e slAll ++ post) := by
  induction pre with
  | nil =>
    intro post e e' dims _ hpost hle
    simp only [List.nil_append, walk]
    rw [walk_replicate e e' dims post (by simpa [specified] using hle), walk_e_irrel post e e' _ hpost]
  | cons x r ih =>
    intro post e e' dims hn hpost hle
    simp only [noEll_cons, Bool.and_eq_true] at hn
    obtain ⟨hx, hr⟩ := hn
    cases x with
    | ell => simp at hx
    | none =>
      simp only [List.cons_append, walk]
      rw [ih post e e' dims hr hpost (by simpa [specified] using hle)]
    | mask s d =>
      simp only [List.cons_append, walk]
      split
      · rename_i hs
        have hlen : s.length ≤ dims.length := by
          have := congrArg List.length hs.2; simp at this; omega
        rw [ih post e e' _ hr hpost (by simp [specified] at hle ⊢; omega)]
      · rfl
    | int i =>
      cases dims with
      | nil => simp [walk]
      | cons n ds =>
        simp only [List.cons_append, walk]
        rw [ih post e e' ds hr hpost (by simp [specified] at hle ⊢; omega)]
    | slice a b c =>
      cases dims with
      | nil => simp [walk]
      | cons n ds =>
        simp only [List.cons_append, walk]
        rw [ih post e e' ds hr hpost (by simp [specified] at hle ⊢; omega)]
    | list l =>
      cases dims with
      | nil => simp [walk]
      | cons n ds =>
        simp only [List.cons_append, walk]
        rw [ih post e e' ds hr hpost (by simp [specified] at hle ⊢; omega)]
    | range a b c =>
      cases dims with
      | nil => simp [walk]
      | cons n ds =>
        simp only [List.cons_append, walk]
        rw [ih post e e' ds hr hpost (by simp [specified] at hle ⊢; omega)]
    | tensor s d =>
      cases dims with
      | nil => cases s <;> simp [walk]
      | cons n ds =>
        cases s <;>
        · simp only [List.cons_append, walk]
          rw [ih post e e' ds hr hpost (by simp [specified] at hle ⊢; omega)]

end TdVerif.C03

namespace TdVerif.C03
open TorchSpec Td

theorem noEll_append (a b : List Ix) : noEll (a ++ b) = (noEll a && noEll b) := by
  simp [noEll, List.all_append]

theorem noEll_replicate_slAll (k : Nat) : noEll (List.replicate k slAll) = true := by
  induction k with
  | zero => rfl
  | succ k ih =>
    rw [List.replicate_succ, noEll_cons, ih]; rfl

theorem noEll_convert (pre post : List Ix) (k : Nat) (h1 : noEll pre = true) (h2 : noEll post = true) :
    noEll (pre ++ List.replicate k slAll ++ post) = true := by
  simp [noEll_append, h1, h2, noEll_replicate_slAll]

end TdVerif.C03
