/-
  C08 — tensor-level read refinement: indexing the dense stack = stacking the indexed members.
-/
import TdVerif.Lemmas.C08Core
namespace TdVerif.C08

theorem InB.at0_lt : ∀ {c : List Nat} {s : Shape}, InB c s → ∀ (i : Nat) (d : Nat), s[i]? = some d → at0 c i < d
  | [], [], _, i, d, h => by simp at h
  | o :: c, x :: s, hc, 0, d, h => by simp at h; simpa [at0, ← h] using hc.1
  | o :: c, x :: s, hc, i + 1, d, h => by
    simp at h
    simpa [at0_cons_succ] using InB.at0_lt hc.2 i d h
  | [], _ :: _, h, _, _, _ => by simp [InB] at h
  | _ :: _, [], h, _, _, _ => by simp [InB] at h

theorem T.stack_shape [Inhabited α] (ms : List (T α)) (sd : Nat) :
    (T.stack ms sd).shape = ((ms.head?.map T.shape).getD []).insertIdx sd ms.length := rfl

theorem T.stack_get [Inhabited α] (ms : List (T α)) (sd : Nat) (c : List Nat) :
    (T.stack ms sd).get c = (ms[at0 c sd]?.getD default).get (c.eraseIdx sd) := rfl

theorem idxT_shape (ix : List Ix) (t : T α) : (idxT ix t).shape = (idxShape ix t.shape).getD [] := rfl
theorem idxT_get (ix : List Ix) (t : T α) (c : List Nat) : (idxT ix t).get c = t.get (idxCoord ix t.shape c) := rfl

/-- T-level read refinement, stack-dim item = slice (or absent = full slice) -/
theorem idx_stack_slice [Inhabited α] (ms : List (T α)) (sh : Shape) (sd : Nat) (ix : List Ix)
    (hsh : ∀ m ∈ ms, m.shape = sh) (hsd : sd ≤ sh.length) (hp : Plain sd ix)
    (s so : Shape) (hs : idxShape ix (sh.insertIdx sd ms.length) = some s)
    (hso : idxShape (splitRec sd ix).out sh = some so) (hpos : (splitRec sd ix).pos ≤ so.length)
    (a b c : Option Int) (hit : (splitRec sd ix).item.getD Ix.full = .slice a b c)
    (st stp : Int) (len : Nat) (hn : sliceNorm a b c ms.length = some (st, stp, len)) (hlen : 0 < len)
    (hin : ∀ j, j < len → sliceAt st stp j < ms.length) :
    T.stack ((List.range len).map fun j =>
        idxT (splitRec sd ix).out (ms[sliceAt st stp j]?.getD default)) (splitRec sd ix).pos
      ≈ₜ idxT ix (T.stack ms sd) := by
  have hne : ms ≠ [] := by
    intro h; have := hin 0 hlen; simp [h] at this
  have hhead : (ms.head?.map T.shape).getD [] = sh := by
    cases ms with
    | nil => exact absurd rfl hne
    | cons m _ => simpa using hsh m (by simp)
  have hmem : ∀ j, j < len → (ms[sliceAt st stp j]?.getD default).shape = sh := by
    intro j hj
    have := hin j hj
    rw [List.getElem?_eq_getElem this]
    exact hsh _ (List.getElem_mem _)
  have hsplit := shape_split ms.length ix sd sh hsd hp
  rw [hs, hso, hit] at hsplit
  simp only [itemShape, hn, Option.bind_some] at hsplit
  have hstp : 0 < stp := by
    by_cases h : 0 < stp
    · exact h
    · simp [h] at hsplit
  simp only [hstp, if_true, Option.map_some, Option.some.injEq] at hsplit
  have hsins : s = so.insertIdx (splitRec sd ix).pos len := by
    rw [hsplit, insertIdx_eq_take_drop _ _ _ hpos]
  constructor
  · -- shapes
    rw [T.stack_shape, idxT_shape, T.stack_shape, hhead, hs]
    cases len with
    | zero => omega
    | succ l =>
      simp only [List.range_succ_eq_map, List.map_cons, List.head?_cons, Option.map_some,
        Option.getD_some, idxT_shape, List.length_cons, List.length_map, List.length_range]
      rw [hmem 0 (by omega), hso, hsins]
      simp
  · intro cc hcc
    have hcs : InB cc s := by
      rw [T.stack_shape] at hcc
      cases len with
      | zero => omega
      | succ l =>
        simp only [List.range_succ_eq_map, List.map_cons, List.head?_cons, Option.map_some,
          Option.getD_some, idxT_shape, List.length_cons, List.length_map, List.length_range] at hcc
        rw [hmem 0 (by omega), hso] at hcc
        rw [hsins]; simpa using hcc
    have hfit := fits_of_inB ix _ s cc hs hcs
    obtain ⟨h1, h2⟩ := coord_split ms.length ix sd sh cc hsd hp hfit
    rw [hit] at h1 h2
    have hlt : at0 cc (splitRec sd ix).pos < len := by
      apply InB.at0_lt hcs
      rw [hsins]; simp [List.getElem?_insertIdx_self, hpos]
    simp only [T.stack_get, idxT_get, T.stack_shape, hhead, h1, h2, Ix.outRank_slice, itemCoord]
    have hk : (List.map (fun j => idxT (splitRec sd ix).out (ms[sliceAt st stp j]?.getD default))
        (List.range len))[at0 cc (splitRec sd ix).pos]? =
        some (idxT (splitRec sd ix).out (ms[sliceAt st stp (at0 cc (splitRec sd ix).pos)]?.getD default)) := by
      simp [hlt]
    have hat : at0 (List.take 1 (List.drop (splitRec sd ix).pos cc)) 0 = at0 cc (splitRec sd ix).pos := by
      simp [at0, List.getElem?_drop]
    rw [hk, hat, ← List.eraseIdx_eq_take_drop_succ]
    simp [sliceNormD, hn, idxT_get, hmem _ hlt]

/-- shared pointwise step: what the dense index reads, expressed through the split -/
theorem idx_stack_get [Inhabited α] (ms : List (T α)) (sh : Shape) (sd : Nat) (ix : List Ix)
    (hhead : (ms.head?.map T.shape).getD [] = sh) (hsd : sd ≤ sh.length) (hp : Plain sd ix)
    (s : Shape) (hs : idxShape ix (sh.insertIdx sd ms.length) = some s) (cc : List Nat) (hcs : InB cc s) :
    (idxT ix (T.stack ms sd)).get cc =
      (ms[itemCoord ((splitRec sd ix).item.getD Ix.full) ms.length
            ((cc.drop (splitRec sd ix).pos).take ((splitRec sd ix).item.getD Ix.full).outRank)]?.getD default).get
        (idxCoord (splitRec sd ix).out sh
          (cc.take (splitRec sd ix).pos ++ cc.drop ((splitRec sd ix).pos + ((splitRec sd ix).item.getD Ix.full).outRank))) := by
  have hfit := fits_of_inB ix _ s cc hs hcs
  obtain ⟨h1, h2⟩ := coord_split ms.length ix sd sh cc hsd hp hfit
  simp only [T.stack_get, idxT_get, T.stack_shape, hhead, h1, h2]

theorem head_shape_of_all (ms : List (T α)) (sh : Shape) (hsh : ∀ m ∈ ms, m.shape = sh) (hne : ms ≠ []) :
    (ms.head?.map T.shape).getD [] = sh := by
  cases ms with
  | nil => exact absurd rfl hne
  | cons m _ => simpa using hsh m (by simp)

/-- T-level read refinement, stack-dim item = int -/
theorem idx_stack_int [Inhabited α] (ms : List (T α)) (sh : Shape) (sd : Nat) (ix : List Ix)
    (hsh : ∀ m ∈ ms, m.shape = sh) (hsd : sd ≤ sh.length) (hp : Plain sd ix)
    (s so : Shape) (hs : idxShape ix (sh.insertIdx sd ms.length) = some s)
    (hso : idxShape (splitRec sd ix).out sh = some so)
    (k : Int) (hit : (splitRec sd ix).item.getD Ix.full = .int k)
    (j : Nat) (hn : normInt k ms.length = some j) (hj : j < ms.length) :
    idxT (splitRec sd ix).out (ms[j]?.getD default) ≈ₜ idxT ix (T.stack ms sd) := by
  have hne : ms ≠ [] := by intro h; simp [h] at hj
  have hhead := head_shape_of_all ms sh hsh hne
  have hmem : (ms[j]?.getD default).shape = sh := by
    rw [List.getElem?_eq_getElem hj]; exact hsh _ (List.getElem_mem _)
  have hsplit := shape_split ms.length ix sd sh hsd hp
  rw [hs, hso, hit] at hsplit
  simp [itemShape, hn] at hsplit
  constructor
  · rw [idxT_shape, idxT_shape, T.stack_shape, hhead, hs, hmem, hso, hsplit]
  · intro cc hcc
    have hcs : InB cc s := by
      rw [idxT_shape, hmem, hso] at hcc; rw [hsplit]; simpa using hcc
    rw [idx_stack_get ms sh sd ix hhead hsd hp s hs cc hcs, hit]
    simp [itemCoord, hn, idxT_get, hmem]

theorem normInt_lt {i : Int} {d j : Nat} (h : normInt i d = some j) : j < d := by
  unfold normInt at h
  split at h
  · simp at h; omega
  · split at h
    · simp at h; omega
    · simp at h

theorem take_one_drop (cc : List Nat) (p : Nat) (h : p < cc.length) :
    (cc.drop p).take 1 = [at0 cc p] := by
  apply List.ext_getElem
  · simp; omega
  · intro i h1 h2
    have : i = 0 := by simp at h2; omega
    subst this
    simp [at0, List.getElem?_eq_getElem h]

/-- T-level read refinement, stack-dim item = rank-1 integer tensor (list / range / 1-d tensor) -/
theorem idx_stack_tens1 [Inhabited α] (ms : List (T α)) (sh : Shape) (sd : Nat) (ix : List Ix)
    (hsh : ∀ m ∈ ms, m.shape = sh) (hne : ms ≠ []) (hsd : sd ≤ sh.length) (hp : Plain sd ix)
    (s so : Shape) (hs : idxShape ix (sh.insertIdx sd ms.length) = some s)
    (hso : idxShape (splitRec sd ix).out sh = some so) (hpos : (splitRec sd ix).pos ≤ so.length)
    (t : T Int) (k : Nat) (hit : (splitRec sd ix).item.getD Ix.full = .tens t) (hk : t.shape = [k]) (hk0 : 0 < k)
    (hin : ∀ j, j < k → (normInt (t.get [j]) ms.length).getD 0 < ms.length) :
    T.stack ((List.range k).map fun j =>
        idxT (splitRec sd ix).out (ms[(normInt (t.get [j]) ms.length).getD 0]?.getD default)) (splitRec sd ix).pos
      ≈ₜ idxT ix (T.stack ms sd) := by
  have hhead := head_shape_of_all ms sh hsh hne
  have hmem : ∀ j, j < k → (ms[(normInt (t.get [j]) ms.length).getD 0]?.getD default).shape = sh := by
    intro j hj
    rw [List.getElem?_eq_getElem (hin j hj)]
    exact hsh _ (List.getElem_mem _)
  have hsplit := shape_split ms.length ix sd sh hsd hp
  rw [hs, hso, hit] at hsplit
  simp only [itemShape, Option.bind_some] at hsplit
  split at hsplit
  case isFalse => simp at hsplit
  simp only [hk, Option.map_some, Option.some.injEq] at hsplit
  have hsins : s = so.insertIdx (splitRec sd ix).pos k := by
    rw [hsplit, insertIdx_eq_take_drop _ _ _ hpos]
  have hshape : (T.stack ((List.range k).map fun j =>
        idxT (splitRec sd ix).out (ms[(normInt (t.get [j]) ms.length).getD 0]?.getD default)) (splitRec sd ix).pos).shape = s := by
    rw [T.stack_shape]
    cases k with
    | zero => omega
    | succ l =>
      simp only [List.range_succ_eq_map, List.map_cons, List.head?_cons, Option.map_some,
        Option.getD_some, idxT_shape, List.length_cons, List.length_map, List.length_range]
      rw [hmem 0 (by omega), hso, hsins]
      rfl
  constructor
  · rw [hshape, idxT_shape, T.stack_shape, hhead, hs]; rfl
  · intro cc hcc
    rw [hshape] at hcc
    rw [idx_stack_get ms sh sd ix hhead hsd hp s hs cc hcc, hit]
    have hlt : at0 cc (splitRec sd ix).pos < k := by
      apply InB.at0_lt hcc
      rw [hsins]; simp [List.getElem?_insertIdx_self, hpos]
    have hcl : (splitRec sd ix).pos < cc.length := by
      rw [InB.length hcc, hsins, List.length_insertIdx_of_le_length hpos]; omega
    have hkk : (List.map (fun j => idxT (splitRec sd ix).out (ms[(normInt (t.get [j]) ms.length).getD 0]?.getD default))
        (List.range k))[at0 cc (splitRec sd ix).pos]? =
        some (idxT (splitRec sd ix).out (ms[(normInt (t.get [at0 cc (splitRec sd ix).pos]) ms.length).getD 0]?.getD default)) := by
      simp [hlt]
    simp only [T.stack_get, hkk, Option.getD_some, idxT_get, hmem _ hlt, Ix.outRank_tens, hk,
      List.length_cons, List.length_nil, Nat.zero_add, itemCoord, take_one_drop cc _ hcl,
      ← List.eraseIdx_eq_take_drop_succ]

theorem take_two_drop (cc : List Nat) (p : Nat) (h : p + 1 < cc.length) :
    (cc.drop p).take 2 = [at0 cc p, at0 cc (p + 1)] := by
  apply List.ext_getElem
  · simp; omega
  · intro i h1 h2
    have : i = 0 ∨ i = 1 := by simp at h2; omega
    rcases this with rfl | rfl
    · simp [at0, List.getElem?_eq_getElem (show p < cc.length by omega)]
    · simp [at0, List.getElem?_eq_getElem h]

theorem eraseIdx_eraseIdx_same : ∀ (cc : List Nat) (p : Nat),
    (cc.eraseIdx p).eraseIdx p = cc.take p ++ cc.drop (p + 2)
  | [], p => by simp
  | a :: cc, 0 => by cases cc <;> simp
  | a :: cc, p + 1 => by simp [eraseIdx_eraseIdx_same cc p]

theorem at0_eraseIdx_same (cc : List Nat) (p : Nat) : at0 (cc.eraseIdx p) p = at0 cc (p + 1) := by
  simp [at0, List.getElem?_eraseIdx]

theorem insertIdx_twice {β} (x y : β) : ∀ (l : List β) (p : Nat), p ≤ l.length →
    (l.insertIdx p y).insertIdx p x = l.take p ++ [x, y] ++ l.drop p
  | l, 0, _ => by simp
  | [], p + 1, h => by simp at h
  | a :: l, p + 1, h => by simp [insertIdx_twice x y l p (by simpa using h)]

/-- the member (or junk default) chosen by entry `e` of an index tensor -/
abbrev pick [Inhabited α] (ms : List (T α)) (e : Int) : T α :=
  ms[(normInt e ms.length).getD 0]?.getD default

/-- T-level read refinement, stack-dim item = rank-2 integer tensor: a stack (at `pos`) of
stacks (at `pos`) -/
theorem idx_stack_tens2 [Inhabited α] (ms : List (T α)) (sh : Shape) (sd : Nat) (ix : List Ix)
    (hsh : ∀ m ∈ ms, m.shape = sh) (hne : ms ≠ []) (hsd : sd ≤ sh.length) (hp : Plain sd ix)
    (s so : Shape) (hs : idxShape ix (sh.insertIdx sd ms.length) = some s)
    (hso : idxShape (splitRec sd ix).out sh = some so) (hpos : (splitRec sd ix).pos ≤ so.length)
    (t : T Int) (k1 k2 : Nat) (hit : (splitRec sd ix).item.getD Ix.full = .tens t)
    (hk : t.shape = [k1, k2]) (hk1 : 0 < k1) (hk2 : 0 < k2)
    (hin : ∀ a b, a < k1 → b < k2 → (normInt (t.get [a, b]) ms.length).getD 0 < ms.length) :
    T.stack ((List.range k1).map fun a =>
        T.stack ((List.range k2).map fun b => idxT (splitRec sd ix).out (pick ms (t.get [a, b])))
          (splitRec sd ix).pos) (splitRec sd ix).pos
      ≈ₜ idxT ix (T.stack ms sd) := by
  have hhead := head_shape_of_all ms sh hsh hne
  have hmem : ∀ a b, a < k1 → b < k2 → (pick ms (t.get [a, b])).shape = sh := by
    intro a b ha hb
    show (ms[(normInt (t.get [a, b]) ms.length).getD 0]?.getD default).shape = sh
    rw [List.getElem?_eq_getElem (hin a b ha hb)]
    exact hsh _ (List.getElem_mem _)
  have hsplit := shape_split ms.length ix sd sh hsd hp
  rw [hs, hso, hit] at hsplit
  simp only [itemShape, Option.bind_some] at hsplit
  split at hsplit
  case isFalse => simp at hsplit
  simp only [hk, Option.map_some, Option.some.injEq] at hsplit
  have hsins : s = (so.insertIdx (splitRec sd ix).pos k2).insertIdx (splitRec sd ix).pos k1 := by
    rw [hsplit, insertIdx_twice _ _ _ _ hpos]
  have hinner : ∀ a, a < k1 → (T.stack ((List.range k2).map fun b =>
        idxT (splitRec sd ix).out (pick ms (t.get [a, b]))) (splitRec sd ix).pos).shape
        = so.insertIdx (splitRec sd ix).pos k2 := by
    intro a ha
    rw [T.stack_shape]
    cases k2 with
    | zero => omega
    | succ l =>
      simp only [List.range_succ_eq_map, List.map_cons, List.head?_cons, Option.map_some,
        Option.getD_some, idxT_shape, List.length_cons, List.length_map, List.length_range]
      rw [hmem a 0 ha (by omega), hso]
      rfl
  have hshape : (T.stack ((List.range k1).map fun a =>
        T.stack ((List.range k2).map fun b => idxT (splitRec sd ix).out (pick ms (t.get [a, b])))
          (splitRec sd ix).pos) (splitRec sd ix).pos).shape = s := by
    rw [T.stack_shape]
    cases k1 with
    | zero => omega
    | succ l =>
      simp only [List.range_succ_eq_map, List.map_cons, List.head?_cons, Option.map_some,
        Option.getD_some, List.length_cons, List.length_map, List.length_range]
      rw [hinner 0 (by omega), hsins]
  constructor
  · rw [hshape, idxT_shape, T.stack_shape, hhead, hs]; rfl
  · intro cc hcc
    rw [hshape] at hcc
    rw [idx_stack_get ms sh sd ix hhead hsd hp s hs cc hcc, hit]
    have hl1 : (so.insertIdx (splitRec sd ix).pos k2).length = so.length + 1 :=
      List.length_insertIdx_of_le_length hpos _
    have hlt1 : at0 cc (splitRec sd ix).pos < k1 := by
      apply InB.at0_lt hcc
      rw [hsins]; simp [List.getElem?_insertIdx_self, hl1]; omega
    have hlt2 : at0 cc ((splitRec sd ix).pos + 1) < k2 := by
      apply InB.at0_lt hcc
      rw [hsins, List.getElem?_insertIdx_of_gt (by omega)]
      simp [List.getElem?_insertIdx_self, hpos]
    have hcl : (splitRec sd ix).pos + 1 < cc.length := by
      rw [InB.length hcc, hsins, List.length_insertIdx_of_le_length (by omega), hl1]; omega
    have hk1' : (List.map (fun a => T.stack ((List.range k2).map fun b =>
          idxT (splitRec sd ix).out (pick ms (t.get [a, b]))) (splitRec sd ix).pos)
        (List.range k1))[at0 cc (splitRec sd ix).pos]? =
        some (T.stack ((List.range k2).map fun b =>
          idxT (splitRec sd ix).out (pick ms (t.get [at0 cc (splitRec sd ix).pos, b]))) (splitRec sd ix).pos) := by
      simp [hlt1]
    have hk2' : (List.map (fun b => idxT (splitRec sd ix).out (pick ms (t.get [at0 cc (splitRec sd ix).pos, b])))
        (List.range k2))[at0 cc ((splitRec sd ix).pos + 1)]? =
        some (idxT (splitRec sd ix).out
          (pick ms (t.get [at0 cc (splitRec sd ix).pos, at0 cc ((splitRec sd ix).pos + 1)]))) := by
      simp [hlt2]
    rw [T.stack_get, hk1', Option.getD_some, T.stack_get, at0_eraseIdx_same, hk2', Option.getD_some,
      idxT_get, hmem _ _ hlt1 hlt2, eraseIdx_eraseIdx_same]
    simp only [Ix.outRank_tens, hk, List.length_cons, List.length_nil, Nat.zero_add, itemCoord,
      take_two_drop cc _ hcl, pick]
end TdVerif.C08
