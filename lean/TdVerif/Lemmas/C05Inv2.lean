/-
  C05 — invariant preservation, part 2: `memmap_`, `share_memory_`, construction, garbage collection, mutators.
-/
import TdVerif.Lemmas.C05Inv

namespace TdVerif.C05

/-! ### `memmap_` -/

theorem memmapFlagsF_le : ∀ n h i, Le h (memmapFlagsF n h i) := by
  intro n
  induction n with
  | zero => intro h i; exact Le.refl h
  | succ n ih =>
    intro h i
    simp only [memmapFlagsF]
    refine Le.trans ?_ (foldl_le _ (fun acc j => ih acc j) _ _)
    split
    · exact Le.refl h
    · exact le_upd h i _ (fun x => ⟨rfl, rfl, rfl⟩) (fun _ _ => rfl) (fun _ _ hy => hy)

theorem memmapFlagsF_frame : ∀ n h i m, ¬ Reach h i m → (memmapFlagsF n h i).node m = h.node m := by
  intro n
  induction n with
  | zero => intro h i m _; rfl
  | succ n ih =>
    intro h i m hm
    have hmi : m ≠ i := fun e => hm (e ▸ Reach.refl _)
    simp only [memmapFlagsF]
    have key : ∀ (h1 : Heap), Le h h1 → h1.node m = h.node m →
        ((kidIds h i).foldl (fun acc j => memmapFlagsF n acc j) h1).node m = h.node m := by
      intro h1 l1 e1
      have := foldl_inv (fun acc j => memmapFlagsF n acc j) (fun acc => Le h acc ∧ acc.node m = h.node m)
        (kidIds h i) (fun acc j hj ⟨la, ea⟩ => ⟨la.trans (memmapFlagsF_le n acc j), by
          rw [ih acc j m (fun r => hm ((Reach.kid hj).trans (la.1.symm.reach r))), ea]⟩) h1 ⟨l1, e1⟩
      exact this.2
    split
    · exact key _ (Le.refl h) rfl
    · exact key _ (le_upd h i _ (fun x => ⟨rfl, rfl, rfl⟩) (fun _ _ => rfl) (fun _ _ hy => hy))
        (upd_node_ne h i m _ hmi)

theorem inv_memmapEv {h : Heap} (hinv : Inv h) {i : Nat} (hi : i < h.size) : Inv (memmapEv h i) := by
  unfold memmapEv
  have l1 := memmapFlagsF_le (i + 1) h i
  have fr1 := memmapFlagsF_frame (i + 1) h i
  generalize memmapFlagsF (i + 1) h i = h1 at l1 fr1
  have o1 := l1.1.ordered hinv.ordered
  have ne1 := l1.1.nonEmptyLazy hinv.nonEmptyLazy
  have le := propLockF_le (i + 1) h1 none i
  have post := propLockF_post (i + 1) h1 none i o1 ne1 (by omega) (by simp)
  have s := l1.1.trans le.1
  refine ⟨s.ordered hinv.ordered, s.kidsAlive hinv.kidsAlive, s.nonEmptyLazy hinv.nonEmptyLazy, ?_, ?_⟩
  · intro k hk
    rw [s.1] at hk
    rw [propLockF_frame _ _ _ _ _ (not_reach_of_ge o1 (by omega)),
      fr1 k (not_reach_of_ge hinv.ordered (by omega))]
    exact hinv.bounded k hk
  · intro p j hl hf hj
    rw [le.1.kidIds] at hj
    rw [s.live] at hl
    rcases propLockF_flagged_inv _ _ _ _ _ hf with hf1 | hr
    · by_cases r0 : Reach h i p
      · have hr := l1.1.reach r0
        exact ⟨(post.2.2 j (hr.trans (Reach.kid hj))).1, (post.2.2 p hr).2 j hj⟩
      · have hf0 : flagged h p = true := by unfold flagged at hf1 ⊢; rw [← fr1 p r0]; exact hf1
        obtain ⟨a, b⟩ := hinv.closed p j hl hf0 (by rw [← l1.1.kidIds]; exact hj)
        exact ⟨le.flagged j (l1.flagged j a), le.parentsOf j p (l1.parentsOf j p b)⟩
    · exact ⟨(post.2.2 j (hr.trans (Reach.kid hj))).1, (post.2.2 p hr).2 j hj⟩

/-! ### `share_memory_` -/

theorem postOrderF_mem : ∀ n h i m, m ∈ postOrderF n h i → Reach h i m := by
  intro n
  induction n with
  | zero => intro h i m hm; simp [postOrderF] at hm
  | succ n ih =>
    intro h i m hm
    simp only [postOrderF, List.mem_append, List.mem_flatMap, List.mem_singleton] at hm
    rcases hm with ⟨j, hj, hm⟩ | rfl
    · exact (Reach.kid hj).trans (ih h j m hm)
    · exact Reach.refl _

theorem lockEv_shape (h : Heap) (i : Nat) : SameShape h (lockEv h i).1 := by
  unfold lockEv; split
  · exact SameShape.refl h
  · exact (propLockF_le _ _ _ _).1

theorem shareNode_shape (acc : Heap) (j : Nat) : SameShape acc (shareNode acc j) := by
  unfold shareNode; split
  · exact (propLockF_le _ _ _ _).1
  · exact lockEv_shape acc j

theorem inv_shareNode {acc : Heap} (ia : Inv acc) {j : Nat} (hj : j < acc.size) : Inv (shareNode acc j) := by
  unfold shareNode; split
  · exact inv_propLock_root ia hj
  · exact inv_lockEv ia hj

theorem inv_shareEv {h : Heap} (hinv : Inv h) {i : Nat} (hi : i < h.size) : Inv (shareEv h i) := by
  unfold shareEv
  have := foldl_inv' shareNode (fun acc => Inv acc ∧ SameShape h acc)
    (postOrderF (i + 1) h i)
    (fun acc j hj ⟨ia, sa⟩ => by
      have hjs : j < acc.size := by
        rw [sa.1]; have := (postOrderF_mem _ _ _ _ hj).le hinv.ordered; omega
      exact ⟨inv_shareNode ia hjs, sa.trans (shareNode_shape acc j)⟩)
    h ⟨hinv, SameShape.refl h⟩
  exact this.1

/-! ### congruence of `_lock_parents_weakrefs` on untouched subtrees -/

theorem parentsOfF_congr_reach (h h' : Heap) :
    ∀ n j, (∀ m, Reach h j m → h'.node m = h.node m) → parentsOfF n h' j = parentsOfF n h j := by
  intro n
  induction n with
  | zero => intro j _; rfl
  | succ n ih =>
    intro j hm
    have ej := hm j (Reach.refl j)
    have ek : kidIds h' j = kidIds h j := by unfold kidIds; rw [ej]
    simp only [parentsOfF, ej, ek]
    split
    · congr 1
      apply flatMap_congr_mem
      intro k hk
      exact ih k (fun m r => hm m ((Reach.kid hk).trans r))
    · rfl

/-! ### rebinding the storage dict of an unlocked node -/

theorem inv_upd_node {h : Heap} (hinv : Inv h) {i : Nat} (hi : i < h.size)
    (hnf : flagged h i = false) (n' : LNode)
    (ha : n'.alive = (h.node i).alive) (hz : n'.lazy = (h.node i).lazy) (hfl : n'.flag = (h.node i).flag)
    (hp : n'.parents = (h.node i).parents)
    (hk : ∀ x, x ∈ n'.kids.map (·.2) → x < i ∧ live h x = true)
    (hne : n'.lazy = true → n'.kids.map (·.2) ≠ []) : Inv (h.upd i (fun _ => n')) := by
  have nself : (h.upd i (fun _ => n')).node i = n' := upd_node_self h i _
  have nne : ∀ m, m ≠ i → (h.upd i (fun _ => n')).node m = h.node m := fun m hm => upd_node_ne h i m _ hm
  have hlive : ∀ m, live (h.upd i (fun _ => n')) m = live h m := by
    intro m; unfold live
    by_cases hm : m = i
    · subst hm; rw [nself, ha]
    · rw [nne m hm]
  have hflag : ∀ m, flagged (h.upd i (fun _ => n')) m = flagged h m := by
    intro m; unfold flagged
    by_cases hm : m = i
    · subst hm; rw [nself, hfl]
    · rw [nne m hm]
  have hkids : ∀ m, m ≠ i → kidIds (h.upd i (fun _ => n')) m = kidIds h m := by
    intro m hm; unfold kidIds; rw [nne m hm]
  have hkidsi : kidIds (h.upd i (fun _ => n')) i = n'.kids.map (·.2) := by unfold kidIds; rw [nself]
  refine ⟨?_, ?_, ?_, ?_, ?_⟩
  · intro a b hb
    by_cases hai : a = i
    · subst hai; rw [hkidsi] at hb; exact (hk b hb).1
    · rw [hkids a hai] at hb; exact hinv.ordered a b hb
  · intro a b hla hb
    rw [hlive] at hla ⊢
    by_cases hai : a = i
    · subst hai; rw [hkidsi] at hb; exact (hk b hb).2
    · rw [hkids a hai] at hb; exact hinv.kidsAlive a b hla hb
  · intro a hla
    by_cases hai : a = i
    · subst hai; rw [nself] at hla; rw [hkidsi]; exact hne hla
    · rw [nne a hai] at hla; rw [hkids a hai]; exact hinv.nonEmptyLazy a hla
  · intro k hk'
    have : k ≠ i := by
      have : (h.upd i (fun _ => n')).size = h.size := rfl
      rw [this] at hk'; omega
    rw [nne k this]; exact hinv.bounded k hk'
  · intro p j hl hf hj
    rw [hlive] at hl; rw [hflag] at hf
    have hpi : p ≠ i := fun e => by rw [e, hnf] at hf; cases hf
    rw [hkids p hpi] at hj
    obtain ⟨a, b⟩ := hinv.closed p j hl hf hj
    refine ⟨by rw [hflag]; exact a, ?_⟩
    have hlj := hinv.kidsAlive p j hl hj
    have same : ∀ m, Reach h j m → (h.upd i (fun _ => n')).node m = h.node m := by
      intro m r
      apply nne
      intro e
      have := (closed_reach hinv hlj a m r).2
      rw [e, hnf] at this; cases this
    unfold parentsOf at b ⊢
    rw [parentsOfF_congr_reach h _ (j + 1) j same]; exact b

/-- a write that only touches the leaves (in-place value writes) -/
theorem inv_upd_leaves {h : Heap} (hinv : Inv h) {i : Nat} (hi : i < h.size) (n' : LNode)
    (ha : n'.alive = (h.node i).alive) (hz : n'.lazy = (h.node i).lazy) (hfl : n'.flag = (h.node i).flag)
    (hp : n'.parents = (h.node i).parents) (hk : n'.kids = (h.node i).kids) : Inv (h.upd i (fun _ => n')) := by
  have nself : (h.upd i (fun _ => n')).node i = n' := upd_node_self h i _
  have nne : ∀ m, m ≠ i → (h.upd i (fun _ => n')).node m = h.node m := fun m hm => upd_node_ne h i m _ hm
  have fields : ∀ m, ((h.upd i (fun _ => n')).node m).kids = (h.node m).kids ∧
      ((h.upd i (fun _ => n')).node m).lazy = (h.node m).lazy ∧
      ((h.upd i (fun _ => n')).node m).alive = (h.node m).alive ∧
      ((h.upd i (fun _ => n')).node m).flag = (h.node m).flag ∧
      ((h.upd i (fun _ => n')).node m).parents = (h.node m).parents := by
    intro m
    by_cases hm : m = i
    · subst hm; rw [nself]; exact ⟨hk, hz, ha, hfl, hp⟩
    · rw [nne m hm]; exact ⟨rfl, rfl, rfl, rfl, rfl⟩
  have s : SameShape h (h.upd i (fun _ => n')) := ⟨rfl, fun m => ⟨(fields m).1, (fields m).2.1, (fields m).2.2.1⟩⟩
  have le : Le h (h.upd i (fun _ => n')) :=
    ⟨s, fun m hm => by unfold flagged at hm ⊢; rw [(fields m).2.2.2.1]; exact hm,
      fun m x hx => by rw [(fields m).2.2.2.2]; exact hx⟩
  refine ⟨s.ordered hinv.ordered, s.kidsAlive hinv.kidsAlive, s.nonEmptyLazy hinv.nonEmptyLazy, ?_, ?_⟩
  · intro k hk'
    have : k ≠ i := by
      have : (h.upd i (fun _ => n')).size = h.size := rfl
      rw [this] at hk'; omega
    rw [nne k this]; exact hinv.bounded k hk'
  · intro p j hl hf hj
    rw [s.live] at hl; rw [s.kidIds] at hj
    have hf0 : flagged h p = true := by unfold flagged at hf ⊢; rw [← (fields p).2.2.2.1]; exact hf
    obtain ⟨a, b⟩ := hinv.closed p j hl hf0 hj
    exact ⟨le.flagged j a, le.parentsOf j p b⟩

end TdVerif.C05
