/-
  C16 — the index theorem: `index` on the representation reads exactly the positions `srcCoord` names.
-/
import TdVerif.Lemmas.C16Index

namespace TdVerif.C16
namespace NT
variable {O : Type}

theorem wfList_mem : ∀ (s : Shape) (ms : List (NT O)), wfList s ms = true → ∀ m ∈ ms, wf m = true ∧ shape m = s
  | s, [], _, m, hm => by simp at hm
  | s, m0 :: r, h, m, hm => by
    simp only [wfList, Bool.and_eq_true, decide_eq_true_eq] at h
    rcases List.mem_cons.mp hm with rfl | hm
    · exact ⟨h.1.1, h.1.2⟩
    · exact wfList_mem s r h.2 m hm

/-- members of a well-formed stack: all well formed, one common shape, valid stack dim -/
theorem wf_stack {ms : List (NT O)} {d : Nat} (h : wf (.stack ms d) = true) :
    ∃ m0 r, ms = m0 :: r ∧ d ≤ (shape m0).length ∧ (∀ m ∈ ms, wf m = true ∧ shape m = shape m0) := by
  cases ms with
  | nil => simp [wf] at h
  | cons m0 r =>
    simp only [wf, Bool.and_eq_true, decide_eq_true_eq] at h
    refine ⟨m0, r, rfl, h.1.2, ?_⟩
    intro m hm
    rcases List.mem_cons.mp hm with rfl | hm
    · exact ⟨h.1.1, rfl⟩
    · exact wfList_mem _ r h.2 m hm

theorem getElem?_append_mid {α : Type} (ca : List α) (x : α) (cr : List α) :
    (ca ++ x :: cr)[ca.length]? = some x := by
  simp

theorem eraseIdx_append_mid {α : Type} : ∀ (ca : List α) (x : α) (cr : List α),
    (ca ++ x :: cr).eraseIdx ca.length = ca ++ cr
  | [], x, cr => rfl
  | y :: ca, x, cr => by simp [eraseIdx_append_mid ca x cr]

/-- output position read by a non-integer consuming item -/
def itemPos : RIx → Nat → Option Nat
  | .range lo st len, k => if k < len then some (rangePos lo st k) else none
  | .pick l, k => l[k]?
  | _, _ => none

theorem srcCoord_item_cons (x : RIx) (a : List RIx) (k : Nat) (cr : List Nat)
    (hx : x.consumes = true) (hf : ∀ i, x ≠ .fixed i) :
    srcCoord (x :: a) (k :: cr) = (itemPos x k).bind (fun p => (srcCoord a cr).map (p :: ·)) := by
  cases x with
  | fixed i => exact absurd rfl (hf i)
  | newaxis => simp [RIx.consumes] at hx
  | range lo st len =>
    simp only [srcCoord, itemPos]
    by_cases hk : k < len <;> simp [hk]
  | pick l =>
    simp only [srcCoord, itemPos]
    cases l[k]? <;> simp

theorem srcCoord_item_nil (x : RIx) (a : List RIx) (hx : x.consumes = true) (hf : ∀ i, x ≠ .fixed i) :
    srcCoord (x :: a) [] = none := by
  cases x with
  | fixed i => exact absurd rfl (hf i)
  | newaxis => simp [RIx.consumes] at hx
  | range lo st len => simp [srcCoord]
  | pick l => simp [srcCoord]

theorem outDim_length_one (x : RIx) (hx : x.consumes = true) (hf : ∀ i, x ≠ .fixed i) : x.outDim.length = 1 := by
  cases x with
  | fixed i => exact absurd rfl (hf i)
  | newaxis => simp [RIx.consumes] at hx
  | range lo st len => simp [RIx.outDim]
  | pick l => simp [RIx.outDim]

/-- positions selected along the stack dim, as a function of the output position -/
theorem positions_getElem? (x : RIx) (n : Nat) (hv : validItem x n = true) (hf : ∀ i, x ≠ .fixed i)
    (P : List Nat) (hP : selectPositions n x = some P) (k : Nat) : P[k]? = itemPos x k := by
  rw [selectPositions_valid n x hv] at hP
  injection hP with hP
  subst hP
  cases x with
  | fixed i => exact absurd rfl (hf i)
  | newaxis => simp [validItem] at hv
  | range lo st len =>
    simp only [itemPos]
    by_cases hk : k < len
    · simp [hk]
    · simp [hk]
  | pick l => simp [itemPos]

/-- reading a stack at a coordinate built around the stack dim -/
theorem getAt_stack_mid (ms : List (NT O)) (ca : List Nat) (p : Nat) (cr : List Nat) :
    getAt (.stack ms ca.length) (ca ++ p :: cr) = (ms[p]?).bind (fun m => getAt m (ca ++ cr)) := by
  rw [getAt_stack, getElem?_append_mid, eraseIdx_append_mid]
  simp

/-- an integer at the stack dim: the selected member, indexed by the remaining items -/
theorem stack_fixed_getAt (ms : List (NT O)) (b a : List RIx) (i : Nat) (m r' : NT O)
    (hm : ms[i]? = some m)
    (ih : ∀ c'', getAt r' c'' = (srcCoord (b ++ a) c'').bind (getAt m)) (c' : List Nat) :
    getAt r' c' = (srcCoord (b ++ .fixed i :: a) c').bind (getAt (.stack ms (nCons b))) := by
  rw [ih c', srcCoord_append b a c', srcCoord_append b (.fixed i :: a) c']
  cases hb : srcCoord b (List.take (outShape b).length c') with
  | none => simp
  | some ca =>
    have hlen : ca.length = nCons b := srcCoord_length b _ ca hb
    simp only [Option.bind_some, srcCoord]
    cases ha : srcCoord a (List.drop (outShape b).length c') with
    | none => simp
    | some cr =>
      simp only [Option.map_some, Option.bind_some]
      rw [← hlen, getAt_stack_mid, hm]
      simp

/-- a slice / index list at the stack dim: a new stack of the selected members, each indexed by the remaining items,
stacked where the item's output dim goes -/
theorem stack_multi_getAt (ms : List (NT O)) (b a : List RIx) (x : RIx) (hx : x.consumes = true) (hf : ∀ i, x ≠ .fixed i)
    (P : List Nat) (hP : ∀ k, P[k]? = itemPos x k) (sel' : List (NT O)) (hlen : sel'.length = P.length)
    (ih : ∀ (k : Nat) (y : NT O), sel'[k]? = some y → ∃ p m, P[k]? = some p ∧ ms[p]? = some m ∧
      ∀ c'', getAt y c'' = (srcCoord (b ++ a) c'').bind (getAt m)) (c' : List Nat) :
    getAt (.stack sel' (outShape b).length) c' = (srcCoord (b ++ x :: a) c').bind (getAt (.stack ms (nCons b))) := by
  rw [srcCoord_append b (x :: a) c', getAt_stack]
  -- split the output coordinate after the dims `b` produces
  by_cases hc : (outShape b).length < c'.length
  · -- c' = cb ++ k :: cr
    obtain ⟨cb, crest, rfl, hcb⟩ : ∃ cb crest, c' = cb ++ crest ∧ cb.length = (outShape b).length :=
      ⟨c'.take (outShape b).length, c'.drop (outShape b).length, (List.take_append_drop _ _).symm,
        by rw [List.length_take]; omega⟩
    rw [List.take_left' hcb, List.drop_left' hcb]
    cases crest with
    | nil => simp at hc; omega
    | cons k cr =>
      rw [← hcb, getElem?_append_mid, eraseIdx_append_mid]
      simp only [Option.bind_some, srcCoord_item_cons x a k cr hx hf]
      cases hp : itemPos x k with
      | none =>
        -- no such output position: the new stack has no member `k`
        have : sel'[k]? = none := by
          rw [List.getElem?_eq_none_iff, hlen]
          have := hP k
          rw [hp, List.getElem?_eq_none_iff] at this
          exact this
        simp [this]
      | some p =>
        have hk : k < sel'.length := by
          rw [hlen]
          have := hP k
          rw [hp] at this
          exact (List.getElem?_eq_some_iff.mp this).1
        obtain ⟨p', m, hp', hm, hy⟩ := ih k sel'[k] (List.getElem?_eq_getElem hk)
        have : p' = p := by
          have := hP k
          rw [hp, hp'] at this
          exact Option.some.inj this
        subst this
        rw [List.getElem?_eq_getElem hk]
        simp only [Option.bind_some]
        rw [hy, srcCoord_append b a, List.take_left' hcb, List.drop_left' hcb]
        cases hb : srcCoord b cb with
        | none => simp
        | some ca =>
          have hcal : ca.length = nCons b := srcCoord_length b _ ca hb
          simp only [Option.bind_some]
          cases ha : srcCoord a cr with
          | none => simp
          | some cr' =>
            simp only [Option.map_some, Option.bind_some]
            rw [← hcal, getAt_stack_mid, hm]
            simp
  · -- the output coordinate is too short to reach the new stack dim: nothing on either side
    have h1 : c'[(outShape b).length]? = none := by
      rw [List.getElem?_eq_none_iff]; omega
    have h2 : List.drop (outShape b).length c' = [] := by
      rw [List.drop_eq_nil_iff]; omega
    rw [h1, h2, srcCoord_item_nil x a hx hf]
    cases srcCoord b (List.take (outShape b).length c') <;> simp


mutual
/-- THE INDEX THEOREM (abstraction part): the entry `td[ix]` holds, at every coordinate of the result, the object
the source entry holds at the coordinate `srcCoord` names — whatever mixture of shared payloads and (nested) lazy
stacks represents the source. -/
theorem index_getAt : ∀ (r : NT O) (rix : List RIx) (r' : NT O), wf r = true → validIx rix (shape r) = true →
    index r rix = .ok r' → ∀ c', getAt r' c' = (srcCoord rix c').bind (getAt r)
  | .shared o s, rix, r', _, hv, h, c' => by
    simp only [index] at h
    injection h with h
    subst h
    rw [getAt_shared]
    have h3 := srcCoord_isSome rix c'
    cases hsc : srcCoord rix c' with
    | none =>
      rw [hsc] at h3
      simp only [Option.isSome_none] at h3
      simp [← h3]
    | some c =>
      have hin := srcCoord_inB rix s c' c hv hsc
      rw [hsc] at h3
      simp only [Option.isSome_some] at h3
      simp [← h3, getAt_shared, hin]
  | .stack ms d, rix, r', hw, hv, h, c' => by
    obtain ⟨m0, r0, rfl, hd, hmem⟩ := wf_stack hw
    simp only [index] at h
    cases hsp : splitAt rix d with
    | none => simp [hsp] at h
    | some t =>
      obtain ⟨b, x, a⟩ := t
      obtain ⟨rfl, hx, hb⟩ := splitAt_spec rix d b x a hsp
      simp only [hsp] at h
      have hshape : shape (.stack (m0 :: r0) d) = (shape m0).insertIdx d (r0.length + 1) := rfl
      rw [hshape] at hv
      obtain ⟨n, hn, hvx, hvr⟩ := validIx_split b x a _ hv hx
      rw [hb] at hn hvr
      rw [List.getElem?_insertIdx_self, if_pos hd] at hn
      rw [List.eraseIdx_insertIdx_self] at hvr
      injection hn with hn
      subst hn
      subst hb
      by_cases hfx : ∃ i, x = .fixed i
      · obtain ⟨i, rfl⟩ := hfx
        simp only at h
        obtain ⟨m, hm, hy⟩ := indexNth_getAt (m0 :: r0) i (b ++ a) (shape m0) r' hmem hvr h
        exact stack_fixed_getAt (m0 :: r0) b a i m r' hm hy c'
      · have hf : ∀ i, x ≠ .fixed i := fun i hi => hfx ⟨i, hi⟩
        have hsel := selectPositions_valid (r0.length + 1) x hvx
        cases x with
        | fixed i => exact absurd rfl (hf i)
        | newaxis => simp [RIx.consumes] at hx
        | range lo st len =>
          simp only [List.length_cons, hsel] at h
          cases hP : (List.range len).map (rangePos lo st) with
          | nil => simp [hP] at h
          | cons p0 Pr =>
            simp only [hP] at h
            cases hmap : (p0 :: Pr).mapM (fun i => indexNth (m0 :: r0) i (b ++ a)) with
            | error e => simp [hmap] at h
            | ok sel' =>
              simp only [hmap] at h
              injection h with h
              subst h
              obtain ⟨hl, hk⟩ := mapM_except_ok _ _ _ hmap
              refine stack_multi_getAt (m0 :: r0) b a _ hx hf (p0 :: Pr) ?_ sel' hl ?_ c'
              · intro k
                rw [← hP]
                exact positions_getElem? _ _ hvx hf _ (by rw [hsel]) k
              · intro k y hy
                obtain ⟨p, hp, hidx⟩ := hk k y hy
                obtain ⟨m, hm, hym⟩ := indexNth_getAt (m0 :: r0) p (b ++ a) (shape m0) y hmem hvr hidx
                exact ⟨p, m, hp, hm, hym⟩
        | pick l =>
          simp only [List.length_cons, hsel] at h
          cases l with
          | nil => simp at h
          | cons p0 Pr =>
            simp only at h
            cases hmap : (p0 :: Pr).mapM (fun i => indexNth (m0 :: r0) i (b ++ a)) with
            | error e => simp [hmap] at h
            | ok sel' =>
              simp only [hmap] at h
              injection h with h
              subst h
              obtain ⟨hl, hk⟩ := mapM_except_ok _ _ _ hmap
              refine stack_multi_getAt (m0 :: r0) b a _ hx hf (p0 :: Pr) ?_ sel' hl ?_ c'
              · intro k
                simp [itemPos]
              · intro k y hy
                obtain ⟨p, hp, hidx⟩ := hk k y hy
                obtain ⟨m, hm, hym⟩ := indexNth_getAt (m0 :: r0) p (b ++ a) (shape m0) y hmem hvr hidx
                exact ⟨p, m, hp, hm, hym⟩
theorem indexNth_getAt : ∀ (ms : List (NT O)) (i : Nat) (rix : List RIx) (s : Shape) (r' : NT O),
    (∀ m ∈ ms, wf m = true ∧ shape m = s) → validIx rix s = true → indexNth ms i rix = .ok r' →
    ∃ m, ms[i]? = some m ∧ ∀ c', getAt r' c' = (srcCoord rix c').bind (getAt m)
  | [], i, rix, s, r', _, _, h => by simp [indexNth] at h
  | m :: r, 0, rix, s, r', hm, hv, h => by
    simp only [indexNth] at h
    have := hm m (by simp)
    refine ⟨m, by simp, index_getAt m rix r' this.1 (by rw [this.2]; exact hv) h⟩
  | m :: r, i + 1, rix, s, r', hm, hv, h => by
    simp only [indexNth] at h
    obtain ⟨m', h1, h2⟩ := indexNth_getAt r i rix s r' (fun x hx => hm x (by simp [hx])) hv h
    exact ⟨m', by simpa using h1, h2⟩
end


theorem insertIdx_append_mid {α : Type} : ∀ (l1 l2 : List α) (x : α), (l1 ++ l2).insertIdx l1.length x = l1 ++ x :: l2
  | [], l2, x => by simp
  | y :: l1, l2, x => by simp [insertIdx_append_mid l1 l2 x]

theorem outShape_mid (b a : List RIx) (x : RIx) (hx : x.consumes = true) (hf : ∀ i, x ≠ .fixed i) (len : Nat)
    (hl : x.outDim = [len]) :
    outShape (b ++ x :: a) = (outShape (b ++ a)).insertIdx (outShape b).length len := by
  rw [outShape_append, outShape_append, insertIdx_append_mid]
  simp [outShape, hl]

mutual
/-- THE INDEX THEOREM (shape part): the batch size of `td[ix]` is the shape torch gives the indexed array -/
theorem index_shape : ∀ (r : NT O) (rix : List RIx) (r' : NT O), wf r = true → validIx rix (shape r) = true →
    index r rix = .ok r' → shape r' = outShape rix ∧ wf r' = true
  | .shared o s, rix, r', _, _, h => by
    simp only [index] at h
    injection h with h
    subst h
    simp [shape, wf]
  | .stack ms d, rix, r', hw, hv, h => by
    obtain ⟨m0, r0, rfl, hd, hmem⟩ := wf_stack hw
    simp only [index] at h
    cases hsp : splitAt rix d with
    | none => simp [hsp] at h
    | some t =>
      obtain ⟨b, x, a⟩ := t
      obtain ⟨rfl, hx, hb⟩ := splitAt_spec rix d b x a hsp
      simp only [hsp] at h
      have hshape : shape (.stack (m0 :: r0) d) = (shape m0).insertIdx d (r0.length + 1) := rfl
      rw [hshape] at hv
      obtain ⟨n, hn, hvx, hvr⟩ := validIx_split b x a _ hv hx
      rw [hb] at hn hvr
      rw [List.getElem?_insertIdx_self, if_pos hd] at hn
      rw [List.eraseIdx_insertIdx_self] at hvr
      injection hn with hn
      subst hn
      subst hb
      -- every successfully indexed member has the shape / well-formedness of the remaining index
      have hmember : ∀ (p : Nat) (y : NT O), indexNth (m0 :: r0) p (b ++ a) = .ok y →
          shape y = outShape (b ++ a) ∧ wf y = true :=
        fun p y hy => indexNth_shape (m0 :: r0) p (b ++ a) (shape m0) y hmem hvr hy
      have hstack : ∀ (P : List Nat) (sel' : List (NT O)) (len : Nat), P ≠ [] → P.length = len →
          P.mapM (fun i => indexNth (m0 :: r0) i (b ++ a)) = .ok sel' →
          shape (.stack sel' (outShape b).length) = (outShape (b ++ a)).insertIdx (outShape b).length len
          ∧ wf (.stack sel' (outShape b).length) = true := by
        intro P sel' len hP hlen hmap
        obtain ⟨hl, hk⟩ := mapM_except_ok _ _ _ hmap
        have hall : ∀ y ∈ sel', shape y = outShape (b ++ a) ∧ wf y = true := by
          intro y hy
          obtain ⟨k, hk'⟩ := List.getElem?_of_mem hy
          obtain ⟨p, _, hidx⟩ := hk k y hk'
          exact hmember p y hidx
        cases sel' with
        | nil =>
          simp only [List.length_nil] at hl
          exact absurd (List.eq_nil_of_length_eq_zero hl.symm) hP
        | cons y0 ys =>
          have h0 := hall y0 (by simp)
          refine ⟨?_, ?_⟩
          · simp only [shape, h0.1]
            congr 1
            simp only [List.length_cons] at hl
            omega
          · simp only [wf, h0.2, Bool.true_and, Bool.and_eq_true, decide_eq_true_eq]
            refine ⟨?_, ?_⟩
            · rw [h0.1, outShape_append]; simp
            · -- the other members: same shape, well formed
              have : ∀ (l : List (NT O)), (∀ y ∈ l, shape y = outShape (b ++ a) ∧ wf y = true) →
                  wfList (shape y0) l = true := by
                intro l
                induction l with
                | nil => intro _; rfl
                | cons z zs ih =>
                  intro hz
                  have hz0 := hz z (by simp)
                  simp only [wfList, hz0.2, Bool.true_and, Bool.and_eq_true, decide_eq_true_eq]
                  exact ⟨by rw [hz0.1, h0.1], ih (fun y hy => hz y (by simp [hy]))⟩
              exact this ys (fun y hy => hall y (by simp [hy]))
      by_cases hfx : ∃ i, x = .fixed i
      · obtain ⟨i, rfl⟩ := hfx
        simp only at h
        have := hmember i r' h
        refine ⟨?_, this.2⟩
        rw [this.1, outShape_append, outShape_append]
        simp [outShape, RIx.outDim]
      · have hf : ∀ i, x ≠ .fixed i := fun i hi => hfx ⟨i, hi⟩
        have hsel := selectPositions_valid (r0.length + 1) x hvx
        cases x with
        | fixed i => exact absurd rfl (hf i)
        | newaxis => simp [RIx.consumes] at hx
        | range lo st len =>
          simp only [List.length_cons, hsel] at h
          cases hP : (List.range len).map (rangePos lo st) with
          | nil => simp [hP] at h
          | cons p0 Pr =>
            simp only [hP] at h
            cases hmap : (p0 :: Pr).mapM (fun i => indexNth (m0 :: r0) i (b ++ a)) with
            | error e => simp [hmap] at h
            | ok sel' =>
              simp only [hmap] at h
              injection h with h
              subst h
              have hlen : (p0 :: Pr).length = len := by rw [← hP]; simp
              obtain ⟨h1, h2⟩ := hstack (p0 :: Pr) sel' len (by simp) hlen hmap
              exact ⟨by rw [h1, outShape_mid b a _ hx hf len rfl], h2⟩
        | pick l =>
          simp only [List.length_cons, hsel] at h
          cases l with
          | nil => simp at h
          | cons p0 Pr =>
            simp only at h
            cases hmap : (p0 :: Pr).mapM (fun i => indexNth (m0 :: r0) i (b ++ a)) with
            | error e => simp [hmap] at h
            | ok sel' =>
              simp only [hmap] at h
              injection h with h
              subst h
              obtain ⟨h1, h2⟩ := hstack (p0 :: Pr) sel' (p0 :: Pr).length (by simp) rfl hmap
              exact ⟨by rw [h1, outShape_mid b a _ hx hf _ rfl], h2⟩
theorem indexNth_shape : ∀ (ms : List (NT O)) (i : Nat) (rix : List RIx) (s : Shape) (r' : NT O),
    (∀ m ∈ ms, wf m = true ∧ shape m = s) → validIx rix s = true → indexNth ms i rix = .ok r' →
    shape r' = outShape rix ∧ wf r' = true
  | [], i, rix, s, r', _, _, h => by simp [indexNth] at h
  | m :: r, 0, rix, s, r', hm, hv, h => by
    simp only [indexNth] at h
    have := hm m (by simp)
    exact index_shape m rix r' this.1 (by rw [this.2]; exact hv) h
  | m :: r, i + 1, rix, s, r', hm, hv, h => by
    simp only [indexNth] at h
    exact indexNth_shape r i rix s r' (fun x hx => hm x (by simp [hx])) hv h
end


end NT
end TdVerif.C16
