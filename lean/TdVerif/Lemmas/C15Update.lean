/-
  C15 — writes that reach `_tensordict` without `_set` (delegated in-place methods, `update`): the placeholder
  pruning keeps the instance well formed and does not change what attributes read.
-/
import TdVerif.Lemmas.C15Fields

namespace TdVerif.C15
variable {T V : Type}

theorem lookup_filter_nodup {α : Type} (p : String × α → Bool) (k : String) :
    ∀ (l : List (String × α)), (l.map Prod.fst).Nodup →
      (l.filter p).lookup k = match l.lookup k with
        | some v => if p (k, v) then some v else none
        | none => none
  | [], _ => by simp
  | (k0, v0) :: r, hnd => by
    simp only [List.map_cons, List.nodup_cons] at hnd
    rw [lookup_cons]
    by_cases h : k = k0
    · subst h
      have hr : r.lookup k = none := (lookup_eq_none_iff_not_mem_keys k r).mpr hnd.1
      by_cases hp : p (k, v0) = true
      · simp [List.filter, hp, lookup_cons]
      · have hp' : p (k, v0) = false := by simpa using hp
        simp only [List.filter, hp', if_true]
        rw [lookup_filter_nodup p k r hnd.2, hr]
        simp [hp']
    · by_cases hp : p (k0, v0) = true
      · simp only [List.filter, hp, lookup_cons, h, if_false]
        exact lookup_filter_nodup p k r hnd.2
      · have hp' : p (k0, v0) = false := by simpa using hp
        simp only [List.filter, hp', h, if_false]
        exact lookup_filter_nodup p k r hnd.2

theorem keys_filter_sub {α : Type} (p : String × α → Bool) (l : List (String × α)) (k : String)
    (h : k ∈ (l.filter p).map Prod.fst) : k ∈ l.map Prod.fst := by
  obtain ⟨kv, hkv, rfl⟩ := List.mem_map.mp h
  exact List.mem_map.mpr ⟨kv, (List.mem_filter.mp hkv).1, rfl⟩

theorem nodup_keys_filter {α : Type} (p : String × α → Bool) (l : List (String × α)) (h : (l.map Prod.fst).Nodup) :
    ((l.filter p).map Prod.fst).Nodup :=
  List.Nodup.sublist (List.Sublist.map Prod.fst (List.filter_sublist (l := l))) h

theorem lookup_some_of_mem_keys {α : Type} (k : String) (l : List (String × α)) (h : k ∈ l.map Prod.fst) :
    ∃ v, l.lookup k = some v := by
  cases hl : l.lookup k with
  | some v => exact ⟨v, rfl⟩
  | none => exact absurd h ((lookup_eq_none_iff_not_mem_keys k l).mp hl)

/-- the pruning restores the one clause a write behind `_set`'s back can break (an entry AND a placeholder for the same
field): everything else given, the pruned instance is well formed -/
theorem dropStale_wf (fields : List String) (tc : TC (TDm T V) V)
    (htd : ∀ k ∈ tc.td.keys, k ∈ fields) (hnt : ∀ k ∈ tc.nt.keys, k ∈ fields)
    (hcover : ∀ f ∈ fields, f ∈ tc.td.keys ∨ f ∈ tc.nt.keys) (hnd : tc.nt.keys.Nodup) (hpl : PlaceholdersOnly tc) :
    WF fields (dropStale tc) := by
  unfold dropStale
  refine ⟨htd, ?_, ?_, ?_, ?_⟩
  · intro k hk
    exact hnt k (keys_filter_sub _ _ k hk)
  · intro f hf
    by_cases hin : f ∈ tc.td.keys
    · exact Or.inl hin
    · right
      rcases hcover f hf with h | h
      · exact absurd h hin
      · obtain ⟨kv, hkv, rfl⟩ := List.mem_map.mp h
        refine List.mem_map.mpr ⟨kv, List.mem_filter.mpr ⟨hkv, ?_⟩, rfl⟩
        have : tc.td.keys.contains kv.1 = false := by simpa using hin
        show (!(kv.2.isNone && tc.td.keys.contains kv.1)) = true
        rw [this]
        simp
  · intro k hk hk'
    dsimp only at hk hk'
    obtain ⟨kv, hkv, rfl⟩ := List.mem_map.mp hk'
    obtain ⟨hmem, hp⟩ := List.mem_filter.mp hkv
    have hnone : kv.2 = none := hpl kv hmem
    have hc : tc.td.keys.contains kv.1 = true := by simpa using hk
    rw [hnone, hc] at hp
    simp at hp
  · exact nodup_keys_filter _ _ hnd

theorem mem_assocSet {α : Type} (k : String) (v : α) : ∀ (l : List (String × α)) (x : String × α),
    x ∈ assocSet k v l → x = (k, v) ∨ x ∈ l
  | [], x, h => by simp [assocSet] at h; exact Or.inl h
  | (k0, v0) :: r, x, h => by
    unfold assocSet at h
    by_cases h0 : k0 = k
    · simp only [h0, if_true, List.mem_cons] at h
      rcases h with h | h
      · exact Or.inl h
      · exact Or.inr (List.mem_cons_of_mem _ h)
    · simp only [h0, if_false, List.mem_cons] at h
      rcases h with h | h
      · exact Or.inr (by simp [h])
      · rcases mem_assocSet k v r x h with h1 | h1
        · exact Or.inl h1
        · exact Or.inr (List.mem_cons_of_mem _ h1)

theorem mem_foldl_assocSet {α : Type} : ∀ (src es : List (String × α)) (x : String × α),
    x ∈ src.foldl (fun es kv => assocSet kv.1 kv.2 es) es → x ∈ src ∨ x ∈ es
  | [], es, x, h => Or.inr h
  | (k0, v0) :: r, es, x, h => by
    simp only [List.foldl_cons] at h
    rcases mem_foldl_assocSet r _ x h with h1 | h1
    · exact Or.inl (List.mem_cons_of_mem _ h1)
    · rcases mem_assocSet k0 v0 es x h1 with h2 | h2
      · exact Or.inl (by simp [h2])
      · exact Or.inr h2

theorem nodup_keys_foldl_assocSet {α : Type} : ∀ (src es : List (String × α)), (es.map Prod.fst).Nodup →
    ((src.foldl (fun es kv => assocSet kv.1 kv.2 es) es).map Prod.fst).Nodup
  | [], es, h => h
  | (k0, v0) :: r, es, h => by
    simp only [List.foldl_cons]
    exact nodup_keys_foldl_assocSet r _ (nodup_keys_assocSet k0 v0 es h)

/-- a delegated in-place write followed by the pruning leaves a well-formed instance -/
theorem delegatedWrite_wf (fields : List String) (tc : TC (TDm T V) V) (td' : TDm T V) (hwf : WF fields tc)
    (hpl : PlaceholdersOnly tc) (hsub : ∀ k ∈ td'.keys, k ∈ fields) (hgrow : ∀ k ∈ tc.td.keys, k ∈ td'.keys) :
    WF fields (delegatedWrite tc td') := by
  unfold delegatedWrite
  refine dropStale_wf fields _ hsub hwf.nt_sub ?_ hwf.nt_nodup hpl
  intro f hf
  rcases hwf.cover f hf with h | h
  · exact Or.inl (hgrow f h)
  · exact Or.inr h

/-- the pruning does not change what any attribute reads (the repaired `_getattr` already lets the entry win) -/
theorem getField_dropStale (tc : TC (TDm T V) V) (hnd : tc.nt.keys.Nodup) (f : String) :
    getField (dropStale tc) f = getField tc f := by
  unfold getField dropStale
  simp only
  rw [lookup_filter_nodup _ f tc.nt hnd]
  cases hnt : tc.nt.lookup f with
  | none => simp
  | some v =>
    cases v with
    | some v => simp
    | none =>
      by_cases hin : f ∈ tc.td.keys
      · obtain ⟨e, he⟩ := lookup_some_of_mem_keys f tc.td.entries hin
        simp [hin, he]
      · simp [hin]

theorem keys_foldl_assocSet {α : Type} : ∀ (src es : List (String × α)) (x : String),
    x ∈ (src.foldl (fun es kv => assocSet kv.1 kv.2 es) es).map Prod.fst ↔ x ∈ src.map Prod.fst ∨ x ∈ es.map Prod.fst
  | [], es, x => by simp
  | (k0, v0) :: r, es, x => by
    simp only [List.foldl_cons, List.map_cons, List.mem_cons]
    rw [keys_foldl_assocSet r _ x, keys_assocSet k0 v0 es x]
    constructor
    · rintro (h | h | h)
      · exact Or.inl (Or.inr h)
      · exact Or.inl (Or.inl h)
      · exact Or.inr h
    · rintro ((h | h) | h)
      · exact Or.inr (Or.inl h)
      · exact Or.inl h
      · exact Or.inr (Or.inr h)

theorem keys_tdUpdate (td src : TDm T V) (x : String) :
    x ∈ (tdUpdate td src).keys ↔ x ∈ src.keys ∨ x ∈ td.keys := by
  unfold tdUpdate TDm.keys
  exact keys_foldl_assocSet src.entries td.entries x

/-- with a well-behaved source (placeholders only) the merge adds nothing: `update` is a delegated write -/
theorem updateTc_eq_delegatedWrite (dst src : TC (TDm T V) V) (hsrc : PlaceholdersOnly src) :
    updateTc true dst src = delegatedWrite dst (tdUpdate dst.td src.td) := by
  unfold updateTc delegatedWrite
  have : src.nt.filter (fun kv => kv.2.isSome) = [] := by
    rw [List.filter_eq_nil_iff]
    intro kv hkv
    simp [hsrc kv hkv]
  simp [this]

/-- `update` from a tensorclass of the same class keeps the destination well formed — with the source's `None`
placeholders filtered out (the code) or merged (`filterNone = false`, the seeded mutant): after the repair the pruning
makes both safe -/
theorem updateTc_wf (b : Bool) (fields : List String) (dst src : TC (TDm T V) V) (hd : WF fields dst) (hs : WF fields src)
    (hpd : PlaceholdersOnly dst) (hps : PlaceholdersOnly src) : WF fields (updateTc b dst src) := by
  unfold updateTc
  have hsubl : ∀ x, x ∈ (if b then src.nt.filter (fun kv => kv.2.isSome) else src.nt) → x ∈ src.nt := by
    intro x hx
    cases b with
    | true => exact (List.mem_filter.mp hx).1
    | false => exact hx
  refine dropStale_wf fields _ ?_ ?_ ?_ ?_ ?_
  · intro k hk
    rcases (keys_tdUpdate dst.td src.td k).mp hk with h | h
    · exact hs.td_sub k h
    · exact hd.td_sub k h
  · intro k hk
    rcases (keys_foldl_assocSet _ dst.nt k).mp hk with h | h
    · obtain ⟨kv, hkv, rfl⟩ := List.mem_map.mp h
      exact hs.nt_sub _ (List.mem_map.mpr ⟨kv, hsubl kv hkv, rfl⟩)
    · exact hd.nt_sub k h
  · intro f hf
    rcases hd.cover f hf with h | h
    · exact Or.inl ((keys_tdUpdate dst.td src.td f).mpr (Or.inr h))
    · exact Or.inr ((keys_foldl_assocSet _ dst.nt f).mpr (Or.inr h))
  · exact nodup_keys_foldl_assocSet _ dst.nt hd.nt_nodup
  · intro kv hkv
    rcases mem_foldl_assocSet _ dst.nt kv hkv with h | h
    · exact hps kv (hsubl kv h)
    · exact hpd kv h

end TdVerif.C15
