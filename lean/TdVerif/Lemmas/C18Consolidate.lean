/-
  consolidate: the eager contiguity test never lets an unviewable leaf through; the compile-only test does, exactly for
  single-element leaves with a non-unit last stride.
-/
import TdVerif.Model.Consolidate

namespace TdVerif.Consolidate

theorem eager_always_ok (m : TMeta) (hwf : m.sizes.length = m.strides.length) : okEager m = true := by
  unfold okEager leafOk cloneEager viewU8Ok
  by_cases h2 : m.strides = []
  · have : m.sizes = [] := by
      have : m.sizes.length = 0 := by rw [hwf, h2]; rfl
      exact List.eq_nil_of_length_eq_zero this
    simp [this]
  · cases h1 : lastStrideIsOne m
    · have : m.strides.isEmpty = false := by simpa using h2
      simp [this]
    · simp

theorem compile_fails_iff (m : TMeta) :
    okCompile m = false ↔ isContig m = true ∧ m.sizes ≠ [] ∧ numel m = 1 ∧ lastStrideIsOne m = false := by
  unfold okCompile leafOk cloneCompile viewU8Ok
  cases h1 : isContig m <;> cases h2 : lastStrideIsOne m <;> cases h3 : m.sizes <;> simp_all

theorem compile_ok_partial (m : TMeta) (hwf : m.sizes.length = m.strides.length)
    (h : numel m ≠ 1 ∨ m.sizes = [] ∨ lastStrideIsOne m = true) : okCompile m = okEager m := by
  rw [eager_always_ok m hwf]
  cases hc : okCompile m with
  | true => rfl
  | false =>
    obtain ⟨_, h2, h3, h4⟩ := (compile_fails_iff m).1 hc
    rcases h with h | h | h
    · exact absurd h3 h
    · exact absurd h h2
    · rw [h4] at h; cases h

theorem compile_counterexample :
    okEager ⟨[1], [2], 0⟩ = true ∧ okCompile ⟨[1], [2], 0⟩ = false ∧ isContig ⟨[1], [2], 0⟩ = true := by decide

end TdVerif.Consolidate
