/-
  C12 — thread pools: submission of one task per leaf, completion in an arbitrary order,
  reconstruction of the result by *position*; writer tasks with side effects on disjoint slots.

  `submitKids/submitTree`   mirror tensordict/_td.py:TensorDict._multithread_apply_flat
  `runTasks/Store.result`   the executor: tasks are run in some order, each completes its own future
  `rebuildKids/rebuildTree` mirror tensordict/_td.py:TensorDict._multithread_rebuild
  `applyKids/applyTree`     mirror tensordict/_td.py:TensorDict._apply_nest (the single-threaded form)
  `runWrites`               the writer tasks of consolidate (`assign`) and of memmap
                            (`_populate_memmap`, `_save_metadata`): one slot per task
-/
namespace TdVerif.C12

/-- a tensordict as `apply` sees it: entries in key (insertion) order, leaves carry a value -/
inductive Tree (α : Type) where
  | leaf (v : α)
  | node (kids : List (String × Tree α))
  deriving Repr

/-- `local_futures`: a nested list mirroring the tree; a future is identified by its position in the
    flat list `futures` (= submission index) -/
inductive LF where
  | fut (id : Nat)
  | sub (l : List LF)
  deriving Repr

mutual
/-- mirrors `_multithread_apply_flat`: `for key, item in self.items()`: a nested tensordict gets
    `local_futures.append([])` and the recursive call fills that list; a leaf gets
    `future = executor.submit(fn, item); futures.append(future); local_futures.append(future)`.
    `next` = `len(futures)` on entry. Returns (local_futures, the arguments submitted, in order). -/
def submitKids : List (String × Tree α) → Nat → List LF × List α
  | [], _ => ([], [])
  | (_, t) :: rest, next =>
    let r := submitTree t next
    let rs := submitKids rest (next + r.2.length)
    (r.1 :: rs.1, r.2 ++ rs.2)
def submitTree : Tree α → Nat → LF × List α
  | .leaf v, next => (.fut next, [v])
  | .node kids, next =>
    let r := submitKids kids next
    (.sub r.1, r.2)
end

mutual
/-- `not td.is_empty()`: there is a leaf somewhere below (tensordict/_td.py:TensorDict.is_empty is recursive) -/
def hasLeafKids : List (String × Tree α) → Bool
  | [] => false
  | (_, t) :: rest => hasLeaf t || hasLeafKids rest
def hasLeaf : Tree α → Bool
  | .leaf _ => true
  | .node kids => hasLeafKids kids
end

/-- the common tail of `_apply_nest` and `_multithread_rebuild`: is the (sub-)tensordict dropped?
    `filter_empty=True`: when nothing was set; `False`: never; `None`: when nothing was set although
    the input had leaves (`elif filter_empty is None and not any_set and not self.is_empty(): return`;
    that branch was missing from `_multithread_rebuild` on the pinned tree). -/
def dropNode (fe : Option Bool) (inputHasLeaf nothingSet : Bool) : Bool :=
  match fe with
  | some true => nothingSet
  | some false => false
  | none => nothingSet && inputHasLeaf

/-- the rule at the end of `_multithread_rebuild` on the pinned tree (no `filter_empty is None`
    branch); kept only for the recorded counter-witness -/
def dropNodePinnedMT (fe : Option Bool) (nothingSet : Bool) : Bool := fe == some true && nothingSet

/-- completion log of the executor: (future id, result) in completion order -/
abbrev Store (β : Type) := List (Nat × β)

/-- the executor runs the submitted tasks in the order `order` (a list of submission indices);
    task `i` computes `fn args[i]` and completes future `i`. -/
def runTasks (fn : α → β) (args : List α) (order : List Nat) : Store β :=
  order.filterMap fun i => (args[i]?).map fun a => (i, fn a)

/-- `future.result()` — `none` stands for a future that is never completed -/
def Store.result (s : Store β) (i : Nat) : Option β :=
  (s.find? fun e => e.1 == i).map (·.2)

mutual
/-- mirrors `_multithread_rebuild`: `for key, local_future in _zip_strict(self.keys(), local_futures)`;
    a list → recursive rebuild of the sub-tensordict, then `setter`; a future →
    `setter(local_future.result(), key)`; `setter` skips `None`.
    Outer `none` = zip mismatch or a future without result (never happens after `submitKids` +
    a complete run, see `rebuild_eq_sequential`). -/
def rebuildKids (fe : Option Bool) (store : Store (Option β)) :
    List (String × Tree α) → List LF → Option (List (String × Tree β))
  | [], [] => some []
  | (k, t) :: rest, lf :: lfs =>
    match rebuildTree fe store t lf with
    | none => none
    | some r =>
      match rebuildKids fe store rest lfs with
      | none => none
      | some tl =>
        match r with
        | none => some tl
        | some v => some ((k, v) :: tl)
  | _, _ => none
/-- one entry: `some none` = "nothing to set" (`None` result, or filtered empty sub-tensordict:
    `if filter_empty and not any_set: return`) -/
def rebuildTree (fe : Option Bool) (store : Store (Option β)) : Tree α → LF → Option (Option (Tree β))
  | .leaf _, .fut i =>
    match store.result i with
    | none => none
    | some r => some (r.map .leaf)
  | .node kids, .sub l =>
    match rebuildKids fe store kids l with
    | none => none
    | some ks => if dropNode fe (hasLeafKids kids) ks.isEmpty then some none else some (some (.node ks))
  | _, _ => none
end

mutual
/-- mirrors `_apply_nest` (filter_empty given as a bool): entries are visited in key order,
    `fn` is called on each leaf, `None` results are not set; with `filter_empty` a sub-tensordict
    in which nothing was set is dropped. -/
def applyKids (fe : Option Bool) (fn : α → Option β) : List (String × Tree α) → List (String × Tree β)
  | [] => []
  | (k, t) :: rest =>
    match applyTree fe fn t with
    | none => applyKids fe fn rest
    | some v => (k, v) :: applyKids fe fn rest
def applyTree (fe : Option Bool) (fn : α → Option β) : Tree α → Option (Tree β)
  | .leaf v => (fn v).map .leaf
  | .node kids =>
    let ks := applyKids fe fn kids
    if dropNode fe (hasLeafKids kids) ks.isEmpty then none else some (.node ks)
end

/-- `_multithread_apply_nest` for a given completion order: submit everything, let the executor
    run, rebuild (the root is subject to the `filter_empty` rule as well: `some none` = `None` is
    returned). -/
def multithreadApply (fe : Option Bool) (fn : α → Option β) (kids : List (String × Tree α))
    (order : List Nat) : Option (Option (Tree β)) :=
  let s := submitTree (.node kids) 0
  rebuildTree fe (runTasks fn s.2 order) (.node kids) s.1

/-! ### writer tasks -/

/-- a mutable store of slots (file paths, byte ranges of the consolidated storage, keys of
    `flat_dict` / `dest._tensordict`) -/
abbrev Slots (κ ν : Type) := κ → Option ν

def Slots.write [DecidableEq κ] (st : Slots κ ν) (k : κ) (v : ν) : Slots κ ν :=
  fun k' => if k' = k then some v else st k'

/-- the executor runs the writer tasks in the given order; each task writes its own slot -/
def runWrites [DecidableEq κ] (st : Slots κ ν) (ws : List (κ × ν)) : Slots κ ν :=
  ws.foldl (fun st w => st.write w.1 w.2) st

/-! ### how `_multithread_rebuild` stores a result: the objects, not only the values -/

/-- the three setters of tensordict/_td.py:TensorDict._multithread_rebuild (plain TensorDict result) -/
inductive SetMode where
  /-- `result._tensordict[key] = item`: the key is bound to the new tensor object -/
  | bind
  /-- `result._set_str(key, item, inplace=BEST_ATTEMPT_INPLACE)`: the values are copied **into** the tensor the key holds -/
  | copyInto
  /-- `result._set_str(key, item, inplace=False)`: validated, then bound -/
  | replace
  deriving Repr, DecidableEq

/-- `elif checked and isinstance(result, TensorDict) and (inplace is not True): … else: local_inplace = BEST_ATTEMPT_INPLACE if inplace else False` -/
def setMode (checked inplace : Bool) : SetMode :=
  if checked && !inplace then .bind else if inplace then .copyInto else .replace

/-- the seeded variant: the guard `inplace is not True` is gone -/
def setModeNoGuard (checked inplace : Bool) : SetMode :=
  if checked then .bind else if inplace then .copyInto else .replace

/-- a tensordict as objects: leaf `i` is the tensor object living in cell `ptr[i]` of the heap (other handles on that memory —
    a view, another mapping of the file, a second handle on the shared segment — read the same cell) -/
structure Objs (β : Type) where
  heap : Slots Nat β
  ptr : List Nat
  next : Nat

def setLeaf (m : SetMode) (o : Objs β) (i : Nat) (v : β) : Objs β :=
  match m with
  | .copyInto => { o with heap := o.heap.write (o.ptr.getD i 0) v }
  | _ => { heap := o.heap.write o.next v, ptr := o.ptr.set i o.next, next := o.next + 1 }

/-- the setters run as the results arrive: `(leaf index, result)` in that order -/
def rebuildObjs (m : SetMode) (o : Objs β) (writes : List (Nat × β)) : Objs β :=
  writes.foldl (fun o w => setLeaf m o w.1 w.2) o

end TdVerif.C12
