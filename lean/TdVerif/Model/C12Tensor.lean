/-
  C12 — tensors as coordinate maps, to relate the "rows along the mapped dim" view of
  Model/C12Chunk.lean to an arbitrary batch shape and an arbitrary dim.

  `narrow d start len t`  is `t[(slice(None),)*d + (slice(start, start+len),)]`  (what `_split_tensordict`
                          hands to a worker and what `out[chunk]` addresses in `_map`)
  `select d i t`          is `t[(slice(None),)*d + (i,)]`  (one member of `unbind(d)`)
  `cat2 d a b`            is `torch.cat([a, b], d)`
-/
namespace TdVerif.C12

/-- a tensor (or a tensordict leaf-wise): a shape and a total coordinate map; only in-bounds
    coordinates are meaningful -/
structure T (α : Type) where
  shape : List Nat
  get : List Nat → α

/-- `c` is a coordinate inside `shape` -/
def InB (c shape : List Nat) : Prop :=
  c.length = shape.length ∧ ∀ i, i < c.length → (c[i]?).getD 0 < (shape[i]?).getD 0

/-- same shape, same value at every in-bounds coordinate -/
def T.Eqv (a b : T α) : Prop := a.shape = b.shape ∧ ∀ c, InB c a.shape → a.get c = b.get c

def narrow (d start len : Nat) (t : T α) : T α :=
  ⟨t.shape.set d len, fun c => t.get (c.set d ((c[d]?).getD 0 + start))⟩

def select (d i : Nat) (t : T α) : T α :=
  ⟨t.shape.eraseIdx d, fun c => t.get (c.insertIdx d i)⟩

def cat2 (d : Nat) (a b : T α) : T α :=
  ⟨a.shape.set d ((a.shape[d]?).getD 0 + (b.shape[d]?).getD 0),
   fun c => if (c[d]?).getD 0 < (a.shape[d]?).getD 0 then a.get c else b.get (c.set d ((c[d]?).getD 0 - (a.shape[d]?).getD 0))⟩

/-- `torch.cat(l, d)` for a non-empty list, left to right -/
def catList (d : Nat) : T α → List (T α) → T α
  | acc, [] => acc
  | acc, x :: rest => catList d (cat2 d acc x) rest

/-- consecutive slices `[s₀,s₁), [s₁,s₂), …` starting at `start` with the given lengths -/
def narrows (d : Nat) (t : T α) : Nat → List Nat → List (T α)
  | _, [] => []
  | start, len :: rest => narrow d start len t :: narrows d t (start + len) rest

end TdVerif.C12
