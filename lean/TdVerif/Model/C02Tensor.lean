/-
  F1 (shape algebra) + F2 (functional tensors) for C02.

  This file is *specification*: our rendering of what torch does to a dense tensor, written as
  coordinate maps (`result.get c = source.get (σ c)`).  It is not a model of tensordict code.
  It is validated against torch 2.14 on every run of `./check C02` (stream `spec:*`: the same call
  on an `arange` provenance tensor in torch and on `arange` here, compared as flat lists, and
  torch's acceptance / exception class on the argument grid) and is part of the trusted base.

  All dims taken by the `T.*` operations are already normalised naturals; Python-style
  normalisation of negative dims (`normDim`) and torch's argument checks (`torch*` functions
  returning `Except Err _`) are separate definitions.
-/
namespace TdVerif.C02

abbrev Shape := List Nat

/-- exception classes, as `harness/common.py:err_class` names them -/
inductive Err where
  | index | value | runtime | type | assertion | zerodiv | key | lock
  deriving DecidableEq, Repr, Inhabited

def Err.toString : Err → String
  | .index => "index" | .value => "value" | .runtime => "runtime" | .type => "type"
  | .assertion => "other" | .zerodiv => "other" | .key => "key" | .lock => "lock"

def prod : List Nat → Nat
  | [] => 1
  | d :: s => d * prod s

/-- functional tensor: a shape and a total coordinate map (meaningful on in-bounds coordinates) -/
structure T (α : Type) where
  shape : Shape
  get : List Nat → α

/-- `c` is an in-bounds coordinate of a tensor of shape `s` -/
def InB : List Nat → Shape → Prop
  | [], [] => True
  | c :: cs, d :: s => c < d ∧ InB cs s
  | _, _ => False

instance : (c : List Nat) → (s : Shape) → Decidable (InB c s)
  | [], [] => isTrue trivial
  | c :: cs, d :: s =>
    have := instDecidableInB cs s
    if h : c < d ∧ InB cs s then isTrue h else isFalse h
  | [], _ :: _ => isFalse (by simp [InB])
  | _ :: _, [] => isFalse (by simp [InB])

instance {α : Type} [Inhabited α] : Inhabited (T α) := ⟨⟨[], fun _ => default⟩⟩

/-- equality of tensors up to a relation on the elements: same shape, related on every in-bounds coordinate -/
def T.EqvR {α β : Type} (R : α → β → Prop) (a : T α) (b : T β) : Prop :=
  a.shape = b.shape ∧ ∀ c, InB c a.shape → R (a.get c) (b.get c)

/-- extensional equality of tensors -/
def T.Eqv {α : Type} (a b : T α) : Prop := T.EqvR Eq a b
/-- extensional equality of tensors of tensors (the batch view) -/
def T.Eqv2 {α : Type} (a b : T (T α)) : Prop := T.EqvR T.Eqv a b

infix:50 " ≈ₜ " => T.Eqv
infix:50 " ≈ₜₜ " => T.Eqv2

/-- all coordinates of a shape in row-major order -/
def coords : Shape → List (List Nat)
  | [] => [[]]
  | d :: s => (List.range d).flatMap (fun i => (coords s).map (i :: ·))

/-- row-major materialisation (what the driver prints) -/
def T.toList {α : Type} (t : T α) : List α := (coords t.shape).map t.get

/-- flat row-major offset of coordinate `c` in shape `s` -/
def ravel : List Nat → Shape → Nat
  | c :: cs, _ :: s => c * prod s + ravel cs s
  | _, _ => 0

/-- coordinate of flat offset `x` in shape `s` -/
def unravel (x : Nat) : Shape → List Nat
  | [] => []
  | _ :: s => (x / prod s) :: unravel (x % prod s) s

/-- provenance tensor `torch.arange(numel).reshape(s)` -/
def arange (s : Shape) : T Nat := ⟨s, fun c => ravel c s⟩

/-- a tensor of batch shape `s` with no content (the "proxy tensor of the batch shape") -/
def proxy (s : Shape) : T Unit := ⟨s, fun _ => ()⟩

/-- F3: the batch view. The first `n` dims index feature blocks of shape `shape.drop n`. -/
def asBatch {α : Type} (n : Nat) (t : T α) : T (T α) :=
  ⟨t.shape.take n, fun c => ⟨t.shape.drop n, fun f => t.get (c ++ f)⟩⟩

/-! ### dim normalisation -/

/-- Python/torch wrap of a possibly negative dim into `[0, n)`; `none` = out of range -/
def normDim (n : Nat) (d : Int) : Option Nat :=
  let d' : Int := if d < 0 then d + n else d
  if 0 ≤ d' ∧ d' < n then some d'.toNat else none

/-- torch's `maybe_wrap_dim`: a 0-d tensor is treated as 1-d for the range check -/
def wrapDim (n : Nat) (d : Int) : Option Nat := normDim (if n = 0 then 1 else n) d

/-! ### coordinate helpers -/

def swap (l : List Nat) (i j : Nat) : List Nat := (l.set i (l.getD j 0)).set j (l.getD i 0)

/-- source coordinate of result coordinate `c` under `permute p`: `src[p[i]] = c[i]` -/
def permSrc (p : List Nat) (c : List Nat) : List Nat :=
  (List.range p.length).map (fun j => c.getD (p.idxOf j) 0)

/-- source coordinate under `expand` from shape `s` (trailing-aligned): size-1 dims read index 0 -/
def expandSrc (s : Shape) (c : List Nat) : List Nat :=
  List.zipWith (fun ci di => if di = 1 then 0 else ci) (c.drop (c.length - s.length)) s

/-- re-insert a 0 at every size-1 dim of `s` (inverse of dropping them) -/
def unsq1 : Shape → List Nat → List Nat
  | [], _ => []
  | d :: s, c => if d = 1 then 0 :: unsq1 s c else c.headD 0 :: unsq1 s c.tail

/-! ### torch operations as coordinate maps (dims already normalised and checked) -/
namespace T
variable {α : Type}

def rank (t : T α) : Nat := t.shape.length

/-- `t.permute(p)`; `p` a permutation of `range rank` -/
def permute (p : List Nat) (t : T α) : T α :=
  ⟨p.map (fun i => t.shape.getD i 0), fun c => t.get (permSrc p c)⟩

/-- `t.transpose(i, j)` -/
def transpose (i j : Nat) (t : T α) : T α := ⟨swap t.shape i j, fun c => t.get (swap c i j)⟩

/-- `t.unsqueeze(d)`, `d ≤ rank` -/
def unsqueeze (d : Nat) (t : T α) : T α := ⟨t.shape.insertIdx d 1, fun c => t.get (c.eraseIdx d)⟩

/-- `t.select(d, i)` -/
def select (d i : Nat) (t : T α) : T α := ⟨t.shape.eraseIdx d, fun c => t.get (c.insertIdx d i)⟩

/-- `t.squeeze(d)`: removes dim `d` when its size is 1, otherwise the identity -/
def squeeze (d : Nat) (t : T α) : T α := if t.shape.getD d 0 = 1 then t.select d 0 else t

/-- `t.squeeze()`: removes every size-1 dim -/
def squeezeAll (t : T α) : T α := ⟨t.shape.filter (· ≠ 1), fun c => t.get (unsq1 t.shape c)⟩

/-- `t.narrow(d, start, len)` = `t[:, …, start:start+len]` -/
def narrow (d start len : Nat) (t : T α) : T α :=
  ⟨t.shape.set d len, fun c => t.get (c.modify d (· + start))⟩

/-- `t.expand(s)`, `s.length ≥ rank`, all entries resolved (no `-1`) -/
def expand (s : Shape) (t : T α) : T α := ⟨s, fun c => t.get (expandSrc t.shape c)⟩

/-- `t.reshape(s)` / `t.view(s)`, `prod s = numel` -/
def reshape (s : Shape) (t : T α) : T α := ⟨s, fun c => t.get (unravel (ravel c s) t.shape)⟩

/-- `t.flatten(a, b)`, `a ≤ b < rank` -/
def flatten (a b : Nat) (t : T α) : T α :=
  ⟨t.shape.take a ++ [prod ((t.shape.drop a).take (b + 1 - a))] ++ t.shape.drop (b + 1),
   fun c => t.get (c.take a ++ unravel (c.getD a 0) ((t.shape.drop a).take (b + 1 - a)) ++ c.drop (a + 1))⟩

/-- `t.unflatten(d, sizes)`, `prod sizes = shape[d]` -/
def unflatten (d : Nat) (sizes : Shape) (t : T α) : T α :=
  ⟨t.shape.take d ++ sizes ++ t.shape.drop (d + 1),
   fun c => t.get (c.take d ++ [ravel ((c.drop d).take sizes.length) sizes] ++ c.drop (d + sizes.length))⟩

/-- `t.unbind(d)` -/
def unbind (d : Nat) (t : T α) : List (T α) := (List.range (t.shape.getD d 0)).map (fun i => t.select d i)

/-- `t.repeat(reps)`, `reps.length = rank` -/
def «repeat» (reps : List Nat) (t : T α) : T α :=
  ⟨List.zipWith (· * ·) t.shape reps, fun c => t.get (List.zipWith (· % ·) c t.shape)⟩

/-- `t.repeat_interleave(r, dim=d)` -/
def repeatInterleave (r d : Nat) (t : T α) : T α :=
  ⟨t.shape.modify d (· * r), fun c => t.get (c.modify d (· / r))⟩

/-- `torch.stack(ts, d)`; operands of equal shape, `d ≤ rank` -/
def stack [Inhabited α] (ts : List (T α)) (d : Nat) : T α :=
  ⟨((ts.head?.map (·.shape)).getD []).insertIdx d ts.length,
   fun c => ((ts[c.getD d 0]?).map (·.get (c.eraseIdx d))).getD default⟩

/-- locate offset `x` in consecutive blocks of the given sizes: (block index, offset in block) -/
def locate : List Nat → Nat → Nat × Nat
  | [], x => (0, x)
  | n :: ns, x => if x < n then (0, x) else let (i, o) := locate ns (x - n); (i + 1, o)

/-- `t.repeat_interleave(repeats, dim=d)` with a 1-d tensor of counts, one per position along `d` -/
def repeatInterleaveL (rs : List Nat) (d : Nat) (t : T α) : T α :=
  ⟨t.shape.set d rs.sum, fun c => t.get (c.modify d (fun i => (locate rs i).1))⟩

/-- `torch.cat(ts, d)`; operands agree outside dim `d` -/
def cat [Inhabited α] (ts : List (T α)) (d : Nat) : T α :=
  let sizes := ts.map (fun t => t.shape.getD d 0)
  ⟨((ts.head?.map (·.shape)).getD []).set d sizes.sum,
   fun c => let (i, o) := locate sizes (c.getD d 0)
            ((ts[i]?).map (·.get (c.set d o))).getD default⟩

/-- `torch.gather(t, d, index)`: the result has the index's shape; `out[c] = t[c with c[d] := index[c]]` -/
def gather (d : Nat) (index : T Nat) (t : T α) : T α :=
  ⟨index.shape, fun c => t.get (c.set d (index.get c))⟩

/-- coordinates (row-major) at which a boolean mask is true -/
def maskSel (mask : T Bool) : List (List Nat) := (coords mask.shape).filter mask.get

/-- `t[mask]` / `torch.masked_select` semantics for a boolean mask over the leading `mask.rank` dims: the selected blocks, in
row-major order of the mask -/
def maskedSelect {β : Type} (mask : T Bool) (t : T β) : T β :=
  ⟨(maskSel mask).length :: t.shape.drop mask.shape.length,
   fun c => t.get (((maskSel mask)[c.headD 0]?).getD [] ++ c.tail)⟩

end T

/-! ### split sizes (torch.split / torch.chunk) -/

/-- sizes of the pieces `torch.split(t, k, d)` returns on a dim of size `n` (`k > 0`, or `k = 0 = n`) -/
def splitSizes (n k : Nat) : List Nat :=
  if k = 0 then [0] else
  if n = 0 then [0] else (List.range ((n + k - 1) / k)).map (fun i => min k (n - i * k))

/-- start offsets of consecutive pieces -/
def offsets : List Nat → Nat → List Nat
  | [], _ => []
  | n :: ns, acc => acc :: offsets ns (acc + n)

/-- `torch.split_with_sizes(t, sizes, d)`, `sizes.sum = shape[d]` -/
def T.splitWithSizes {α : Type} (sizes : List Nat) (d : Nat) (t : T α) : List (T α) :=
  (List.zip (offsets sizes 0) sizes).map (fun (o, n) => t.narrow d o n)

/-! ### torch's argument handling (spec of acceptance + exception class), full calls with raw `Int` args -/

/-- torch `infer_size`: resolve at most one `-1` against `numel`; `none` = RuntimeError -/
def inferSize (shape : List Int) (numel : Nat) : Option Shape :=
  if shape.any (· < -1) then none else
  let newsize := prod ((shape.filter (· ≠ -1)).map Int.toNat)
  match shape.count (-1) with
  | 0 => if newsize = numel then some (shape.map Int.toNat) else none
  | 1 => if 0 < newsize ∧ numel % newsize = 0
         then some (shape.map fun d => if d = -1 then numel / newsize else d.toNat) else none
  | _ => none

/-- the normalised value of a dim (garbage when out of range) -/
def wrapVal (n : Nat) (d : Int) : Nat := (wrapDim n d).getD 0

/-- the wrap-and-check loop of `permute`: each dim wrapped (IndexError), repeated dim → RuntimeError -/
def wrapPerm (n : Nat) : List Int → List Nat → Except Err (List Nat)
  | [], acc => .ok acc.reverse
  | d :: ds, acc =>
    match wrapDim n d with
    | none => .error .index
    | some i => if i ∈ acc then .error .runtime else wrapPerm n ds (i :: acc)

/-- resolve the entries of an `expand` size against shape `s` (trailing aligned) -/
def expandSizes (s : Shape) (size : List Int) : Except Err Shape :=
  if size.length < s.length then .error .runtime else
  let lead := size.length - s.length
  (List.range size.length).mapM (fun i =>
    let v := size.getD i 0
    if i < lead then (if v < 0 then .error .runtime else .ok v.toNat)
    else
      let old := s.getD (i - lead) 0
      if v = -1 then .ok old
      else if old = 1 then (if v < 0 then .error .runtime else .ok v.toNat)
      else if v = (old : Int) then .ok old else .error .runtime)

namespace Torch
variable {α : Type}

def permute (dims : List Int) (t : T α) : Except Err (T α) :=
  if dims.length ≠ t.rank then .error .runtime else
  (wrapPerm t.rank dims []).map (fun p => t.permute p)

def transpose (d0 d1 : Int) (t : T α) : Except Err (T α) :=
  match wrapDim t.rank d0, wrapDim t.rank d1 with
  | some i, some j => .ok (if t.rank = 0 then t else t.transpose i j)
  | _, _ => .error .index

def unsqueeze (d : Int) (t : T α) : Except Err (T α) :=
  match normDim (t.rank + 1) d with
  | some i => .ok (t.unsqueeze i)
  | none => .error .index

def squeeze (d : Int) (t : T α) : Except Err (T α) :=
  match wrapDim t.rank d with
  | some i => .ok (if t.rank = 0 then t else t.squeeze i)
  | none => .error .index

def flatten (a b : Int) (t : T α) : Except Err (T α) :=
  match wrapDim t.rank a, wrapDim t.rank b with
  | some i, some j =>
    if j < i then .error .runtime
    else if t.rank = 0 then .ok (t.reshape [1])
    else .ok (t.flatten i j)
  | _, _ => .error .index

def unflatten (d : Int) (sizes : List Int) (t : T α) : Except Err (T α) :=
  match wrapDim t.rank d with
  | none => .error .index
  | some i =>
    if t.rank = 0 then .error .runtime
    else if sizes = [] then .error .runtime
    else match inferSize sizes (t.shape.getD i 0) with
      | none => .error .runtime
      | some s => .ok (t.unflatten i s)

/-- `t.view(shape)` on a contiguous tensor, and `t.reshape(shape)` -/
def reshape (shape : List Int) (t : T α) : Except Err (T α) :=
  match inferSize shape (prod t.shape) with
  | none => .error .runtime
  | some s => .ok (t.reshape s)

def expand (size : List Int) (t : T α) : Except Err (T α) :=
  (expandSizes t.shape size).map (fun s => t.expand s)

def unbind (d : Int) (t : T α) : Except Err (List (T α)) :=
  match wrapDim t.rank d with
  | none => .error .index
  | some i => if t.rank = 0 then .error .index else .ok (t.unbind i)

def split (k : Int) (d : Int) (t : T α) : Except Err (List (T α)) :=
  if t.rank = 0 then .error .runtime else
  if k < 0 then .error .runtime else   -- checked before the dim is wrapped
  match wrapDim t.rank d with
  | none => .error .index
  | some i =>
    let n := t.shape.getD i 0
    if k = 0 ∧ n ≠ 0 then .error .runtime
    else .ok (t.splitWithSizes (splitSizes n k.toNat) i)

def splitList (sizes : List Int) (d : Int) (t : T α) : Except Err (List (T α)) :=
  if t.rank = 0 then .error .runtime else
  match wrapDim t.rank d with
  | none => .error .index
  | some i =>
    if sizes.any (· < 0) then .error .runtime
    else if (sizes.map Int.toNat).sum ≠ t.shape.getD i 0 then .error .runtime
    else .ok (t.splitWithSizes (sizes.map Int.toNat) i)

/-- sizes of the pieces of `torch.chunk(t, chunks, d)` on a dim of size `n` -/
def chunkSizes (n chunks : Nat) : List Nat :=
  let k := (n + chunks - 1) / chunks
  if k = 0 then List.replicate chunks 0 else splitSizes n k

def chunk (chunks : Int) (d : Int) (t : T α) : Except Err (List (T α)) :=
  if t.rank = 0 then .error .runtime else
  if chunks ≤ 0 then .error .runtime else   -- checked before the dim is wrapped
  match wrapDim t.rank d with
  | none => .error .index
  | some i =>
    .ok (t.splitWithSizes (chunkSizes (t.shape.getD i 0) chunks.toNat) i)

/-- shape of `torch.stack` of `k` tensors of shape `s` along (possibly negative) `d`; `none` = torch raises -/
def stackShape (k : Nat) (d : Int) (s : Shape) : Option Shape :=
  if k = 0 then none else (normDim (s.length + 1) d).map (fun i => s.insertIdx i k)

/-- `torch.gather` with torch's own checks (skipped for an empty index): same rank, the index not larger than the input outside `d`,
every index value in range -/
def gather {α : Type} (d : Nat) (index : T Nat) (t : T α) : Except Err (T α) :=
  if prod index.shape = 0 then .ok (T.gather d index t)      -- an empty index: torch returns an empty result without any check
  else if index.shape.length ≠ t.shape.length then .error .runtime
  else if (List.range t.shape.length).any (fun k => k ≠ d ∧ index.shape.getD k 0 > t.shape.getD k 0) then .error .runtime
  else if (coords index.shape).any (fun c => index.get c ≥ t.shape.getD d 0) then .error .runtime
  else .ok (T.gather d index t)

end Torch

end TdVerif.C02
