/-
  C12 — the pool `map` / `map_iter` make themselves (base.py `map`: `queue.put(i) for i in range(num_workers)`, pool initializer
  `tensordict/utils.py:_proc_init`: `worker_id = queue.get(); seed = base_seed + worker_id; torch.manual_seed(seed)`).
  Each of the `w` workers takes one id off the queue: the ids taken are the numbers `0 … w-1` in some order.
-/
namespace TdVerif.C12

/-- the seeds of the workers, in the order in which they took their id off the queue -/
def workerSeeds (base : Nat) (ids : List Nat) : List Nat := ids.map (base + ·)

end TdVerif.C12
