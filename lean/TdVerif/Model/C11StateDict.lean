/-
  C11 — state_dict / load_state_dict of (nested) tensordicts (tensordict/base.py).

  `stateDict`       mirrors `state_dict()` (default options): an ordered dict key → tensor | nested state dict, plus
                    `__batch_size` and `__device` at every level (names and lock state are **not** recorded)
  `loadSD`          mirrors `load_state_dict(sd)` (strict=True, assign=False): key sets must match, the batch size is
                    taken from the state dict, the devices must agree when both are set, then every item is
                    written into the destination (`self.set(key, item, inplace=True)`; a nested item is loaded
                    into the destination's own sub-tensordict first)
  Leaves are tensors identified by a number (the destination's leaves have the dtype and shape of the source's).
-/
import TdVerif.Model.C11Pytree

namespace TdVerif.C11

inductive SD where
  | leaf (v : Nat)
  | dict (batch : List Nat) (device : Option String) (entries : List (String × SD))
  deriving Repr

mutual
def stateDict : PT → SD
  | .leaf v => .leaf v
  | .node b _ d _ kids => .dict b d (stateDictKids kids)
def stateDictKids : List (String × PT) → List (String × SD)
  | [] => []
  | (k, t) :: rest => (k, stateDict t) :: stateDictKids rest
end

mutual
/-- `td.apply(torch.zeros_like)`: the same structure, every leaf zero -/
def zerosLike : PT → PT
  | .leaf _ => .leaf 0
  | .node b n d l kids => .node b n d l (zerosLikeKids kids)
def zerosLikeKids : List (String × PT) → List (String × PT)
  | [] => []
  | (k, t) :: rest => (k, zerosLike t) :: zerosLikeKids rest
end

/-- `set(sd.keys()) == set(self.keys())` (the exemption for empty sub-tensordicts is not modelled) -/
def sameKeys (es : List (String × SD)) (dk : List (String × PT)) : Bool :=
  (es.all fun p => dk.any fun q => q.1 == p.1) && (dk.all fun q => es.any fun p => p.1 == q.1)

/-- `self.set(key, value, inplace=True)`: the entry keeps its place; a new key goes to the end -/
def setKid (dk : List (String × PT)) (k : String) (v : PT) : List (String × PT) :=
  if dk.any (fun q => q.1 == k) then dk.map (fun q => if q.1 == k then (k, v) else q) else dk ++ [(k, v)]

mutual
def loadSD : SD → PT → Option PT
  | .leaf v, _ => some (.leaf v)
  | .dict _ _ _, .leaf _ => none
  | .dict b d entries, .node db dn dd dl dkids =>
    if sameKeys entries dkids = false then none                       -- RuntimeError: the key sets don't match
    else if d.isSome && dd.isSome && d != dd then none                -- loading from another device
    else (loadSDEntries db dn dd entries dkids).map fun ks => PT.node b dn dd dl ks
/-- `for key, item in state_dict.items()` over the destination's entries `dk`; `(db, dn, dd)`: what `self.empty()` carries -/
def loadSDEntries (db : List Nat) (dn : Option (List String)) (dd : Option String) :
    List (String × SD) → List (String × PT) → Option (List (String × PT))
  | [], dk => some dk
  | (k, .leaf v) :: rest, dk => loadSDEntries db dn dd rest (setKid dk k (.leaf v))
  | (k, .dict b d es) :: rest, dk =>
    match loadSD (.dict b d es) ((dk.lookup k).getD (.node db dn dd false [])) with
    | none => none
    | some r => loadSDEntries db dn dd rest (setKid dk k r)
end

mutual
/-- keys are distinct in every (sub-)tensordict -/
def NodupKeys : PT → Prop
  | .leaf _ => True
  | .node _ _ _ _ kids => (kids.map (·.1)).Nodup ∧ NodupKeysKids kids
def NodupKeysKids : List (String × PT) → Prop
  | [] => True
  | (_, t) :: rest => NodupKeys t ∧ NodupKeysKids rest
end

end TdVerif.C11
