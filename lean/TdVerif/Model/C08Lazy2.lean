/-
  C08 — stacks of stacks: a `LazyStackedTensorDict` whose members are lazy stacks.

  The outer code is the same `__getitem__` (tensordict/_lazy.py); what changes is what a member
  is: `self.tensordicts[i][_idx]` is now itself a lazy-stack read (`lazyGetCoreM`) and the results
  that get re-stacked are lazy-stack results (`LRes`).  This file transcribes the outer branches
  again over such members (has_bool with a rank-1 mask, isinteger, default); `abs2` is the dense
  stack of the dense stacks.
-/
import TdVerif.Model.C08Lazy

namespace TdVerif.C08

/-- a lazy stack of lazy stacks -/
structure Lazy2 (α : Type) where
  members : List (Lazy α)
  sd : Nat

def Lazy2.batch (L : Lazy2 α) : Shape :=
  ((L.members.head?.map Lazy.batch).getD []).insertIdx L.sd L.members.length

/-- the dense stack of the dense stacks of the members -/
def abs2 [Inhabited α] (L : Lazy2 α) : TD α := stackTD (L.members.map absL) L.sd

/-- `.batch_size` of what a lazy-stack read returned -/
def LRes.batch : LRes α → Shape
  | .member m => m.batch
  | .lazy L => L.batch
  | .lazy2 sd rows => ((rows.head?.map Lazy.batch).getD []).insertIdx sd rows.length
  | .empty b => b

/-- what `__getitem__` of a stack of stacks returns -/
inductive LRes2 (α : Type) where
  | inner (r : LRes α)                       -- isinteger: what the selected inner stack returned
  | lazy (sd : Nat) (rs : List (LRes α))     -- a lazy stack of inner results
  | empty (batch : Shape)

def absR2 [Inhabited α] : LRes2 α → TD α
  | .inner r => absR r
  | .lazy sd rs => stackTD (rs.map absR) sd
  | .empty b => { batch := b, keys := [], leaf := fun _ => default }

/-- `lazy_stack(items, dim)` → `LazyStackedTensorDict(*items, stack_dim=dim)` over inner results
(same checks as `lazyStack`, on the batch sizes of the results) -/
def lazyStackR (items : List (LRes α)) (dim : Int) : Option (Nat × List (LRes α)) :=
  match items with
  | [] => none
  | m :: rest =>
    let r : Int := m.batch.length
    let d : Int := if dim < 0 then r + dim + 1 else dim
    if d < 0 ∨ r < d then none
    else if rest.all (fun m' => m'.batch == m.batch) then some (d.toNat, items)
    else none

/-- `self.tensordicts[i][_idx]` (an inner lazy-stack read), or the inner stack itself when `_idx == ()` -/
def memberIndex2 [Inhabited α] (L : Lazy2 α) (out : List Ix) (i : Nat) : Option (LRes α) :=
  (L.members[i]?).bind fun Li => if out.isEmpty then some (.lazy Li) else lazyGetCoreM Li out

/-- `_split_index` of the outer stack (same loop; it only reads stack_dim, the member count and
the batch size) -/
def splitIndex2 (L : Lazy2 α) (ix : List Ix) : Option SplitSt :=
  (splitLoop L.sd L.members.length L.batch ix 0 {}).bind fun st =>
    if st.hasBool then
      match st.out[st.maskLoc]? with
      | some (.mask m) =>
        if (st.sel.ids L.members.length).length ≤ m.shape.headD 0 then some st else none
      | _ => none
    else some st

/-- mirrors `__getitem__` (_lazy.py, after the fix commits) of a stack of stacks for an
Ellipsis-free index: has_bool with a rank-1 mask on the outer stack dim (the kept inner stacks,
each read with the index without the mask), isinteger, default.  (Integer tensors on the outer
stack dim and rank ≥ 2 masks on / spanning it: outside this model.) -/
def lazyGetCore2 [Inhabited α] (L : Lazy2 α) (ix : List Ix) : Option (LRes2 α) :=
  (splitIndex2 L ix).bind fun st =>
    if st.hasBool then
      match st.out[st.maskLoc]? with
      | some (.mask m) =>
        let catDim : Int := (st.maskLoc : Int) - st.numSingle
        if catDim < 0 then none else
        match m.shape with
        | [k] =>
          if k ≠ L.members.length then none else
          let outWo := st.out.eraseIdx st.maskLoc
          let chosen := (List.range k).filter fun i => m.get [i]
          (allSome (chosen.map fun i => memberIndex2 L outWo i)).bind fun res =>
            match res with
            | [] => (getitemBatchSize ix L.batch).map fun bsz =>
                .empty ((bsz.eraseIdx catDim.toNat).insertIdx catDim.toNat 0)
            | _ => some (.lazy catDim.toNat res)
        | _ => none
      | _ => none
    else if st.isNd then none
    else if st.isInteger then
      match st.sel with
      | .single i => (memberIndex2 L st.out i).map .inner
      | _ => none
    else
      let newSd : Int := (L.sd : Int) - st.numSingle + st.numNone - st.numSquash
      (allSome ((st.sel.ids L.members.length).map (memberIndex2 L st.out))).bind fun res =>
        (lazyStackR res newSd).map fun p => .lazy p.1 p.2

/-- `lazy_of_lazy[index]` -/
def lazyGet2 [Inhabited α] (L : Lazy2 α) (ix : List Ix) : Option (LRes2 α) :=
  (convertEllipsis ix L.batch.length).bind (lazyGetCore2 L)

/-! ### shape operations on a stack of stacks

The outer code is the one-level code (`_unsqueeze`, `_transpose`, `_permute`, _lazy.py); the members'
`unsqueeze` / `permute` / `transpose` are the lazy ones again. -/

/-- `LazyStackedTensorDict(*items, stack_dim=dim)` / `lazy_stack(items, dim)` over lazy stacks -/
def lazyStack2 (items : List (Lazy α)) (dim : Nat) : Option (Lazy2 α) :=
  match items with
  | [] => none
  | m :: rest =>
    if m.batch.length < dim then none
    else if rest.all (fun m' => m'.batch == m.batch) then some ⟨items, dim⟩
    else none

/-- mirrors `_unsqueeze` over members that are lazy stacks -/
def lazyUnsqueeze2 (L : Lazy2 α) (dim : Int) : Option (Lazy2 α) :=
  let r : Int := L.batch.length
  let nd : Int := if dim < 0 then r + dim + 1 else dim
  if nd > r ∨ nd < 0 then none
  else if nd.toNat > L.sd then
    (allSome (L.members.map fun Li => lazyUnsqueeze Li ((nd.toNat - 1 : Nat) : Int))).bind fun ms => lazyStack2 ms L.sd
  else
    (allSome (L.members.map fun Li => lazyUnsqueeze Li (nd.toNat : Int))).bind fun ms => lazyStack2 ms (L.sd + 1)

/-- mirrors `_squeeze(dim)` over members that are lazy stacks: a non-singleton dim returns self, the
singleton outer stack dim returns the only inner stack, any other singleton dim is squeezed inside
the inner stacks with their own `_squeeze` (which returns their only member when it is their stack
dim) and the results are stacked again -/
def lazySqueeze2 (L : Lazy2 α) (dim : Int) : Option (LRes2 α) :=
  let r : Int := L.batch.length
  let nd : Int := if dim < 0 then r + dim else dim
  if nd > r - 1 ∨ nd < 0 then none
  else
    let d := nd.toNat
    if L.batch[d]? ≠ some 1 then some (.lazy L.sd (L.members.map .lazy))
    else if d = L.sd then (L.members[0]?).map fun Li => .inner (.lazy Li)
    else if d > L.sd then
      (allSome (L.members.map fun Li => lazySqueeze Li ((d - 1 : Nat) : Int))).bind fun rs =>
        (lazyStackR rs (L.sd : Int)).map fun p => .lazy p.1 p.2
    else
      (allSome (L.members.map fun Li => lazySqueeze Li (d : Int))).bind fun rs =>
        (lazyStackR rs ((L.sd - 1 : Nat) : Int)).map fun p => .lazy p.1 p.2

/-- mirrors `_permute` over members that are lazy stacks -/
def lazyPermute2 (L : Lazy2 α) (dims : List Int) : Option (Lazy2 α) :=
  let r := L.batch.length
  let dl : List Int := dims.map fun d => if d ≥ 0 then d else (r : Int) + d
  if dl.any (fun d => d < 0 ∨ d ≥ r) ∨ dl.length ≠ r then none else
  let p : List Nat := dl.map Int.toNat
  if (List.range r).any (fun j => !p.contains j) ∨ ¬ p.Nodup then none else
  let newSd := p.idxOf L.sd
  let p' := (p.filter (· != L.sd)).map fun d => if d < L.sd then d else d - 1
  (allSome (L.members.map fun Li => lazyPermute Li (p'.map fun (d : Nat) => (d : Int)))).bind fun ms => lazyStack2 ms newSd

/-- mirrors `transpose` + `_transpose` over members that are lazy stacks (the far swap rolls the
dims of the inner stacks with their own `permute`) -/
def lazyTranspose2 (L : Lazy2 α) (dim0 dim1 : Int) : Option (Lazy2 α) :=
  let r : Int := L.batch.length
  let a0 : Int := if dim0 < 0 then r + dim0 else dim0
  let b0 : Int := if dim1 < 0 then r + dim1 else dim1
  if a0 < 0 ∨ b0 < 0 ∨ a0 ≥ r ∨ b0 ≥ r then none
  else
    let a := (min a0 b0).toNat
    let b := (max a0 b0).toNat
    let inner (p : List Nat) (sd' : Nat) : Option (Lazy2 α) :=
      (allSome (L.members.map fun Li => lazyPermute Li (p.map fun (d : Nat) => (d : Int)))).bind fun ms => lazyStack2 ms sd'
    if a = b then some L
    else if a = L.sd then
      if b = a + 1 then lazyStack2 L.members b
      else inner (rollPerm (r.toNat - 1) (b - 1) a) b
    else if b = L.sd then
      if a + 1 = b then lazyStack2 L.members a
      else inner (rollPerm (r.toNat - 1) a (b - 1)) a
    else
      let a' := if a < L.sd then a else a - 1
      let b' := if b < L.sd then b else b - 1
      (allSome (L.members.map fun Li => lazyTranspose Li (a' : Int) (b' : Int))).bind fun ms => lazyStack2 ms L.sd

/-! ### index writes on a stack of stacks

The outer code is `__setitem__` (_lazy.py) again; `self.tensordicts[i][_idx] = value` is now the
index write of an inner lazy stack (`lazySetCore`), and `self.tensordicts[i].update(value,
inplace=True)` (empty `_idx`) writes the whole value, i.e. `lazySetCore Li [] value`. -/

/-- write `v` through `out` into inner stack `i` -/
def memberSet2 (ms : List (Lazy α)) (out : List Ix) (i : Nat) (v : TD α) : Option (List (Lazy α)) :=
  (ms[i]?).bind fun Li => (lazySetCore Li out v).map fun Li' => ms.set i Li'

/-- the sequence of inner writes of one outer `__setitem__`, in program order -/
def writeAll2 (out : List Ix) : List (Nat × TD α) → List (Lazy α) → Option (List (Lazy α))
  | [], ms => some ms
  | (i, v) :: r, ms => (memberSet2 ms out i v).bind (writeAll2 out r)

/-- mirrors `__setitem__` of a stack of stacks for a tensordict value of the indexed batch size and
an Ellipsis-free index; the branches of `lazySetCore` (isinteger, rank-1 integer tensor on the
outer stack dim, default, rank-1 mask on the outer stack dim) over inner lazy stacks -/
def lazySetCore2 (L : Lazy2 α) (ix : List Ix) (v : TD α) : Option (Lazy2 α) :=
  (idxShape ix L.batch).bind fun ibs =>
  if v.batch ≠ ibs then none else
  (splitIndex2 L ix).bind fun st =>
    if st.hasBool then
      match st.out[st.maskLoc]? with
      | some (.mask m) =>
        match m.shape with
        | [k] =>
          if k ≠ L.members.length ∨ st.splitDim < 0 then none else
          let outWo := st.out.eraseIdx st.maskLoc
          let chosen := (List.range k).filter fun i => m.get [i]
          if v.batch[st.splitDim.toNat]? ≠ some chosen.length then none else
          (writeAll2 outWo ((List.range chosen.length).map fun j =>
              (chosen[j]?.getD L.members.length, v.select st.splitDim.toNat j)) L.members).map
            fun ms => { L with members := ms }
        | _ => none
      | _ => none
    else
      let ud : Int := (L.sd : Int) - st.numSingle + st.numNone - st.numSquash
      if st.isInteger then
        match st.sel with
        | .single i => (memberSet2 L.members st.out i v).map fun ms => { L with members := ms }
        | _ => none
      else if ud < 0 then none
      else if st.isNd then
        match st.sel with
        | .tens t =>
          if st.out.any Ix.isAdv then none else
          match t.shape with
          | [k] =>
            if v.batch[ud.toNat]? ≠ some k then none else
            (writeAll2 st.out ((List.range k).map fun j =>
                ((normInt (t.get [j]) L.members.length).getD L.members.length, v.select ud.toNat j)) L.members).map
              fun ms => { L with members := ms }
          | _ => none      -- rank ≥ 2 tensors on the outer stack dim: outside this model
        | _ => none
      else
        let ids := st.sel.ids L.members.length
        if v.batch[ud.toNat]? ≠ some ids.length then none else
        (writeAll2 st.out ((List.range ids.length).map fun j =>
            (ids[j]?.getD L.members.length, v.select ud.toNat j)) L.members).map
          fun ms => { L with members := ms }

/-- `lazy_of_lazy[index] = value` -/
def lazySet2 (L : Lazy2 α) (ix : List Ix) (v : TD α) : Option (Lazy2 α) :=
  (convertEllipsis ix L.batch.length).bind fun ix' => lazySetCore2 L ix' v

end TdVerif.C08
