/-
  C07 — the class table: public operation (or operation/variant) ↦ behavioural class, transcribed by
  hand from the property statement and the docstrings of tensordict/base.py, tensordict/_td.py
  (an operation is `inplace` when its documentation says it writes in place / its name carries the
  trailing underscore of an arithmetic op / it is an augmented assignment; `view` and `copy` are the
  operations the property lists as view-producing / deep-copying, plus their documented synonyms;
  `outOfPlace` is everything that returns new data without an aliasing commitment; `rebind` are the
  structural writes on the container; `query` touches no tensor memory; `excluded` needs resources
  that do not exist in the sandbox or is a constructor that does not take a tensordict).
  A row `op%kind` overrides `op` for one container kind (lazy stacks: key access *stacks*, i.e.
  copies, as documented in tensordict/_lazy.py:LazyStackedTensorDict; sub-tensordicts: `set`/`update`
  write through the window into the source for existing keys and allocate a source-sized entry for
  new ones, tensordict/_td.py:_SubTensorDict._set_str — neither class, hence `excluded`;
  TensorDictParams: tensordict/nn/params.py:load_state_dict always calls `self.data.load_state_dict(..., assign=False)`,
  i.e. copies in place whatever `assign` says; `load_memmap%memmap`: a second mapping of the files of a memory-mapped
  tensordict shares its memory through the file — storage identity of a memory-mapped tensor is its file).

  The harness re-reads the public API of `TensorDict` by reflection on every run: a public name that
  has no row here is a broken correspondence (`c07.class` answers `unknown`).

  `stepsOf` turns (class, observed payload) into steps of the storage model; this is the only place
  where the class decides what happens to memory.
-/
import TdVerif.Model.C07Storage
namespace TdVerif.C07

def classTable : List (String × OpClass) := [
  -- inplace (64)
  ("__iadd__", .inplace), ("__imul__", .inplace), ("__ipow__", .inplace), ("__isub__", .inplace), ("__itruediv__", .inplace), ("__setitem__/index", .inplace),
  ("abs_", .inplace), ("acos_", .inplace), ("add_", .inplace), ("addcdiv_", .inplace), ("addcmul_", .inplace), ("apply/inplace", .inplace),
  ("apply_", .inplace), ("asin_", .inplace), ("atan_", .inplace), ("ceil_", .inplace), ("clamp_max_", .inplace), ("clamp_min_", .inplace),
  ("copy_", .inplace), ("copy_at_", .inplace), ("cos_", .inplace), ("cosh_", .inplace), ("detach_", .inplace), ("div_", .inplace),
  ("erf_", .inplace), ("erfc_", .inplace), ("exp_", .inplace), ("expm1_", .inplace), ("fill_", .inplace), ("floor_", .inplace),
  ("frac_", .inplace), ("lerp_", .inplace), ("lgamma_", .inplace), ("load_state_dict", .inplace), ("load_state_dict/assign%params", .inplace), ("log10_", .inplace),
  ("log1p_", .inplace), ("log2_", .inplace), ("log_", .inplace), ("masked_fill_", .inplace), ("maximum_", .inplace), ("minimum_", .inplace),
  ("mul_", .inplace), ("named_apply/inplace", .inplace), ("neg_", .inplace), ("pow_", .inplace), ("reciprocal_", .inplace), ("round_", .inplace),
  ("set/inplace", .inplace), ("set_", .inplace), ("set_at_", .inplace), ("sigmoid_", .inplace), ("sign_", .inplace), ("sin_", .inplace),
  ("sinh_", .inplace), ("sqrt_", .inplace), ("sub_", .inplace), ("tan_", .inplace), ("tanh_", .inplace), ("trunc_", .inplace),
  ("update/inplace", .inplace), ("update_", .inplace), ("update_at_", .inplace), ("zero_", .inplace),
  -- outOfPlace (160)
  ("__abs__", .outOfPlace), ("__add__", .outOfPlace), ("__and__", .outOfPlace), ("__eq__", .outOfPlace), ("__ge__", .outOfPlace), ("__getitem__/key%lazy", .outOfPlace),
  ("__gt__", .outOfPlace), ("__invert__", .outOfPlace), ("__le__", .outOfPlace), ("__lt__", .outOfPlace), ("__mul__", .outOfPlace), ("__ne__", .outOfPlace),
  ("__neg__", .outOfPlace), ("__or__", .outOfPlace), ("__pow__", .outOfPlace), ("__radd__", .outOfPlace), ("__rand__", .outOfPlace), ("__rmul__", .outOfPlace),
  ("__ror__", .outOfPlace), ("__rpow__", .outOfPlace), ("__rsub__", .outOfPlace), ("__rtruediv__", .outOfPlace), ("__rxor__", .outOfPlace), ("__sub__", .outOfPlace),
  ("__truediv__", .outOfPlace), ("__xor__", .outOfPlace), ("abs", .outOfPlace), ("acos", .outOfPlace), ("add", .outOfPlace), ("addcdiv", .outOfPlace),
  ("addcmul", .outOfPlace), ("all", .outOfPlace), ("amax", .outOfPlace), ("amin", .outOfPlace), ("any", .outOfPlace), ("apply", .outOfPlace),
  ("as_tensor", .outOfPlace), ("asin", .outOfPlace), ("atan", .outOfPlace), ("bfloat16", .outOfPlace), ("bitwise_and", .outOfPlace), ("bool", .outOfPlace),
  ("cat", .outOfPlace), ("cat_from_tensordict", .outOfPlace), ("ceil", .outOfPlace), ("clamp", .outOfPlace), ("clamp_max", .outOfPlace), ("clamp_min", .outOfPlace),
  ("complex128", .outOfPlace), ("complex32", .outOfPlace), ("complex64", .outOfPlace), ("cos", .outOfPlace), ("cosh", .outOfPlace), ("cpu", .outOfPlace),
  ("cummax", .outOfPlace), ("cummin", .outOfPlace), ("densify", .outOfPlace), ("div", .outOfPlace), ("double", .outOfPlace), ("empty", .outOfPlace),
  ("erf", .outOfPlace), ("erfc", .outOfPlace), ("exp", .outOfPlace), ("expm1", .outOfPlace), ("filter_non_tensor_data", .outOfPlace), ("flatten", .outOfPlace),
  ("float", .outOfPlace), ("float16", .outOfPlace), ("float32", .outOfPlace), ("float64", .outOfPlace), ("floor", .outOfPlace), ("frac", .outOfPlace),
  ("get%lazy", .outOfPlace), ("get_at/basic%lazy", .outOfPlace), ("half", .outOfPlace), ("int", .outOfPlace), ("int16", .outOfPlace), ("int32", .outOfPlace),
  ("int64", .outOfPlace), ("int8", .outOfPlace), ("isfinite", .outOfPlace), ("isnan", .outOfPlace), ("isneginf", .outOfPlace), ("isposinf", .outOfPlace),
  ("isreal", .outOfPlace), ("items%lazy", .outOfPlace), ("lerp", .outOfPlace), ("lgamma", .outOfPlace), ("log", .outOfPlace), ("log10", .outOfPlace),
  ("log1p", .outOfPlace), ("log2", .outOfPlace), ("logical_and", .outOfPlace), ("logsumexp", .outOfPlace), ("masked_fill", .outOfPlace), ("max", .outOfPlace),
  ("maximum", .outOfPlace), ("mean", .outOfPlace), ("memmap", .outOfPlace), ("memmap_like", .outOfPlace), ("min", .outOfPlace), ("minimum", .outOfPlace),
  ("mul", .outOfPlace), ("named_apply", .outOfPlace), ("nanmean", .outOfPlace), ("nansum", .outOfPlace), ("neg", .outOfPlace), ("new_empty", .outOfPlace),
  ("new_full", .outOfPlace), ("new_ones", .outOfPlace), ("new_tensor", .outOfPlace), ("new_zeros", .outOfPlace), ("norm", .outOfPlace), ("numpy", .outOfPlace),
  ("pow", .outOfPlace), ("prod", .outOfPlace), ("qint32", .outOfPlace), ("qint8", .outOfPlace), ("quint4x2", .outOfPlace), ("quint8", .outOfPlace),
  ("reciprocal", .outOfPlace), ("refine_names", .outOfPlace), ("rename", .outOfPlace), ("repeat%lazy", .outOfPlace), ("repeat_interleave%lazy", .outOfPlace), ("replace", .outOfPlace),
  ("reshape", .outOfPlace), ("round", .outOfPlace), ("sigmoid", .outOfPlace), ("sign", .outOfPlace), ("sin", .outOfPlace), ("sinh", .outOfPlace),
  ("softmax", .outOfPlace), ("split_keys", .outOfPlace), ("sqrt", .outOfPlace), ("stack", .outOfPlace), ("stack_from_tensordict", .outOfPlace), ("state_dict", .outOfPlace),
  ("std", .outOfPlace), ("sub", .outOfPlace), ("sum", .outOfPlace), ("tan", .outOfPlace), ("tanh", .outOfPlace), ("to", .outOfPlace),
  ("to_dict%lazy", .outOfPlace), ("to_namedtuple", .outOfPlace), ("to_padded_tensor", .outOfPlace), ("to_pytree", .outOfPlace), ("to_struct_array", .outOfPlace), ("tolist", .outOfPlace),
  ("trunc", .outOfPlace), ("type", .outOfPlace), ("uint16", .outOfPlace), ("uint32", .outOfPlace), ("uint64", .outOfPlace), ("uint8", .outOfPlace),
  ("unflatten_keys%lazy", .outOfPlace), ("values%lazy", .outOfPlace), ("var", .outOfPlace), ("where", .outOfPlace),
  -- view (28)
  ("__getitem__/basic", .view), ("__getitem__/key", .view), ("__iter__", .view), ("chunk", .view), ("clone/shallow", .view), ("copy", .view),
  ("data", .view), ("detach", .view), ("exclude", .view), ("expand", .view), ("expand_as", .view), ("flatten_keys", .view),
  ("get", .view), ("get_at/basic", .view), ("items", .view), ("load_memmap%memmap", .view), ("permute", .view), ("select", .view),
  ("split", .view), ("squeeze", .view), ("to_dict", .view), ("transpose", .view), ("unbind", .view), ("unflatten", .view),
  ("unflatten_keys", .view), ("unsqueeze", .view), ("values", .view), ("view", .view),
  -- copy (11)
  ("__getitem__/advanced", .copy), ("__getitems__", .copy), ("clone", .copy), ("consolidate", .copy), ("contiguous%lazy", .copy), ("gather", .copy),
  ("get_at/advanced", .copy), ("masked_select", .copy), ("repeat", .copy), ("repeat_interleave", .copy), ("to_tensordict", .copy),
  -- contiguous (1)
  ("contiguous", .contiguous),
  -- rebind (23)
  ("__delitem__", .rebind), ("__setitem__/key", .rebind), ("__setstate__", .rebind), ("cat_tensors", .rebind), ("clear", .rebind), ("create_nested", .rebind),
  ("del_", .rebind), ("exclude/inplace", .rebind), ("filter_empty_", .rebind), ("load_state_dict/assign", .rebind), ("memmap_", .rebind), ("memmap_refresh_", .rebind),
  ("pop", .rebind), ("popitem", .rebind), ("rename_key_", .rebind), ("select/inplace", .rebind), ("separates", .rebind), ("set", .rebind),
  ("set_non_tensor", .rebind), ("setdefault", .rebind), ("share_memory_", .rebind), ("stack_tensors", .rebind), ("update", .rebind),
  -- query (50)
  ("__bool__", .query), ("__class_getitem__", .query), ("__contains__", .query), ("__enter__", .query), ("__exit__", .query), ("__len__", .query),
  ("__torch_function__", .query), ("auto_batch_size_", .query), ("auto_device_", .query), ("batch_dims", .query), ("batch_size", .query), ("bytes", .query),
  ("clear_device_", .query), ("clear_refs_for_compile_", .query), ("data_ptr", .query), ("depth", .query), ("device", .query), ("dim", .query),
  ("dtype", .query), ("entry_class", .query), ("get_item_shape", .query), ("get_non_tensor", .query), ("grad", .query), ("is_consolidated", .query),
  ("is_contiguous", .query), ("is_cpu", .query), ("is_cuda", .query), ("is_empty", .query), ("is_floating_point", .query), ("is_locked", .query),
  ("is_memmap", .query), ("is_meta", .query), ("is_shared", .query), ("keys", .query), ("lock_", .query), ("names", .query),
  ("ndim", .query), ("ndimension", .query), ("non_tensor_items", .query), ("numel", .query), ("param_count", .query), ("rename_", .query),
  ("requires_grad", .query), ("requires_grad_", .query), ("saved_path", .query), ("shape", .query), ("size", .query), ("sorted_keys", .query),
  ("unlock_", .query), ("zero_grad", .query),
  -- excluded (42)
  ("__setitem__/key%sub", .excluded), ("cuda", .excluded), ("dumps", .excluded), ("from_any", .excluded), ("from_consolidated", .excluded), ("from_dataclass", .excluded),
  ("from_dict", .excluded), ("from_dict_instance", .excluded), ("from_h5", .excluded), ("from_module", .excluded), ("from_modules", .excluded), ("from_namedtuple", .excluded),
  ("from_pytree", .excluded), ("from_struct_array", .excluded), ("from_tuple", .excluded), ("fromkeys", .excluded), ("gather_and_stack", .excluded), ("irecv", .excluded),
  ("isend", .excluded), ("lazy_stack", .excluded), ("load", .excluded), ("load_", .excluded), ("load_memmap", .excluded), ("load_memmap_", .excluded),
  ("make_memmap", .excluded), ("make_memmap_from_storage", .excluded), ("make_memmap_from_tensor", .excluded), ("map", .excluded), ("map_iter", .excluded), ("maybe_dense_stack", .excluded),
  ("pin_memory", .excluded), ("pin_memory_", .excluded), ("record_stream", .excluded), ("recv", .excluded), ("reduce", .excluded), ("save", .excluded),
  ("send", .excluded), ("set%sub", .excluded), ("setdefault%sub", .excluded), ("to_h5", .excluded), ("to_module", .excluded), ("update%sub", .excluded)
]

def classOf (op : String) : Option OpClass := classTable.lookup op

/-- container kinds of the property's quantifier -/
def kinds : List String := ["regular", "nested", "lazy", "sub", "tensorclass", "memmap", "shared", "params", "locked"]

/-- Rows where the code that exists does NOT behave as the class the property assigns (known
findings, see known_findings.json): the model transcribes the code, the oracle keeps the property's class.
`__getitem__/advanced%lazy`: tensordict/_lazy.py:LazyStackedTensorDict.__getitem__ with an integer
tensor / list / range along the stack dimension returns a lazy stack of the *same* stacked
tensordicts (or of views of them) — advanced indexing that shares memory. -/
def knownDeviations : List (String × OpClass) :=
  [("__getitem__/advanced%lazy", .outOfPlace),
   -- tensordict/_td.py:_SubTensorDict._index_tensordict returns `self._get_sub_tensordict(index)`: indexing a
   -- sub-tensordict, with an advanced index too, yields another *window* on the source (entries read as copies,
   -- but set_/fill_/apply_/index assignment on the result write through to the source)
   ("__getitem__/advanced%sub", .outOfPlace), ("__getitems__%sub", .outOfPlace)]

/-- class used to model a table row: a known deviation first, else the table -/
def rowClass (row : String) : Option OpClass :=
  match knownDeviations.lookup row with
  | some c => some c
  | none => classTable.lookup row

/-- the class the documentation / property assigns to `op` on container kind `kind` -/
def docClass (op kind : String) : Option OpClass :=
  match classTable.lookup (op ++ "%" ++ kind) with
  | some c => some c
  | none => classTable.lookup op

/-- the class the code is modelled with -/
def modelClass (op kind : String) : Option OpClass :=
  match knownDeviations.lookup (op ++ "%" ++ kind) with
  | some c => some c
  | none => docClass op kind

/-- the operations the property statement names as documented in-place -/
def propertyInplace : List String :=
  ["set_", "update_", "set_at_", "update_at_", "copy_", "fill_", "zero_", "apply_", "masked_fill_",
   "add_", "sub_", "mul_", "div_", "pow_", "abs_", "neg_", "exp_", "sqrt_", "clamp_max_", "clamp_min_", "lerp_", "addcmul_", "addcdiv_",
   "__iadd__", "__isub__", "__imul__", "__itruediv__", "__ipow__"]

/-- the operations the property statement names as view-producing / deep-copying -/
def propertyView : List String :=
  ["__getitem__/basic", "view", "permute", "transpose", "squeeze", "unsqueeze", "expand", "unbind", "split",
   "select", "exclude", "copy", "clone/shallow", "flatten_keys"]
def propertyCopy : List String := ["clone", "to_tensordict", "__getitem__/advanced"]

/-- one result leaf as observed by the harness (values carry provenance: `src`/`sel` say which source
entry and which of its elements the values come from; `aliased` is the observed sharing, consulted
only for the `outOfPlace` class, which makes no aliasing commitment) -/
structure RLeaf where
  key : String
  src : Option String
  sel : List Nat
  vals : List Val
  aliased : Bool
  deriving Repr

inductive SOp where
  | bind (k : String) (obj : Nat) (key : String)
  | unbind (k : String)
  | alloc (k : String) (vals : List Val)      -- the operation made a tensor of its own (dtype / shape conversion, memmap copy …) to bind
  deriving Repr

structure Payload where
  writes : List (String × List Val)
  results : List RLeaf
  struct : List SOp
  deriving Repr

def RLeaf.aliasSpec (r : RLeaf) : String × Spec :=
  match r.src with
  | some s => (r.key, .alias s r.sel)
  | none => (r.key, .fresh r.vals)

def RLeaf.freshSpec (r : RLeaf) : String × Spec := (r.key, .fresh r.vals)

def SOp.toStep (td : Nat) : SOp → Step
  | .bind k o k2 => .rebind td k o k2
  | .unbind k => .unbind td k
  | .alloc k vals => .alloc k vals

/-- the memory behaviour of an operation of class `c` on tensordict `td` -/
def stepsOf (c : OpClass) (td : Nat) (p : Payload) : List Step :=
  match c with
  | .inplace => [.inplace td p.writes]
  | .view => [.derive td (p.results.map RLeaf.aliasSpec)]
  | .copy => [.derive td (p.results.map RLeaf.freshSpec)]
  | .outOfPlace => [.derive td (p.results.map (fun r => if r.aliased then r.aliasSpec else r.freshSpec))]
  | .contiguous => [.contiguous td]
  | .rebind => p.struct.map (SOp.toStep td)
  | .query => []
  | .excluded => []

/-- a history of public operations: (name, tensordict, payload); unknown names stop the run -/
def runApi (s : State) : List (String × Nat × Payload) → Option State
  | [] => some s
  | (op, td, p) :: rest =>
      match classOf op with
      | some c => runApi (run s (stepsOf c td p)) rest
      | none => none

end TdVerif.C07
