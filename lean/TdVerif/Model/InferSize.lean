/-
  `infer_size_impl` / `_infer_size_impl` (tensordict/utils.py): hand model + closed-form specification.

  The *code* is in Gen/PyFuns.lean (`Gen.inferSizeImpl`, `Gen.inferSizeImplLocal`, regenerated from the
  working tree on every run by harness/py2lean.py).  This file holds
    * `step` / `scan` / `infer`: the same algorithm written by structural recursion over the shape
      (mirrors tensordict/utils.py:infer_size_impl — the `for dim in range(len(shape))` loop with the
      two accumulators `infer_dim`, `newsize`, then the divisibility test and the `out[infer_dim] = …`),
    * the *specification* vocabulary the theorems are stated in (`Wellformed`, `others`, `slot`,
      `closedForm`); nothing here is a transcription of tensordict code below the line `-- spec`.
-/
namespace TdVerif.InferSize

/-- loop state `(infer_dim, newsize)` -/
abbrev St := Option Int × Int

/-- one iteration of `for dim in range(len(shape))` with `x = shape[dim]`
(mirrors tensordict/utils.py:infer_size_impl, loop body) -/
def step (st : St) (i : Nat) (x : Int) : Except String St :=
  if x = -1 then
    match st.1 with
    | none => .ok (some (Int.ofNat i), st.2)
    | some _ => .error "AssertionError"
  else if x ≥ 0 then .ok (st.1, st.2 * x)
  else .error "AssertionError"

/-- the loop, as a structural recursion over the not-yet-visited suffix; `i` = index of its head -/
def scan : List Int → Nat → St → Except String St
  | [], _, st => .ok st
  | x :: xs, i, st => step st i x >>= scan xs (i + 1)

/-- code after the loop (mirrors tensordict/utils.py:infer_size_impl, from `if not (numel == newsize or …` on).
`numel // newsize` with `newsize = 0` is Python's ZeroDivisionError. -/
def post (shape : List Int) (numel : Int) (st : St) : Except String (List Int) :=
  if ¬ (numel = st.2 ∨ (st.1.isSome = true ∧ st.2 > 0 ∧ Int.fmod numel st.2 = 0)) then .error "AssertionError"
  else match st.1 with
    | none => .ok shape
    | some d => if st.2 = 0 then .error "ZeroDivisionError" else .ok (shape.set (Int.toNat d) (Int.fdiv numel st.2))

/-- hand model of the whole function -/
def infer (shape : List Int) (numel : Int) : Except String (List Int) :=
  scan shape 0 (none, 1) >>= post shape numel

-- spec ---------------------------------------------------------------------------------------------

/-- product of the entries that are not the placeholder `-1` -/
def others : List Int → Int
  | [] => 1
  | x :: xs => if x = -1 then others xs else x * others xs

/-- no entry below `-1`, at most one `-1` -/
def Wellformed (shape : List Int) : Prop := (∀ x ∈ shape, -1 ≤ x) ∧ shape.count (-1) ≤ 1

instance (shape : List Int) : Decidable (Wellformed shape) := by unfold Wellformed; infer_instance

/-- position of the first `-1` (meaningful when there is one) -/
def slot (shape : List Int) : Nat := shape.findIdx (· == -1)

/-- the complete input/output relation of `infer_size_impl`, as a decision table -/
def closedForm (shape : List Int) (numel : Int) : Except String (List Int) :=
  if ¬ Wellformed shape then .error "AssertionError"
  else if shape.count (-1) = 0 then
    (if numel = others shape then .ok shape else .error "AssertionError")
  else if numel = others shape then
    (if others shape = 0 then .error "ZeroDivisionError" else .ok (shape.set (slot shape) 1))
  else if 0 < others shape ∧ others shape ∣ numel then .ok (shape.set (slot shape) (numel / others shape))
  else .error "AssertionError"


-- torch's own rule (spec) -------------------------------------------------------------------------

/-- `at::infer_size` (aten/src/ATen/InferSize.h `infer_size_impl`), the rule behind `Tensor.view/reshape`:
the same loop over the shape, then: accepted when `numel == newsize` or a placeholder exists, `newsize > 0` and
`numel % newsize == 0`; with a placeholder `TORCH_CHECK(newsize != 0, "cannot reshape tensor of 0 elements into
shape … because the unspecified dimension size -1 can be any value and is ambiguous")`; every failure is a
RuntimeError.  This is *specification* (transcribed from torch, validated on every run against
`torch.empty(numel).view(shape)` by the stream `infer_size_vs_torch`), not tensordict code. -/
def torchInfer (shape : List Int) (numel : Int) : Except String (List Int) :=
  match scan shape 0 (none, 1) with
  | .error _ => .error "RuntimeError"
  | .ok st =>
    if numel = st.2 ∨ (st.1.isSome = true ∧ st.2 > 0 ∧ numel % st.2 = 0) then
      match st.1 with
      | none => .ok shape
      | some d => if st.2 = 0 then .error "RuntimeError" else .ok (shape.set (Int.toNat d) (numel / st.2))
    else .error "RuntimeError"

/-- a result with the exception text forgotten: `some out` = accepted with shape `out`, `none` = raises -/
def accepted (r : Except String (List Int)) : Option (List Int) :=
  match r with | .ok l => some l | .error _ => none

end TdVerif.InferSize
