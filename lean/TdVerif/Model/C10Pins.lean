/-
  Hashes of the sources the models were transcribed from and last validated against (harness/c12_pins.py --repin).
  Refreshed by the builder after re-reading the model against a changed function; compared with Gen/C12Src.lean by
  `Props.C10.transcribed_sources_unchanged`.
-/
namespace TdVerif.C10

/-- pinned AST hashes -/
def c10Pinned : List (String × String) := [
  ("tensordict/_td.py:TensorDict._memmap_", "f9faead563a27dca"),
  ("tensordict/_td.py:TensorDict._load_memmap", "02c33ca93950141a"),
  ("tensordict/_td.py:_populate_memmap", "8cf811881ea78212"),
  ("tensordict/_td.py:_save_metadata", "011a7f55d21a8d8f"),
  ("tensordict/_td.py:_update_metadata", "fda5fe30e5bc367a"),
  ("tensordict/_lazy.py:LazyStackedTensorDict._load_memmap", "b077bd81181c4ba1"),
  ("tensordict/memmap.py:MemoryMappedTensor.from_tensor", "190f70b8427d6b4e"),
  ("tensordict/memmap.py:MemoryMappedTensor.from_filename", "8dfaa7568b943a89"),
  ("tensordict/base.py:TensorDictBase.load_memmap_", "fdb521631e21833a"),
  ("tensordict/base.py:TensorDictBase.memmap_refresh_", "badbf115a6cd6d8c"),
  ("tensordict/memmap.py:MemoryMappedTensor.filename", "a9a5fbf22cd5bedd"),
  ("tensordict/tensorclass.py:_memmap_", "23e42771633c6b5c"),
  ("tensordict/tensorclass.py:_from_tensordict", "e426c8f109f0adb9"),
  ("tensordict/tensorclass.py:NonTensorData._memmap_", "a7433415db3d7ac4")
]

end TdVerif.C10
