/-
  Nested keys and their canonicalisation.

  `unravelTupCpp`  mirrors tensordict/csrc/utils.cpp:11-36  (`_unravel_key_to_tuple`)
  `unravelKeyCpp`  mirrors tensordict/csrc/utils.cpp:38-65  (`unravel_key`)
  `unravelTupPy`   mirrors tensordict/utils.py `_unravel_key_to_tuple` (is_compiling branch)
  `unravelKeyPy`   mirrors tensordict/utils.py `unravel_key`           (is_compiling branch)
-/
namespace TdVerif

/-- A Python object offered as a key: a `str`, a `tuple` of such objects, or anything else. -/
inductive Key where
  | str (s : String)
  | tup (l : List Key)
  | bad
  deriving Repr, Inhabited

namespace Key

mutual
/-- C++ `_unravel_key_to_tuple`. The empty list is the empty tuple `()` (= "invalid"). -/
def unravelTupCpp : Key → List String
  | .str s => [s]
  | .bad => []
  | .tup l => unravelTupCppL l
/-- the `for subkey in key` loop; `none`-like early `return ()` is encoded by `Option`. -/
def unravelTupCppLO : List Key → Option (List String)
  | [] => some []
  | .str s :: rest => (unravelTupCppLO rest).map (s :: ·)
  | k :: rest =>
    match unravelTupCpp k with
    | [] => none
    | ks => (unravelTupCppLO rest).map (ks ++ ·)
def unravelTupCppL (l : List Key) : List String := (unravelTupCppLO l).getD []
end

/-- result of `unravel_key`: a bare string, a tuple of strings, or an exception -/
inductive KeyOut where
  | s (s : String)
  | t (l : List String)
  | err
  deriving Repr, DecidableEq

/-- the loop of C++ `unravel_key`: invalid members contribute nothing (no early return) -/
def unravelKeyLoopCpp : List Key → List String
  | [] => []
  | .str s :: rest => s :: unravelKeyLoopCpp rest
  | k :: rest => unravelTupCpp k ++ unravelKeyLoopCpp rest

def packKey (l : List String) : KeyOut :=
  match l with
  | [x] => .s x
  | l => .t l

def unravelKeyCpp : Key → KeyOut
  | .str s => .s s
  | .bad => .err
  | .tup l => packKey (unravelKeyLoopCpp l)

mutual
/-- Python fallback of `_unravel_key_to_tuple` (mirrors the is_compiling branch). -/
def unravelTupPy : Key → List String
  | .str s => [s]
  | .bad => []
  | .tup l => unravelTupPyL l
def unravelTupPyLO : List Key → Option (List String)
  | [] => some []
  | .str s :: rest => (unravelTupPyLO rest).map (s :: ·)
  | k :: rest =>
    match unravelTupPy k with
    | [] => none
    | ks => (unravelTupPyLO rest).map (ks ++ ·)
def unravelTupPyL (l : List Key) : List String := (unravelTupPyLO l).getD []
end

def unravelKeyLoopPy : List Key → List String
  | [] => []
  | .str s :: rest => s :: unravelKeyLoopPy rest
  | k :: rest => unravelTupPy k ++ unravelKeyLoopPy rest

def unravelKeyPy : Key → KeyOut
  | .str s => .s s
  | .bad => .err
  | .tup l => packKey (unravelKeyLoopPy l)

/-- `unravel_key_list` on either path is a map. -/
def unravelKeyListCpp (l : List Key) : List KeyOut := l.map unravelKeyCpp
def unravelKeyListPy (l : List Key) : List KeyOut := l.map unravelKeyPy

end Key
end TdVerif
