/-
  Nested keys and their canonicalisation.

  `unravelTupCpp`  mirrors tensordict/csrc/utils.cpp:11-36  (`_unravel_key_to_tuple`)
  `unravelKeyCpp`  mirrors tensordict/csrc/utils.cpp:38-65  (`unravel_key`)
  `unravelTupPy`   mirrors tensordict/utils.py `_unravel_key_to_tuple` (is_compiling branch)
  `unravelKeyPy`   mirrors tensordict/utils.py `unravel_key`           (is_compiling branch)
-/
namespace TdVerif

/-- A Python object offered as a key: a `str`, a `tuple` of such objects, or anything else. -/
inductive Key where
  | str (s : String)
  | tup (l : List Key)
  | bad
  deriving Repr, Inhabited

namespace Key

mutual
/-- C++ `_unravel_key_to_tuple`. The empty list is the empty tuple `()` (= "invalid"). -/
def unravelTupCpp : Key → List String
  | .str s => [s]
  | .bad => []
  | .tup l => unravelTupCppL l
/-- the `for subkey in key` loop; `none`-like early `return ()` is encoded by `Option`. -/
def unravelTupCppLO : List Key → Option (List String)
  | [] => some []
  | .str s :: rest => (unravelTupCppLO rest).map (s :: ·)
  | k :: rest =>
    match unravelTupCpp k with
    | [] => none
    | ks => (unravelTupCppLO rest).map (ks ++ ·)
def unravelTupCppL (l : List Key) : List String := (unravelTupCppLO l).getD []
end

/-- result of `unravel_key`: a bare string, a tuple of strings, or an exception -/
inductive KeyOut where
  | s (s : String)
  | t (l : List String)
  | err
  deriving Repr, DecidableEq

/-- the loop of C++ `unravel_key`: invalid members contribute nothing (no early return) -/
def unravelKeyLoopCpp : List Key → List String
  | [] => []
  | .str s :: rest => s :: unravelKeyLoopCpp rest
  | k :: rest => unravelTupCpp k ++ unravelKeyLoopCpp rest

def packKey (l : List String) : KeyOut :=
  match l with
  | [x] => .s x
  | l => .t l

def unravelKeyCpp : Key → KeyOut
  | .str s => .s s
  | .bad => .err
  | .tup l => packKey (unravelKeyLoopCpp l)

mutual
/-- Python fallback of `_unravel_key_to_tuple` (mirrors the is_compiling branch). -/
def unravelTupPy : Key → List String
  | .str s => [s]
  | .bad => []
  | .tup l => unravelTupPyL l
def unravelTupPyLO : List Key → Option (List String)
  | [] => some []
  | .str s :: rest => (unravelTupPyLO rest).map (s :: ·)
  | k :: rest =>
    match unravelTupPy k with
    | [] => none
    | ks => (unravelTupPyLO rest).map (ks ++ ·)
def unravelTupPyL (l : List Key) : List String := (unravelTupPyLO l).getD []
end

def unravelKeyLoopPy : List Key → List String
  | [] => []
  | .str s :: rest => s :: unravelKeyLoopPy rest
  | k :: rest => unravelTupPy k ++ unravelKeyLoopPy rest

def unravelKeyPy : Key → KeyOut
  | .str s => .s s
  | .bad => .err
  | .tup l => packKey (unravelKeyLoopPy l)

/-- `unravel_key_list` on either path is a map. -/
def unravelKeyListCpp (l : List Key) : List KeyOut := l.map unravelKeyCpp
def unravelKeyListPy (l : List Key) : List KeyOut := l.map unravelKeyPy

/-! ### call-level models of `unravel_key_list` (two C++ overloads) and `unravel_keys` (added for C18, round 2)

  `unravelKeyListCppList`  mirrors tensordict/csrc/utils.cpp `unravel_key_list(const py::list&)`
  `unravelKeyListCppTuple` mirrors tensordict/csrc/utils.cpp `unravel_key_list(const py::tuple&)` (= the list overload on `py::list(keys)`)
  `unravelKeyListCppCall`  mirrors the pybind11 overload dispatch of tensordict/csrc/pybind.cpp (list, then tuple, else TypeError)
  `unravelKeyListPyCall`   mirrors tensordict/utils.py `unravel_key_list` (is_compiling branch)
  `unravelKeysCppCall`     mirrors tensordict/csrc/pybind.cpp `m.def("unravel_keys", &unravel_key, py::arg("key"))`
  `unravelKeysPyCall`      mirrors tensordict/utils.py `unravel_keys(*keys)` (is_compiling branch)
  A call result is `Option`: `none` = the call raises (the exception classes differ between the paths:
  RuntimeError from C++, ValueError from Python for an invalid member; TypeError on both for a bad container / arity). -/

/-- what a caller hands to `unravel_key_list`: a Python list, a tuple, or any other object -/
inductive KeysArg where
  | list (l : List Key)
  | tuple (l : List Key)
  | other
  deriving Repr, Inhabited

/-- the C++ loop: the first member on which `unravel_key` throws aborts the call -/
def unravelKeyListCppList : List Key → Option (List KeyOut)
  | [] => some []
  | k :: rest =>
    match unravelKeyCpp k with
    | .err => none
    | r => (unravelKeyListCppList rest).map (r :: ·)

def unravelKeyListCppTuple (l : List Key) : Option (List KeyOut) := unravelKeyListCppList l

def unravelKeyListCppCall : KeysArg → Option (List KeyOut)
  | .list l => unravelKeyListCppList l
  | .tuple l => unravelKeyListCppTuple l
  | .other => none

/-- the Python comprehension `[unravel_key(key) for key in keys]` -/
def unravelKeyListPyLoop : List Key → Option (List KeyOut)
  | [] => some []
  | k :: rest =>
    match unravelKeyPy k with
    | .err => none
    | r => (unravelKeyListPyLoop rest).map (r :: ·)

def unravelKeyListPyCall : KeysArg → Option (List KeyOut)
  | .list l => unravelKeyListPyLoop l
  | .tuple l => unravelKeyListPyLoop l
  | .other => none

def KeyOut.toOption : KeyOut → Option KeyOut
  | .err => none
  | r => some r

/-- `unravel_keys(*args)`: the native binding takes exactly one positional argument -/
def unravelKeysCppCall : List Key → Option KeyOut
  | [k] => (unravelKeyCpp k).toOption
  | _ => none

def unravelKeysPyCall (args : List Key) : Option KeyOut :=
  if args.length ≠ 1 then none else
  match args with
  | k :: _ => (unravelKeyPy k).toOption
  | [] => none

/-! ### the same calls with their exception class (round 2b: both paths now raise the same classes)

  an invalid key (`KeyOut.err`) is `RuntimeError` on both paths: `std::runtime_error` in tensordict/csrc/utils.cpp
  `unravel_key`, `raise RuntimeError(...)` in tensordict/utils.py `unravel_key`; a container that is neither a list
  nor a tuple, or a wrong number of positional arguments, is `TypeError` on both paths (pybind11 dispatch /
  the explicit `isinstance` / `len(keys) != 1` tests of the Python path). -/

inductive KeyErr where
  | runtimeError
  | typeError
  deriving Repr, DecidableEq

def unravelKeyCppE (k : Key) : Except KeyErr KeyOut :=
  match unravelKeyCpp k with | .err => .error .runtimeError | r => .ok r
def unravelKeyPyE (k : Key) : Except KeyErr KeyOut :=
  match unravelKeyPy k with | .err => .error .runtimeError | r => .ok r

def optToExcept (o : Option (List KeyOut)) : Except KeyErr (List KeyOut) :=
  match o with | some l => .ok l | none => .error .runtimeError

def unravelKeyListCppCallE : KeysArg → Except KeyErr (List KeyOut)
  | .list l => optToExcept (unravelKeyListCppList l)
  | .tuple l => optToExcept (unravelKeyListCppTuple l)
  | .other => .error .typeError

def unravelKeyListPyCallE : KeysArg → Except KeyErr (List KeyOut)
  | .list l => optToExcept (unravelKeyListPyLoop l)
  | .tuple l => optToExcept (unravelKeyListPyLoop l)
  | .other => .error .typeError

def unravelKeysCppCallE : List Key → Except KeyErr KeyOut
  | [k] => unravelKeyCppE k
  | _ => .error .typeError

def unravelKeysPyCallE (args : List Key) : Except KeyErr KeyOut :=
  if args.length ≠ 1 then .error .typeError else
  match args with
  | k :: _ => unravelKeyPyE k
  | [] => .error .typeError

/-! ### specification vocabulary (not a transcription of code) -/

mutual
/-- the strings of a key, left to right -/
def leaves : Key → List String
  | .str s => [s]
  | .bad => []
  | .tup l => leavesL l
def leavesL : List Key → List String
  | [] => []
  | k :: rest => leaves k ++ leavesL rest
end

mutual
/-- a well-formed nested key: strings, and tuples whose nested tuples each contain at least one string -/
def validB : Key → Bool
  | .str _ => true
  | .bad => false
  | .tup l => validLB l
/-- members of a tuple: a str, or a valid tuple that is not empty of strings -/
def validLB : List Key → Bool
  | [] => true
  | .str _ :: rest => validLB rest
  | k :: rest => validB k && !(leaves k).isEmpty && validLB rest
end
def Valid (k : Key) : Prop := validB k = true
def ValidL (l : List Key) : Prop := validLB l = true

/-- a result read back as a key (what a second call of `unravel_key` receives) -/
def KeyOut.toKey : KeyOut → Key
  | .s name => .str name
  | .t names => .tup (names.map .str)
  | .err => .bad

end Key
end TdVerif
