/-
  C04 — the reference semantics: the same operations replayed on a plain nested dict, written the way one
  writes them against `dict` (`lookup/insert/remove` of Model/C04Tree.lean are `d[p]`, `d[p] = v` with
  auto-created intermediate dicts, `del d[p]`). Nothing here looks at the library's code.
-/
import TdVerif.Model.C04Tree
import TdVerif.Model.Key

namespace TdVerif.C04
open TdVerif

/-- outcomes are compared up to the class of the exception -/
def Out.erase : Out → Out
  | .err _ => .err .key
  | o => o

/-- `v = d[p]; del d[p]; return v` — with a default, a missing key returns it; a key running through a
leaf is an error either way (`d['a']['b']` with a non-dict under `'a'`) -/
def specPop (p : Path) (hasDefault : Bool) (t : Entry) : Entry × Out :=
  if p = [] then (t, .err .key) else
  match lookup p t with
  | some v =>
    match remove p t with
    | some t' => (t', .val (some v))
    | none => (t, .err .key)
  | none =>
    if throughLeaf p t then (t, .err .value)
    else if hasDefault then (t, .val none) else (t, .err .key)

/-- `v = d.pop(old); d[new] = v`, nothing happens when the call is rejected -/
def specRename (old new : Path) (safe : Bool) (t : Entry) : Entry × Out :=
  if old = [] ∨ new = [] then (t, .err .key) else
  match lookup old t with
  | none => (t, .err .key)
  | some v =>
    if old = new then (t, .ok)
    else if safe && has new t then (t, .err .key)
    else
      match remove old t with
      | none => (t, .err .key)
      | some t1 =>
        match insert new v t1 with
        | none => (t, .err .key)
        | some t2 => (t2, .ok)

/-- `d.setdefault(p, dflt)` -/
def specSetDefault (p : Path) (dflt : Entry) (t : Entry) : Entry × Out :=
  if p = [] then (t, .err .key) else
  match lookup p t with
  | some v => (t, .val (some v))
  | none =>
    match insert p dflt t with
    | none => (t, .err .key)
    | some t' => (t', .val (some dflt))

def specSet (p : Path) (v : Entry) (t : Entry) : Entry × Out :=
  match insert p v t with
  | some t' => (t', .ok)
  | none => (t, .err .key)

def specDel (p : Path) (t : Entry) : Entry × Out :=
  match remove p t with
  | some t' => (t', .ok)
  | none => (t, .err .key)

/-- `d.clear()` -/
def specClear (_ : Entry) : Entry × Out := (.node [], .ok)

/-- delete when present (`exclude` ignores absent keys) -/
def removeIfPresent (p : Path) (t : Entry) : Entry := (remove p t).getD t

/-- `exclude(*keys)`: every listed entry is gone, nothing else changes -/
def specExclude (keys : List Path) (t : Entry) : Entry := keys.foldl (fun t p => removeIfPresent p t) t

/-! ### key spellings -/

mutual
/-- every nested-tuple spelling of a path: a string spells `[s]`; a tuple spells the concatenation of
what its members spell, each member spelling a non-empty path -/
inductive Spells : Key → List String → Prop
  | str (s : String) : Spells (.str s) [s]
  | tup (l : List Key) (p : List String) : SpellsL l p → Spells (.tup l) p
inductive SpellsL : List Key → List String → Prop
  | nil : SpellsL [] []
  | cons (k : Key) (l : List Key) (p q : List String) : Spells k p → p ≠ [] → SpellsL l q → SpellsL (k :: l) (p ++ q)
end

/-! ### views -/

/-- the entries of a tree, keyed by their non-empty path: the content of the nested dict -/
def bound (p : Path) (e : Entry) (kids : Kids) : Prop := p ≠ [] ∧ lookup p (.node kids) = some e

/-! ### update -/

/-- `d[p] = v` as a step of a bulk operation -/
def writeAt (p : Path) (v : Entry) (t : Entry) : Entry × Except Err Unit :=
  match insert p v t with
  | some t' => (t', .ok ())
  | none => (t, .error .key)

/-- `merge(d, p, {k: v, …})`: each value is merged below `p`: a dict value that meets a dict is merged key by key,
anything else is written (replacing what was there); the first value that cannot be written stops the merge
(what has been written stays written) -/
def mergeKids (p : Path) : Kids → Entry → Entry × Except Err Unit
  | [], t => (t, .ok ())
  | (k, .leaf nt x) :: r, t =>
    match writeAt (p ++ [k]) (.leaf nt x) t with
    | (t', .error e) => (t', .error e)
    | (t', .ok ()) => mergeKids p r t'
  | (k, .node pv) :: r, t =>
    match (match lookup (p ++ [k]) t with
      | some (.node _) => mergeKids (p ++ [k]) pv t
      | _ => writeAt (p ++ [k]) (.node pv) t) with
    | (t', .error e) => (t', .error e)
    | (t', .ok ()) => mergeKids p r t'

/-- one item `(p, v)` of an `update` payload -/
def mergeTop (p : Path) (v : Entry) (t : Entry) : Entry × Except Err Unit :=
  match v with
  | .leaf nt x => writeAt p (.leaf nt x) t
  | .node pv =>
    match lookup p t with
    | some (.node _) => mergeKids p pv t
    | _ => writeAt p (.node pv) t

/-- `update(payload)` on a plain nested dict: the items one after the other (an item that cannot be written stops
the update; earlier items stay) -/
def specUpdate : List (Path × Entry) → Entry → Entry × Except Err Unit
  | [], t => (t, .ok ())
  | (p, v) :: r, t =>
    match (if p = [] then (t, .error .index) else mergeTop p v t) with
    | (t', .error e) => (t', .error e)
    | (t', .ok ()) => specUpdate r t'

def okU : Except Err Unit → Bool
  | .ok _ => true
  | .error _ => false

/-! ### select -/

/-- the leaves of `select(*keys)` (out of place): exactly the leaves of the receiver that sit at or below one of the keys -/
def SelectsLeaves (keys : List Path) (kids rk : Kids) : Prop :=
  ∀ (p : Path) (nt : Bool) (v : Nat), p ≠ [] →
    (lookup p (.node rk) = some (.leaf nt v) ↔
      lookup p (.node kids) = some (.leaf nt v) ∧ ∃ q ∈ keys, isPrefix q p = true)

/-! ### exclude -/

/-- the tails of the keys that start with `k` and go deeper -/
def tailsOf (k : String) (keys : List Path) : List Path :=
  keys.filterMap fun p => match p with
    | k' :: r => if k' = k ∧ r ≠ [] then some r else none
    | [] => none

/-- `exclude(*keys)` described on the tree, independent of the order of the keys: an entry whose one-component
path is listed disappears; a nested dict is pruned by the tails of the keys that start with its name -/
def sx (keys : List Path) : Kids → Kids
  | [] => []
  | (k, e) :: r =>
    if keys.contains [k] then sx keys r
    else (k, match e with
      | .node sub => .node (sx (tailsOf k keys) sub)
      | .leaf nt v => .leaf nt v) :: sx keys r

/-! ### flatten_keys -/

/-- the flat names `flatten_keys(sep)` would produce, in order -/
def flatNames (sep : String) (t : Entry) : List String := (leavesOf t).map (fun kv => joinWith sep kv.1)

/-- the flat dict `flatten_keys(sep)` builds -/
def flatKids (sep : String) (t : Entry) : Kids := (leavesOf t).map (fun kv => (joinWith sep kv.1, kv.2))

/-- what is left after every listed entry has been removed, in order -/
def removeAll (L : List Path) (t : Entry) : Entry := L.foldl (fun t p => (remove p t).getD t) t

/-! ### unflatten_keys -/

/-- `unflatten_keys(sep)` on a plain dict: every root key containing the separator is moved to its split path
(`v = d.pop(k); d[k.split(sep)] = v`), refusing to overwrite; earlier moves persist when a later one is refused -/
def specUnflattenLoop (sep : String) : List String → Entry → Entry × Out
  | [], t => (t, .ok)
  | k :: ks, t =>
    if sepIn sep k then
      match specRename [k] (splitKeyS sep k) true t with
      | (t', .err e) => (t', .err e)
      | (t', _) => specUnflattenLoop sep ks t'
    else specUnflattenLoop sep ks t

def specUnflatten (sep : String) (inplace : Bool) (t : Entry) : Entry × Out :=
  if sep = "" ∧ rootKeys t ≠ [] then (t, .err .value) else
  match specUnflattenLoop sep (rootKeys t) t with
  | (t', .err e) => if inplace then (t', .err e) else (t, .err e)
  | (t', _) => if inplace then (t', .ok) else (t, .res [t'])

/-! ### select -/

/-- the dict already selected under `k` (nothing yet: the empty dict) -/
def curOf (k : String) (ok : Kids) : Kids :=
  match dget k ok with
  | some (.node c) => c
  | _ => []

/-- `select` on plain dicts, one key: the part of `d` along `p` is merged into `out` — `out[p] = d[p]` with the
intermediate dicts created on the way. A key whose ancestor `pre ++ [k]` is itself listed (`K`) does not narrow that
ancestor: it only makes sure the ancestor is present (and, when strict, that `d[p]` exists). A missing key is an error
when strict and is skipped otherwise (the dicts on the way to it stay, possibly empty); a key running through a
non-dict is an error. `pre`: the path of `d` / `out` below the root. -/
def selIns (K : List Path) (strict : Bool) : Path → Path → Kids → Kids → Except Err Kids
  | _, [], _, _ => .error .key
  | _, [k], dk, ok =>
    match dget k dk with
    | none => if strict then .error .key else .ok ok
    | some v => .ok (dset k v ok)
  | pre, k :: k2 :: rest, dk, ok =>
    match dget k dk with
    | none => if strict then .error .key else .ok ok
    | some v =>
      if K.contains (pre ++ [k]) then
        if strict && (lookup (k2 :: rest) v).isNone then .error .key
        else .ok (if (dget k ok).isSome then ok else dset k v ok)
      else
        match v with
        | .leaf .. => .error .key
        | .node dsub =>
          match selIns K strict (pre ++ [k]) (k2 :: rest) dsub (curOf k ok) with
          | .error e => .error e
          | .ok c => .ok (dset k (.node c) ok)

/-- `out = {}; for p in keys: merge d along p into out` -/
def selFold (K : List Path) (strict : Bool) (pre : Path) (dk : Kids) : List Path → Kids → Except Err Kids
  | [], ok => .ok ok
  | p :: ps, ok =>
    match selIns K strict pre p dk ok with
    | .error e => .error e
    | .ok ok' => selFold K strict pre dk ps ok'

/-- `select(*keys, strict, inplace)` on plain dicts; nothing happens when a key is refused -/
def specSelect (keys : List Path) (strict inplace : Bool) (t : Entry) : Entry × Out :=
  match t with
  | .leaf .. => (t, .err .key)
  | .node kids =>
    match selFold keys strict [] kids keys [] with
    | .error e => (t, .err e)
    | .ok r => if inplace then (.node r, .ok) else (t, .res [.node r])

/-! ### split_keys -/

/-- one key set on plain dicts: `v = last.pop(p[, None]); out[p] = v` key by key (a missing key is skipped when not
strict); stops at the first key that cannot be popped / written -/
def specSplitSet (strict : Bool) : List Path → Entry → Entry → Entry × Entry × Except Err Unit
  | [], last, out => (last, out, .ok ())
  | p :: r, last, out =>
    match specPop p (!strict) last with
    | (last', .val (some v)) =>
      match insert p v out with
      | none => (last', out, .error .key)
      | some out' => specSplitSet strict r last' out'
    | (last', .val none) => specSplitSet strict r last' out
    | (last', .err e) => (last', out, .error e)
    | (last', _) => (last', out, .error .runtime)

def specSplitSets (strict : Bool) : List (List Path) → Entry → List Entry → Entry × List Entry × Except Err Unit
  | [], last, outs => (last, outs.reverse, .ok ())
  | ks :: r, last, outs =>
    match specSplitSet strict ks last (.node []) with
    | (last', out, .ok ()) => specSplitSets strict r last' (out :: outs)
    | (last', _, .error e) => (last', outs.reverse, .error e)

/-- `split_keys(*key_sets)` on plain dicts: one fresh dict per key set filled with what was popped from the remainder,
then the remainder without its empty dicts; nothing happens when a key cannot be moved -/
def specSplit (sets : List (List Path)) (inplace strict : Bool) (t : Entry) : Entry × Out :=
  match specSplitSets strict sets t [] with
  | (_, _, .error e) => (t, .err e)
  | (last, outs, .ok ()) =>
    let last' := filterEmpty last
    (if inplace then last' else t, .res (outs ++ [last']))

/-! ### the reference step -/

/-- the operations whose transcription is proved to refine the nested-dict replay (see Props/C04.lean): all of them -/
def Op.core : Op → Bool
  | _ => true

/-- replay of one operation on the plain nested dict -/
def dstep (t : Entry) : Op → Entry × Out
  | .set p v => specSet p v t
  | .del p => specDel p t
  | .pop p d => specPop p d t
  | .rename o n s => specRename o n s t
  | .setdefault p _ v => specSetDefault p v t
  | .clear => specClear t
  | .empty => (t, .res [.node []])
  | .unflatten sep inplace => specUnflatten sep inplace t
  | .update items =>
    match specUpdate items t with
    | (t', .error e) => (t', .err e)
    | (t', .ok ()) => (t', .ok)
  | .exclude keys inplace =>
    if inplace then (specExclude keys t, .ok) else (t, .res [specExclude keys t])
  | .flatten sep inplace =>
    if (flatNames sep t).Nodup then (if inplace then (.node (flatKids sep t), .ok) else (t, .res [.node (flatKids sep t)]))
    else (t, .err .key)
  | .split sets inplace strict => specSplit sets inplace strict t
  | .select keys strict inplace => specSelect keys strict inplace t

/-- the replay for a member of a lazy stack: `unflatten_keys` visits the root keys in sorted order -/
def specUnflattenL (sep : String) (inplace : Bool) (t : Entry) : Entry × Out :=
  if sep = "" ∧ rootKeys t ≠ [] then (t, .err .value) else
  match specUnflattenLoop sep (sortBy id (rootKeys t)) t with
  | (t', .err e) => if inplace then (t', .err e) else (t, .err e)
  | (t', _) => if inplace then (t', .ok) else (t, .res [t'])

def dstepMember (t : Entry) : Op → Entry × Out
  | .unflatten sep inplace => specUnflattenL sep inplace t
  | op => dstep t op

def drun (t : Entry) : List Op → Entry
  | [] => t
  | op :: ops => drun (dstep t op).1 ops

/-- side conditions under which the refinement is stated -/
def InScope (t : Entry) : Op → Prop
  | .set _ v => WF v
  | .del _ => True
  | .pop p d => throughNt p t = false ∨ d = false      -- a key through a NonTensorData is outside the model
  | .rename .. => True
  | .setdefault p isTuple v => WF v ∧ (isTuple = false → p.length = 1)   -- a `str` key has one component
  | .clear => True
  | .empty => True
  | .unflatten .. => True
  | .update items => ∀ kv ∈ items, WF kv.2
  | .exclude keys _ => ∀ p ∈ keys, p ≠ []
  | .flatten .. => True
  -- a key through a NonTensorData is outside the model (as for `pop` with a default)
  | .split sets _ strict => strict = true ∨ ∀ ks ∈ sets, ∀ p ∈ ks, throughNt p t = false
  | .select .. => True

def ScopeAll (t : Entry) : List Op → Prop
  | [] => True
  | op :: ops => InScope t op ∧ ScopeAll (dstep t op).1 ops

end TdVerif.C04
