/-
  `TensorDictBase.consolidate` (tensordict/base.py), the per-leaf step `v -> (clone?) -> v.view(-1).view(torch.uint8)`:
  the contiguity test that decides whether a leaf is cloned first has an `is_compiling()` branch.

  `cloneEager`    mirrors tensordict/base.py:consolidate `(stride and stride[-1] != 1) or v.storage_offset() or not v.is_contiguous()`
  `cloneCompile`  mirrors the `is_compiling()` branch `not v.is_contiguous()`
  `isContig`, `viewU8Ok` are *specification* of torch (`Tensor.is_contiguous`, success of `t.view(-1).view(torch.uint8)` on a
  contiguous `t`), validated on every run against torch on `as_strided` tensors.
-/
namespace TdVerif.Consolidate

structure TMeta where
  sizes : List Nat
  strides : List Nat
  offset : Nat
  deriving Repr, DecidableEq

def numel (m : TMeta) : Nat := m.sizes.foldl (· * ·) 1

/-- torch's rule, from the last dim: dims of size 1 are skipped, the others must have the expected stride -/
def isContigAux : List (Nat × Nat) → Nat → Bool
  | [], _ => true
  | (size, stride) :: rest, exp => if size = 1 then isContigAux rest exp else (stride == exp) && isContigAux rest (exp * size)

def isContig (m : TMeta) : Bool := numel m == 0 || isContigAux (m.sizes.zip m.strides).reverse 1

def lastStrideIsOne (m : TMeta) : Bool := m.strides.getLast? == some 1

/-- `t.view(-1).view(torch.uint8)` on a contiguous `t`: the flat view has stride 1 unless `t` has exactly one element
and at least one dim, in which case it keeps the last stride -/
def viewU8Ok (m : TMeta) : Bool := m.sizes.isEmpty || numel m != 1 || lastStrideIsOne m

def cloneEager (m : TMeta) : Bool := (!m.strides.isEmpty && !lastStrideIsOne m) || m.offset != 0 || !isContig m
def cloneCompile (m : TMeta) : Bool := !isContig m

/-- does the leaf go through? a cloned leaf is fresh and canonical, hence always viewable -/
def leafOk (cloned : Bool) (m : TMeta) : Bool := cloned || viewU8Ok m

def okEager (m : TMeta) : Bool := leafOk (cloneEager m) m
def okCompile (m : TMeta) : Bool := leafOk (cloneCompile m) m

end TdVerif.Consolidate
