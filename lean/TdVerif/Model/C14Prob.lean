/-
  C14 — probabilistic modules: the decision logic of
  tensordict/nn/probabilistic.py:ProbabilisticTensorDictModule._dist_sample
  (which statistic of the distribution an InteractionType selects), over an abstract distribution
  described by its capabilities. Sampling itself is torch.
-/
namespace TdVerif.C14.Prob

inductive IType where
  | mode | median | mean | random | deterministic
  deriving DecidableEq, Repr

/-- `dist.mean`: attribute missing / property raising NotImplementedError / available -/
inductive MeanCap where
  | absent | notImpl | ok
  deriving DecidableEq, Repr

/-- `dist.support`: a real constraint / another constraint / raises NotImplementedError -/
inductive SupportCap where
  | real | other | notImpl
  deriving DecidableEq, Repr

structure Caps where
  detSample : Bool          -- hasattr(dist, "deterministic_sample")
  reg : Option IType        -- DETERMINISTIC_REGISTER.get(type(dist))   (base_dist type for Independent)
  support : SupportCap
  mode : Bool               -- `dist.mode` does not raise AttributeError
  median : Bool             -- `dist.median` does not raise AttributeError
  mean : MeanCap
  rsample : Bool            -- dist.has_rsample
  deriving DecidableEq, Repr

inductive Pick where
  | detSample | mode | median | mean
  | empMeanRsample | empMeanSample      -- dist.(r)sample((n_empirical_estimate,)).mean(0)
  | rsample | sample                    -- dist.(r)sample(num_samples)
  | notImpl                             -- NotImplementedError
  deriving DecidableEq, Repr

/-- the non-DETERMINISTIC branches -/
def pickPlain (it : IType) (c : Caps) : Pick :=
  match it with
  | .mode => if c.mode then .mode else .notImpl
  | .median => if c.median then .median else .notImpl
  | .mean =>
    -- `if hasattr(dist, "mean"): try: return dist.mean except NotImplementedError: pass`: a `mean` property that
    -- raises NotImplementedError raises it already inside `hasattr` (only AttributeError is swallowed there)
    match c.mean with
    | .ok => .mean
    | .notImpl => .notImpl
    | .absent => if c.rsample then .empMeanRsample else .empMeanSample
  | .random => if c.rsample then .rsample else .sample
  | .deterministic => .notImpl        -- "unknown interaction_type" (a type registered as DETERMINISTIC without deterministic_sample)

/-- mirrors `_dist_sample(dist, interaction_type)` -/
def distSample (it : IType) (c : Caps) : Pick :=
  match it with
  | .deterministic =>
    if c.detSample then .detSample
    else
      match c.reg with
      | some r => pickPlain r c
      | none =>
        match c.support with
        | .other => pickPlain .mode c
        | _ => pickPlain .mean c        -- real support, or no support at all: 'mean'
  | it => pickPlain it c

end TdVerif.C14.Prob
