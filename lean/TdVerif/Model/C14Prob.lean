/-
  C14 — probabilistic modules: the decision logic of
  tensordict/nn/probabilistic.py:ProbabilisticTensorDictModule._dist_sample
  (which statistic of the distribution an InteractionType selects), over an abstract distribution
  described by its capabilities. Sampling itself is torch.
-/
namespace TdVerif.C14.Prob

inductive IType where
  | mode | median | mean | random | deterministic
  deriving DecidableEq, Repr

/-- `dist.mean`: attribute missing / property raising NotImplementedError / available -/
inductive MeanCap where
  | absent | notImpl | ok
  deriving DecidableEq, Repr

/-- `dist.support`: a real constraint / another constraint / raises NotImplementedError -/
inductive SupportCap where
  | real | other | notImpl
  deriving DecidableEq, Repr

structure Caps where
  detSample : Bool          -- hasattr(dist, "deterministic_sample")
  reg : Option IType        -- DETERMINISTIC_REGISTER.get(type(dist))   (base_dist type for Independent)
  support : SupportCap
  mode : Bool               -- `dist.mode` does not raise AttributeError
  median : Bool             -- `dist.median` does not raise AttributeError
  mean : MeanCap
  rsample : Bool            -- dist.has_rsample
  deriving DecidableEq, Repr

inductive Pick where
  | detSample | mode | median | mean
  | empMeanRsample | empMeanSample      -- dist.(r)sample((n_empirical_estimate,)).mean(0)
  | rsample | sample                    -- dist.(r)sample(num_samples)
  | notImpl                             -- NotImplementedError
  deriving DecidableEq, Repr

/-- the non-DETERMINISTIC branches -/
def pickPlain (it : IType) (c : Caps) : Pick :=
  match it with
  | .mode => if c.mode then .mode else .notImpl
  | .median => if c.median then .median else .notImpl
  | .mean =>
    -- `try: return dist.mean except (AttributeError, NotImplementedError): pass` (repaired: the pinned
    -- `if hasattr(dist, "mean"):` raised the NotImplementedError of a `mean` property already inside `hasattr`)
    match c.mean with
    | .ok => .mean
    | _ => if c.rsample then .empMeanRsample else .empMeanSample
  | .random => if c.rsample then .rsample else .sample
  | .deterministic => .notImpl        -- "unknown interaction_type" (a type registered as DETERMINISTIC without deterministic_sample)

/-- mirrors `_dist_sample(dist, interaction_type)` -/
def distSample (it : IType) (c : Caps) : Pick :=
  match it with
  | .deterministic =>
    if c.detSample then .detSample
    else
      match c.reg with
      | some r => pickPlain r c
      | none =>
        match c.support with
        | .other => pickPlain .mode c
        | _ => pickPlain .mean c        -- real support, or no support at all: 'mean'
  | it => pickPlain it c


/-! ## shapes of composite log-probabilities

`sb` = batch shape of the *sample* tensordict (`num_samples ++ batch` of the parameters); a head's
`dist.log_prob(sample[name])` has shape `sb ++ extra` (`extra` = feature dims the head does not reduce itself). -/

abbrev Shape := List Nat

/-- shape of `dist.log_prob(sample.get(name))` for one head -/
def headLp (sb : Shape) (extra : Shape) : Shape := sb ++ extra

/-- `if lp.ndim > n: lp = lp.flatten(n, -1).sum(-1)` -/
def reduceTo (n : Nat) (sh : Shape) : Shape := if sh.length > n then sh.take n else sh

/-- `slp = 0.0; for …: slp = slp + lp` on shapes that agree (no broadcasting between heads is modelled: `none` otherwise) -/
def sumShapes : List Shape → Option Shape
  | [] => some []
  | [s] => some s
  | s :: rest => match sumShapes rest with
    | some r => if r = s then some s else none
    | none => none

/-- mirrors tensordict/nn/distributions/composite.py:CompositeDistribution.log_prob, aggregated path:
every head's log-prob is reduced to the first `sample.ndim` dims, then summed -/
def compositeLogProbShape (sb : Shape) (heads : List Shape) : Option Shape :=
  sumShapes (heads.map (fun ex => reduceTo sb.length (headLp sb ex)))

/-- the seeded variant that reduces to `len(self.batch_shape)` dims (`bs` = batch shape of the distribution) -/
def compositeLogProbShapeBatch (bs sb : Shape) (heads : List Shape) : Option Shape :=
  sumShapes (heads.map (fun ex => reduceTo bs.length (headLp sb ex)))

/-- mirrors tensordict/nn/probabilistic.py:ProbabilisticTensorDictModule.forward, composite branch with
`composite_lp_aggregate()`: `sum(log_prob.sum(dim="feature").values(True, True))` over the per-head log-probs of
the sample tensordict (batch shape `sb`) -/
def moduleLogProbShape (sb : Shape) (heads : List Shape) : Option Shape :=
  sumShapes (heads.map (fun ex => (headLp sb ex).take sb.length))

/-- per-head entries (aggregate off): the module writes `dist.log_prob(out_tensors)`'s entries as they are -/
def perHeadShapes (sb : Shape) (heads : List Shape) : List Shape := heads.map (headLp sb)

/-! ## which keys a composite probabilistic module writes, which it advertises

(`forward` with `return_log_prob=True`, default key names; recorded finding C14-composite-aggregate-per-head-entries) -/

/-- entries written by `ProbabilisticTensorDictModule.forward` on a CompositeDistribution: the samples, the per-head
`<sample>_log_prob` entries (copied before the aggregation when `composite_lp_aggregate()` is on) and, when it is on,
the aggregated entry -/
def writtenKeys (agg : Bool) (heads : List String) (lpKey : String) : List String :=
  heads ++ heads.map (· ++ "_log_prob") ++ (if agg then [lpKey] else [])

/-- `module.out_keys` -/
def advertisedKeys (agg : Bool) (heads : List String) (lpKey : String) : List String :=
  heads ++ (if agg then [lpKey] else heads.map (· ++ "_log_prob"))

end TdVerif.C14.Prob
