/-
  C15 — vocabulary shared by the generated tables (Gen/TcTables.lean) and the hand model
  (Model/C15Tensorclass.lean).  Names are interned: a method name is its index in
  `Gen.Tc.nameTable` (kernel evaluation on `Nat` literals is much faster than on strings).
-/
namespace TdVerif.C15

/-- how an attribute of a tensorclass ends up being served -/
inductive Kind where
  /-- `cls.X = <function of tensorclass.py>` (the string names the implementation) -/
  | explicit (impl : String)
  /-- `getattr(TensorDict, name)` installed as is: `self` is the tensorclass (`_METHOD_FROM_TD`) -/
  | fromTD
  /-- `_wrap_td_method(name)`: run on `_tensordict`, re-wrap tensordict results -/
  | wrap
  /-- `_wrap_td_method(name, no_wrap=True)`: run on `_tensordict`, return the raw result -/
  | nowrap
  /-- `_wrap_td_method(name, copy_non_tensor=True)` -/
  | copy
  /-- `_wrap_classmethod`: classmethod of TensorDict re-wrapped into the class -/
  | classmethod
  /-- defined by the user's class body (or added by `dataclass`) and left alone -/
  | user
  /-- not in `cls.__dict__`, found through a base class (incl. `object`) -/
  | inherited
  /-- not installed: served by the deprecated `__getattr__` → `_wrap_method` path (with a warning) -/
  | fallback
  /-- not installed and not reachable at all (operators: python looks dunders up on the type only) -/
  | missing
  deriving DecidableEq, Repr, Inhabited

/-- guard atoms found around the installation statements of `_tensorclass` -/
inductive Guard where
  /-- `not hasattr(cls, name)` -/
  | noAttr
  /-- `name not in expected_keys` -/
  | noField
  /-- `name not in cls.__dict__` -/
  | notOwn
  /-- `not _is_non_tensor` -/
  | notNonTensor
  deriving DecidableEq, Repr

/-- the five lists `_tensorclass` loops over -/
inductive TableId where
  | methodFromTd | fallbackWrap | fallbackNowrap | fallbackForce | fallbackCopy
  deriving DecidableEq, Repr

/-- one installation statement of `_tensorclass`, in source order -/
inductive Step where
  | assign (name : Nat) (guards : List Guard) (k : Kind)
  | loop (table : TableId) (guards : List Guard) (k : Kind)
  /-- `for attr in TensorDict.__dict__: if ismethod(func) and attr not in cls.__dict__: _wrap_classmethod`;
  `keepInherited`: the loop skips names the class inherits as a `classmethod` object -/
  | classmethodLoop (keepInherited : Bool)
  deriving Repr

/-- tensorclass.py:_tensorclass, no-wrap loop: when is a property (not a method) installed -/
inductive PropRule where
  | propertyOnly        -- `isinstance(getattr(TensorDictBase, name, None), property)`
  | propertyOrValue     -- … `or not callable(...)`: plain class attributes too
  deriving DecidableEq, Repr

/-- membership test on interned names (structural, reduces in the kernel) -/
def mem (i : Nat) : List Nat → Bool
  | [] => false
  | j :: r => Nat.beq i j || mem i r

theorem mem_iff {i : Nat} {l : List Nat} : mem i l = true ↔ i ∈ l := by
  induction l with
  | nil => simp [mem]
  | cons j r ih =>
    simp only [mem, Bool.or_eq_true, ih, List.mem_cons]
    constructor
    · rintro (h | h)
      · exact Or.inl (Nat.eq_of_beq_eq_true h)
      · exact Or.inr h
    · rintro (h | h)
      · subst h; exact Or.inl (Nat.beq_refl i)
      · exact Or.inr h

end TdVerif.C15
