/-
  `_check_keys` (tensordict/utils.py): the key-set agreement test used by torch.cat / torch.stack /
  maybe_dense_stack / pad_sequence, on both branches of its `is_compiling()` test.

  `checkKeysEager`    mirrors tensordict/utils.py:_check_keys, `is_comp = False`
                      (`keys_set = set(keys)`, `k = set(k)`, `return list(keys)`)
  `checkKeysCompile`  mirrors tensordict/utils.py:_check_keys, `is_comp = True`
                      (`keys_set = {k for k in keys}`, `k = {v for v in k}`, `return [key for key in keys]`)
  An operand is represented by the list of its keys, in iteration order (a keys view; the model allows repeats).
  A Python `set` is represented by a list without repeats in insertion order; `==` on sets is `setEq`.
-/
namespace TdVerif.CheckKeys

/-- `set(iterable)`: first occurrences, in order -/
def pySet : List String → List String
  | [] => []
  | x :: xs => x :: (pySet xs).filter (· ≠ x)

/-- `{v for v in iterable}`: insert one element after the other -/
def pySetComp (l : List String) : List String :=
  l.foldl (fun acc x => if x ∈ acc then acc else acc ++ [x]) []

/-- `a == b` on Python sets -/
def setEq (a b : List String) : Bool := a.all (· ∈ b) && b.all (· ∈ a)

/-- what the call returns -/
inductive Out where
  | keys (l : List String)   -- strict: `list(keys)` of the first operand, in order
  | set (l : List String)    -- not strict: the intersection, a set
  | keyError
  deriving Repr, DecidableEq

/-- the loop `for td in list_of_tensordicts[1:]` (eager branch); `none` = KeyError -/
def loopEager (strict : Bool) : List (List String) → List String → Option (List String)
  | [], ks => some ks
  | k :: rest, ks =>
    if !strict then loopEager strict rest (ks.filter (· ∈ k))   -- keys_set.intersection(k)
    else if !(setEq (pySet k) ks) then none
    else loopEager strict rest ks

def checkKeysEager (tds : List (List String)) (strict : Bool) : Out :=
  match tds with
  | [] => .set []
  | first :: rest =>
    match loopEager strict rest (pySet first) with
    | none => .keyError
    | some ks => if strict then .keys first else .set ks

/-- the same loop on the compile branch (set comprehensions) -/
def loopCompile (strict : Bool) : List (List String) → List String → Option (List String)
  | [], ks => some ks
  | k :: rest, ks =>
    if !strict then loopCompile strict rest (ks.filter (· ∈ k))
    else if !(setEq (pySetComp k) ks) then none
    else loopCompile strict rest ks

def checkKeysCompile (tds : List (List String)) (strict : Bool) : Out :=
  match tds with
  | [] => .set []
  | first :: rest =>
    match loopCompile strict rest (pySetComp first) with
    | none => .keyError
    | some ks => if strict then .keys first else .set ks

/-- results are compared as Python compares them: lists by `==`, sets as sets -/
def Out.same : Out → Out → Prop
  | .keys a, .keys b => a = b
  | .set a, .set b => ∀ x, x ∈ a ↔ x ∈ b
  | .keyError, .keyError => True
  | _, _ => False


/-! ### key union at the end of `TensorDictSequential.forward` / `ProbabilisticTensorDictSequential.forward`
(`_select_before_return`): which entries of the input are refreshed from the execution copy

  `seqKeysEager`    mirrors tensordict/nn/sequence.py:TensorDictSequential.forward
                    `keys = list(set(self.out_keys + list(tensordict.keys(True, True))))`
  `seqKeysCompile`  mirrors the `is_compiling()` branch
                    `[k for k in {k for k in self.out_keys}.union({k for k in tensordict.keys(True, True)})]`
  (the same two lines are in tensordict/nn/probabilistic.py) -/

/-- `a.union(b)` on Python sets -/
def pyUnion (a b : List String) : List String := a ++ b.filter (fun x => !a.contains x)

def seqKeysEager (outKeys tdKeys : List String) : List String := pySet (outKeys ++ tdKeys)
def seqKeysCompile (outKeys tdKeys : List String) : List String := pyUnion (pySetComp outKeys) (pySetComp tdKeys)

end TdVerif.CheckKeys
