/-
  `_from_tensordict` (tensordict/tensorclass.py): the key validation that precedes the construction of a tensorclass
  from a tensordict, on both branches of its `is_compiling()` test (set comprehensions / `update` vs `set()` / `union`).

  `fromTdEager`    mirrors tensordict/tensorclass.py:_from_tensordict, `is_compiling() = False`
  `fromTdCompile`  mirrors the `is_compiling()` branch
  inputs: the keys of the tensordict, the expected keys of the class, the non-tensor dict (key, value-is-None) or None.
  result: KeyError (a key is both a tensor entry and a non-None non-tensor entry), ValueError (a key that is no field
  of the class), or the final non-tensor dict (stale `None` placeholders removed, missing fields added as `None`).
-/
import TdVerif.Model.CheckKeys

namespace TdVerif.FromTd
open TdVerif.CheckKeys

inductive Out where
  | keyError
  | valueError
  | ok (nonTensor : List (String × Bool))     -- (key, value is None)
  deriving Repr, DecidableEq

def lookupNT (d : List (String × Bool)) (k : String) : Option Bool := (d.find? (·.1 = k)).map (·.2)

/-- `for key in nontensor_keys:` — `none` = KeyError -/
def loop (tk : List String) : List String → List (String × Bool) → Option (List (String × Bool))
  | [], d => some d
  | k :: rest, d =>
    if !tk.contains k then loop tk rest d
    else if lookupNT d k = some true then loop tk rest (d.filter (·.1 ≠ k))   -- `del non_tensordict[key]`
    else none

/-- the part common to both branches, after the sets have been built -/
def finishFT (tk ek ntk total : List String) (d : List (String × Bool)) : Out :=
  match loop tk ntk d with
  | none => .keyError
  | some d' =>
    if !(total.filter (fun k => !ek.contains k)).isEmpty then .valueError
    else .ok (d' ++ ((ek.filter (fun k => !total.contains k)).map (fun k => (k, true))))

def fromTdEager (tkeys exp : List String) (nt : Option (List (String × Bool))) : Out :=
  let tk := pySet tkeys
  let ek := pySet exp
  match nt with
  | some d => let ntk := pySet (d.map (·.1)); finishFT tk ek ntk (pyUnion tk ntk) d
  | none => finishFT tk ek [] tk []

def fromTdCompile (tkeys exp : List String) (nt : Option (List (String × Bool))) : Out :=
  let tk := pySetComp tkeys
  let ek := pySetComp exp
  match nt with
  | some d => let ntk := pySetComp (d.map (·.1)); finishFT tk ek ntk (pyUnion (pySet tk) ntk) d   -- set(tensor_keys); .update(...)
  | none => finishFT tk ek [] (pySet tk) []

/-- results compared as Python compares dicts: same bindings -/
def Out.same : Out → Out → Prop
  | .keyError, .keyError => True
  | .valueError, .valueError => True
  | .ok a, .ok b => ∀ kv, kv ∈ a ↔ kv ∈ b
  | _, _ => False

end TdVerif.FromTd
