/-
  C13 — modules, parameter tensordicts, `from_module`, `to_module`, the with-block protocol.

  What is transcribed (file:function):
    Dict.get?/pop/set      Python dict (insertion ordered): `d.get(k)`, `d.pop(k, None)`, `d[k] = v`
    setTensor              tensordict/_td.py:_set_tensor_dict          (inplace=False, no registration hooks)
    setTensorOld           the same function as pinned at 4564555 (Parameter test before was_buffer)
    swapEntries            tensordict/_td.py:TensorDict._to_module     (return_swap=True, use_state_dict=False,
                           module.__setattr__ native; memo keyed by module)
    quickSet               tensordict/_td.py:_to_module._quick_set      (swap_dest given)
    fromEntries/fromModule tensordict/_td.py:TensorDict._from_module    (use_state_dict=False, filter_empty=True)
    toModule / exitBlock   tensordict/base.py:to_module, __enter__, __exit__ ; tensordict/_contextlib.py:_reverse_to_module
    exitBlockOld           __exit__ as pinned (early `return False` when the body raised)

  A tensor *object* is `Tn` = identity + "isinstance(·, nn.Parameter)"; a module is the three dicts
  `_parameters`, `_buffers`, the tensor-valued part of `__dict__`, and `_modules`; the heap maps module
  identities to modules, so a submodule registered twice and tied tensors are representable.
-/
namespace TdVerif.C13

abbrev Name := String
abbrev MId := Nat

/-- a tensor object: its identity and whether it is an `nn.Parameter` instance -/
structure Tn where
  id : Nat
  isParam : Bool
  /-- an `UninitializedParameter` (lazy modules): placing one registers a forward pre-hook -/
  lazy : Bool := false
  deriving DecidableEq, Repr, Inhabited

/-- insertion-ordered Python dict with `str` keys -/
abbrev Dict (α : Type) := List (Name × α)

namespace Dict
variable {α : Type}

/-- `d.get(k)` -/
def get? : Dict α → Name → Option α
  | [], _ => none
  | (k', v) :: r, k => if k' = k then some v else get? r k

/-- `d.pop(k, None)` (the dict part) -/
def pop : Dict α → Name → Dict α
  | [], _ => []
  | (k', v) :: r, k => if k' = k then pop r k else (k', v) :: pop r k

/-- `d[k] = v`: replaces in place, appends a new key at the end -/
def set : Dict α → Name → α → Dict α
  | [], k, v => [(k, v)]
  | (k', v') :: r, k, v => if k' = k then (k, v) :: r else (k', v') :: set r k v

def keys (d : Dict α) : List Name := d.map (·.1)

end Dict

/-- one `nn.Module` object -/
structure Mod where
  params  : Dict (Option Tn) := []     -- module._parameters   (None entries allowed)
  buffers : Dict (Option Tn) := []     -- module._buffers      (None entries allowed)
  plain   : Dict Tn := []              -- tensor-valued entries of module.__dict__
  kids    : Dict (Option MId) := []    -- module._modules      (None entries allowed)
  custom  : Bool := false              -- type(module).__setattr__ is not nn.Module.__setattr__
  nonPersistent : List Name := []      -- module._non_persistent_buffers_set
  preHooks : Nat := 0                  -- len(module._forward_pre_hooks)
  deriving Repr, Inhabited

abbrev Heap := MId → Mod

def Heap.upd (h : Heap) (m : MId) (md : Mod) : Heap := fun c => if c = m then md else h c

/-- what the three dicts say about one attribute name -/
structure Cell where
  p : Option (Option Tn)
  b : Option (Option Tn)
  d : Option Tn
  deriving DecidableEq, Repr

def Mod.cell (md : Mod) (n : Name) : Cell := ⟨md.params.get? n, md.buffers.get? n, md.plain.get? n⟩

inductive Err where
  | key      -- KeyError (name in none of the three dicts / no such submodule)
  | type     -- TypeError (submodule entry is None: weakref.ref(None))
  | cycle    -- a module is reached again while it is being processed (self-referential swap dict: outside the model)
  | attr     -- AttributeError / structure mismatch in _quick_set
  | fuel
  deriving DecidableEq, Repr

/-- re-insertion "by kind" at the end of `_set_tensor_dict` (repaired order: a buffer slot stays a buffer slot) -/
def place (md : Mod) (name : Name) (t : Tn) (wasBuffer : Bool) : Mod :=
  if wasBuffer then { md with buffers := md.buffers.set name (some t) }
  else if t.isParam then
    -- `if isinstance(tensor, UninitializedTensorMixin): module.register_forward_pre_hook(_add_batch_dim_pre_hook())`
    { md with params := md.params.set name (some t), preHooks := md.preHooks + (if t.lazy then 1 else 0) }
  else { md with plain := md.plain.set name t }

/-- the pinned order: `isinstance(tensor, Parameter)` is tested first -/
def placeOld (md : Mod) (name : Name) (t : Tn) (wasBuffer : Bool) : Mod :=
  if t.isParam then
    { md with params := md.params.set name (some t), preHooks := md.preHooks + (if t.lazy then 1 else 0) }
  else if wasBuffer then { md with buffers := md.buffers.set name (some t) }
  else { md with plain := md.plain.set name t }

/-- mirrors tensordict/_td.py:_set_tensor_dict (inplace=False). The error carries the module as it is
left at the raise point (None entries already popped). -/
def setTensorWith (plc : Mod → Name → Tn → Bool → Mod) (md : Mod) (name : Name) (t : Tn) :
    Except (Err × Mod) (Mod × Tn) :=
  -- out = _parameters.pop(name, None)
  let outP := (md.params.get? name).join
  let md1 : Mod := { md with params := md.params.pop name }
  match outP with
  | some out => .ok (plc md1 name t false, out)
  | none =>
    -- out = _buffers.pop(name, None); was_buffer = out is not None
    let outB := (md1.buffers.get? name).join
    let md2 : Mod := { md1 with buffers := md1.buffers.pop name }
    match outB with
    | some out => .ok (plc md2 name t true, out)
    | none =>
      -- out = __dict__.pop(name)
      match md2.plain.get? name with
      | some out => .ok (plc { md2 with plain := md2.plain.pop name } name t false, out)
      | none => .error (.key, md2)

/-- the pinned `_set_tensor_dict` (pop from `_parameters`, then `_buffers`, then `__dict__`; `isinstance(tensor, Parameter)`
tested before `was_buffer`) -/
def setTensorOld := setTensorWith placeOld

/-- the native branch (`type(module).__setattr__ is nn.Module.__setattr__`): `_set_tensor_dict` as repaired — an entry
that stays in the dict it was found in is *replaced in place* (`_parameters[name] = tensor`, `_buffers[name] = tensor`), so
the order of `module._parameters` / `_buffers` (the order of `parameters()`, `state_dict()`, optimizer groups) survives a
swap of a subset of the entries; a non-Parameter aimed at a `_parameters` slot moves to `__dict__`, a Parameter aimed at a
plain attribute moves to `_parameters`; `None` entries are no longer popped on the way to a KeyError. -/
def setTensorNative (md : Mod) (name : Name) (t : Tn) : Except (Err × Mod) (Mod × Tn) :=
  match (md.params.get? name).join with
  | some out =>
    if t.isParam then
      .ok ({ md with params := md.params.set name (some t), preHooks := md.preHooks + (if t.lazy then 1 else 0) }, out)
    else .ok ({ md with params := md.params.pop name, plain := md.plain.set name t }, out)
  | none =>
    match (md.buffers.get? name).join with
    | some out => .ok ({ md with buffers := md.buffers.set name (some t) }, out)
    | none =>
      match md.plain.get? name with
      | some out => .ok (place { md with plain := md.plain.pop name } name t false, out)
      | none => .error (.key, md)

/-- mirrors the other branch of tensordict/_td.py:TensorDict._to_module (a module class that overrides
`__setattr__`; inplace=False, not under dynamo), repaired: a non-Parameter aimed at a `_parameters` slot is
popped and `setattr` puts it into `__dict__`; otherwise torch.nn.utils._named_member_accessor.swap_tensor:
a name in `_parameters` / `_buffers` keeps its slot (replaced in place), any other attribute goes through
`setattr` — `register_parameter` for a Parameter, `__dict__` for a plain tensor. A `None` entry would put
`None` into the swap: answered `type` (outside the model). -/
def setTensorCustom (md : Mod) (name : Name) (t : Tn) : Except (Err × Mod) (Mod × Tn) :=
  match Dict.get? md.params name with
  | some (some out) =>
    if t.isParam then .ok ({ md with params := md.params.set name (some t) }, out)
    else .ok ({ md with params := md.params.pop name, plain := md.plain.set name t }, out)
  | some none => .error (.type, md)
  | none =>
    match Dict.get? md.buffers name with
    | some (some out) => .ok ({ md with buffers := md.buffers.set name (some t) }, out)
    | some none => .error (.type, md)
    | none =>
      match Dict.get? md.plain name with
      | some out =>
        if t.isParam then .ok ({ md with plain := md.plain.pop name, params := md.params.set name (some t) }, out)
        else .ok ({ md with plain := md.plain.set name t }, out)
      | none => .error (.attr, md)

/-- the leaf step of `_to_module`: which branch depends on the module's class -/
def setTensor (md : Mod) (name : Name) (t : Tn) : Except (Err × Mod) (Mod × Tn) :=
  if md.custom then setTensorCustom md name t else setTensorNative md name t

/-- a parameter tensordict: nested, insertion-ordered; leaves are tensor objects -/
inductive PTree where
  | leaf (t : Tn)
  | node (es : List (Name × PTree))
  deriving Repr, Inhabited

/-- memo of `_to_module`: module ↦ its swap dict; `none` while the module is being processed
(the code stores the dict object before filling it) -/
abbrev Memo := List (MId × Option (List (Name × PTree)))

def Memo.find (mm : Memo) (c : MId) : Option (Option (List (Name × PTree))) :=
  match mm with
  | [] => none
  | (c', v) :: r => if c' = c then some v else Memo.find r c

abbrev SwapRes := Except (Err × Heap) (Heap × Memo × List (Name × PTree))

/-- mirrors tensordict/_td.py:TensorDict._to_module, the loop `for key, value in input.items()` of one
module `m` (return_swap=True). Leaves go through `_set_tensor_dict`; a nested tensordict goes to
`module._modules[key]`, through the memo. -/
def swapEntriesWith (st : Mod → Name → Tn → Except (Err × Mod) (Mod × Tn))
    (h : Heap) (memo : Memo) (m : MId) : List (Name × PTree) → SwapRes
  | [] => .ok (h, memo, [])
  | (k, .leaf t) :: rest =>
    match st (h m) k t with
    | .error (e, md) => .error (e, h.upd m md)
    | .ok (md, out) =>
      match swapEntriesWith st (h.upd m md) memo m rest with
      | .error e => .error e
      | .ok (h', memo', outs) => .ok (h', memo', (k, .leaf out) :: outs)
  | (k, .node es) :: rest =>
    match (h m).kids.get? k with
    | none => .error (.key, h)                 -- __dict__["_modules"][key]
    | some none => .error (.type, h)           -- weakref.ref(None)
    | some (some c) =>
      match memo.find c with
      | some none => .error (.cycle, h)
      | some (some sw) =>                      -- shared submodule already swapped: reuse its swap dict
        match swapEntriesWith st h memo m rest with
        | .error e => .error e
        | .ok (h', memo', outs) => .ok (h', memo', (k, .node sw) :: outs)
      | none =>
        match swapEntriesWith st h ((c, none) :: memo) c es with
        | .error e => .error e
        | .ok (h1, memo1, sw) =>
          match swapEntriesWith st h1 ((c, some sw) :: memo1) m rest with
          | .error e => .error e
          | .ok (h', memo', outs) => .ok (h', memo', (k, .node sw) :: outs)

/-- `params.to_module(module, return_swap=False)`: the same loop without the swap dicts. Nothing is recorded in the
memo (`memo[weakref.ref(module)] = _swap` is under `if return_swap`), so a submodule reached twice is written twice
(the last sub-tensordict wins) and the recursion is bounded by the parameter tensordict alone. -/
def installEntriesWith (st : Mod → Name → Tn → Except (Err × Mod) (Mod × Tn))
    (h : Heap) (m : MId) : List (Name × PTree) → Except (Err × Heap) Heap
  | [] => .ok h
  | (k, .leaf t) :: rest =>
    match st (h m) k t with
    | .error (e, md) => .error (e, h.upd m md)
    | .ok (md, _) => installEntriesWith st (h.upd m md) m rest
  | (k, .node es) :: rest =>
    match (h m).kids.get? k with
    | none => .error (.key, h)
    | some none => .error (.type, h)
    | some (some c) =>
      match installEntriesWith st h c es with
      | .error e => .error e
      | .ok h1 => installEntriesWith st h1 m rest

def install (h : Heap) (m : MId) (p : List (Name × PTree)) : Except (Err × Heap) Heap :=
  installEntriesWith setTensor h m p

def swapEntries := swapEntriesWith setTensor

/-- `params.to_module(module)` with return_swap=True, swap_dest=None: new heap and the swap tensordict -/
def swap (h : Heap) (m : MId) (p : List (Name × PTree)) : Except (Err × Heap) (Heap × List (Name × PTree)) :=
  match swapEntries h [(m, none)] m p with
  | .error e => .error e
  | .ok (h', _, s) => .ok (h', s)

def swapOld (h : Heap) (m : MId) (p : List (Name × PTree)) : Except (Err × Heap) (Heap × List (Name × PTree)) :=
  match swapEntriesWith setTensorOld h [(m, none)] m p with
  | .error e => .error e
  | .ok (h', _, s) => .ok (h', s)

/-- mirrors `_quick_set(swap_dict, swap_td)`: write the swapped-out values into `swap_dest`, entry by
entry, only where the destination does not already hold that very object -/
def quickSet : List (Name × PTree) → List (Name × PTree) → Except Err (List (Name × PTree))
  | [], dest => .ok dest
  | (k, .leaf t) :: rest, dest =>
    -- `swap_td._get_str(key, None) is not val` → `_set_str(key, val)`
    let dest' : Dict PTree := match Dict.get? dest k with
      | some (.leaf t') => if t' = t then dest else Dict.set dest k (.leaf t)
      | _ => Dict.set dest k (.leaf t)
    quickSet rest dest'
  | (k, .node es) :: rest, dest =>
    match Dict.get? dest k with
    | some (.node des) =>
      match quickSet es des with
      | .error e => .error e
      | .ok des' => quickSet rest (Dict.set dest k (.node des'))
    | some (.leaf _) =>
      -- `_quick_set(val, <a tensor>)`: the loop body touches the tensor only when `val` is non-empty
      if es.isEmpty then quickSet rest dest else .error .attr
    | none => .error .key

/-! ### from_module -/

def someEntries (d : Dict (Option Tn)) : List (Name × PTree) :=
  d.filterMap (fun e => e.2.map (fun t => (e.1, PTree.leaf t)))

mutual
/-- mirrors tensordict/_td.py:TensorDict._from_module (use_state_dict=False, filter_empty=True):
`none` = the Python `None` returned for a module without any tensor below it. Fuel bounds the module
depth (the code recurses on `_modules` without a memo and does not terminate on a cyclic graph). -/
def fromModule (h : Heap) : Nat → MId → Except Err (Option (List (Name × PTree)))
  | 0, _ => .error .fuel
  | fuel + 1, m =>
    -- destination[name] = param / buffer for non-None entries (dict assignment: later wins in place)
    let own := ((someEntries (h m).params) ++ (someEntries (h m).buffers)).foldl
      (fun d e => Dict.set d e.1 e.2) ([] : Dict PTree)
    match fromKids h fuel (h m).kids own with
    | .error e => .error e
    | .ok dest => if dest.isEmpty then .ok none else .ok (some dest)
def fromKids (h : Heap) : Nat → List (Name × Option MId) → Dict PTree → Except Err (Dict PTree)
  | _, [], dest => .ok dest
  | fuel, (_, none) :: rest, dest => fromKids h fuel rest dest
  | fuel, (k, some c) :: rest, dest =>
    match fromModule h fuel c with
    | .error e => .error e
    | .ok none => fromKids h fuel rest dest
    | .ok (some sub) => fromKids h fuel rest (Dict.set dest k (.node sub))
end

/-! ### use_state_dict=True -/

/-- what `module._save_to_state_dict(destination, "", keep_vars=False)` sees of one module: every non-None parameter
and every non-None *persistent* buffer, detached (a plain tensor over the same storage: same identity number here,
no longer an `nn.Parameter`) -/
def sdView (md : Mod) : Mod :=
  { md with
    params := md.params.map (fun e => (e.1, e.2.map (fun t => { t with isParam := false }))),
    buffers := (md.buffers.filter (fun e => !(md.nonPersistent.contains e.1))).map
      (fun e => (e.1, e.2.map (fun t => { t with isParam := false }))) }

/-- mirrors `TensorDict._from_module(use_state_dict=True)` (no state-dict hooks registered): the walk of
`_from_module` over the state-dict view of every module -/
def fromModuleSD (h : Heap) (fuel : Nat) (m : MId) : Except Err (Option (List (Name × PTree))) :=
  fromModule (fun c => sdView (h c)) fuel m

/-- the leaf entries of one tensordict node, in order -/
def leavesOf : List (Name × PTree) → List (Name × PTree)
  | [] => []
  | (k, .leaf t) :: r => (k, .leaf t) :: leavesOf r
  | (_, .node _) :: r => leavesOf r

/-- the nested entries of one node, each re-nested, empty ones dropped -/
def nodesRenest : List (Name × PTree) → List (Name × PTree)
  | [] => []
  | (_, .leaf _) :: r => nodesRenest r
  | (k, .node es) :: r =>
    match leavesOf es ++ nodesRenest es with
    | [] => nodesRenest r
    | es' => (k, .node es') :: nodesRenest r

/-- `state_dict.flatten_keys(".")` … `unflatten_keys(".")` in `_to_module(use_state_dict=True)`: at every level the
leaves come first (in their order), then the nested tensordicts (in theirs); nested tensordicts without any leaf
below them disappear -/
def pruneEmpty (es : List (Name × PTree)) : List (Name × PTree) := leavesOf es ++ nodesRenest es

/-- mirrors `_to_module(use_state_dict=True)` without load-state-dict pre-hooks (repaired `convert_type`: a leaf the
hooks did not replace is kept as it is; `inplace` stays falsy): the ordinary swap of the re-nested tensordict -/
def swapSD (h : Heap) (m : MId) (p : List (Name × PTree)) : Except (Err × Heap) (Heap × List (Name × PTree)) :=
  swap h m (pruneEmpty p)

/-- the load-state-dict pre-hooks seen as one function of the flattened key (outermost name first) and the tensor; followed by
`convert_type`: an entry the hooks left alone keeps its object, a replaced one is re-wrapped in the class of the original leaf -/
def applyHooks (hk : List Name → Tn → Tn) : List Name → List (Name × PTree) → List (Name × PTree)
  | _, [] => []
  | pre, (k, .leaf t) :: r =>
    let x := hk (pre ++ [k]) t
    (k, .leaf (if x = t then t else { x with isParam := t.isParam })) :: applyHooks hk pre r
  | pre, (k, .node es) :: r => (k, .node (applyHooks hk (pre ++ [k]) es)) :: applyHooks hk pre r

/-- `_to_module(use_state_dict=True)` with load-state-dict pre-hooks. The with-block inverts it by *the same call* on the
swap (`_reverse_to_module` passes the same keyword arguments), so the hooks run a second time, on the module's own tensors. -/
def swapSDHook (hk : List Name → Tn → Tn) (h : Heap) (m : MId) (p : List (Name × PTree)) :
    Except (Err × Heap) (Heap × List (Name × PTree)) :=
  swap h m (pruneEmpty (applyHooks hk [] p))

/-! ### spec side: what torch's `named_parameters` / `named_buffers` enumerate -/

/-- leaves of a tensordict with their full key, in `items(True, True)` order -/
def flatten : List (Name × PTree) → List (List Name × Tn)
  | [] => []
  | (k, .leaf t) :: r => ([k], t) :: flatten r
  | (k, .node es) :: r => (flatten es).map (fun e => (k :: e.1, e.2)) ++ flatten r

def ownTensors (md : Mod) : List (List Name × Tn) :=
  (md.params ++ md.buffers).filterMap (fun e => e.2.map (fun t => ([e.1], t)))

mutual
/-- our rendering of `dict(module.named_parameters(remove_duplicate=False))` ∪
`dict(module.named_buffers(remove_duplicate=False))` as (qualified name, object) pairs: the non-None
entries of `_parameters` and `_buffers` of the module, then those of every non-None child under
`name.` — through every path, no deduplication. (Checked against torch on every run.) -/
def namedTensors (h : Heap) : Nat → MId → Except Err (List (List Name × Tn))
  | 0, _ => .error .fuel
  | fuel + 1, m =>
    match namedKids h fuel (h m).kids with
    | .error e => .error e
    | .ok l => .ok (ownTensors (h m) ++ l)
def namedKids (h : Heap) : Nat → List (Name × Option MId) → Except Err (List (List Name × Tn))
  | _, [] => .ok []
  | fuel, (_, none) :: rest => namedKids h fuel rest
  | fuel, (k, some c) :: rest =>
    match namedTensors h fuel c with
    | .error e => .error e
    | .ok a =>
      match namedKids h fuel rest with
      | .error e => .error e
      | .ok b => .ok (a.map (fun e => (k :: e.1, e.2)) ++ b)
end

/-! ### the with-block protocol -/

/-- the swap tensordict returned by `to_module`, as far as the context-manager protocol is concerned -/
structure TdObj where
  tree : List (Name × PTree)
  /-- `_last_op` = ("to_module", ((module,), kwargs, weakref(params))): the module and what the weak
  reference to the tensordict the call was made on gives at `__exit__`: `none` when that tensordict was
  a temporary (or was deleted in the body) and has been collected -/
  lastOp : Option (MId × Option (List (Name × PTree))) := none
  queue : List (Option (MId × Option (List (Name × PTree)))) := []   -- `_last_op_queue` (head = right end of the deque)
  deriving Repr, Inhabited

structure State where
  heap : Heap
  tds : List TdObj                        -- tensordict objects created so far; index = identity

def State.td (s : State) (i : Nat) : TdObj := s.tds.getD i default
def State.setTd (s : State) (i : Nat) (o : TdObj) : State := { s with tds := s.tds.set i o }

/-- `p.to_module(m)` through `_as_context_manager`: the result is a new tensordict whose `_last_op`
records the call. -/
def toModule (σ : State) (p : List (Name × PTree)) (m : MId) (temp : Bool := false) : Except State (State × Nat) :=
  match swap σ.heap m p with
  | .error (_, h) => .error { σ with heap := h }
  | .ok (h, sw) =>
    .ok ({ heap := h, tds := σ.tds ++ [{ tree := sw, lastOp := some (m, if temp then none else some p) }] }, σ.tds.length)

/-- mirrors tensordict/base.py:__enter__ -/
def enterBlock (σ : State) (i : Nat) : State :=
  let td := σ.td i
  σ.setTd i { td with queue := td.lastOp :: td.queue }

/-- how `__exit__` ends: returns, raises after having put the module back (`_quick_set` into the
parameter tensordict failed), or raises in the middle of the swap back -/
inductive ExitRes where
  | ok | raised | failed
  deriving DecidableEq, Repr

/-- mirrors tensordict/base.py:__exit__ (repaired: the record is popped and a `to_module` is inverted
whether or not the body raised) and tensordict/_contextlib.py:_reverse_to_module
(`self.to_module(module, swap_dest=out)`: the module loop first, then `_quick_set` into `out`; with a
dead weak reference `out` is `None` and there is nothing to write into). -/
def exitBlock (σ : State) (i : Nat) (_raised : Bool) : State × ExitRes :=
  let td := σ.td i
  match td.queue with
  | [] => (σ, .failed)
  | op :: q =>
    let σ1 := σ.setTd i { td with queue := q }
    match op with
    | none => (σ1, .ok)
    | some (m, src) =>
      match swap σ1.heap m td.tree with
      | .error (_, h) => ({ σ1 with heap := h }, .failed)
      | .ok (h, back) =>
        match src with
        | none => ({ σ1 with heap := h }, .ok)
        | some sp =>
          match quickSet back sp with
          | .ok _ => ({ σ1 with heap := h }, .ok)
          | .error _ => ({ σ1 with heap := h }, .raised)

/-- `__exit__` as pinned at 4564555: `if exc_type is not None and issubclass(exc_type, Exception): return False`
before anything else. -/
def exitBlockOld (σ : State) (i : Nat) (raised : Bool) : State × ExitRes :=
  if raised then (σ, .ok) else exitBlock σ i raised

inductive Status where
  | normal | raised | raisedBase | entryFailed | exitFailed    -- raisedBase: left by a BaseException that is not an Exception
  deriving DecidableEq, Repr

/-- bodies of with-blocks: statements that do not re-register module attributes (`nop`: forward
passes, arithmetic, in-place updates of tensor values), `raise`, nested blocks, `try: … except Exception: pass` -/
inductive Stmt where
  | nop
  | raise
  /-- `raise KeyboardInterrupt` / `SystemExit` / a generator closed at a `yield` inside the block (GeneratorExit) / a
  cancelled task: a BaseException that is not an Exception — `__exit__` takes its ordinary path, `except Exception` does not catch it -/
  | raiseBase
  /-- `with p.to_module(m): body`; `temp` = `p` is not referenced from anywhere else (a temporary, or
  `del p; gc.collect()` in the body): the weak reference kept by the swap is dead at `__exit__` -/
  | block (p : List (Name × PTree)) (m : MId) (temp : Bool) (body : List Stmt)
  | tryExcept (body : List Stmt)

mutual
def execStmt (ex : State → Nat → Bool → State × ExitRes) : State → Stmt → State × Status
  | σ, .nop => (σ, .normal)
  | σ, .raise => (σ, .raised)
  | σ, .raiseBase => (σ, .raisedBase)
  | σ, .block p m temp body =>
    match toModule σ p m temp with
    | .error σ' => (σ', .entryFailed)
    | .ok (σ1, i) =>
      match execList ex (enterBlock σ1 i) body with
      | (σ3, .entryFailed) => (σ3, .entryFailed)
      | (σ3, .exitFailed) => (σ3, .exitFailed)
      | (σ3, st) =>
        match ex σ3 i (st == .raised) with
        | (σ4, .failed) => (σ4, .exitFailed)
        | (σ4, .raised) => (σ4, .raised)
        | (σ4, .ok) => (σ4, st)
  | σ, .tryExcept body =>
    match execList ex σ body with
    | (σ', .raised) => (σ', .normal)
    | r => r
def execList (ex : State → Nat → Bool → State × ExitRes) : State → List Stmt → State × Status
  | σ, [] => (σ, .normal)
  | σ, x :: xs =>
    match execStmt ex σ x with
    | (σ', .normal) => execList ex σ' xs
    | r => r
end

def exec := execList exitBlock
def execOld := execList exitBlockOld

end TdVerif.C13
