/-
  C08 — operations that resize ONE dim at a time: split / chunk (narrow), repeat_interleave,
  repeat, through a lazy stack (tensordict/_lazy.py `split`, `repeat_interleave`,
  `_repeat`).  The first two are instances of one coordinate map, `T.dimOp d ns f`: dim `d` gets
  size `ns size` and position `x` of it reads position `f size x` of the input.
-/
import TdVerif.Model.C08Lazy

namespace TdVerif.C08

/-- SPEC: resize dim `d` to `ns size`; output position `x` reads input position `f size x` -/
def T.dimOp (t : T α) (d : Nat) (ns : Nat → Nat) (f : Nat → Nat → Nat) : T α where
  shape := t.shape.set d (ns (at0 t.shape d))
  get c := t.get (c.set d (f (at0 t.shape d) (at0 c d)))

def TD.dimOp (m : TD α) (d : Nat) (ns : Nat → Nat) (f : Nat → Nat → Nat) : TD α :=
  m.mapLeaves (m.batch.set d (ns (at0 m.batch d))) (fun t => t.dimOp d ns f)

/-- SPEC: `t.narrow(d, start, len)` (one piece of `split` / `chunk`) -/
abbrev T.narrow (t : T α) (d start len : Nat) : T α := t.dimOp d (fun _ => len) (fun _ x => x + start)
abbrev TD.narrow (m : TD α) (d start len : Nat) : TD α := m.dimOp d (fun _ => len) (fun _ x => x + start)

/-- SPEC: `t.repeat_interleave(k, dim=d)` -/
abbrev T.repeatInterleave (t : T α) (d k : Nat) : T α := t.dimOp d (· * k) (fun _ x => x / k)
abbrev TD.repeatInterleave (m : TD α) (d k : Nat) : TD α := m.dimOp d (· * k) (fun _ x => x / k)

/-- SPEC: `t.repeat(*reps, 1, …, 1)`: dim `i < len reps` has size `shape[i] * reps[i]` and position
`x` of it reads position `x % shape[i]` -/
def T.repeat (t : T α) (reps : List Nat) : T α where
  shape := t.shape.mapIdx fun i s => s * (reps[i]?.getD 1)
  get c := t.get (c.mapIdx fun i x => if i < reps.length then x % at0 t.shape i else x)

/-- SPEC: `td.repeat(*reps)` (one count per batch dim) -/
def TD.repeat (m : TD α) (reps : List Nat) : TD α :=
  m.mapLeaves (m.batch.mapIdx fun i s => s * (reps[i]?.getD 1)) (fun t => t.repeat reps)

/-- cumulative starts of consecutive pieces -/
def pieceStarts : List Nat → Nat → List Nat
  | [], _ => []
  | l :: r, s => s :: pieceStarts r (s + l)

/-- `split_size: int` on a dim of size `n`: `ceil(n / size)` pieces, the last one takes the rest -/
def splitSizes (n size : Nat) : List Nat :=
  if size = 0 then [] else
  let k := (n + size - 1) / size
  (List.range k).map fun j => if j + 1 = k then n - size * (k - 1) else size

/-- SPEC: `td.split(sizes, d)` -/
def TD.splitL (m : TD α) (sizes : List Nat) (d : Nat) : List (TD α) :=
  ((pieceStarts sizes 0).zip sizes).map fun p => m.narrow d p.1 p.2

/-- mirrors `split(split_size: list, dim)` (_lazy.py): along the stack dim the member list is
sliced (`self.tensordicts[start:stop]`, an empty piece is an empty stack); along another dim every
member is split along the shifted dim (torch validates that the sizes add up) and the j-th pieces
are re-stacked -/
def lazySplit [Inhabited α] (L : Lazy α) (sizes : List Nat) (dim : Int) : Option (List (LRes α)) :=
  let r : Int := L.batch.length
  let d0 : Int := if dim < 0 then r + dim else dim
  if d0 < 0 ∨ d0 ≥ r then none else
  let d := d0.toNat
  if d = L.sd then
    some (((pieceStarts sizes 0).zip sizes).map fun p =>
      if p.2 = 0 then .empty ((L.batch.eraseIdx L.sd).insertIdx L.sd 0)
      else .lazy ⟨(L.members.drop p.1).take p.2, L.sd⟩)
  else
    let d' := if d < L.sd then d else d - 1
    if sizes.sum ≠ at0 L.batch d then none else
    some (((pieceStarts sizes 0).zip sizes).map fun p =>
      .lazy ⟨L.members.map fun m => m.narrow d' p.1 p.2, L.sd⟩)

/-- `split(split_size: int, dim)` -/
def lazySplitInt [Inhabited α] (L : Lazy α) (size : Nat) (dim : Int) : Option (List (LRes α)) :=
  let r : Int := L.batch.length
  let d0 : Int := if dim < 0 then r + dim else dim
  if d0 < 0 ∨ d0 ≥ r ∨ size = 0 then none else
  lazySplit L (splitSizes (at0 L.batch d0.toNat) size) dim

/-- mirrors `repeat_interleave(repeats: int, dim)` (_lazy.py, after the fix commits): along the
stack dim every member is listed `repeats` times (clones: same values), along another dim every
member is repeated along the shifted dim -/
def lazyRepeatInterleave (L : Lazy α) (k : Nat) (dim : Int) : Option (Lazy α) :=
  let r : Int := L.batch.length
  let d0 : Int := if dim < 0 then r + dim else dim
  if d0 < 0 ∨ d0 ≥ r then none else
  let d := d0.toNat
  if d = L.sd then
    if k = 0 then none     -- `type(self)(stack_dim=…)` without members: outside the model
    else some ⟨L.members.flatMap fun m => List.replicate k m, L.sd⟩
  else
    let d' := if d < L.sd then d else d - 1
    some ⟨L.members.map fun m => m.repeatInterleave d' k, L.sd⟩

/-- mirrors `repeat(*repeats)` (base.py: one count per batch dim) + `_repeat` (_lazy.py): the
count of the stack dim is popped, the members are repeated with the others, and the member list
is replicated -/
def lazyRepeat (L : Lazy α) (reps : List Nat) : Option (Lazy α) :=
  if reps.length ≠ L.batch.length then none else
  let rd := at0 reps L.sd
  let reps' := reps.eraseIdx L.sd
  if rd = 0 then none      -- a stack without members: outside the model
  else some ⟨(List.replicate rd (L.members.map fun m => m.repeat reps')).flatten, L.sd⟩

/-! ### expand -/

/-- SPEC: `t.expand(*tb, *features)` for a tensor whose first `rb` dims are batch dims: `lead`
new leading dims, every batch dim either kept or (size 1) expanded; a position along an expanded
dim reads position 0 -/
def T.expandTo (t : T α) (lead rb : Nat) (tb : Shape) : T α where
  shape := tb ++ t.shape.drop rb
  get c := t.get ((c.drop lead).mapIdx fun i x => if i < rb ∧ at0 t.shape i = 1 then 0 else x)

/-- torch's check: the target has at least as many dims, and every old dim is kept or is 1 -/
def expandOk (b tb : Shape) : Bool :=
  b.length ≤ tb.length &&
    (List.range b.length).all fun i => at0 b i == at0 tb (tb.length - b.length + i) || at0 b i == 1

/-- SPEC: `td.expand(*tb)` -/
def TD.expandTo (m : TD α) (tb : Shape) : TD α :=
  m.mapLeaves tb (fun t => t.expandTo (tb.length - m.batch.length) m.batch.length tb)

/-- mirrors `expand(*shape)` (_lazy.py, after the fix commits; non-negative sizes, at least as many
as batch dims): the stack dim moves by the number of new leading dims, the members are expanded to
the target without it, and a singleton stack dim is expanded by listing the member again -/
def lazyExpand (L : Lazy α) (shape : List Nat) : Option (Lazy α) :=
  let r := L.batch.length
  if shape.length < r then none else
  let sd' := shape.length + L.sd - r
  let tb' := shape.eraseIdx sd'
  if ¬ L.members.all (fun m => expandOk m.batch tb') then none else
  let ms := L.members.map fun m => m.expandTo tb'
  let k := at0 shape sd'
  if k ≠ L.members.length then
    if L.members.length ≠ 1 ∨ k = 0 then none
    else some ⟨(List.replicate k ms).flatten, sd'⟩
  else some ⟨ms, sd'⟩

end TdVerif.C08
