/-
  C02 — model of the tensordict shape operations (the code, transcribed; the torch *spec* lives in
  Model/C02Tensor.lean).  Every tensordict shape op does two independent things:

    (a) computes the new batch size and dim names arithmetically (`*Meta` below), and
    (b) hands a closure to `_fast_apply(call_on_nested=True)` which makes one torch call per leaf
        and calls the same-named tensordict method on every nested tensordict (`LeafCall`).

  `_fast_apply` runs with `checked=True`: nothing re-validates the leaves against the batch size,
  so (a) and (b) really are independent and the property is exactly "they agree".
  The model transcribes the tree *after* the `fix:` commits of this property (see REPORT_C02.md).
-/
import TdVerif.Model.C02Tensor

namespace TdVerif.C02

/-- dim names of a tensordict: `none` ⇔ `_has_names()` is false (`_td_dim_names is None`) -/
abbrev Names := Option (List (Option String))

/-- a tensordict: leaves are tensors, nodes carry batch size, names and insertion-ordered entries -/
inductive TD (α : Type) where
  | leaf (t : T α)
  | node (bs : Shape) (names : Names) (es : List (String × TD α))

/-- the torch call a shape-op closure makes on one leaf (arguments as the closure has them);
for a nested tensordict the same call is the tensordict method of that name -/
inductive LeafCall where
  /-- `tensor.permute(*dims_list, *range(len(dims_list), tensor.ndim))` — _td.py:_permute -/
  | permute (dims : List Nat)
  /-- `tensor.transpose(dim0, dim1)` — _td.py:_transpose -/
  | transpose (d0 d1 : Nat)
  /-- `tensor.view((*shape, *tensor.shape[batch_dims:]))` — _td.py:_view and _td.py:_squeeze(dim=None) -/
  | view (shape : Shape) (n : Nat)
  /-- `tensor.reshape((*shape, *tensor.shape[batch_dims:]))` — _td.py:reshape -/
  | reshape (shape : Shape) (n : Nat)
  /-- _td.py:_squeeze(dim=None) (after the nested-names fix): a tensor leaf is viewed as `(*shape, *tensor.shape[batch_dims:])`; a nested
  tensordict is squeezed one dim at a time at `dims` (the size-1 batch dims of the parent, last first), which keeps its dim names -/
  | squeezeDims (dims : List Nat) (shape : Shape) (n : Nat)
  /-- `x.squeeze(newdim)` — _td.py:_squeeze -/
  | squeeze (d : Nat)
  /-- `tensor.unsqueeze(newdim)` — _td.py:_unsqueeze -/
  | unsqueeze (d : Nat)
  /-- `torch.flatten(tensor, start_dim, end_dim)` — base.py:flatten -/
  | flatten (a b : Nat)
  /-- `torch.unflatten(tensor, dim, unflattened_size)` — base.py:unflatten -/
  | unflatten (d : Nat) (sizes : List Int)
  /-- `tensor.expand((*shape, *tensor_shape[-last_n_dims:]))` — _td.py:expand._expand -/
  | expand (shape : Shape) (n : Nat)
  deriving Repr

/-- the public shape operations with their raw (user-spelled) arguments -/
inductive Op where
  | permute (dims : List Int)
  | transpose (d0 d1 : Int)
  | squeeze (d : Option Int)
  | unsqueeze (d : Int)
  | flatten (a b : Int)
  | unflatten (d : Int) (sizes : List Int)
  | view (shape : List Int)
  | reshape (shape : List Int)
  | expand (shape : List Int)
  deriving Repr

/-- ops returning a tuple of tensordicts -/
inductive MOp where
  | unbind (d : Int)
  | split (k : Int) (d : Int)
  | splitList (sizes : List Int) (d : Int)
  | chunk (chunks : Int) (d : Int)
  deriving Repr

/-! ### helpers transcribed from tensordict/utils.py -/

/-- utils.py:_maybe_correct_neg_dim — wraps a negative dim, IndexError when out of range -/
def maybeCorrectNegDim (d : Int) (n : Nat) : Except Err Nat :=
  let nd : Int := if d < 0 then n + d else d
  if nd < 0 ∨ nd ≥ n then .error .index else .ok nd.toNat

/-- Python `seq[i]` with a raw (possibly negative) index; `none` = IndexError -/
def pyIndex (l : List Nat) (i : Int) : Option Nat :=
  if 0 ≤ i then l[i.toNat]? else if -i ≤ l.length then l[l.length - (-i).toNat]? else none

/-- utils.py:infer_size_impl / _infer_size_impl (both copies are the same algorithm):
loop over the entries (second `-1` / other negative → AssertionError), the `invalid shape`
test, then `numel // newsize` (ZeroDivisionError when both are 0) -/
def inferLoop : List Int → Nat → Bool → Except Err (Nat × Bool)
  | [], newsize, seen => .ok (newsize, seen)
  | d :: ds, newsize, seen =>
    if d = -1 then (if seen then .error .assertion else inferLoop ds newsize true)
    else if d ≥ 0 then inferLoop ds (newsize * d.toNat) seen
    else .error .assertion

def inferSizeImpl (shape : List Int) (numel : Nat) : Except Err Shape := do
  let (newsize, seen) ← inferLoop shape 1 false
  if ¬ (numel = newsize ∨ (seen ∧ newsize > 0 ∧ numel % newsize = 0)) then .error .assertion
  else if seen then
    (if newsize = 0 then .error .zerodiv
     else .ok (shape.map fun d => if d = -1 then numel / newsize else d.toNat))
  else .ok (shape.map Int.toNat)

/-! ### names bookkeeping -/

/-- `self.names` (a list of `None` when unnamed) -/
def namesList (names : Names) (n : Nat) : List (Option String) := names.getD (List.replicate n none)

/-- what the `names=` argument of `_fast_apply` / `_new_unsafe` ends up as: the constructor's names
setter turns an all-`None` list into "no names" (_td.py: names.setter, `num_none == batch_dims`) -/
def normNames (names : Names) : Names :=
  match names with
  | none => none
  | some l => if l.all (· == none) then none else some l

/-! ### (a) batch-size / names arithmetic per op.
Result `none` = the method returns `self`; `some (bs', names', call)` otherwise. -/

/-- base.py:transpose (front-end: normalise, range check → ValueError, order, `dim0 == dim1 → self`)
followed by _td.py:_transpose -/
def transposeMeta (d0 d1 : Int) (bs : Shape) (names : Names) :
    Except Err (Option (Shape × Names × LeafCall)) :=
  let n : Int := bs.length
  let a : Int := if d0 < 0 then n + d0 else d0
  let b : Int := if d1 < 0 then n + d1 else d1
  if a < 0 ∨ b < 0 ∨ a ≥ n ∨ b ≥ n then .error .value else
  let i := (min a b).toNat
  let j := (max a b).toNat
  if i = j then .ok none else
  let nm : Names := names.map (fun l =>
    (List.range bs.length).map (fun k => if k = j then l.getD i none else if k = i then l.getD j none else l.getD k none))
  .ok (some (swap bs i j, nm, .transpose i j))

/-- base.py:permute → _td.py:_permute -/
def permuteMeta (dims : List Int) (bs : Shape) (names : Names) :
    Except Err (Option (Shape × Names × LeafCall)) :=
  let n : Int := bs.length
  let dl : List Int := dims.map (fun d => if d ≥ 0 then d else n + d)
  if dl.any (fun d => d < 0 ∨ d ≥ n) then .error .value else
  if dl.length ≠ bs.length then .error .value else
  let p : List Nat := dl.map Int.toNat
  if p.mergeSort ≠ List.range p.length then .error .value else
  if p.length = 0 ∧ bs.length = 0 then .ok none else
  if p = List.range p.length then .ok none else
  let bs' := p.map (fun i => bs.getD i 0) ++ bs.drop p.length
  let nm : Names := names.map (fun l => p.map (fun i => l.getD i none))
  .ok (some (bs', nm, .permute p))

/-- base.py:squeeze → _td.py:_squeeze -/
def squeezeMeta (d : Option Int) (bs : Shape) (names : Names) :
    Except Err (Option (Shape × Names × LeafCall)) :=
  match d with
  | none =>
    let bs' := bs.filter (· ≠ 1)
    let nm : Names := names.map (fun l => ((bs.zip l).filter (fun x => x.1 ≠ 1)).map (·.2))
    if bs' = bs then .ok none
    else .ok (some (bs', nm, .squeezeDims ((List.range bs.length).filter fun i => bs.getD i 0 = 1) bs' bs.length))
  | some d => do
    let nd ← maybeCorrectNegDim d bs.length
    if bs.getD nd 0 ≠ 1 then pure none
    else
      -- `names = copy(self.names) if self._has_names() else None; if names: names.pop(dim)`
      let nm : Names := names.map (fun l => if l.isEmpty then l else l.eraseIdx nd)
      pure (some (bs.eraseIdx nd, nm, .squeeze nd))

/-- base.py:unsqueeze → _td.py:_unsqueeze -/
def unsqueezeMeta (d : Int) (bs : Shape) (names : Names) :
    Except Err (Option (Shape × Names × LeafCall)) :=
  let n : Int := bs.length
  let nd : Int := if d < 0 then n + d + 1 else d
  if nd > n ∨ nd < 0 then .error .runtime else
  let i := nd.toNat
  let nm : Names := names.map (fun l => l.insertIdx i none)   -- `if names is not None` (after fix)
  .ok (some (bs.insertIdx i 1, nm, .unsqueeze i))

/-- base.py:flatten (after the range-check fix) -/
def flattenMeta (a b : Int) (bs : Shape) (names : Names) :
    Except Err (Option (Shape × Names × LeafCall)) :=
  let n : Int := bs.length
  let s : Int := if a < 0 then n + a else a
  if s < 0 then .error .value else
  let e : Int := if b < 0 then n + b else b
  if e < 0 then .error .value else
  if e ≥ n then .error .value else
  if e ≤ s then .error .value else
  let i := s.toNat
  let j := e.toNat
  let nelt := prod ((bs.drop i).take (j + 1 - i))
  let bs' := bs.take i ++ [nelt] ++ bs.drop (j + 1)
  let nm : Names := names.map (fun l => (l.take i ++ l.drop (j + 1)).insertIdx i none)
  .ok (some (bs', nm, .flatten i j))

/-- base.py:unflatten (after the `-1` fix). The names are assigned *after* the leaf calls through
the `names` setter; `namesAfter` says whether that assignment happens (see `tdNode`). -/
def unflattenMeta (d : Int) (sizes : List Int) (bs : Shape) (names : Names) :
    Except Err (Option (Shape × Names × LeafCall)) := do
  let nd ← maybeCorrectNegDim d bs.length
  let sz : List Int ← if sizes.any (· < 0) then (inferSizeImpl sizes (bs.getD nd 0)).map (·.map Int.ofNat) else pure sizes
  -- NOTE: the sizes are not checked against `batch_size[dim]` here: only the leaf calls do (known finding
  -- C02-view-leafless-unvalidated; the validating repair c50b003 was dropped because functional.py:pad_sequence
  -- relies on `empty(recurse=True).reshape(new_shape)` of a leafless tensordict)
  let bs' := bs.take nd ++ sz.map Int.toNat ++ bs.drop (nd + 1)
  let nm : Names := names.map (fun l => l.take nd ++ List.replicate (sz.length - 1) none ++ l.drop nd)
  pure (some (bs', nm, .unflatten nd sz))

/-- base.py:view → _td.py:_view, and _td.py:reshape (same arithmetic, different leaf call);
after the numel fix -/
def viewMeta (isView : Bool) (shape : List Int) (bs : Shape) (_names : Names) :
    Except Err (Option (Shape × Names × LeafCall)) := do
  let sh : Shape ← if shape.any (· < 0) then inferSizeImpl shape (prod bs) else pure (shape.map Int.toNat)
  -- NOTE: no `prod sh = prod bs` check: only the leaf calls validate (known finding C02-view-leafless-unvalidated)
  if sh = bs then pure none
  else pure (some (sh, none, if isView then .view sh bs.length else .reshape sh bs.length))

/-- _td.py:expand (after the `-1` fix) -/
def expandResolve (bs : Shape) (shape : List Int) : Except Err Shape :=
  if shape.any (· < 0) then
    let off := shape.length - bs.length
    (List.range shape.length).mapM (fun i =>
      let v := shape.getD i 0
      if v = -1 ∧ i ≥ off then .ok (bs.getD (i - off) 0)
      else if v < 0 then .error .runtime else .ok v.toNat)
  else .ok (shape.map Int.toNat)

def expandMeta (shape : List Int) (bs : Shape) (names : Names) :
    Except Err (Option (Shape × Names × LeafCall)) := do
  if shape.length < bs.length then throw .runtime
  let sh ← expandResolve bs shape
  -- `zip(self.batch_size, shape[-tensordict_dims:])` (`shape[-0:]` is the whole shape, zipped with nothing)
  let tail := sh.drop (sh.length - bs.length)
  if (bs.zip tail).any (fun x => x.1 ≠ 1 ∧ x.2 ≠ x.1) then throw .runtime
  let nm : Names := names.map (fun l => List.replicate (sh.length - bs.length) none ++ l)
  pure (some (sh, nm, .expand sh bs.length))

/-- the per-position rule both torch and the code implement: the size of output dim `i`, or `none` = reject -/
def expandRule (bs : Shape) (shape : List Int) (i : Nat) : Option Nat :=
  let v := shape.getD i 0
  let lead := shape.length - bs.length
  if i < lead then (if v < 0 then none else some v.toNat)
  else
    let old := bs.getD (i - lead) 0
    if v = -1 then some old
    else if v < 0 then none
    else if old = 1 ∨ v = (old : Int) then some v.toNat
    else none

/-- the first phase of the code (`-1` keeps the existing size; other negatives rejected) as a per-position rule -/
def resolveRule (bs : Shape) (shape : List Int) (i : Nat) : Option Nat :=
  let v := shape.getD i 0
  let off := shape.length - bs.length
  if v = -1 ∧ i ≥ off then some (bs.getD (i - off) 0)
  else if v < 0 then none else some v.toNat

def opMeta : Op → Shape → Names → Except Err (Option (Shape × Names × LeafCall))
  | .permute dims => permuteMeta dims
  | .transpose d0 d1 => transposeMeta d0 d1
  | .squeeze d => squeezeMeta d
  | .unsqueeze d => unsqueezeMeta d
  | .flatten a b => flattenMeta a b
  | .unflatten d sizes => unflattenMeta d sizes
  | .view shape => viewMeta true shape
  | .reshape shape => viewMeta false shape
  | .expand shape => expandMeta shape

/-- the batch size of the result of a `*Meta` computation (`none` = the call raises) -/
def resShape (bs : Shape) : Except Err (Option (Shape × Names × LeafCall)) → Option Shape
  | .error _ => none
  | .ok none => some bs
  | .ok (some (s, _, _)) => some s

/-- the names of the result (`none` = raises) -/
def resNames (names : Names) : Except Err (Option (Shape × Names × LeafCall)) → Option Names
  | .error _ => none
  | .ok none => some names
  | .ok (some (_, nm, _)) => some nm

/-- the shape torch gives (`none` = torch raises) -/
def torchShapeOf {α : Type} : Except Err (T α) → Option Shape
  | .error _ => none
  | .ok t => some t.shape

/-! ### (b) the closure on a leaf and on a nested tensordict -/

def natsToInts (l : List Nat) : List Int := l.map Int.ofNat

/-- the torch call on a tensor leaf -/
def applyLeaf {α : Type} (c : LeafCall) (t : T α) : Except Err (T α) :=
  match c with
  | .permute dims => Torch.permute (natsToInts (dims ++ List.range' dims.length (t.rank - dims.length))) t
  | .transpose d0 d1 => Torch.transpose d0 d1 t
  | .view shape n => Torch.reshape (natsToInts (shape ++ t.shape.drop n)) t
  | .reshape shape n => Torch.reshape (natsToInts (shape ++ t.shape.drop n)) t
  | .squeezeDims _ shape n => Torch.reshape (natsToInts (shape ++ t.shape.drop n)) t
  | .squeeze d => Torch.squeeze d t
  | .unsqueeze d => Torch.unsqueeze d t
  | .flatten a b => Torch.flatten a b t
  | .unflatten d sizes => Torch.unflatten d sizes t
  | .expand shape n =>
    -- `last_n_dims = tensor_dims - tensordict_dims; new_shape = (*shape, *tensor_shape[-last_n_dims:]) if last_n_dims > 0 else shape`
    let last := t.rank - n
    Torch.expand (natsToInts (if last > 0 then shape ++ t.shape.drop (t.rank - last) else shape)) t

/-- the same closure called on a nested tensordict of batch size `bs`: which public method with which arguments -/
def opOfCall (c : LeafCall) (bs : Shape) : Op :=
  match c with
  | .permute dims => .permute (natsToInts (dims ++ List.range' dims.length (bs.length - dims.length)))
  | .transpose d0 d1 => .transpose d0 d1
  | .view shape n => .view (natsToInts (shape ++ bs.drop n))
  | .reshape shape n => .reshape (natsToInts (shape ++ bs.drop n))
  | .squeezeDims _ shape n => .view (natsToInts (shape ++ bs.drop n))     -- (not used for nested tensordicts: see `applyEntry`)
  | .squeeze d => .squeeze (some d)
  | .unsqueeze d => .unsqueeze d
  | .flatten a b => .flatten a b
  | .unflatten d sizes => .unflatten d sizes
  | .expand shape n =>
    let last := bs.length - n
    .expand (natsToInts (if last > 0 then shape ++ bs.drop (bs.length - last) else shape))

/-- the list without the positions in `ds` -/
def eraseDims {β : Type} (l : List β) (ds : List Nat) : List β :=
  (l.zipIdx.filter fun p => !ds.contains p.2).map (·.1)

/-- `unflatten` assigns names through the public setter after building the result
(_td.py: names.setter): all-`None` → erased; duplicates / wrong length → ValueError -/
def namesSetter (names : List (Option String)) (n : Nat) : Except Err Names :=
  -- `num_none == self.batch_dims` → erase (compares the number of `None`s with the batch rank, not the list length)
  if (names.filter (· == none)).length = n then .ok none
  else if (names.filter (· != none)).eraseDups.length ≠ (names.filter (· != none)).length then .error .value
  else if names.length ≠ n then .error .value
  else .ok (some names)

mutual
/-- a public single-result shape op on a tensordict node — _fast_apply/_apply_nest skeleton:
entries are visited in insertion order, the first raising call aborts the whole op -/
def tdNode {α : Type} (op : Op) (bs : Shape) (names : Names) (es : List (String × TD α)) :
    Except Err (TD α) := do
  match ← opMeta op bs names with
  | none => pure (.node bs names es)
  | some (bs', nm, call) =>
    let es' ← mapEntries call es
    match op with
    | .unflatten _ _ =>
      -- names assigned after the fact, only when the source has names
      match nm with
      | none => pure (.node bs' none es')
      | some l => do let nm' ← namesSetter l bs'.length; pure (.node bs' nm' es')
    | _ => pure (.node bs' (normNames nm) es')

def mapEntries {α : Type} (call : LeafCall) : List (String × TD α) → Except Err (List (String × TD α))
  | [] => pure []
  | (k, e) :: rest => do
    let e' ← applyEntry call e
    let rest' ← mapEntries call rest
    pure ((k, e') :: rest')

def applyEntry {α : Type} (call : LeafCall) : TD α → Except Err (TD α)
  | .leaf t => (applyLeaf call t).map .leaf
  | .node bs names es =>
    match call with
    | .squeezeDims ds _ _ => do
      -- `for d in reversed(squeezed_dims): tensor = tensor.squeeze(d)`: every squeezed dim is a size-1 batch dim of the nested
      -- tensordict too (prefix invariant), so the chain erases exactly those dims from its batch size and names, entry by entry
      let bs' := eraseDims bs ds
      let es' ← mapEntries (.squeezeDims ds bs' bs.length) es
      pure (.node bs' (normNames (names.map fun l => if l.isEmpty then l else eraseDims l ds)) es')
    | _ => tdNode (opOfCall call bs) bs names es
end

/-- the key structure of a tensordict (insertion-ordered, all depths) -/
inductive KeyTree where
  | leaf
  | node (es : List (String × KeyTree))

mutual
def keyTree {α : Type} : TD α → KeyTree
  | .leaf _ => .leaf
  | .node _ _ es => .node (keyList es)
def keyList {α : Type} : List (String × TD α) → List (String × KeyTree)
  | [] => []
  | (k, e) :: rest => (k, keyTree e) :: keyList rest
end

/-- an entry carries `bs` as a prefix of its shape / batch size (C01's prefix invariant, one level) -/
def PrefixOK {α : Type} (bs : Shape) : TD α → Prop
  | .leaf t => t.shape.take bs.length = bs
  | .node bs2 _ _ => bs2.take bs.length = bs

mutual
/-- every entry, at every depth, carries its parent's batch size as a prefix -/
def Coherent {α : Type} : TD α → Prop
  | .leaf _ => True
  | .node bs _ es => CoherentList bs es
def CoherentList {α : Type} (bs : Shape) : List (String × TD α) → Prop
  | [] => True
  | (_, e) :: rest => PrefixOK bs e ∧ Coherent e ∧ CoherentList bs rest
end

/-- the leaf calls whose effect on a whole coherent tree is proved in Props/C02 (`shape_op_coherent`):
the call, the batch size it is made for, the batch size it produces -/
inductive GoodCall : LeafCall → Shape → Shape → Prop
  | transpose (i j : Nat) (bs : Shape) : i < j → j < bs.length → GoodCall (.transpose i j) bs (swap bs i j)
  | unsqueeze (i : Nat) (bs : Shape) : i ≤ bs.length → GoodCall (.unsqueeze i) bs (bs.insertIdx i 1)
  | squeeze (i : Nat) (bs : Shape) : i < bs.length → bs.getD i 0 = 1 → GoodCall (.squeeze i) bs (bs.eraseIdx i)
  | flatten (a b : Nat) (bs : Shape) : a < b → b < bs.length →
      GoodCall (.flatten a b) bs (bs.take a ++ [prod ((bs.drop a).take (b + 1 - a))] ++ bs.drop (b + 1))
  | permute (p : List Nat) (bs : Shape) : p.Perm (List.range bs.length) → p ≠ List.range bs.length →
      GoodCall (.permute p) bs (p.map (fun i => bs.getD i 0))
  | view (sh bs : Shape) : prod sh = prod bs → sh ≠ bs → GoodCall (.view sh bs.length) bs sh
  | reshape (sh bs : Shape) : prod sh = prod bs → sh ≠ bs → GoodCall (.reshape sh bs.length) bs sh
  | expand (sh bs : Shape) : bs.length ≤ sh.length →
      (∀ i, i < bs.length → bs.getD i 0 = 1 ∨ sh.getD (sh.length - bs.length + i) 0 = bs.getD i 0) →
      GoodCall (.expand sh bs.length) bs sh

/-- public entry point; a bare leaf is not a tensordict -/
def tdOp {α : Type} (op : Op) : TD α → Except Err (TD α)
  | .leaf _ => .error .type
  | .node bs names es => tdNode op bs names es

/-! ### ops returning tuples: unbind, split, chunk -/

mutual
/-- _td.py:_unbind (dim already normalised): `batch_size[dim]` empty results, then every entry is
unbound (`val.unbind(dim)` for a tensor, `val._unbind(dim)` for a nested tensordict) and zipped
strictly onto them -/
def unbindNode {α : Type} (d : Nat) (bs : Shape) (names : Names) (es : List (String × TD α)) :
    Except Err (List (TD α)) := do
  let bs' := bs.eraseIdx d
  let nm : Names := match names with
    | none => none
    | some l => let l' := l.eraseIdx d; if l'.all (· == none) then none else some l'
  let n := bs.getD d 0
  let cols ← unbindEntries d n es
  pure ((List.range n).map fun i => TD.node bs' nm (cols.filterMap fun (k, l) => l[i]?.map (fun e => (k, e))))

def unbindEntries {α : Type} (d n : Nat) : List (String × TD α) → Except Err (List (String × List (TD α)))
  | [] => pure []
  | (k, e) :: rest => do
    let col ← unbindEntry d e
    if col.length ≠ n then throw .value   -- _zip_strict
    let rest' ← unbindEntries d n rest
    pure ((k, col) :: rest')

def unbindEntry {α : Type} (d : Nat) : TD α → Except Err (List (TD α))
  | .leaf t => (Torch.unbind d t).map (·.map .leaf)
  | .node bs names es => unbindNode d bs names es
end

/-- the pieces `(start, length)` of _td.py:split for an int `split_size` (after the fix) -/
def splitLoop (k max : Nat) : Nat → Nat → List (Nat × Nat)
  | 0, _ => []
  | fuel + 1, idx1 =>
    if idx1 < max then
      let nxt := min max (idx1 + k)
      (idx1, nxt - idx1) :: splitLoop k max fuel nxt
    else []

def splitPieces (k : Int) (max : Nat) : Except Err (List (Nat × Nat)) :=
  if k < 0 then .error .runtime
  else if k = 0 ∧ max ≠ 0 then .error .runtime
  else
    let idx1 := min max k.toNat
    .ok ((0, idx1) :: splitLoop k.toNat max max idx1)

/-- `ps` (pairs start, length) tiles the interval `[a, b)` in order, without gap or overlap -/
def Tiles : List (Nat × Nat) → Nat → Nat → Prop
  | [], a, b => a = b
  | (s, l) :: ps, a, b => s = a ∧ Tiles ps (a + l) b

/-- the list branch: first entry clamped, later entries clamped, undershoot rejected -/
def splitListLoop (max : Nat) : List Nat → Nat → List (Nat × Nat) × Nat
  | [], idx1 => ([], idx1)
  | s :: rest, idx1 =>
    let nxt := min max (idx1 + s)
    let (ps, last) := splitListLoop max rest nxt
    ((idx1, nxt - idx1) :: ps, last)

def splitListPieces (sizes : List Int) (max : Nat) : Except Err (List (Nat × Nat)) :=
  match sizes with
  | [] => .error .runtime
  | s0 :: rest =>
    if sizes.any (· < 0) then .error .runtime
    else
      let idx1 := min max s0.toNat
      let (ps, last) := splitListLoop max (rest.map Int.toNat) idx1
      if last < max then .error .runtime else .ok ((0, idx1) :: ps)

/-- _td.py:_index_tensordict with index `(:,)*d + (slice(start, start+len),)` and a precomputed
batch size: leaves are indexed, nested tensordicts get `new_batch_size + item.batch_size[batch_dims:]` -/
def narrowNode {α : Type} (d start len : Nat) (newBs : Shape) (names : Names) (oldRank : Nat) :
    List (String × TD α) → TD α :=
  fun es => .node newBs names (go es)
where
  go : List (String × TD α) → List (String × TD α)
    | [] => []
    | (k, .leaf t) :: rest => (k, .leaf (t.narrow d start len)) :: go rest
    | (k, .node bs nm es) :: rest =>
      (k, narrowNode d start len (newBs ++ bs.drop oldRank) nm bs.length es) :: go rest

def splitNode {α : Type} (pieces : List (Nat × Nat)) (d : Nat) (bs : Shape) (names : Names)
    (es : List (String × TD α)) : List (TD α) :=
  pieces.map fun (start, len) => narrowNode d start len (bs.set d len) names bs.length es

def tdMOp {α : Type} (op : MOp) : TD α → Except Err (List (TD α))
  | .leaf _ => .error .type
  | .node bs names es =>
    match op with
    | .unbind d => do
      -- base.py:unbind
      let nd ← maybeCorrectNegDim d bs.length
      unbindNode nd bs names es
    | .split k d => do
      let nd ← maybeCorrectNegDim d bs.length
      let ps ← splitPieces k (bs.getD nd 0)
      pure (splitNode ps nd bs names es)
    | .splitList sizes d => do
      let nd ← maybeCorrectNegDim d bs.length
      let ps ← splitListPieces sizes (bs.getD nd 0)
      pure (splitNode ps nd bs names es)
    | .chunk chunks d => do
      -- base.py:chunk: `chunks < 1` → ValueError; `self.batch_size[dim]` with the raw dim
      if chunks < 1 then throw .value
      let n ← match pyIndex bs d with | some n => pure n | none => throw .index
      let splitSize := (n + chunks.toNat - 1) / chunks.toNat
      let nd ← maybeCorrectNegDim d bs.length
      if splitSize = 0 then
        let ps ← splitListPieces (List.replicate chunks.toNat 0) (bs.getD nd 0)
        pure (splitNode ps nd bs names es)
      else
        let ps ← splitPieces splitSize (bs.getD nd 0)
        pure (splitNode ps nd bs names es)

/-! ### repeat / repeat_interleave / stack / cat -/

mutual
/-- base.py:repeat → _td.py:_repeat (after the names fix and the negative-repeats fix): every leaf gets
`leaf.repeat(*repeats, *((1,) * (leaf.ndim - self.ndim)))`, a nested tensordict the same call -/
def repeatNode {α : Type} (reps : List Int) (bs : Shape) (names : Names) (es : List (String × TD α)) : Except Err (TD α) :=
  if reps.length ≠ bs.length then .error .value
  else if reps.any (· < 0) then .error .runtime
  else
    match repeatEntries (reps.map Int.toNat) bs.length es with
    | .error e => .error e
    | .ok es' => .ok (.node (List.zipWith (· * ·) bs (reps.map Int.toNat)) (normNames names) es')
termination_by (sizeOf es, 1)

def repeatEntries {α : Type} (r : List Nat) (n : Nat) : List (String × TD α) → Except Err (List (String × TD α))
  | [] => .ok []
  | (k, e) :: rest =>
    match repeatEntry r n e with
    | .error err => .error err
    | .ok e' => match repeatEntries r n rest with
      | .error err => .error err
      | .ok rest' => .ok ((k, e') :: rest')
termination_by es => (sizeOf es, 0)

def repeatEntry {α : Type} (r : List Nat) (n : Nat) : TD α → Except Err (TD α)
  | .leaf t => if t.rank < n then .error .runtime else .ok (.leaf (t.repeat (r ++ List.replicate (t.rank - n) 1)))
  | .node bs2 nm2 es2 => repeatNode (natsToInts (r ++ List.replicate (bs2.length - n) 1)) bs2 nm2 es2
termination_by e => (sizeOf e, 0)
end

mutual
/-- _td.py:repeat_interleave with an explicit `dim` on a batch of rank ≥ 1 (after the dim range-check fix and the
negative-repeats fix); `dim=None` and the 0-d batch go through reshape/unsqueeze first and are oracle-only -/
def riNode {α : Type} (r : Int) (d : Int) (bs : Shape) (names : Names) (es : List (String × TD α)) : Except Err (TD α) :=
  let dc : Int := if d ≥ 0 then d else bs.length + d
  if ¬ (0 ≤ dc ∧ dc < bs.length) then .error .value
  else if r < 0 then .error .runtime
  else
    match riEntries r.toNat dc.toNat es with
    | .error e => .error e
    | .ok es' => .ok (.node (bs.modify dc.toNat (· * r.toNat)) (normNames names) es')
termination_by (sizeOf es, 1)

def riEntries {α : Type} (r dc : Nat) : List (String × TD α) → Except Err (List (String × TD α))
  | [] => .ok []
  | (k, e) :: rest =>
    match riEntry r dc e with
    | .error err => .error err
    | .ok e' => match riEntries r dc rest with
      | .error err => .error err
      | .ok rest' => .ok ((k, e') :: rest')
termination_by es => (sizeOf es, 0)

def riEntry {α : Type} (r dc : Nat) : TD α → Except Err (TD α)
  | .leaf t => if dc < t.rank then .ok (.leaf (t.repeatInterleave r dc)) else .error .index
  | .node bs2 nm2 es2 => riNode r dc bs2 nm2 es2
termination_by e => (sizeOf e, 0)
end

mutual
/-- _td.py:repeat_interleave with a TENSOR of repeats (≥ 2 elements, or none) and an explicit dim on a batch of rank ≥ 1: one count per position
along `dim` (`repeats.numel() != dim_size` → RuntimeError), the new size is their sum; every leaf gets the same torch call, a nested
tensordict the same method -/
def riListNode {α : Type} (rs : List Nat) (d : Int) (bs : Shape) (names : Names) (es : List (String × TD α)) : Except Err (TD α) :=
  let dc : Int := if d ≥ 0 then d else bs.length + d
  if ¬ (0 ≤ dc ∧ dc < bs.length) then .error .value
  else if rs.length ≠ bs.getD dc.toNat 0 then .error .runtime
  else
    match riListEntries rs dc.toNat es with
    | .error e => .error e
    | .ok es' => .ok (.node (bs.set dc.toNat rs.sum) (normNames names) es')
termination_by (sizeOf es, 1)

def riListEntries {α : Type} (rs : List Nat) (dc : Nat) : List (String × TD α) → Except Err (List (String × TD α))
  | [] => .ok []
  | (k, e) :: rest =>
    match riListEntry rs dc e with
    | .error err => .error err
    | .ok e' => match riListEntries rs dc rest with
      | .error err => .error err
      | .ok rest' => .ok ((k, e') :: rest')
termination_by es => (sizeOf es, 0)

def riListEntry {α : Type} (rs : List Nat) (dc : Nat) : TD α → Except Err (TD α)
  | .leaf t => if ¬ (dc < t.rank) then .error .index
               else if rs.length ≠ t.shape.getD dc 0 then .error .runtime
               else .ok (.leaf (T.repeatInterleaveL rs dc t))
  | .node bs2 nm2 es2 => riListNode rs dc bs2 nm2 es2
termination_by e => (sizeOf e, 0)
end

/-- the public `repeat_interleave(r, dim)` (_td.py:repeat_interleave, top of the function): a 0-d batch is unsqueezed first
(`self.unsqueeze(0).repeat_interleave(…)`); with `dim=None` a batch of rank > 1 is flattened with `reshape(-1)`, then dim 0 -/
def riPublic {α : Type} (r : Int) (d : Option Int) (bs : Shape) (names : Names) (es : List (String × TD α)) : Except Err (TD α) :=
  if bs.length = 0 then
    match tdNode (.unsqueeze 0) bs names es with
    | .error e => .error e
    | .ok (.leaf _) => .error .type
    | .ok (.node bs1 n1 e1) => riNode r (d.getD 0) bs1 n1 e1
  else
    match d with
    | some d => riNode r d bs names es
    | none =>
      if bs.length > 1 then
        match tdNode (.reshape [-1]) bs names es with
        | .error e => .error e
        | .ok (.leaf _) => .error .type
        | .ok (.node bs1 n1 e1) => riNode r 0 bs1 n1 e1
      else riNode r 0 bs names es

/-! ### torch.stack / torch.cat of tensordicts (dense result; _torch_func.py:_stack / _cat after the dim range-check fixes) -/

def lookupEntry {α : Type} (k : String) : List (String × TD α) → Option (TD α)
  | [] => none
  | (k', e) :: rest => if k' = k then some e else lookupEntry k rest

def asLeaf {α : Type} : TD α → Option (T α)
  | .leaf t => some t
  | .node _ _ _ => none

/-- `set(td.keys())` of every operand equals the first one's (`_check_keys(strict=True)`) -/
def sameKeySets {α : Type} (first : List (String × TD α)) (others : List (List (String × TD α))) : Bool :=
  others.all fun es => (es.map (·.1)).all (fun k => (first.map (·.1)).contains k) && (first.map (·.1)).all (fun k => (es.map (·.1)).contains k)

mutual
/-- one level of `_stack`: operands already known to be nodes; `dim` already normalised against the first operand -/
def stackLevel {α : Type} [Inhabited α] (dim : Nat) (bs : Shape) (names : Names) (first : List (String × TD α))
    (others : List (Shape × List (String × TD α))) : Except Err (TD α) :=
  if dim > bs.length then .error .index
  else if others.any (fun o => o.1 ≠ bs) then .error .runtime      -- "congruent batch sizes"
  else if ¬ sameKeySets first (others.map (·.2)) then .error .runtime   -- "The sets of keys … are exclusive"
  else
    match stackEntries dim first (others.map (·.2)) with
    | .error e => .error e
    | .ok es' =>
      let nm : Names := names.map (fun l => l.insertIdx dim none)
      .ok (.node (bs.insertIdx dim (others.length + 1)) (normNames nm) es')
termination_by (sizeOf first, 1)

def stackEntries {α : Type} [Inhabited α] (dim : Nat) : List (String × TD α) → List (List (String × TD α)) →
    Except Err (List (String × TD α))
  | [], _ => .ok []
  | (k, e) :: rest, others =>
    match stackEntry dim e (others.filterMap (lookupEntry k)) with
    | .error err => .error err
    | .ok e' => match stackEntries dim rest others with
      | .error err => .error err
      | .ok rest' => .ok ((k, e') :: rest')
termination_by es _ => (sizeOf es, 0)

def stackEntry {α : Type} [Inhabited α] (dim : Nat) : TD α → List (TD α) → Except Err (TD α)
  | .leaf t, vals =>
    -- every operand must hold a tensor of the same shape here; then `torch.stack(values, dim)`
    match vals.mapM asLeaf with
    | none => .error .runtime
    | some ts => if ts.any (fun u => u.shape ≠ t.shape) then .error .runtime
                 else .ok (.leaf (T.stack (t :: ts) dim))
  | .node bs2 nm2 es2, vals =>
    -- nested: `_stack(values, dim)` on the nested tensordicts
    match vals.mapM (fun v => match v with | .node b _ es => some (b, es) | .leaf _ => none) with
    | none => .error .runtime
    | some os => stackLevel dim bs2 nm2 es2 os
termination_by e _ => (sizeOf e, 0)
end

/-- `torch.stack(list_of_tensordicts, dim)` -/
def tdStack {α : Type} [Inhabited α] (d : Int) : List (TD α) → Except Err (TD α)
  | [] => .error .runtime
  | .leaf _ :: _ => .error .type
  | .node bs names es :: rest =>
    let dim : Int := if d < 0 then bs.length + d + 1 else d
    if dim < 0 ∨ dim > bs.length then .error .index
    else match rest.mapM (fun v => match v with | .node b _ es => some (b, es) | .leaf _ => none) with
      | none => .error .type
      | some os => stackLevel dim.toNat bs names es os

mutual
/-- one level of `_cat` -/
def catLevel {α : Type} [Inhabited α] (d : Int) (bs : Shape) (names : Names) (first : List (String × TD α))
    (others : List (Shape × List (String × TD α))) : Except Err (TD α) :=
  let dim : Int := if d < 0 then bs.length + d else d
  if dim < 0 ∨ dim ≥ bs.length then .error .runtime
  else if others.any (fun o => o.1.length ≤ dim.toNat) then .error .index     -- `td.batch_size[dim]`
  else if ¬ sameKeySets first (others.map (·.2)) then .error .key            -- `_check_keys(strict=True)` → KeyError
  else
    match catEntries dim.toNat first (others.map (·.2)) with
    | .error e => .error e
    | .ok es' =>
      let total := bs.getD dim.toNat 0 + (others.map (fun o => o.1.getD dim.toNat 0)).sum
      .ok (.node (bs.set dim.toNat total) names es')
termination_by (sizeOf first, 1)

def catEntries {α : Type} [Inhabited α] (dim : Nat) : List (String × TD α) → List (List (String × TD α)) →
    Except Err (List (String × TD α))
  | [], _ => .ok []
  | (k, e) :: rest, others =>
    match catEntry dim e (others.filterMap (lookupEntry k)) with
    | .error err => .error err
    | .ok e' => match catEntries dim rest others with
      | .error err => .error err
      | .ok rest' => .ok ((k, e') :: rest')
termination_by es _ => (sizeOf es, 0)

def catEntry {α : Type} [Inhabited α] (dim : Nat) : TD α → List (TD α) → Except Err (TD α)
  | .leaf t, vals =>
    -- `torch.cat(items, dim)`: same rank, same sizes except along `dim`
    match vals.mapM asLeaf with
    | none => .error .runtime
    | some ts =>
      if ts.any (fun u => u.shape.length ≠ t.shape.length ∨ u.shape.set dim 0 ≠ t.shape.set dim 0) then .error .runtime
      else .ok (.leaf (T.cat (t :: ts) dim))
  | .node bs2 nm2 es2, vals =>
    match vals.mapM (fun v => match v with | .node b _ es => some (b, es) | .leaf _ => none) with
    | none => .error .runtime
    | some os => catLevel dim bs2 nm2 es2 os
termination_by e _ => (sizeOf e, 0)
end

/-- `torch.cat(list_of_tensordicts, dim)` -/
def tdCat {α : Type} [Inhabited α] (d : Int) : List (TD α) → Except Err (TD α)
  | [] => .error .runtime
  | .leaf _ :: _ => .error .type
  | .node bs names es :: rest =>
    match rest.mapM (fun v => match v with | .node b _ es => some (b, es) | .leaf _ => none) with
    | none => .error .type
    | some os => catLevel d bs names es os

/-! ### torch.gather of a tensordict (_torch_func.py:_gather) -/

/-- _torch_func.py:_gather_tensor — the index is unsqueezed at the end up to the rank of the entry and expanded to the entry's
shape (with the index's size along `dim`): it is read at the leading coordinates -/
def indexExpand (index : T Nat) (leafShape : Shape) (d : Nat) : T Nat :=
  ⟨leafShape.set d (index.shape.getD d 0), fun c => index.get (c.take index.shape.length)⟩


mutual
/-- _torch_func.py:_gather (after the index-size fix), for an index of the batch rank (what the harness generates) -/
def gatherNode {α : Type} (d : Int) (index : T Nat) (bs : Shape) (names : Names) (es : List (String × TD α)) : Except Err (TD α) :=
  match index.shape with
  | [] => .error .type                          -- `len(index)` of a 0-d tensor
  | s0 :: _ =>
    if s0 = 0 then .error .runtime              -- "Cannot use torch.gather with an empty index"
    else
      let dim : Int := if d < 0 then bs.length + d else d
      if dim > (bs.length : Int) - 1 ∨ dim < 0 then .error .runtime
      else if (List.range (min index.shape.length bs.length)).any (fun i => i ≠ dim.toNat ∧ index.shape.getD i 0 ≠ bs.getD i 0)
        then .error .runtime
      else
        match gatherEntries dim.toNat index es with
        | .error e => .error e
        | .ok es' => .ok (.node index.shape (if index.shape.length = bs.length then normNames names else none) es')
termination_by (sizeOf es, 1)

def gatherEntries {α : Type} (dim : Nat) (index : T Nat) : List (String × TD α) → Except Err (List (String × TD α))
  | [] => .ok []
  | (k, e) :: rest =>
    match gatherEntry dim index e with
    | .error err => .error err
    | .ok e' => match gatherEntries dim index rest with
      | .error err => .error err
      | .ok rest' => .ok ((k, e') :: rest')
termination_by es => (sizeOf es, 0)

/-- `_gather_tensor`: the index unsqueezed / expanded to the entry, then `torch.gather` (a nested tensordict: the same function again) -/
def gatherEntry {α : Type} (dim : Nat) (index : T Nat) : TD α → Except Err (TD α)
  | .leaf t =>
    if index.shape.length > t.shape.length then .error .runtime
    else match Torch.gather dim (indexExpand index t.shape dim) t with
      | .error e => .error e
      | .ok r => .ok (.leaf r)
  | .node bs2 nm2 es2 =>
    if index.shape.length > bs2.length then .error .runtime
    else gatherNode dim (indexExpand index bs2 dim) bs2 nm2 es2
termination_by e => (sizeOf e, 0)
end


/-! ### masked_select (_td.py:masked_select) -/

mutual
/-- _td.py:masked_select (after the names fix) for a mask over the leading `k ≤ n` batch dims: every entry is indexed by the mask;
the result is a new TensorDict of batch `[count] ++ bs.drop k` named `[None] ++ names.drop k` -/
def mselNode {α : Type} (mask : T Bool) (bs : Shape) (names : Names) (es : List (String × TD α)) : Except Err (TD α) :=
  if mask.shape.length > bs.length then .error .assertion    -- (trailing singleton dims of the mask are squeezed: not modelled)
  else if bs.take mask.shape.length ≠ mask.shape then .error .index   -- (after the fix) checked up front, also without tensor entries
  else
    match mselEntries mask es with
    | .error e => .error e
    | .ok es' =>
      .ok (.node ((T.maskSel mask).length :: bs.drop mask.shape.length)
            (normNames (names.map fun l => none :: l.drop mask.shape.length)) es')
termination_by (sizeOf es, 1)

def mselEntries {α : Type} (mask : T Bool) : List (String × TD α) → Except Err (List (String × TD α))
  | [] => .ok []
  | (k, e) :: rest =>
    match mselEntry mask e with
    | .error err => .error err
    | .ok e' => match mselEntries mask rest with
      | .error err => .error err
      | .ok rest' => .ok ((k, e') :: rest')
termination_by es => (sizeOf es, 0)

/-- `value[mask]`: torch boolean indexing on a leaf (the mask must match the leading dims: IndexError otherwise), tensordict
indexing on a nested tensordict (same rule, recursively) -/
def mselEntry {α : Type} (mask : T Bool) : TD α → Except Err (TD α)
  | .leaf t => if t.shape.take mask.shape.length ≠ mask.shape then .error .index else .ok (.leaf (T.maskedSelect mask t))
  | .node bs2 nm2 es2 => if bs2.take mask.shape.length ≠ mask.shape then .error .index else mselNode mask bs2 nm2 es2
termination_by e => (sizeOf e, 0)
end


/-! ### predicates for the whole-tree statements about several operands (torch.cat) -/

/-- operands (entries) together with their batch sizes: every operand is coherent -/
def OpsOK {α : Type} (obs : List Shape) (others : List (List (String × TD α))) : Prop :=
  obs.length = others.length ∧ ∀ p ∈ others.zip obs, CoherentList p.2 p.1

/-- the values found for one key in the operands, with the operands' batch sizes -/
def ValsOK {α : Type} (dim : Nat) (obs : List Shape) (vals : List (TD α)) : Prop :=
  obs.length = vals.length ∧ ∀ p ∈ vals.zip obs, dim < p.2.length ∧ PrefixOK p.2 p.1 ∧ Coherent p.1

def nodeView {α : Type} : TD α → Option (Shape × List (String × TD α))
  | .node b _ es => some (b, es)
  | .leaf _ => none


/-! ### well-named trees (hypothesis of the whole-tree `unflatten` theorem) -/

/-- the names of a node fit its batch rank and are pairwise different where given (what the names setter enforces) -/
def NamesOK (names : Names) (n : Nat) : Prop :=
  match names with
  | none => True
  | some l => l.length = n ∧ (l.filter (· != none)).Nodup

mutual
/-- every node of the tree has names that fit its own batch rank (what the names setter enforces on every tensordict) -/
def Named : TD α → Prop
  | .leaf _ => True
  | .node bs names es => NamesOK names bs.length ∧ NamedList es
def NamedList : List (String × TD α) → Prop
  | [] => True
  | (_, e) :: rest => Named e ∧ NamedList rest
end

/-- every column has `n` elements, each coherent and carrying `bs'` as a prefix -/
def ColsOK (bs' : Shape) (n : Nat) (cols : List (String × List (TD α))) : Prop :=
  ∀ c ∈ cols, c.2.length = n ∧ ∀ e ∈ c.2, PrefixOK bs' e ∧ Coherent e


end TdVerif.C02
