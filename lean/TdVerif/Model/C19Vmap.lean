/-
  C19 — vmap over tensordicts.

  Layer 1 (tensors as coordinate maps, F2 of DESIGN): `T = (shape, get)`, `select/unbind/stack/movedim`;
  `BT = (data, bdim)` is functorch's BatchedTensor at one level: a physical tensor and the physical
  dimension that is hidden; `addBDLeaf/removeBDLeaf` are functorch's
  `torch._C._functorch._add_batch_dim(t, in_dim, level)` / `_remove_batch_dim(t, level, B, out_dim)`
  (ASSUMED primitive: validated on plain tensors by the differential job of check_C19.py, not proved).

  Layer 2 (tensordicts):
    `addBD`     mirrors tensordict/_td.py:TensorDict._add_batch_dim   (batch_size and names lose entry
                `in_dim`; every leaf is wrapped with the same in_dim; nested nodes share in_dim)
    `removeBD`  mirrors tensordict/_td.py:TensorDict._remove_batch_dim / _maybe_remove_batch_dim
                (`new_batch_size.insert(out_dim, B)`, `new_names.insert(out_dim, None)`, every leaf
                unwrapped at out_dim)
    `normInDim` mirrors tensordict/nn/functional_modules.py:_process_batched_inputs
                (`flat_in_dims[i] = in_dim % arg.dim()` for negative in_dim)
    `normOutDim` mirrors the normalisation of a negative `out_dim` against the tensordict's
                batch rank (+1) in `_remove_batch_dim` (fix: commit of this round);
                `pyInsertPos` is Python's `list.insert` index rule, used to state what the
                un-normalised code did.
    `TOp`       a tensordict operation executed inside the vmapped function: metadata transformer
                (batch, names) and per-sample leaves transformer; `runB` is its execution on the
                batched tensordict (metadata once, leaves through functorch = per sample).
    memo        `_add_batch_dim` is `@cache`d on locked tensordicts, keyed (in_dim, vmap_level).
-/
namespace TdVerif.C19

abbrev Shape := List Nat

structure T where
  shape : Shape
  get : List Nat → Int

instance : Inhabited T := ⟨⟨[], fun _ => 0⟩⟩

/-- coordinate `c` addresses an element of a tensor of shape `s` -/
def InB (c : List Nat) (s : Shape) : Prop := c.length = s.length ∧ ∀ j, j < s.length → c.getD j 0 < s.getD j 0

/-- equal as tensors: same shape, same element at every in-bounds coordinate -/
def T.Eqv (a b : T) : Prop := a.shape = b.shape ∧ ∀ c, InB c a.shape → a.get c = b.get c

/-- `t.select(d, k)` -/
def select (t : T) (d k : Nat) : T := ⟨t.shape.eraseIdx d, fun c => t.get (c.insertIdx d k)⟩

/-- `t.unbind(d)` -/
def unbind (t : T) (d : Nat) : List T := (List.range (t.shape.getD d 0)).map (select t d)

/-- `torch.stack(ts, d)` (element shape taken from the first member) -/
def stack (ts : List T) (d : Nat) : T :=
  ⟨(ts.headD default).shape.insertIdx d ts.length, fun c => (ts.getD (c.getD d 0) default).get (c.eraseIdx d)⟩

/-- `t.movedim(src, dst)` -/
def movedim (t : T) (src dst : Nat) : T :=
  ⟨(t.shape.eraseIdx src).insertIdx dst (t.shape.getD src 0),
   fun c => t.get ((c.eraseIdx dst).insertIdx src (c.getD dst 0))⟩

/-- the specification of vmap on one tensor: slice along `i`, apply, stack in front, move to `o` -/
def vmapSpec (f : T → T) (i o : Nat) (x : T) : T := movedim (stack ((unbind x i).map f) 0) 0 o

/-! ### batched tensors (one vmap level) -/

structure BT where
  data : T
  bdim : Nat

def BT.size (x : BT) : Nat := x.data.shape.getD x.bdim 0
def BT.sample (x : BT) (k : Nat) : T := select x.data x.bdim k
def BT.samples (x : BT) : List T := (List.range x.size).map x.sample
/-- functorch returns the result of a batched operation batched in front -/
def BT.ofSamples (ts : List T) : BT := ⟨stack ts 0, 0⟩
def addBDLeaf (i : Nat) (t : T) : BT := ⟨t, i⟩
def removeBDLeaf (o : Nat) (x : BT) : T := movedim x.data x.bdim o
/-- a function of one tensor executed on a batched tensor -/
def liftBT (g : T → T) (x : BT) : BT := BT.ofSamples (x.samples.map g)

/-! ### tensordicts -/

abbrev Names := List (Option String)
abbrev Leaves := List (String × T)

structure TD where
  batch : Shape
  names : Names
  leaves : Leaves

/-- the batched tensordict seen by the vmapped function at one level: metadata without the batch
dimension, `size` samples; `sample k` are the leaves of sample `k` (functorch semantics of the wrapped leaves) -/
structure BTD where
  batch : Shape
  names : Names
  size : Nat
  level : Nat
  sample : Nat → Leaves

def TD.sel (td : TD) (i k : Nat) : TD :=
  ⟨td.batch.eraseIdx i, td.names.eraseIdx i, td.leaves.map (fun p => (p.1, select p.2 i k))⟩

/-- `td.unbind(i)` -/
def unbindTD (td : TD) (i : Nat) : List TD := (List.range (td.batch.getD i 0)).map (td.sel i)

def addBD (i level : Nat) (td : TD) : BTD :=
  ⟨td.batch.eraseIdx i, td.names.eraseIdx i, td.batch.getD i 0, level, fun k => (td.sel i k).leaves⟩

/-- leaves of the unwrapped result: leaf `j` is the stack at `o` of leaf `j` of every sample -/
def stackLeaves (samples : List Leaves) (o : Nat) : Leaves :=
  (samples.headD []).zipIdx.map (fun (p : (String × T) × Nat) =>
    (p.1.1, stack (samples.map (fun l => (l.getD p.2 default).2)) o))

def removeBD (o : Nat) (b : BTD) : TD :=
  ⟨b.batch.insertIdx o b.size, b.names.insertIdx o none, stackLeaves ((List.range b.size).map b.sample) o⟩

/-! ### vmap dimensions of size 0 -/

/-- `torch.stack` with the element shape given explicitly: also meaningful for an empty list (functorch
runs the function once on batched tensors of size 0, so the result shapes exist although there is no sample) -/
def stackT (tshape : Shape) (ts : List T) (d : Nat) : T :=
  ⟨tshape.insertIdx d ts.length, fun c => (ts.getD (c.getD d 0) default).get (c.eraseIdx d)⟩

def stackLeavesT (template : Leaves) (samples : List Leaves) (o : Nat) : Leaves :=
  template.zipIdx.map (fun (p : (String × T) × Nat) =>
    (p.1.1, stackT p.1.2.shape (samples.map (fun l => (l.getD p.2 default).2)) o))

/-- `_remove_batch_dim` with the result structure read off the batched tensordict itself (`sample 0` is what the
function computed on the batched leaves; for a vmap size of 0 it is never read at an in-bounds coordinate) -/
def removeBDT (o : Nat) (b : BTD) : TD :=
  ⟨b.batch.insertIdx o b.size, b.names.insertIdx o none, stackLeavesT (b.sample 0) ((List.range b.size).map b.sample) o⟩

/-- `torch.stack(tds, o)` -/
def stackTD (tds : List TD) (o : Nat) : TD :=
  ⟨(tds.headD ⟨[], [], []⟩).batch.insertIdx o tds.length, (tds.headD ⟨[], [], []⟩).names.insertIdx o none,
   stackLeaves (tds.map (·.leaves)) o⟩

/-- an operation of the vmapped function: how it changes the batch size, the names, and the leaves
(the leaves of the result may depend on the batch size and on all leaves, not on the names) -/
structure TOp where
  bs : Shape → Shape
  nm : Shape → Names → Names
  lv : Shape → Leaves → Leaves

def TOp.run (op : TOp) (td : TD) : TD := ⟨op.bs td.batch, op.nm td.batch td.names, op.lv td.batch td.leaves⟩

/-- the same operation executed once on the batched tensordict: metadata once, leaves through
functorch, i.e. per sample -/
def TOp.runB (op : TOp) (b : BTD) : BTD :=
  ⟨op.bs b.batch, op.nm b.batch b.names, b.size, b.level, fun k => op.lv b.batch (b.sample k)⟩

def runProg (p : List TOp) (td : TD) : TD := p.foldl (fun t op => op.run t) td
def runProgB (p : List TOp) (b : BTD) : BTD := p.foldl (fun t op => op.runB t) b
def bsProg (p : List TOp) (b : Shape) : Shape := p.foldl (fun t op => op.bs t) b
def nmProg (p : List TOp) (b : Shape) (n : Names) : Names := (p.foldl (fun (t : Shape × Names) op => (op.bs t.1, op.nm t.1 t.2)) (b, n)).2

def BTD.sampleTD (b : BTD) (k : Nat) : TD := ⟨b.batch, b.names, b.sample k⟩

/-- the code path of `torch.vmap(f, in_dims=i, out_dims=o)(td)` for `f` = program `p` -/
def vmapTD (p : List TOp) (i o level : Nat) (td : TD) : TD := removeBD o (runProgB p (addBD i level td))

/-- the same with `removeBDT`: defined for every vmap size, 0 included -/
def vmapTDT (p : List TOp) (i o level : Nat) (td : TD) : TD := removeBDT o (runProgB p (addBD i level td))

/-- the inner vmap of a nested vmap, as an operation of the outer function -/
def vmapOp (p : List TOp) (i o level : Nat) : TOp :=
  ⟨fun b => (bsProg p (b.eraseIdx i)).insertIdx o (b.getD i 0),
   fun b n => (nmProg p (b.eraseIdx i) (n.eraseIdx i)).insertIdx o none,
   fun b leaves => (vmapTD p i o level ⟨b, [], leaves⟩).leaves⟩

/-! ### several arguments, `in_dims=None` for some of them -/

/-- an argument with `in_dims=None`: `_create_batched_inputs` passes `arg.clone(False)` — the same
(un-batched) tensordict for every sample -/
def constBD (size level : Nat) (td : TD) : BTD := ⟨td.batch, td.names, size, level, fun _ => td.leaves⟩

def addBDOpt (i : Option Nat) (size level : Nat) (td : TD) : BTD :=
  match i with
  | some i => addBD i level td
  | none => constBD size level td

/-- slice `k` of an argument along its in_dim, or the argument itself for `None` -/
def selOpt (td : TD) (i : Option Nat) (k : Nat) : TD :=
  match i with
  | some i => td.sel i k
  | none => td

/-- an operation of two tensordicts (e.g. `a.apply(fn, b)`) -/
structure TOp2 where
  bs : Shape → Shape → Shape
  nm : Shape → Shape → Names → Names → Names
  lv : Shape → Shape → Leaves → Leaves → Leaves

def TOp2.run (op : TOp2) (a b : TD) : TD :=
  ⟨op.bs a.batch b.batch, op.nm a.batch b.batch a.names b.names, op.lv a.batch b.batch a.leaves b.leaves⟩

def TOp2.runB (op : TOp2) (a b : BTD) : BTD :=
  ⟨op.bs a.batch b.batch, op.nm a.batch b.batch a.names b.names, a.size, a.level,
   fun k => op.lv a.batch b.batch (a.sample k) (b.sample k)⟩

/-- `torch.vmap(f, in_dims=(i1, i2), out_dims=o)(a, b)` for `f(a, b) = p(op(a, b))`; `size` is the vmap size
(`_validate_and_get_batch_size`) -/
def vmapTD2 (op : TOp2) (p : List TOp) (i1 i2 : Option Nat) (o size level : Nat) (a b : TD) : TD :=
  removeBD o (runProgB p (op.runB (addBDOpt i1 size level a) (addBDOpt i2 size level b)))

/-! ### nested vmaps of any depth -/

/-- the function `vmap(vmap(… vmap(p, i_n, o_n) …, i_2, o_2), i_1, o_1)` as a program: `dims` lists the
(in_dim, out_dim) pairs outermost first, levels count up from `lvl` -/
def nestProg : List (Nat × Nat) → List TOp → Nat → List TOp
  | [], p, _ => p
  | (i, o) :: rest, p, lvl => [vmapOp (nestProg rest p (lvl + 1)) i o lvl]

/-- the nested per-sample loop: stack over the slices along `i_1` of (stack over the slices along `i_2` of …) -/
def loopSpec : List (Nat × Nat) → (TD → TD) → TD → TD
  | [], f, td => f td
  | (i, o) :: rest, f, td => stackTD ((unbindTD td i).map (loopSpec rest f)) o

/-- every vmapped dimension along the nesting is non-empty -/
def SizesPos : List (Nat × Nat) → Shape → Prop
  | [], _ => True
  | (i, _) :: rest, b => 0 < b.getD i 0 ∧ SizesPos rest (b.eraseIdx i)

/-! ### dimension normalisation -/

/-- `in_dim % arg.dim()` (Python modulo: result in [0, r)) -/
def normInDim (d : Int) (r : Nat) : Nat := (d % (r : Int)).toNat

/-- negative `out_dim` counted from the end of the *output* batch (rank r + 1) -/
def normOutDim (d : Int) (r : Nat) : Nat := if d < 0 then (d + (r : Int) + 1).toNat else d.toNat

/-- position at which Python's `list.insert(d, x)` puts `x` in a list of length `n` -/
def pyInsertPos (d : Int) (n : Nat) : Nat :=
  if d < 0 then (if d + (n : Int) < 0 then 0 else (d + (n : Int)).toNat) else (if d.toNat > n then n else d.toNat)

/-- where functorch's `_remove_batch_dim` puts the batch dimension of a leaf of logical rank `n`
(wraps a negative `out_dim` against the leaf's own rank + 1) -/
def leafOutPos (d : Int) (n : Nat) : Nat := if d < 0 then (d + (n : Int) + 1).toNat else d.toNat

/-- `_remove_batch_dim` as it was before the normalisation: metadata by `list.insert`, leaves by functorch -/
def removeBDRaw (o : Int) (b : BTD) : TD :=
  ⟨b.batch.insertIdx (pyInsertPos o b.batch.length) b.size, b.names.insertIdx (pyInsertPos o b.names.length) none,
   (((List.range b.size).map b.sample).headD []).zipIdx.map (fun (p : (String × T) × Nat) =>
     (p.1.1, stack (((List.range b.size).map b.sample).map (fun l => (l.getD p.2 default).2))
        (leafOutPos o ((((List.range b.size).map b.sample).headD []).getD p.2 default).2.shape.length)))⟩

/-! ### nested tensordicts of the output with more batch dimensions than their parent -/

/-- a nested node of the output whose batch size is `parent.batch ++ ext`: `_remove_batch_dim` /
`_maybe_remove_batch_dim` hand the *already normalised* `out_dim` down, so the vmap size is inserted at
the same position as in the parent -/
def removeBDNode (o size : Nat) (nb : Shape) : Shape := nb.insertIdx o size

/-- handing the raw (negative) `out_dim` down instead: the node would normalise it against its own, larger rank -/
def removeBDNodeRaw (o : Int) (size : Nat) (nb : Shape) : Shape := nb.insertIdx (normOutDim o nb.length) size

/-- every leaf's leading dimensions are the batch size -/
def TD.coherentB (td : TD) : Bool := td.leaves.all (fun p => p.2.shape.take td.batch.length == td.batch)
def TD.Coherent (td : TD) : Prop := ∀ p ∈ td.leaves, p.2.shape.take td.batch.length = td.batch

/-! ### memoisation of `_add_batch_dim` on a locked tensordict -/

/-- cache of a locked tensordict: key (in_dim, vmap_level) ↦ the batched view built at that time.
The view holds *references* to the live leaves (BatchedTensor wrappers alias their tensor), so it is
represented by the parameters it was built with; `resolve` reads it against the current leaves. -/
structure Wrapper where
  inDim : Nat
  level : Nat
  deriving DecidableEq, Repr

abbrev Memo := List ((Nat × Nat) × Wrapper)

def addBDMemo (m : Memo) (i level : Nat) : Memo × Wrapper :=
  match m.lookup (i, level) with
  | some w => (m, w)
  | none => (((i, level), ⟨i, level⟩) :: m, ⟨i, level⟩)

/-- what the function sees through a wrapper, given the tensordict's *current* content -/
def Wrapper.resolve (w : Wrapper) (td : TD) : BTD := addBD w.inDim w.level td

def MemoOK (m : Memo) : Prop := ∀ e ∈ m, e.2.inDim = e.1.1 ∧ e.2.level = e.1.2

/-! ### executable helpers for the driver -/

def allCoords : Shape → List (List Nat)
  | [] => [[]]
  | n :: s => (List.range n).flatMap (fun k => (allCoords s).map (fun c => k :: c))

def T.toList (t : T) : List Int := (allCoords t.shape).map t.get

/-- provenance tensor: element at coordinate c is `base + ravel(c)` -/
def ravel : List Nat → Shape → Nat
  | c :: cs, _ :: ss => c * ss.foldl (· * ·) 1 + ravel cs ss
  | _, _ => 0

def arangeT (base : Int) (s : Shape) : T := ⟨s, fun c => base + (ravel c s : Nat)⟩

end TdVerif.C19
