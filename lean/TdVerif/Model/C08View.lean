/-
  C08 — `view(shape)` / `reshape(shape)` / `flatten(start, end)` of a lazy stack, the FLATTEN branch
  of `_view` (tensordict/_lazy.py): `tds = [self]`, then one round of
  `tds = [piece for td in tds for piece in td.unbind(i)]` per merged dim, then the pieces (plain
  tensordicts once the stack dim has been unbound, lazy stacks before) are stacked lazily along `i`.
  `T.flattenAt` is the SPEC (torch `reshape` merging consecutive dims, validated against torch by
  the `view` correspondence stream).
-/
import TdVerif.Model.C08Lazy2

namespace TdVerif.C08

/-- SPEC: `t.flatten(i, i + m - 1)` (= `t.reshape(...)` merging the `m` dims from `i`): position
`k` of the merged dim is the row-major offset of the merged coordinates -/
def T.flattenAt (t : T α) (i m : Nat) : T α where
  shape := t.shape.take i ++ [numel ((t.shape.drop i).take m)] ++ t.shape.drop (i + m)
  get c := t.get (c.take i ++ unravel ((t.shape.drop i).take m) (at0 c i) ++ c.drop (i + 1))

/-- `x.unbind(d)` for whatever a previous `unbind` returned: a plain tensordict or a lazy stack -/
def resUnbind : LRes α → Nat → List (LRes α)
  | .member m, d => (m.unbind d).map .member
  | .lazy L, d => lazyUnbind L d
  | r, _ => [r]

/-- the loop of `_view` (flatten branch): `tds = [self]`, then `n` times
`tds = [piece for td in tds for piece in td.unbind(i)]` -/
def iterUnbindR (r : LRes α) (i : Nat) : Nat → List (LRes α)
  | 0 => [r]
  | n + 1 => (iterUnbindR r i n).flatMap (resUnbind · i)

/-- mirrors tensordict/utils.py:_check_is_flatten(new_shape, old_shape, return_flatten_dim=True):
the first `i` such that `new_shape` is `old_shape` with the dims `i..j` merged -/
def checkIsFlatten (new old : Shape) : Option (Nat × Nat) :=
  if new = [] ∨ old.length < new.length then none else
  let nm := old.length - new.length
  ((List.range new.length).find? fun i =>
      new.take i == old.take i && new.drop (i + 1) == old.drop (i + nm + 1) &&
        at0 new i == numel ((old.drop i).take (nm + 1))).map fun i => (i, i + nm)

/-- mirrors `_view(shape)` / `reshape(shape)` of a lazy stack, FLATTEN branch (`shape` merges
consecutive batch dims; `-1` already inferred): `j - i + 1` rounds of `unbind(i)`, the pieces stacked
lazily along `i`.  `none`: `shape` is not a flatten of the batch size (the unflatten branch and the
`reshape` fallback are outside this model). -/
def lazyView (L : Lazy α) (shape : Shape) : Option (LRes2 α) :=
  (checkIsFlatten shape L.batch).map fun p => .lazy p.1 (iterUnbindR (.lazy L) p.1 (p.2 - p.1 + 1))

/-- mirrors `flatten(start_dim, end_dim)`: `_maybe_correct_neg_dim` on both, the dims in between
replaced by `-1` (inferred by `_infer_size_impl` as the product of the merged sizes), then `view` -/
def lazyFlatten (L : Lazy α) (s e : Int) : Option (LRes2 α) :=
  let r : Int := L.batch.length
  let s' : Int := if s < 0 then r + s else s
  let e' : Int := if e < 0 then r + e else e
  if s' < 0 ∨ s' ≥ r ∨ e' < 0 ∨ e' ≥ r ∨ e' < s' then none
  else
    let a := s'.toNat
    let b := e'.toNat
    lazyView L (L.batch.take a ++ [numel ((L.batch.drop a).take (b - a + 1))] ++ L.batch.drop (b + 1))

end TdVerif.C08
