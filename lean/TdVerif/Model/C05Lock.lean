/-
  C05 — the lock graph of tensordict as a heap machine.

  A heap of tensor-collection objects (`Nat → LNode`): a node may sit under two parents, so the
  model is a graph, not a tree.  Weak references are ids whose referent may be dead (`alive = false`).

  transcribed code (tensordict @ worktree):
    base.py  `TensorDictBase.is_locked`, `_propagate_lock`, `_lock_parents_weakrefs`, `lock_`,
             `_propagate_unlock`, `_check_unlock`, `unlock_`, `__setstate__`, `__enter__/__exit__`
    _lazy.py `LazyStackedTensorDict.is_locked`, `_lock_parents_weakrefs`, `_propagate_lock`, `_propagate_unlock`
    _td.py   `TensorDict.share_memory_`, `_memmap_` (+ base.py `memmap_`), `_set_str`, `_select`, `_exclude`,
             `del_`, `rename_key_`, `popitem`
    utils.py `lock_blocked`, `_as_context_manager`;  _contextlib.py `_reverse_lock/_reverse_unlock`

  Recursion over the graph is by *fuel*: every descent goes from a node to one of its kids, and the
  modelled heaps are `Ordered` (a kid's id is smaller than its parent's id: children exist before the
  container that adopts them), so fuel `i+1` is exactly enough for node `i`.  All functions are total and
  structurally recursive (they evaluate under `decide`).
-/
namespace TdVerif.C05

-- object identities (ids) are plain `Nat`s (allocation order)

/-- one tensor-collection object -/
structure LNode where
  alive : Bool := false
  /-- `LazyStackedTensorDict`: `kids` are the stacked members; lock parents are derived from the members -/
  lazy : Bool := false
  /-- `_is_locked` (`None` only on lazy stacks: "derive from the members") -/
  flag : Option Bool := some false
  /-- `__lock_parents_weakrefs` (ids of the referents; an entry counts only while the referent is alive) -/
  parents : List Nat := []
  /-- entries that are tensor collections, in `values()` order (lazy stack: members in order, key = position) -/
  kids : List (String × Nat) := []
  /-- leaf entries: key ↦ (identity of the bound leaf object, version of its content) -/
  leaves : List (String × Nat × Nat) := []
  /-- metadata attributes of the object (`_td_dim_names` / `_td_dim_name`, `_batch_size`, `_device`, storage kind): field ↦ value.
  The lock machine never reads or writes them (C05); C06 makes them part of what a memoised read may depend on. -/
  attrs : List (Nat × Nat) := []
  deriving Repr, DecidableEq, Inhabited

structure Heap where
  size : Nat
  node : Nat → LNode

namespace Heap
def empty : Heap := ⟨0, fun _ => {}⟩
def upd (h : Heap) (i : Nat) (f : LNode → LNode) : Heap :=
  { h with node := fun j => if j = i then f (h.node i) else h.node j }
def alloc (h : Heap) (n : LNode) : Heap :=
  { size := h.size + 1, node := fun j => if j = h.size then n else h.node j }
end Heap

def live (h : Heap) (i : Nat) : Bool := (h.node i).alive
/-- `obj._is_locked` is truthy -/
def flagged (h : Heap) (i : Nat) : Bool := (h.node i).flag == some true
def kidIds (h : Heap) (i : Nat) : List Nat := (h.node i).kids.map (·.2)

/-- `is_locked` (public).  mirrors base.py `is_locked` (the flag) and _lazy.py `is_locked`
(flag if not `None`, else: non-empty and every member `is_locked`). -/
def isLockedF : Nat → Heap → Nat → Bool
  | 0, _, _ => false
  | n + 1, h, i =>
    match (h.node i).flag with
    | some b => b
    | none => !(kidIds h i).isEmpty && (kidIds h i).all (fun j => isLockedF n h j)
def isLocked (h : Heap) (i : Nat) : Bool := isLockedF (i + 1) h i

/-- `_lock_parents_weakrefs`.  mirrors base.py (the stored list) and _lazy.py (concatenation of the
members' lists, minus a reference to the stack itself). -/
def parentsOfF : Nat → Heap → Nat → List Nat
  | 0, _, _ => []
  | n + 1, h, i =>
    if (h.node i).lazy then ((kidIds h i).flatMap (fun j => parentsOfF n h j)).filter (fun p => p != i)
    else (h.node i).parents
def parentsOf (h : Heap) (i : Nat) : List Nat := parentsOfF (i + 1) h i

/-- mirrors base.py `_propagate_lock` and _lazy.py `_propagate_lock` (`ps = none` ⇔ `lock_parents_weakrefs is None`,
i.e. the call on the root).  Eager mode (`is_compiling = False`). -/
def propLockF : Nat → Heap → Option (List Nat) → Nat → Heap
  | 0, h, _, _ => h
  | n + 1, h, ps, i =>
    let nd := h.node i
    if nd.lazy then
      -- self._is_locked = True; lock_parents_weakrefs = copy(lock_parents_weakrefs) + [weakref.ref(self)]
      let h1 := h.upd i (fun x => { x with flag := some true })
      let down := ps.getD [] ++ [i]
      (kidIds h i).foldl (fun acc j => propLockF n acc (some down) j) h1
    else
      -- refs not already registered (identity of the weakref object = identity of the referent)
      let new := match ps with
        | none => []
        | some l => l.filter (fun p => !(nd.parents.contains p))
      let h1 := h.upd i (fun x => { x with flag := some true, parents := x.parents ++ new })
      let down := new ++ [i]
      (kidIds h i).foldl (fun acc j => propLockF n acc (some down) j) h1

/-- mirrors base.py `_propagate_unlock` / _lazy.py `_propagate_unlock`: clears the flags of the whole
subtree (`None` on a lazy stack) and returns the descendants, children's descendants first. -/
def propUnlockF : Nat → Heap → Nat → Heap × List Nat
  | 0, h, _ => (h, [])
  | n + 1, h, i =>
    let h1 := h.upd i (fun x => { x with flag := if x.lazy then none else some false })
    (kidIds h i).foldl (fun (acc : Heap × List Nat) j =>
        let r := propUnlockF n acc.1 j
        (r.1, acc.2 ++ r.2 ++ [j])) (h1, [])

/-- mirrors base.py `_check_unlock` (both attempts: the `gc.collect()` between them is reflected by `alive`,
which the harness keeps exact by collecting after every drop).  `true` = no live locked parent; the list is
then reset (a lazy stack has no setter: `AttributeError` swallowed). -/
def checkUnlock (h : Heap) (i : Nat) : Heap × Bool :=
  if (parentsOf h i).any (fun p => live h p && flagged h p) then (h, false)
  else (if (h.node i).lazy then h else h.upd i (fun x => { x with parents := [] }), true)

/-- the loop `for sub_td in sub_tds: sub_td._check_unlock()` followed by `self._check_unlock()`;
stops at the first `RuntimeError`. -/
def checkAll : Heap → List Nat → Heap × Bool
  | h, [] => (h, true)
  | h, j :: rest =>
    match checkUnlock h j with
    | (h', true) => checkAll h' rest
    | (h', false) => (h', false)

inductive Out where
  | ok            -- returned normally
  | okNoop        -- returned normally and the call had no effect (used for `lock_` on a locked node)
  | errLock       -- RuntimeError mentioning the lock
  | errKey        -- KeyError
  | errOther      -- refused by the model (outside the modelled domain)
  deriving Repr, DecidableEq, Inhabited

/-- mirrors base.py `lock_`: no-op when `is_locked`, else `_propagate_lock` from this root -/
def lockEv (h : Heap) (i : Nat) : Heap × Out :=
  if isLocked h i then (h, .okNoop) else (propLockF (i + 1) h none i, .ok)

/-- mirrors base.py `unlock_`: clear, check every descendant then self, on failure re-lock and re-raise -/
def unlockEv (h : Heap) (i : Nat) : Heap × Out :=
  let r := propUnlockF (i + 1) h i
  match checkAll r.1 (r.2 ++ [i]) with
  | (h2, true) => (h2, .ok)
  | (h2, false) => ((lockEv h2 i).1, .errLock)

/-- `unlock_()` of a `TensorDictParams(lock=True)`: mirrors nn/params.py `_propagate_unlock` (`if not self._lock_content: … ; return []`:
the wrapper's own flag only, the content stays locked) inside base.py `unlock_` (check, on failure lock again and re-raise) -/
def unlockShallowEv (h : Heap) (i : Nat) : Heap × Out :=
  if (h.node i).lazy then (h, .errOther)
  else
    let h1 := h.upd i (fun x => { x with flag := some false })
    match checkUnlock h1 i with
    | (h2, true) => (h2, .ok)
    | (h2, false) => ((lockEv h2 i).1, .errLock)

/-- post-order list of the tensor-collection descendants (the order `share_memory_` visits them) -/
def postOrderF : Nat → Heap → Nat → List Nat
  | 0, _, _ => []
  | n + 1, h, i => (kidIds h i).flatMap (fun j => postOrderF n h j) ++ [i]

/-- one node of `share_memory_`, after its children: a TensorDict finishes with `self.lock_()` (_td.py); a lazy stack, whose
members are all locked by then, registers itself with `_propagate_lock` (_lazy.py, repaired: `lock_()` would be a no-op) -/
def shareNode (acc : Heap) (j : Nat) : Heap :=
  if (acc.node j).lazy then propLockF (j + 1) acc none j else (lockEv acc j).1

/-- mirrors _td.py / _lazy.py `share_memory_`: children first -/
def shareEv (h : Heap) (i : Nat) : Heap :=
  (postOrderF (i + 1) h i).foldl shareNode h

/-- mirrors _td.py `_memmap_(inplace=True)`: every plain node of the subtree gets `_is_locked = True`
directly (a lazy stack's `_memmap_` only recurses into its members). -/
def memmapFlagsF : Nat → Heap → Nat → Heap
  | 0, h, _ => h
  | n + 1, h, i =>
    let h1 := if (h.node i).lazy then h else h.upd i (fun x => { x with flag := some true })
    (kidIds h i).foldl (fun acc j => memmapFlagsF n acc j) h1
/-- mirrors base.py `memmap_` after the repair (`utils._lock_after_memmap`): the flags, then an
unconditional `_propagate_lock` from the root, which registers the lock graph. -/
def memmapEv (h : Heap) (i : Nat) : Heap :=
  propLockF (i + 1) (memmapFlagsF (i + 1) h i) none i
/-- the pinned code (4564555): the flags, then `.lock_()`, a no-op on a flagged root: no lock graph.
Kept only for the negation witness `Props.C05.memmap_flag_only_counterexample`. -/
def memmapEvPinned (h : Heap) (i : Nat) : Heap :=
  (lockEv (memmapFlagsF (i + 1) h i) i).1

/-! ### structure and mutators -/

/-- abstract effect of a mutator on the storage dict of one node -/
inductive Eff where
  | addLeaf (k : String) (obj : Nat)   -- bind `k` to a (new) leaf object: add or rebind
  | addKid (k : String) (j : Nat)       -- bind `k` to tensordict `j`
  | del (k : String)
  | rename (k k' : String)
  | keep (ks : List String)            -- select(..., inplace=True)
  | drop (ks : List String)            -- exclude(..., inplace=True)
  | clear
  | write (k : String)                 -- in-place value write into the existing leaf
  deriving Repr, DecidableEq

def hasKey (n : LNode) (k : String) : Bool := n.kids.any (·.1 == k) || n.leaves.any (·.1 == k)
def delKey (n : LNode) (k : String) : LNode :=
  { n with kids := n.kids.filter (·.1 != k), leaves := n.leaves.filter (·.1 != k) }

/-- `dict[k] = v`: an existing key keeps its position, a new key goes to the end (the order of the tensor-collection
entries is the order `_propagate_lock` / `_propagate_unlock` walk them in) -/
def setKid (kids : List (String × Nat)) (k : String) (j : Nat) : List (String × Nat) :=
  if kids.any (·.1 == k) then kids.map (fun e => if e.1 == k then (k, j) else e) else kids ++ [(k, j)]
def setLeaf (leaves : List (String × Nat × Nat)) (k : String) (v : Nat × Nat) : List (String × Nat × Nat) :=
  if leaves.any (·.1 == k) then leaves.map (fun e => if e.1 == k then (k, v) else e) else leaves ++ [(k, v)]

/-- the storage-dict update performed by an *unblocked* mutator; `none` = `KeyError`, nothing changed.
mirrors `_set_str` (`self._tensordict[key] = value`), `del_`, `rename_key_` (set the new key, then delete the old one),
`_select(inplace=True)` (keys given in storage order), `_exclude(inplace=True)`, `clear`. -/
def applyEff (n : LNode) : Eff → Option LNode
  | .addLeaf k o => some { n with kids := n.kids.filter (·.1 != k), leaves := setLeaf n.leaves k (o, 0) }
  | .addKid k j => some { n with leaves := n.leaves.filter (·.1 != k), kids := setKid n.kids k j }
  | .del k => if hasKey n k then some (delKey n k) else none
  | .rename k k' =>
    if !hasKey n k then none
    else if k == k' then some n
    else
      match n.kids.find? (·.1 == k) with
      | some e =>
        some { n with kids := setKid (n.kids.filter (·.1 != k)) k' e.2, leaves := n.leaves.filter (fun l => l.1 != k' && l.1 != k) }
      | none =>
        match n.leaves.find? (·.1 == k) with
        | some l => some { n with leaves := setLeaf (n.leaves.filter (·.1 != k)) k' l.2, kids := n.kids.filter (·.1 != k') }
        | none => none
  | .keep ks => if ks.all (hasKey n) then
      some { n with kids := n.kids.filter (fun e => ks.contains e.1), leaves := n.leaves.filter (fun e => ks.contains e.1) }
    else none
  | .drop ks => some { n with kids := n.kids.filter (fun e => !ks.contains e.1), leaves := n.leaves.filter (fun e => !ks.contains e.1) }
  | .clear => some { n with kids := [], leaves := [] }
  | .write k => if n.leaves.any (·.1 == k) then
      some { n with leaves := n.leaves.map (fun e => if e.1 == k then (e.1, e.2.1, e.2.2 + 1) else e) }
    else none

/-- what protects a public mutator (regenerated from the source into `Gen.LockTable`) -/
structure Guard where
  decorated : Bool          -- `@lock_blocked` on the method itself
  explicit : Bool           -- an `if … is_locked …: raise` in the method body
  via : Bool                -- the method (transitively) calls a method of the class that is guarded
  deriving Repr, DecidableEq

def Guard.none' : Guard := ⟨false, false, false⟩
def Guard.any (g : Guard) : Bool := g.decorated || g.explicit || g.via

/-- does the guard stop a call on a locked node?  mirrors utils.py `lock_blocked`
(not applied when called with `inplace=True` / `ignore_lock=True`) and the explicit tests. -/
def Guard.blocks (g : Guard) (kwBypass : Bool) : Bool :=
  g.explicit || g.via || (g.decorated && !kwBypass)

structure Mut where
  guard : Guard
  kwBypass : Bool := false
  eff : Eff
  deriving Repr

def Eff.isWrite : Eff → Bool
  | .write _ => true
  | _ => false
def Eff.isAddKid : Eff → Bool
  | .addKid _ _ => true
  | _ => false

/-- a public mutator call on node `i` -/
def mutEv (h : Heap) (i : Nat) (m : Mut) : Heap × Out :=
  if m.eff.isWrite then
    -- in-place value writers never consult the lock (`_set_str` inplace branch, `update_`, `set_`, …)
    match applyEff (h.node i) m.eff with
    | some n' => (h.upd i (fun _ => n'), .ok)
    | none => (h, .errKey)
  else if isLocked h i && m.guard.blocks m.kwBypass then (h, .errLock)
  else if (h.node i).lazy && !m.eff.isAddKid then (h, .errOther)   -- on a lazy stack only `append` is modelled
  else
    match m.eff with
    | .addKid _ j =>
      if j < i && live h j then
        match applyEff (h.node i) m.eff with
        | some n' => (h.upd i (fun _ => n'), .ok)
        | none => (h, .errKey)
      else (h, .errOther)
    | e =>
      match applyEff (h.node i) e with
      | some n' => (h.upd i (fun _ => n'), .ok)
      | none => (h, .errKey)

/-- follow nested keys through tensor-collection entries (`_get_leaf_tensordict`, `_set_tuple`, the recursion of
`_select` / `_exclude`); `none` = a key of the path is missing or is not a tensor collection -/
def walk (h : Heap) : Nat → List String → Option Nat
  | i, [] => some i
  | i, k :: rest =>
    match (h.node i).kids.find? (·.1 == k) with
    | some e => walk h e.2 rest
    | none => none

/-- a mutator called on `i` with a nested key: the entry lives in the node the path leads to, and it is *that* node's lock
that is consulted (`_set_tuple` ends in the target's `_set_str`; `del_` / `pop` / `rename_key_` end in the target's own
decorated `del_` / `_set_str`; `_select` / `_exclude` test the lock at every level of their recursion). -/
def mutPathEv (h : Heap) (i : Nat) (path : List String) (m : Mut) : Heap × Out :=
  match walk h i path with
  | some t => mutEv h t m
  | none => (h, .errKey)

/-! ### events -/

inductive Ev where
  | lock (i : Nat)
  | unlock (i : Nat)
  /-- `TensorDict({k: child, …}, lock=…)` / a tensorclass over these fields: a new plain node -/
  | viaCtor (kids : List (String × Nat)) (leaves : List (String × Nat × Nat)) (lock : Bool)
  /-- `LazyStackedTensorDict(*members)` : a new lazy node, `_is_locked = None`;
  `lock = true`: the node comes out of `__setstate__` with a truthy flag (`_is_locked = False; lock_()`) -/
  | lazyOver (members : List Nat) (lock : Bool)
  | viaShare (i : Nat)
  | viaMemmap (i : Nat)
  /-- the harness drops its handle on `i` and collects; only legal when no live container holds `i` -/
  | gcDrop (i : Nat)
  | mut (i : Nat) (m : Mut)
  /-- the same through a nested key `(*path, k)` given to `i` -/
  | mutPath (i : Nat) (path : List String) (m : Mut)
  /-- `cm = i.lock_(); cm.__enter__()` / `cm = i.unlock_(); …` / `cm.__exit__(None, None, None)` (LIFO) -/
  | withLock (i : Nat)
  | withUnlock (i : Nat)
  | exitCtx
  /-- `i.unlock_()` where `i` is a `TensorDictParams(lock=True)`: the content stays locked -/
  | unlockShallow (i : Nat)
  deriving Repr

structure State where
  heap : Heap
  /-- open context managers: `(i, some true)` = run `unlock_` on exit (`_reverse_lock`), `(i, some false)` = run
  `lock_` (`_reverse_unlock`), `none` = `_last_op is None` -/
  ctx : List (Nat × Option Bool) := []

def held (h : Heap) (i : Nat) : Bool :=
  (List.range h.size).any (fun p => live h p && (kidIds h p).contains i)

/-- events address live objects only (the harness cannot call a method on a collected object) -/
def Ev.target : Ev → Option Nat
  | .lock i | .unlock i | .viaShare i | .viaMemmap i | .gcDrop i | .mut i _ | .mutPath i _ _ | .withLock i | .withUnlock i | .unlockShallow i => some i
  | _ => none

def stepLive (s : State) : Ev → State × Out
  | .lock i => let r := lockEv s.heap i; ({ s with heap := r.1 }, r.2)
  | .unlock i => let r := unlockEv s.heap i; ({ s with heap := r.1 }, r.2)
  | .viaCtor kids leaves lock =>
    if kids.all (fun e => e.2 < s.heap.size && live s.heap e.2) then
      let h1 := s.heap.alloc { alive := true, kids := kids, leaves := leaves }
      let h2 := if lock then (lockEv h1 s.heap.size).1 else h1
      ({ s with heap := h2 }, .ok)
    else (s, .errOther)
  | .lazyOver ms lock =>
    if ms.all (fun j => j < s.heap.size && live s.heap j) then
      let h1 := s.heap.alloc { alive := true, lazy := true, flag := if lock then some false else none,
                               kids := ms.zipIdx.map (fun e => (toString e.2, e.1)) }
      let h2 := if lock then (lockEv h1 s.heap.size).1 else h1
      ({ s with heap := h2 }, .ok)
    else (s, .errOther)
  | .viaShare i => ({ s with heap := shareEv s.heap i }, .ok)
  | .viaMemmap i => ({ s with heap := memmapEv s.heap i }, .ok)
  | .gcDrop i =>
    if held s.heap i then (s, .errOther)
    else ({ s with heap := s.heap.upd i (fun x => { x with alive := false }) }, .ok)
  | .mut i m => let r := mutEv s.heap i m; ({ s with heap := r.1 }, r.2)
  | .mutPath i path m => let r := mutPathEv s.heap i path m; ({ s with heap := r.1 }, r.2)
  | .withLock i =>
    -- `_as_context_manager("is_locked")`: `_last_op` is recorded only if `is_locked` changed
    let pre := isLocked s.heap i
    let r := lockEv s.heap i
    let post := isLocked r.1 i
    ({ s with heap := r.1, ctx := (i, if pre != post then some true else none) :: s.ctx }, r.2)
  | .withUnlock i =>
    let pre := isLocked s.heap i
    let r := unlockEv s.heap i
    match r.2 with
    | .errLock => ({ s with heap := r.1 }, .errLock)     -- the call raised: no context is entered
    | _ =>
      let post := isLocked r.1 i
      ({ s with heap := r.1, ctx := (i, if pre != post then some false else none) :: s.ctx }, r.2)
  | .exitCtx =>
    match s.ctx with
    | [] => (s, .errOther)
    | (_, none) :: rest => ({ s with ctx := rest }, .ok)
    | (i, some true) :: rest =>
      if live s.heap i && i < s.heap.size then let r := unlockEv s.heap i; ({ s with heap := r.1, ctx := rest }, r.2)
      else ({ s with ctx := rest }, .errOther)
    | (i, some false) :: rest =>
      if live s.heap i && i < s.heap.size then let r := lockEv s.heap i; ({ s with heap := r.1, ctx := rest }, r.2)
      else ({ s with ctx := rest }, .errOther)
  | .unlockShallow i => let r := unlockShallowEv s.heap i; ({ s with heap := r.1 }, r.2)

def step (s : State) (e : Ev) : State × Out :=
  match e.target with
  | some i => if live s.heap i && i < s.heap.size then stepLive s e else (s, .errOther)
  | none => stepLive s e

def run (s : State) (evs : List Ev) : State := evs.foldl (fun acc e => (step acc e).1) s

/-! ### views: tensordicts without a lock state of their own -/

/-- mirrors _td.py `_SubTensorDict.is_locked` / _lazy.py `_CustomOpTensorDict.is_locked`: the source's -/
def viewIsLocked (h : Heap) (src : Nat) : Bool := isLocked h src

/-- mirrors _td.py `_SubTensorDict.lock_`: "we can't lock sub-tensordicts": raises unless the source is locked already,
in which case it is a no-op.  Never changes anything. -/
def subLockEv (h : Heap) (src : Nat) : Heap × Out := if isLocked h src then (h, .okNoop) else (h, .errOther)
/-- mirrors _td.py `_SubTensorDict.unlock_`: raises when the source is locked, no-op otherwise.  Never changes anything. -/
def subUnlockEv (h : Heap) (src : Nat) : Heap × Out := if isLocked h src then (h, .errOther) else (h, .okNoop)

/-- mirrors _lazy.py `_CustomOpTensorDict.lock_` / `unlock_` (the legacy lazy views: permute, view, unsqueeze, …):
forwarded to the source -/
def customLockEv (h : Heap) (src : Nat) : Heap × Out := lockEv h src
def customUnlockEv (h : Heap) (src : Nat) : Heap × Out := unlockEv h src

end TdVerif.C05
