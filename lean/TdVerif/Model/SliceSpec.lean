/-
  F1 (part): the *specification* of Python's `slice.indices(len)`,
  transcribed from CPython Objects/sliceobject.c (`_PySlice_GetLongIndices`) and of
  `len(range(start, stop, step))` (`compute_range_length`, rangeobject.c).
  This file is spec, not a model of tensordict code.
-/
namespace TdVerif.SliceSpec

/-- `slice(start, stop, step).indices(len)`; `none` = Python `None`. `step = 0` raises. -/
def indices (start stop step : Option Int) (len : Int) : Except String (Int × Int × Int) :=
  let st : Int := step.getD 1
  if st = 0 then .error "ValueError" else
  let lower : Int := if st < 0 then -1 else 0
  let upper : Int := if st < 0 then len - 1 else len
  let clamp (v : Int) : Int :=
    if v < 0 then (if v + len < lower then lower else v + len)
    else (if v > upper then upper else v)
  let s : Int := match start with
    | none => if st < 0 then upper else lower
    | some v => clamp v
  let e : Int := match stop with
    | none => if st < 0 then lower else upper
    | some v => clamp v
  .ok (s, e, st)

/-- `len(range(lo, hi, step))` for `step ≠ 0`. -/
def rangeLen (lo hi step : Int) : Int :=
  if step > 0 then (if lo < hi then (hi - lo - 1) / step + 1 else 0)
  else (if hi < lo then (lo - hi - 1) / (-step) + 1 else 0)

/-- `i`-th element of `range(lo, hi, step)`. -/
def rangeGet (lo step : Int) (i : Nat) : Int := lo + step * i

end TdVerif.SliceSpec
