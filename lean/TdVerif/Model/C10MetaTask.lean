/-
  C10 / C12 — the tensorclass `save_metadata` writer task against the thread that called `memmap()`.

  Transcribes
    * tensorclass.py `_memmap_`: `_non_tensordict = dict(self._non_tensordict)`; the task `save_metadata` loops over
      `_non_tensordict.items()` and sorts every value into meta.json (json-serialisable) or other.pickle; when the save is **not in place**
      the same dict object is handed to `cls._from_tensordict(td, _non_tensordict)` and becomes the result's `_non_tensordict`;
    * tensorclass.py `_from_tensordict`: `for key in exp_keys - total_keys: non_tensordict[key] = None` (on the dict passed in);
    * `NonTensorData._memmap_`: `out._non_tensordict["_metadata"] = _metadata` (a dict holding a `Path`: not json-serialisable);
    * CPython `dictiter_iternextitem`: the size recorded when the iterator is made is compared with the live size on **every** `next()`,
      before the exhaustion test (`RuntimeError: dictionary changed size during iteration`); new keys are appended, a replaced value keeps
      its position.
  A schedule is the pair (p1, p2): how many micro-steps of the task (0 = make the iterator, i = i-th `next()`) have run when the caller
  adds the missing keys (p1) and when it replaces `_metadata` (p2).
-/
namespace TdVerif.C10.MetaTask

/-- what matters of a value: `None`, json-serialisable, or not (goes to other.pickle) -/
inductive V | null | json | pickle
  deriving DecidableEq, Repr

abbrev D := List (String × V)

def hasKey (d : D) (k : String) : Bool := d.any (fun e => e.1 == k)

/-- `d[k] = v` : in place when the key exists, appended otherwise -/
def setKey (d : D) (k : String) (v : V) : D :=
  if hasKey d k then d.map (fun e => if e.1 == k then (k, v) else e) else d ++ [(k, v)]

/-- `_from_tensordict`: expected keys that are absent are added with `None` -/
def addMissing (d : D) (exp : List String) : D :=
  exp.foldl (fun d k => if hasKey d k then d else d ++ [(k, V.null)]) d

/-- `out._non_tensordict["_metadata"] = {"memmap_prefix": Path(…), …}` -/
def setMeta (d : D) : D := setKey d "_metadata" V.pickle

/-- the dict object the task iterates, as it is when micro-step `t` of the task runs -/
def liveAt (d0 : D) (exp : List String) (p1 p2 t : Nat) : D :=
  if t < p1 then d0 else if t < p2 then addMissing d0 exp else setMeta (addMissing d0 exp)

inductive Out
  | err                 -- RuntimeError: dictionary changed size during iteration (re-raised by memmap())
  | ok (items : D)      -- the (key, class of value) pairs the task saw, in order
  deriving DecidableEq, Repr

/-- the `next()` calls of the `for` loop; `t` is the micro-step, `pos` the iterator's position -/
def iterate (view : Nat → D) (used : Nat) : (fuel pos t : Nat) → D → Out
  | 0, _, _, _ => Out.err
  | fuel + 1, pos, t, acc =>
    if (view t).length ≠ used then Out.err
    else match (view t)[pos]? with
      | none => Out.ok acc
      | some e => iterate view used fuel (pos + 1) (t + 1) (acc ++ [e])

/-- micro-step 0 makes the iterator (records the size), then at most `size + 1` calls of `next()` -/
def runTask (view : Nat → D) : Out :=
  iterate view (view 0).length ((view 0).length + 1) 0 1 []

/-- meta.json keys (besides `_type`) and other.pickle keys written by the task -/
def jsonKeys (d : D) : List String := (d.filter (fun e => e.2 ≠ V.pickle)).map (·.1)
def pickleKeys (d : D) : List String := (d.filter (fun e => e.2 = V.pickle)).map (·.1)

/-- in place (`memmap_`): the result is `self`, the task iterates a private copy nobody else holds -/
def runTaskInplace (d0 : D) : Out := runTask (fun _ => d0)

-- ------------------------------------------------------------------ lemmas

theorem iterate_const (view : Nat → D) (d : D) :
    ∀ (fuel pos t : Nat) (acc : D), pos ≤ d.length → pos + fuel = d.length + 1 → (∀ s, t ≤ s → s < t + fuel → view s = d) →
      iterate view d.length fuel pos t acc = Out.ok (acc ++ d.drop pos) := by
  intro fuel
  induction fuel with
  | zero => intro pos t acc hle h _; omega
  | succ n ih =>
    intro pos t acc hle h hv
    have hvt : view t = d := hv t (Nat.le_refl _) (by omega)
    unfold iterate
    rw [hvt]
    simp only [ne_eq, not_true_eq_false, ↓reduceIte]
    cases hp : d[pos]? with
    | none =>
      have : d.length ≤ pos := by
        rcases Nat.lt_or_ge pos d.length with h' | h'
        · rw [List.getElem?_eq_getElem h'] at hp; cases hp
        · exact h'
      simp [List.drop_eq_nil_of_le this]
    | some e =>
      have hlt : pos < d.length := by
        rcases Nat.lt_or_ge pos d.length with h' | h'
        · exact h'
        · rw [List.getElem?_eq_none h'] at hp; cases hp
      simp only
      rw [ih (pos + 1) (t + 1) (acc ++ [e]) (by omega) (by omega) (fun s h1 h2 => hv s (by omega) (by omega))]
      have he : d[pos] = e := by rw [List.getElem?_eq_getElem hlt] at hp; exact Option.some.inj hp
      have : d.drop pos = e :: d.drop (pos + 1) := by rw [← he]; exact List.drop_eq_getElem_cons hlt
      rw [this]; simp

theorem iterate_err (view : Nat → D) (d : D) (p : Nat) (hne : (view p).length ≠ d.length) :
    ∀ (fuel pos t : Nat) (acc : D), pos + 1 = t → t ≤ p → p < t + fuel → pos + fuel = d.length + 1 →
      (∀ s, t ≤ s → s < p → view s = d) → iterate view d.length fuel pos t acc = Out.err := by
  intro fuel
  induction fuel with
  | zero => intro pos t acc _ _ _ _ _; rfl
  | succ n ih =>
    intro pos t acc hpt htp hpf hlen hv
    unfold iterate
    rcases Nat.lt_or_ge t p with hlt | hge
    · have hvt : view t = d := hv t (Nat.le_refl _) hlt
      rw [hvt]
      simp only [ne_eq, not_true_eq_false, ↓reduceIte]
      have hpos : pos < d.length := by omega
      rw [List.getElem?_eq_getElem hpos]
      simp only
      exact ih (pos + 1) (t + 1) _ (by omega) (by omega) (by omega) (by omega) (fun s h1 h2 => hv s (by omega) h2)
    · have : t = p := by omega
      subst this
      simp [hne]

end TdVerif.C10.MetaTask
