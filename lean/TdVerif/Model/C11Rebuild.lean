/-
  C11 — the two order-sensitive pieces of rebuilding a consolidated tensordict from its metadata
  (`from_consolidated`, unpickling / deep-copying a consolidated tensordict):

  * jagged nested tensors are stored as consecutive metadata leaves `<NJT_VALUES>k`, optionally
    `<NJT_LENGTHS>k`, then `<NJT_OFFSETS>k` and re-assembled by a loop that carries the last values /
    lengths seen (tensordict/base.py:_reduce_vals_and_metadata, _reductions.py:_rebuild_tensordict_files_consolidated);
  * the members of a lazy stack are stored under the keys `"0", "1", …` and fetched back by
    `input_dict[str(i)] for i in range(len(input_dict))` (tensordict/_lazy.py:LazyStackedTensorDict.from_dict).
-/
namespace TdVerif.C11

/-! ### jagged nested tensors -/

/-- the prefix of a metadata leaf key -/
inductive Tag where
  | plain | values | lengths | offsets
  deriving Repr, DecidableEq

/-- a leaf of one node: a plain tensor, or a jagged nested tensor (values, optional lengths, offsets) -/
inductive Item (α : Type) where
  | plain (key : String) (v : α)
  | njt (key : String) (values : α) (lengths : Option α) (offsets : α)
  deriving Repr, DecidableEq

/-- base.py:_reduce_vals_and_metadata.assign for one leaf: the metadata leaves it adds, in order
    (`if lengths is not None:` the lengths go between values and offsets) -/
def flattenItem {α} : Item α → List (Tag × String × α)
  | .plain k v => [(.plain, k, v)]
  | .njt k v none o => [(.values, k, v), (.offsets, k, o)]
  | .njt k v (some l) o => [(.values, k, v), (.lengths, k, l), (.offsets, k, o)]

def flattenItems {α} : List (Item α) → List (Tag × String × α)
  | [] => []
  | it :: rest => flattenItem it ++ flattenItems rest

/-- `_rebuild_tensordict_files_consolidated`, the loop `for key, (…) in leaves.items()`; the two state
    variables are `nested_values` and `nested_lengths`; `none`: an unbound variable (NameError) -/
def rebuildLoop {α} : Option α → Option α → List (Tag × String × α) → Option (List (Item α))
  | _, _, [] => some []
  | nv, nl, (.plain, k, v) :: rest => (rebuildLoop nv nl rest).map (Item.plain k v :: ·)
  | _, _, (.values, _, v) :: rest => rebuildLoop (some v) none rest      -- `nested_lengths = None`
  | nv, _, (.lengths, _, v) :: rest => rebuildLoop nv (some v) rest
  | nv, nl, (.offsets, k, o) :: rest =>
    match nv with
    | none => none
    | some v => (rebuildLoop nv nl rest).map (Item.njt k v nl o :: ·)

/-- the seeded variant: `nested_lengths` is initialised once before the loop, not at every `<NJT_VALUES>` -/
def rebuildLoopNoReset {α} : Option α → Option α → List (Tag × String × α) → Option (List (Item α))
  | _, _, [] => some []
  | nv, nl, (.plain, k, v) :: rest => (rebuildLoopNoReset nv nl rest).map (Item.plain k v :: ·)
  | _, nl, (.values, _, v) :: rest => rebuildLoopNoReset (some v) nl rest
  | nv, _, (.lengths, _, v) :: rest => rebuildLoopNoReset nv (some v) rest
  | nv, nl, (.offsets, k, o) :: rest =>
    match nv with
    | none => none
    | some v => (rebuildLoopNoReset nv nl rest).map (Item.njt k v nl o :: ·)

/-! ### the members of a lazy stack -/

/-- the metadata of a lazy stack: member `i` under the key `str(i)` -/
def lazyToDictFrom {α} : Nat → List α → List (String × α)
  | _, [] => []
  | i, m :: rest => (toString i, m) :: lazyToDictFrom (i + 1) rest

def lazyToDict {α} (ms : List α) : List (String × α) := lazyToDictFrom 0 ms

/-- `LazyStackedTensorDict.from_dict`: `input_dict[str(i)] for i in range(len(input_dict))`
    (`none`: KeyError) -/
def fetchFrom {α} (d : List (String × α)) : Nat → Nat → Option (List α)
  | _, 0 => some []
  | i, r + 1 =>
    match d.lookup (toString i) with
    | none => none
    | some m => (fetchFrom d (i + 1) r).map (m :: ·)

def lazyFromDict {α} (d : List (String × α)) : Option (List α) := fetchFrom d 0 d.length

/-- insertion of `x` into a list sorted by `lt` -/
def insertSorted {α} (lt : α → α → Bool) (x : α) : List α → List α
  | [] => [x]
  | y :: ys => if lt y x then y :: insertSorted lt x ys else x :: y :: ys

/-- the seeded variant: `for key in sorted(input_dict)` — the keys are strings, the order lexicographic -/
def lazyFromDictSorted {α} (d : List (String × α)) : List α :=
  (d.foldr (fun p acc => insertSorted (fun a b => decide (a.1 < b.1)) p acc) []).map (·.2)

end TdVerif.C11
