/-
  `_parse_to` (tensordict/utils.py): the argument parser of `TensorDict.to(...)`.
  eager branch  : `torch._C._nn._parse_to(*args, **kwargs)` (torch's C++ PythonArgParser, three signatures)
  compile branch: `_parse_to_py(args, kwargs)`, a Python twin (torch.compile cannot trace the native parser)

  `parseToPy`    mirrors tensordict/utils.py:_parse_to_py (+ `_parse_to_arg_ok`, `_PARSE_TO_SIGNATURES`)
  `parseToSpec`  is the *specification* of the native parser: a call is bound to the first of the three
                 signatures it fits; transcribed from the signature strings of torch/csrc/autograd/python_nn_functions /
                 `Tensor.to`, validated on every run against `torch._C._nn._parse_to` itself.
-/
namespace TdVerif.ParseTo

/-- a Python value offered as an argument -/
inductive Val where
  | none
  | dev (d : Nat)            -- a str / torch.device naming device `d`
  | badDevStr                -- a str that is not a device (`torch.device(...)` raises RuntimeError)
  | dtype (t : Nat)
  | tensor (d t : Nat)       -- a tensor on device `d` with dtype `t`
  | pyBool (b : Bool)
  | pyInt (i : Nat)          -- as a device: index `i` of the default accelerator; as a number: an int64 scalar
  | pyNum (t : Nat)          -- a python float / complex: as a number, a cpu scalar of dtype `t`
  | memfmt (m : Nat)
  | other
  deriving Repr, DecidableEq

def cpu : Nat := 0
def accel (i : Nat) : Nat := i + 1
def tBool : Nat := 0
def tInt64 : Nat := 1
def tFloat64 : Nat := 2

inductive Res where
  | ok (device dtype : Option Nat) (nonBlocking : Bool) (memoryFormat : Option Nat)
  | typeError
  | runtimeError
  deriving Repr, DecidableEq

structure Call where
  pos : List Val
  kw : List (String × Val)
  deriving Repr

structure Sig where
  names : List String
  required : Nat
  deriving Repr

/-- mirrors tensordict/utils.py:_PARSE_TO_SIGNATURES -/
def sigs : List Sig :=
  [⟨["device", "dtype", "non_blocking", "copy"], 0⟩, ⟨["dtype", "non_blocking", "copy"], 1⟩, ⟨["tensor", "non_blocking", "copy"], 1⟩]

/-- mirrors tensordict/utils.py:_parse_to_arg_ok -/
def argOk (name : String) (v : Val) (optional : Bool) : Bool :=
  if name = "device" then
    match v with | .none | .dev _ | .badDevStr | .pyInt _ => true | _ => false
  else if name = "dtype" then
    match v with | .dtype _ => true | .none => optional | _ => false
  else if name = "tensor" then
    match v with | .tensor _ _ | .pyBool _ | .pyInt _ | .pyNum _ => true | _ => false
  else if name = "memory_format" then
    match v with | .none | .memfmt _ => true | _ => false
  else
    match v with | .pyBool _ => true | _ => false

def lookup (b : List (String × Val)) (k : String) : Option Val := (b.find? (·.1 = k)).map (·.2)

/-- the keyword loop `for key in kwargs:` of `_parse_to_py`; `none` = `ok = False` -/
def bindKw (names : List String) : List (String × Val) → List (String × Val) → Option (List (String × Val))
  | [], bound => some bound
  | (k, v) :: rest, bound =>
    if (lookup bound k).isSome || (!names.contains k && k != "memory_format") then none
    else bindKw names rest (bound ++ [(k, v)])

/-- the tail of `_parse_to_py` once a signature fits -/
def finish (bound : List (String × Val)) : Res :=
  if (lookup bound "copy").isSome then .runtimeError
  else
    let nb := match lookup bound "non_blocking" with | some (.pyBool b) => b | _ => false
    let mf := match lookup bound "memory_format" with | some (.memfmt m) => some m | _ => none
    match lookup bound "tensor" with
    | some (.tensor d t) => .ok (some d) (some t) nb mf
    | some (.pyBool _) => .ok (some cpu) (some tBool) nb mf
    | some (.pyInt _) => .ok (some cpu) (some tInt64) nb mf
    | some (.pyNum t) => .ok (some cpu) (some t) nb mf
    | some _ => .typeError   -- unreachable once the call fits (argOk "tensor")
    | none =>
      let dt := match lookup bound "dtype" with | some (.dtype t) => some t | _ => none
      match lookup bound "device" with
      | some (.dev d) => .ok (some d) dt nb mf
      | some (.pyInt i) => .ok (some (accel i)) dt nb mf
      | some .badDevStr => .runtimeError
      | _ => .ok none dt nb mf

/-- one iteration of `for names, num_required in _PARSE_TO_SIGNATURES:`; `none` = `continue` -/
def trySig (s : Sig) (c : Call) : Option Res :=
  if c.pos.length > s.names.length then none else
  match bindKw s.names c.kw (s.names.zip c.pos) with
  | none => none
  | some bound =>
    if !((s.names.take s.required).all (fun n => (lookup bound n).isSome)) then none
    else if !(bound.all (fun (k, v) => argOk k v (s.required == 0))) then none
    else some (finish bound)

/-- compile branch: mirrors tensordict/utils.py:_parse_to_py -/
def parseToPy (c : Call) : Res :=
  match sigs.findSome? (fun s => trySig s c) with
  | some r => r
  | none => .typeError

-- spec ---------------------------------------------------------------------------------------------

/-- binding of a call to a signature, declaratively: positional arguments take the first names; every keyword
is a name of the signature (or `memory_format`) that is not already taken; the required names are bound;
every bound value has the type its name demands -/
def Fits (s : Sig) (c : Call) (bound : List (String × Val)) : Prop :=
  c.pos.length ≤ s.names.length ∧
  bound = s.names.zip c.pos ++ c.kw ∧
  (∀ i (h : i < c.kw.length),
      lookup (s.names.zip c.pos ++ c.kw.take i) (c.kw[i]).1 = none ∧
      ((c.kw[i]).1 ∈ s.names ∨ (c.kw[i]).1 = "memory_format")) ∧
  (∀ n ∈ s.names.take s.required, (lookup bound n).isSome = true) ∧
  (∀ kv ∈ bound, argOk kv.1 kv.2 (s.required == 0) = true)

end TdVerif.ParseTo
