/-
  C08 — pointwise operations through a lazy stack: `lazy.apply(fn)`, `lazy.apply(fn, other)` and
  everything built on them (arithmetic, comparisons, where/masked_fill with an operand): mirrors
  `LazyStackedTensorDict._apply_nest` (tensordict/_lazy.py) with the default arguments (out of place,
  no `batch_size=`): the other operands are unbound along the stack dim, zipped strictly with the
  members, the function is applied member by member and the results are lazily re-stacked.
-/
import TdVerif.Model.C08Lazy

namespace TdVerif.C08

/-- SPEC: a pointwise function on a tensor -/
def T.map1 (g : α → β) (a : T α) : T β := ⟨a.shape, fun c => g (a.get c)⟩

/-- SPEC: a pointwise function of two tensors of the same shape -/
def T.map2 (g : α → β → γ) (a : T α) (b : T β) : T γ := ⟨a.shape, fun c => g (a.get c) (b.get c)⟩

/-- SPEC: `td.apply(fn)` on a plain tensordict -/
def TD.apply1 (g : α → β) (a : TD α) : TD β :=
  { batch := a.batch, keys := a.keys, leaf := fun k => T.map1 g (a.leaf k) }

/-- SPEC: `td.apply(fn, other)` on plain tensordicts -/
def TD.apply2 (g : α → β → γ) (a : TD α) (b : TD β) : TD γ :=
  { batch := a.batch, keys := a.keys, leaf := fun k => T.map2 g (a.leaf k) (b.leaf k) }

/-- `lazy.apply(fn)` -/
def lazyApply1 (L : Lazy α) (g : α → β) : Lazy β := ⟨L.members.map (TD.apply1 g), L.sd⟩

/-- `lazy.apply(fn, other)`: `other.unbind(stack_dim)` zipped strictly with the members -/
def lazyApply2 (L : Lazy α) (other : TD β) (g : α → β → γ) : Option (Lazy γ) :=
  let os := other.unbind L.sd
  if os.length ≠ L.members.length then none
  else some ⟨(L.members.zip os).map fun p => TD.apply2 g p.1 p.2, L.sd⟩

/-- mirrors `_dispatch_comparison` (_lazy.py: `==`, `!=`, `<`, `<=`, `>`, `>=`) with a tensordict
operand of the stack's batch size: the members are zipped strictly with `other.unbind(stack_dim)`,
compared one by one, and the results lazily stacked along the stack dim -/
def lazyCompare (L : Lazy α) (other : TD α) (cmp : α → α → Bool) : Option (Lazy Bool) := lazyApply2 L other cmp

/-- the same with a number: every member is compared with it -/
def lazyCompareScalar (L : Lazy α) (c : α) (cmp : α → α → Bool) : Lazy Bool := lazyApply1 L (fun x => cmp x c)

end TdVerif.C08
