/-
  C10 — memory-mapped save / load.

  The file system is a store of cells addressed by path (`Slots Path File`, shared with the writer
  model of C12): a `<key>.memmap` cell holds raw bytes, a `meta.json` cell holds the parsed metadata.
  A live memory-mapped tensor *is* a reference to its cell (MAP_SHARED coherence is the OS's, assumed).

  `tasksTree/tasksKids`   mirror tensordict/_td.py:TensorDict._memmap_ (one `_populate_memmap` task per
                          leaf, recursion into collections, one `_save_metadata` task per node, metadata
                          filled synchronously before submission) and tensorclass.py:_memmap_ for
                          NonTensorData (a directory with a meta.json that carries the payload)
  `runTasks`              the executor: tasks complete in some order
  `load`                  mirrors tensordict/base.py:load_memmap + _td.py:TensorDict._load_memmap
  `likeTree`              memmap_like: same structure, `copy_data=False`
  `writeLeaf`             an in-place write through a mapping
  `makeMemmap`            mirrors TensorDict.make_memmap* (read meta.json, create the file, update, write back)
-/
import TdVerif.Model.C12Pool

namespace TdVerif.C10
open TdVerif.C12 (Slots runWrites)

abbrev Path := List String

/-- what is saved of a tensordict: nesting, container kind, batch size, device, and per leaf dtype
    name, shape and bytes; NonTensorData carries its payload -/
inductive Tree where
  | leaf (dtype : String) (shape : List Nat) (bytes : List Nat)
  | nontensor (data : String) (batch : List Nat)
  | node (batch : List Nat) (device : String) (kids : List (String × Tree))
  /-- a lazy stack: the members, keyed by their index written in decimal (`"0"`, `"1"`, …) -/
  | lazy (stackDim : Nat) (members : List (String × Tree))
  /-- a NonTensorStack: saved as one `meta.json` carrying the (nested) list of payloads and the stack dim -/
  | ntstack (data : String) (stackDim : Nat)
  /-- a tensorclass instance (tensordict/tensorclass.py:_memmap_): its non-tensor fields (`fields`: what `meta.json` carries besides
      `_type`) and its tensordict, saved under the sub-directory `_tensordict` (`inner = [("_tensordict", node)]`) -/
  | tclass (cls : String) (fields : String) (inner : List (String × Tree))
  deriving Repr

def numel (shape : List Nat) : Nat := shape.foldl (· * ·) 1

/-- one entry of a node's meta.json (`_update_metadata`) -/
inductive MetaEntry where
  | leaf (dtype : String) (shape : List Nat)
  | coll (type : String)
  deriving Repr, DecidableEq

/-- a parsed meta.json (`_save_metadata`): `_type`, `shape`, `device`, the entries, and for
    NonTensorData the payload -/
structure Meta where
  kind : String
  batch : List Nat
  device : String
  entries : List (String × MetaEntry)
  payload : Option String
  deriving Repr, DecidableEq

inductive File where
  | bytes (b : List Nat)
  | json (m : Meta)
  deriving Repr, DecidableEq

abbrev FS := Slots Path File

def metaEntry : Tree → MetaEntry
  | .leaf d s _ => .leaf d s
  | .nontensor .. => .coll "NonTensorData"
  | .node .. => .coll "TensorDict"
  | .lazy .. => .coll "LazyStackedTensorDict"
  | .tclass cls .. => .coll cls
  | .ntstack .. => .coll "NonTensorStack"

def nodeMeta (batch : List Nat) (device : String) (kids : List (String × Tree)) : Meta :=
  ⟨"TensorDict", batch, device, kids.map fun p => (p.1, metaEntry p.2), none⟩

def ntMeta (data : String) (batch : List Nat) : Meta := ⟨"NonTensorData", batch, "None", [], some data⟩

/-- meta.json of a lazy stack (tensordict/_lazy.py:LazyStackedTensorDict._memmap_.save_metadata):
    `_type`, `stack_dim` and — after `fix: load_memmap of a lazy stack ignores the members of a longer
    stack saved there before` — `len`; both numbers are carried in the `batch` field of `Meta`. -/
def lazyMeta (stackDim n : Nat) : Meta := ⟨"LazyStackedTensorDict", [stackDim, n], "None", [], none⟩

/-- meta.json of a NonTensorStack: `_type`, `stack_dim` and `data` (the list of payloads) -/
def ntsMeta (data : String) (stackDim : Nat) : Meta := ⟨"NonTensorStack", [stackDim], "None", [], some data⟩

/-- meta.json of a tensorclass (`save_metadata` of tensorclass.py:_memmap_): `_type` = the class, and the non-tensor fields -/
def tcMeta (cls fields : String) : Meta := ⟨cls, [], "None", [], some fields⟩

mutual
/-- the writer tasks of the tensordict stored in directory `dir`, in submission order -/
def tasksTree (dir : Path) : Tree → List (Path × File)
  | .leaf .. => []   -- a leaf is written by its parent (the file name comes from the key)
  | .nontensor data batch => [(dir ++ ["meta.json"], .json (ntMeta data batch))]
  | .node batch device kids =>
    tasksKids dir kids ++ [(dir ++ ["meta.json"], .json (nodeMeta batch device kids))]
  | .lazy sd members =>
    -- `save_metadata` is submitted first, then every member saves itself under `dir/<index>`
    (dir ++ ["meta.json"], .json (lazyMeta sd members.length)) :: tasksKids dir members
  | .ntstack data sd => [(dir ++ ["meta.json"], .json (ntsMeta data sd))]
  | .tclass cls fields inner =>
    -- `save_metadata`, then `self._tensordict._memmap_(prefix / "_tensordict")`
    (dir ++ ["meta.json"], .json (tcMeta cls fields)) :: tasksKids dir inner
/-- `for key, value in self.items()`: a leaf → `_populate_memmap` into `dir/<key>.memmap`
    (`torch.from_file(size=0)` creates **no** file for a tensor without elements); a collection →
    its own `_memmap_` under `dir/<key>` -/
def tasksKids (dir : Path) : List (String × Tree) → List (Path × File)
  | [] => []
  | (k, .leaf _ s b) :: rest =>
    (if numel s = 0 then [] else [(dir ++ [k ++ ".memmap"], File.bytes b)]) ++ tasksKids dir rest
  | (k, .nontensor d b) :: rest => tasksTree (dir ++ [k]) (.nontensor d b) ++ tasksKids dir rest
  | (k, .node b d ks) :: rest => tasksTree (dir ++ [k]) (.node b d ks) ++ tasksKids dir rest
  | (k, .lazy sd ms) :: rest => tasksTree (dir ++ [k]) (.lazy sd ms) ++ tasksKids dir rest
  | (k, .tclass c f i) :: rest => tasksTree (dir ++ [k]) (.tclass c f i) ++ tasksKids dir rest
  | (k, .ntstack d sd) :: rest => tasksTree (dir ++ [k]) (.ntstack d sd) ++ tasksKids dir rest
end

/-- the executor: the submitted tasks complete in the order given -/
def runTasks (fs : FS) (ts : List (Path × File)) : FS := runWrites fs ts

/-- `memmap / memmap_ / save` into `dir` with the tasks completing in submission order -/
def save (fs : FS) (dir : Path) (t : Tree) : FS := runTasks fs (tasksTree dir t)

/-- `n` zero bytes -/
def zeros (n : Nat) : List Nat := List.replicate n 0

mutual
/-- mirrors `load_memmap` / `_load_memmap` with a recursion budget (directory depth):
    read `dir/meta.json`; a leaf entry whose file exists is mapped over its `numel` elements (a stale
    file left by an earlier save is mapped over zero elements); a leaf entry **without file** is
    an empty tensor when its shape has no element (after `fix: load_memmap restores entries without
    elements`; skipped on the pinned tree) and skipped otherwise; a collection entry is loaded from
    its sub-directory. A lazy stack (`_lazy.py:_load_memmap`) loads the sub-directories `0, 1, …`
    while they exist **and their index is below the recorded `len`**. -/
def load : Nat → FS → Path → Option Tree
  | 0, _, _ => none
  | fuel + 1, fs, dir =>
    match fs (dir ++ ["meta.json"]) with
    | some (.json m) =>
      if m.kind = "NonTensorData" then (m.payload.map fun d => Tree.nontensor d m.batch)
      else if m.kind = "LazyStackedTensorDict" then
        match m.batch with
        | [sd, n] => (loadMembers fuel fs dir 0 n).map fun ms => Tree.lazy sd ms
        | _ => none
      else if m.kind = "NonTensorStack" then
        match m.batch with
        | [sd] => (m.payload.map fun d => Tree.ntstack d sd)
        | _ => none
      else if m.kind = "TensorDict" then (loadEntries fuel fs dir m.entries).map fun kids => Tree.node m.batch m.device kids
      else
        -- any other `_type` is a tensorclass (tensorclass.py:_load_memmap): the fields of meta.json, the tensordict under `_tensordict`
        match load fuel fs (dir ++ ["_tensordict"]) with
        | some t => some (Tree.tclass m.kind (m.payload.getD "") [("_tensordict", t)])
        | none => none       -- "The _tensordict directory seems to be missing."
    | _ => none
termination_by fuel _ _ => (fuel, 0, 0)
def loadEntries : Nat → FS → Path → List (String × MetaEntry) → Option (List (String × Tree))
  | _, _, _, [] => some []
  | fuel, fs, dir, (k, .leaf dt sh) :: rest =>
    match loadEntries fuel fs dir rest with
    | none => none
    | some tl =>
      match fs (dir ++ [k ++ ".memmap"]) with
      | some (.bytes b) => some ((k, .leaf dt sh (if numel sh = 0 then [] else b)) :: tl)
      | _ => if numel sh = 0 then some ((k, .leaf dt sh []) :: tl) else some tl
  | fuel, fs, dir, (k, .coll _) :: rest =>
    match loadEntries fuel fs dir rest with
    | none => none
    | some tl =>
      match load fuel fs (dir ++ [k]) with
      | some t => some ((k, t) :: tl)
      | none => some tl   -- no such directory: `prefix.iterdir()` does not list it
termination_by fuel _ _ es => (fuel, 1, es.length)
/-- `while i < len and (prefix / str(i)).exists(): load(prefix / str(i))`; `r` = `len - i` -/
def loadMembers : Nat → FS → Path → Nat → Nat → Option (List (String × Tree))
  | _, _, _, _, 0 => some []
  | fuel, fs, dir, i, r + 1 =>
    match load fuel fs (dir ++ [toString i]) with
    | none => some []
    | some t => (loadMembers fuel fs dir (i + 1) r).map fun tl => (toString i, t) :: tl
termination_by fuel _ _ _ r => (fuel, 1, r)
end

/-! ### refresh: `load_memmap_` / `memmap_refresh_` = `load_memmap(prefix, out=self)` -/

/-- the child a tensordict holds under `k` (`result._get_str(key, default=None)`) -/
def kid? (kids : List (String × Tree)) (k : String) : Option Tree := kids.lookup k

mutual
/-- mirrors `_load_memmap(out=…)` (tensordict/_td.py) with the same recursion budget as `load`: the result **is**
    `out` (its batch size and device stay); every leaf entry of the metadata is bound again to a mapping of its
    file; a collection entry is refreshed in place when `out` already holds a tensordict under that key
    (`existing_elt.load_memmap_(path)`) and loaded otherwise; entries of `out` that were not bound again stay.
    (Key order is not part of tensordict equality: the entries bound from the directory are listed first.)
    An existing child that is not a plain tensordict is re-loaded. -/
def loadInto : Nat → FS → Path → Tree → Option Tree
  | 0, _, _, _ => none
  | fuel + 1, fs, dir, .node ob od oldKids =>
    match fs (dir ++ ["meta.json"]) with
    | some (.json m) =>
      if m.kind ≠ "TensorDict" then none
      else (loadIntoEntries fuel fs dir m.entries oldKids).map fun kids =>
        Tree.node ob od (kids ++ oldKids.filter fun p => !(kids.any fun q => q.1 == p.1))
    | _ => none
  | fuel + 1, fs, dir, _ => load (fuel + 1) fs dir
termination_by fuel _ _ _ => (fuel, 0, 0)
def loadIntoEntries : Nat → FS → Path → List (String × MetaEntry) → List (String × Tree) → Option (List (String × Tree))
  | _, _, _, [], _ => some []
  | fuel, fs, dir, (k, .leaf dt sh) :: rest, oldKids =>
    match loadIntoEntries fuel fs dir rest oldKids with
    | none => none
    | some tl =>
      match fs (dir ++ [k ++ ".memmap"]) with
      | some (.bytes b) => some ((k, .leaf dt sh (if numel sh = 0 then [] else b)) :: tl)
      | _ => if numel sh = 0 then some ((k, .leaf dt sh []) :: tl) else some tl
  | fuel, fs, dir, (k, .coll _) :: rest, oldKids =>
    match loadIntoEntries fuel fs dir rest oldKids with
    | none => none
    | some tl =>
      match (match kid? oldKids k with
             | some oc => loadInto fuel fs (dir ++ [k]) oc
             | none => load fuel fs (dir ++ [k])) with
      | some t => some ((k, t) :: tl)
      | none => some tl
termination_by fuel _ _ es _ => (fuel, 1, es.length)
end

/-- the seeded variant of the loader: a child that is already mapped on the sub-directory being loaded is left as
    it is ("its leaves are live views of the files, there is nothing to read again") -/
def loadIntoEntriesSkip (fuel : Nat) (fs : FS) (dir : Path) : List (String × MetaEntry) → List (String × Tree) → Option (List (String × Tree))
  | [], _ => some []
  | (k, .leaf dt sh) :: rest, oldKids =>
    match loadIntoEntriesSkip fuel fs dir rest oldKids with
    | none => none
    | some tl =>
      match fs (dir ++ [k ++ ".memmap"]) with
      | some (.bytes b) => some ((k, .leaf dt sh (if numel sh = 0 then [] else b)) :: tl)
      | _ => if numel sh = 0 then some ((k, .leaf dt sh []) :: tl) else some tl
  | (k, .coll _) :: rest, oldKids =>
    match loadIntoEntriesSkip fuel fs dir rest oldKids with
    | none => none
    | some tl =>
      match (match kid? oldKids k with
             | some oc => some oc            -- `continue`
             | none => load fuel fs (dir ++ [k])) with
      | some t => some ((k, t) :: tl)
      | none => some tl

def loadIntoSkip : Nat → FS → Path → Tree → Option Tree
  | 0, _, _, _ => none
  | fuel + 1, fs, dir, .node ob od oldKids =>
    match fs (dir ++ ["meta.json"]) with
    | some (.json m) =>
      if m.kind ≠ "TensorDict" then none
      else (loadIntoEntriesSkip fuel fs dir m.entries oldKids).map fun kids =>
        Tree.node ob od (kids ++ oldKids.filter fun p => !(kids.any fun q => q.1 == p.1))
    | _ => none
  | fuel + 1, fs, dir, _ => load (fuel + 1) fs dir

mutual
/-- depth of a tree (recursion budget that `load` needs) -/
def depth : Tree → Nat
  | .leaf .. => 0
  | .nontensor .. => 1
  | .node _ _ kids => depthKids kids + 1
  | .lazy _ ms => depthKids ms + 1
  | .tclass _ _ inner => depthKids inner + 1
  | .ntstack .. => 1
def depthKids : List (String × Tree) → Nat
  | [] => 0
  | (_, t) :: rest => max (depth t) (depthKids rest)
end

mutual
/-- `memmap_like`: the structure with `copy_data=False` (files of zeros) -/
def likeTree : Tree → Tree
  | .leaf d s b => .leaf d s (zeros b.length)
  | .nontensor d b => .nontensor d b
  | .node b d kids => .node b d (likeKids kids)
  | .lazy sd ms => .lazy sd (likeKids ms)
  | .tclass c f i => .tclass c f (likeKids i)
  | .ntstack d sd => .ntstack d sd
def likeKids : List (String × Tree) → List (String × Tree)
  | [] => []
  | (k, t) :: rest => (k, likeTree t) :: likeKids rest
end

/-- an in-place write through a memory-mapped leaf stored at `dir/<key>.memmap` -/
def writeLeaf (fs : FS) (dir : Path) (key : String) (bytes : List Nat) : FS :=
  fs.write (dir ++ [key ++ ".memmap"]) (.bytes bytes)

/-- `make_memmap(key, shape, dtype)` on a tensordict saved in `dir`: `_load_metadata`, create the
    (zero-filled) file, `_update_metadata`, `_save_metadata`. `none`: no metadata to update. -/
def makeMemmap (fs : FS) (dir : Path) (key dtype : String) (shape : List Nat) (nbytes : Nat) : Option FS :=
  match fs (dir ++ ["meta.json"]) with
  | some (.json m) =>
    let fs1 := if numel shape = 0 then fs else fs.write (dir ++ [key ++ ".memmap"]) (.bytes (zeros nbytes))
    let m' : Meta := { m with entries := (m.entries.filter fun e => e.1 != key) ++ [(key, .leaf dtype shape)] }
    some (fs1.write (dir ++ ["meta.json"]) (.json m'))
  | _ => none

/-! ### well-formedness of keys w.r.t. the file system -/

/-- the directory entry a key occupies -/
def entryName : String × Tree → String
  | (k, .leaf ..) => k ++ ".memmap"
  | (k, _) => k

mutual
/-- `PathSafeKeys`: in every node the directory entries of the keys and `meta.json` are pairwise
    distinct and no key contains a path separator. (`"a/b"` beside a node `"a"` with a key `"b"`,
    a node named `"x.memmap"` beside a leaf `"x"`, a node named `"meta.json"` are the excluded points.) -/
def PathSafe : Tree → Prop
  | .leaf .. => True
  | .nontensor .. => True
  | .node _ _ kids =>
    ((kids.map entryName) ++ ["meta.json"]).Nodup ∧ (∀ p ∈ kids, ¬ p.1.contains '/') ∧ PathSafeKids kids
  | .lazy _ ms =>
    ((ms.map entryName) ++ ["meta.json"]).Nodup ∧ (∀ p ∈ ms, ¬ p.1.contains '/') ∧ PathSafeKids ms
  | .tclass _ _ inner =>
    ((inner.map entryName) ++ ["meta.json"]).Nodup ∧ (∀ p ∈ inner, ¬ p.1.contains '/') ∧ PathSafeKids inner
  | .ntstack .. => True
def PathSafeKids : List (String × Tree) → Prop
  | [] => True
  | (_, t) :: rest => PathSafe t ∧ PathSafeKids rest
end

end TdVerif.C10
