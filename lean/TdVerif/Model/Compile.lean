/-
  Dual-branch helpers (eager branch vs `is_compiling()` branch).

  `parseBsEager/parseBsCompile`  mirror tensordict/_td.py `TensorDict._parse_batch_size`
  `valuesDict/valuesIndex`       mirror tensordict/base.py `_values_list` / `_items_list`
                                 (`source = dict(zip(keys, vals))` vs `key_to_index = {key: i}`)
-/
namespace TdVerif.Compile

/-- how the caller spelled `batch_size` -/
inductive BsSpelling where
  | size (l : List Int)   -- torch.Size
  | tuple (l : List Int)  -- a tuple of integers
  | list (l : List Int)   -- a list of integers
  | iter (l : List Int)   -- any other iterable of integers: range, numpy array, 1-d integer tensor, dict keys, set …
  | badSeq                -- a tuple / list / other iterable with a member that is no integer (float, None, str …)
  | int (n : Int)
  | none
  | other                 -- any other object: not iterable, or a str / bytes (torch.Size(obj) raises)
  deriving Repr

/-- the `source` argument: a tensordict with a batch size, or anything else -/
inductive Src where
  | td (bs : List Int)
  | other
  deriving Repr

/-- eager branch: `try: torch.Size(batch_size) except: None -> [] | Number -> [n] | source.batch_size | raise` -/
def parseBsEager : BsSpelling → Src → Option (List Int)
  | .size l, _ => some l
  | .tuple l, _ => some l
  | .list l, _ => some l
  | .iter l, _ => some l
  | .none, _ => some []
  | .int n, _ => some [n]
  | .badSeq, .td bs => some bs
  | .badSeq, .other => Option.none
  | .other, .td bs => some bs
  | .other, .other => Option.none

/-- compile branch (round 2b): explicit tests in the order of tensordict/_td.py:_parse_batch_size —
torch.Size, None, Number, then "iterable and not str/bytes": every member index-like → that size, otherwise
(and for every other object) the source decides -/
def parseBsCompile (b : BsSpelling) (s : Src) : Option (List Int) :=
  match b with
  | .size l => some l
  | .none => some []
  | .int n => some [n]
  | _ =>
    let fromIterable : Option (List Int) := match b with
      | .tuple l => some l
      | .list l => some l
      | .iter l => some l
      | _ => Option.none
    match fromIterable with
    | some l => some l
    | Option.none =>
      match s with
      | .td bs => some bs
      | .other => Option.none

/-- `dict(zip(keys, vals))[k]`: the last binding wins -/
def lookupLast : List (String × Int) → String → Option Int
  | [], _ => none
  | (k', v) :: rest, k =>
    match lookupLast rest k with
    | some r => some r
    | none => if k' = k then some v else none

/-- `{key: i for i, key in enumerate(keys)}[k]`: the last index wins -/
def lastIdx : List String → String → Option Nat
  | [], _ => none
  | k' :: rest, k =>
    match lastIdx rest k with
    | some i => some (i + 1)
    | none => if k' = k then some 0 else none

/-- eager branch of `_values_list(sorting_keys=sk)`; `none` = KeyError -/
def valuesDict (ks : List String) (vs : List Int) (sk : List String) : Option (List Int) :=
  sk.mapM (fun k => lookupLast (ks.zip vs) k)

/-- compile branch -/
def valuesIndex (ks : List String) (vs : List Int) (sk : List String) : Option (List Int) :=
  sk.mapM (fun k => (lastIdx ks k).bind (fun i => vs[i]?))

/-- `_items_list(sorting_keys=sk)`: additionally raises when fewer values than entries are produced -/
def itemsDict (ks : List String) (vs : List Int) (sk : List String) : Option (List Int) :=
  (valuesDict ks vs sk).bind (fun r => if r.length < vs.length then none else some r)
def itemsIndex (ks : List String) (vs : List Int) (sk : List String) : Option (List Int) :=
  (valuesIndex ks vs sk).bind (fun r => if r.length < vs.length then none else some r)

end TdVerif.Compile
