/-
  C01 — a lazily stacked tensordict as ROOT container (tensordict/_lazy.py:LazyStackedTensorDict): metadata model.

  `LZ`  the stack dim, its name, and the members (metadata trees `M` of Model/C01Coherence.lean)
  The batch size / device of a lazy stack are read from its members (`_batch_size` is kept in step by insert/append;
  `device` is the device the members agree on); its names are the members' names with the name of the stack dim inserted.
  Transcribed: names getter / setter, the refused batch_size assignment, insert / append (after the `fix:` commit),
  _set_str / _set_tuple (after the `fix:` commit), del_, rename_key_.
-/
import TdVerif.Model.C01Coherence

namespace TdVerif.C01

structure LZ where
  sd : Nat
  sname : Option String
  members : List M
  deriving Repr, Inhabited

def insertAt {α} (i : Nat) (x : α) (l : List α) : List α := l.take i ++ x :: l.drop i

/-- `_compute_batch_size(member batch size, stack_dim, N)` -/
def LZ.batchSize (L : LZ) : Shape :=
  match L.members with
  | [] => []
  | m :: _ => insertAt L.sd L.members.length m.shape

/-- `device`: what the members agree on (else None) -/
def LZ.device (L : LZ) : Option Nat :=
  match L.members with
  | [] => none
  | .node _ dv _ _ :: r => if r.all (fun m => match m with | .node _ dv' _ _ => dv' == dv | .leaf .. => false) then dv else none
  | .leaf .. :: _ => none

/-- `names` (getter): the names of the first member when all members agree (ValueError otherwise), stack dim name inserted -/
def LZ.names (L : LZ) : Except Err DimNames :=
  match L.members with
  | [] => .ok []
  | m :: r =>
    let ns := m.namesList
    if r.all (fun m' => m'.namesList == ns) then .ok (insertAt L.sd L.sname ns) else .error .value

/-- the invariant: every member is a coherent tensordict, all with the batch size and device of the first one, and the
stack dim lies inside -/
def LCoherent (L : LZ) : Prop :=
  ∃ bs dv, (∀ x ∈ L.members, Coherent x ∧ x.isNode = true ∧ x.shape = bs ∧ ∀ d, x.onDev d = (dv == some d)) ∧
    (L.members ≠ [] → L.sd ≤ bs.length)

/-- `_check_dim_name(name)` (base.py): is the name taken by this tensordict or one nested in it? -/
def nameTakenK (name : String) : Kids → Bool
  | [] => false
  | (_, .leaf ..) :: r => nameTakenK name r
  | (_, .node _ _ cns sub) :: r =>
    (match cns with | some l => l.contains (some name) | none => false) || nameTakenK name sub || nameTakenK name r

def nameTaken (name : Option String) : M → Bool
  | .leaf .. => false
  | .node _ _ ns kids =>
    match name with
    | none => false
    | some n => (match ns with | some l => l.contains (some n) | none => false) || nameTakenK n kids

/-- apply `f` to the members one after the other; the first one that raises stops the loop (earlier members keep the effect) -/
def eachMember (f : M → M × Out) : List M → List M × Out
  | [] => ([], .ok)
  | m :: r =>
    match f m with
    | (m', .err e) => (m' :: r, .err e)
    | (m', .ok) =>
      let (r', o) := eachMember f r
      (m' :: r', o)

/-- `names` setter -/
def setNamesL (value : Option DimNames) (L : LZ) : LZ × Out :=
  match value with
  | none =>
    let (ms, o) := eachMember (setNamesM none) L.members
    match o with
    | .err e => ({ L with members := ms }, .err e)
    | .ok => ({ L with members := ms, sname := none }, .ok)
  | some v =>
    if v.length ≤ L.sd then (L, .err .index)
    else
      let name := v.getD L.sd none
      let namesC := v.eraseIdx L.sd
      if L.members.any (nameTaken name) then (L, .err .value)
      else
        let (ms, o) := eachMember (setNamesM (some namesC)) L.members
        match o with
        | .err e => (L, .err e)      -- the members get their dim names back (`_dim_names_snapshot`): a refused assignment changes nothing
        | .ok => ({ L with members := ms, sname := name }, .ok)

/-- `batch_size = new` with a list: a lazy representation refuses (`_batch_size_setter`) -/
def setBatchL (_new : Shape) (L : LZ) : LZ × Out := (L, .err .runtime)

/-- `insert(index, member)` (after the `fix:` commit: names are compared / adopted); `list.insert` clamps the index -/
def insertL (index : Nat) (m : M) (L : LZ) : LZ × Out :=
  match m with
  | .leaf .. => (L, .err .type)
  | .node mbs mdv mns mkids =>
    match L.members with
    | [] => ({ L with members := [m] }, .ok)
    | first :: _ =>
      match first with
      | .leaf .. => (L, .err .runtime)
      | .node bs dv _ _ =>
        if dv != mdv then (L, .err .value)
        else if bs != mbs then (L, .err .value)
        else
          let names := first.namesList
          let mnames := (M.node mbs mdv mns mkids).namesList
          if mnames == names then ({ L with members := insertAt index m L.members }, .ok)
          else if mnames.any (·.isSome) then (L, .err .value)
          else
            match setNamesM (some names) m with
            | (m', .ok) => ({ L with members := insertAt index m' L.members }, .ok)
            | (_, .err e) => (L, .err e)

/-- `value.unbind(stack_dim)`: one piece per member, without the stack dim -/
def unbindLeaf (sd : Nat) : M → M
  | .leaf s d => .leaf (s.eraseIdx sd) d
  | m => m

/-- what one member does with its piece: `_set_str(k, piece, validated=True)` for a string key, `_set_tuple(key, piece,
validated=False)` for a nested key -/
def setMember (k : String) (rest : Path) (piece : M) : M → M × Out
  | m =>
    match rest, m with
    | [], .node bs dv ns kids => (.node bs dv ns (kset k piece kids), .ok)
    | [], .leaf s' d' => (.leaf s' d', .err .attr)
    | _ :: _, m => setPath false (k :: rest) piece m

/-- `set(key, tensor)`: the value is validated against the batch size and device of the stack, unbound along the stack dim,
and each member receives its piece — as is for a string key, validated by the receiving nested tensordict for a nested key -/
def setL (key : Path) (s : Shape) (d : Nat) (L : LZ) : LZ × Out :=
  match key with
  | [] => (L, .err .key)
  | k :: rest =>
    match valShape L.batchSize (.leaf s d) with
    | .error e => (L, .err e)
    | .ok v1 =>
      match valDev L.device v1 with
      | .error e => (L, .err e)
      | .ok v2 =>
        let (ms, o) := eachMember (setMember k rest (unbindLeaf L.sd v2)) L.members
        ({ L with members := ms }, o)

/-- `del_(key)`: every member deletes; a KeyError of a member is swallowed as long as one member deleted -/
def delLoop (key : Path) : List M → Bool → Option Err → List M × Bool × Option Err × Option Err
  | [], del, err => ([], del, err, none)
  | m :: r, del, err =>
    match delPath key m with
    | (m', .ok) => let (r', d', e', x) := delLoop key r true err; (m' :: r', d', e', x)
    | (m', .err .key) => let (r', d', e', x) := delLoop key r del (some .key); (m' :: r', d', e', x)
    | (m', .err e) => (m' :: r, del, err, some e)

def delL (key : Path) (L : LZ) : LZ × Out :=
  match delLoop key L.members false none with
  | (ms, _, _, some e) => ({ L with members := ms }, .err e)
  | (ms, true, _, none) => ({ L with members := ms }, .ok)
  | (ms, false, some e, none) => ({ L with members := ms }, .err e)
  | (ms, false, none, none) => ({ L with members := ms }, .err .key)

/-- `rename_key_(old, new)`: member after member -/
def renameL (old new : Path) (L : LZ) : LZ × Out :=
  let (ms, o) := eachMember (renamePath old new) L.members
  ({ L with members := ms }, o)

inductive LOp where
  | set (key : Path) (shape : Shape) (dev : Nat)
  | del (key : Path)
  | rename (old new : Path)
  | setNames (names : Option DimNames)
  | setBatch (bs : Shape)
  | insert (index : Nat) (m : M)
  deriving Repr, Inhabited

def lstep (L : LZ) : LOp → LZ × Out
  | .set key s d => setL key s d L
  | .del key => delL key L
  | .rename o n => renameL o n L
  | .setNames ns => setNamesL ns L
  | .setBatch bs => setBatchL bs L
  | .insert i m => insertL i m L

end TdVerif.C01
