/-
  C08 — `torch.cat` / `torch.stack` of lazy stacks with `out=<lazy stack>` (tensordict/_torch_func.py
  `_lazy_cat`, `_stack` → _lazy.py `_stack_onto_`): nothing is returned but `out`, whose MEMBERS are
  written in place.  The model gives the members of `out` afterwards (values; the entries of the
  sources replace the entries of the destination members, which hold the same keys).
-/
import TdVerif.Model.C08Lazy

namespace TdVerif.C08

/-- mirrors `_lazy_cat(list, dim, out)` for a lazy `out` (after the fix commit "torch.cat of lazy
stacks with out=<lazy stack>"): `out` must have the batch size of the result;
* `out.stack_dim == dim`: the members of `out`, in order, receive the pieces
  `td_in.unbind(dim)` of the operands (`dest.update(source, inplace=True)`);
* otherwise member `i` of `out` receives `torch.cat([td[(:,)*out.stack_dim + (i,)] for td in list], sub_dim)`. -/
def lazyCatOut [Inhabited α] (Ls : List (Lazy α)) (dim : Int) (out : Lazy α) : Option (Lazy α) :=
  match Ls with
  | [] => none
  | L0 :: _ =>
    let r : Int := L0.batch.length
    let d0 : Int := if dim < 0 then r + dim else dim
    if d0 ≥ r ∨ d0 < 0 then none
    else if Ls.any (fun L => L.sd != L0.sd) then none
    else
      let d := d0.toNat
      let catBatch := L0.batch.set d ((Ls.map fun L => at0 L.batch d).sum)
      if out.batch ≠ catBatch then none
      else if out.sd ≠ d then
        let subDim := if d < out.sd then d else d - 1
        (allSome ((List.range out.members.length).map fun i =>
            (allSome (Ls.map fun L =>
                (lazyGetCore L (List.replicate out.sd Ix.full ++ [.int (i : Int)])).map absR)).map fun col =>
              TD.catList col subDim)).map fun ms => ⟨ms, out.sd⟩
      else
        let pieces := Ls.flatMap fun L => (lazyUnbind L d).map absR
        if pieces.length ≠ out.members.length then none else some ⟨pieces, out.sd⟩

/-- mirrors `_stack(list, dim, out=<lazy stack>)` → `out._stack_onto_(list, dim)` (_lazy.py):
* `dim == out.stack_dim`: member `i` of `out` is updated in place with item `i` (`update_`);
* otherwise item `i` is written at `out[(:,)*dim + (i,)]` (`update_at_`, i.e. the index write of
  `lazySet`). -/
def lazyStackOnto [Inhabited α] (out : Lazy α) (items : List (TD α)) (dim : Nat) : Option (Lazy α) :=
  if dim = out.sd then
    if items.length ≠ out.members.length then none else some ⟨items, out.sd⟩
  else
    (items.zipIdx).foldlM (fun (O : Lazy α) (p : TD α × Nat) =>
      lazySet O (List.replicate dim Ix.full ++ [.int (p.2 : Int)]) p.1) out

end TdVerif.C08
