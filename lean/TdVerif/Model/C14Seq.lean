/-
  C14 — TensorDictModule / TensorDictSequential: dataflow over keys.

  Transcribed (file:function):
    runMod        tensordict/nn/common.py:TensorDictModule.forward + _write_to_tensordict (inplace=True, no tensordict_out)
    run           tensordict/nn/sequence.py:TensorDictSequential.forward (default options: modules run in order on the input)
    inOutKeys     tensordict/nn/sequence.py:TensorDictSequential._compute_in_and_out_keys
    selIn/selOut  tensordict/nn/sequence.py:TensorDictSequential.select_subsequence (forward pass / backward pass)
    hookOld/hook  tensordict/nn/common.py:_OutKeysSelect.__call__ (pinned: select(in_keys+out_keys) / repaired: exclude dropped)
  The full forward with inplace / tensordict_out / selected out-keys / nested sequences is in the second half.

  Values are symbolic: `V.app f args i` is the i-th output of function `f` on `args`, so two runs
  compute the same value iff the dataflow is the same.
-/
namespace TdVerif.C14

/-- a (possibly nested) key, as the tuple of its components; `"_"` is the sink -/
abbrev Key := List String
abbrev FnId := Nat

def sink : Key := ["_"]

inductive V where
  | input (k : Key)
  | app (f : FnId) (args : List V) (i : Nat)
  deriving Repr, Inhabited

/-- a tensordict: leaves by full key (insertion ordered Python dict semantics) -/
abbrev Env := List (Key × V)

namespace Env
def get? : Env → Key → Option V
  | [], _ => none
  | (k', v) :: r, k => if k' = k then some v else get? r k

def set : Env → Key → V → Env
  | [], k, v => [(k, v)]
  | (k', v') :: r, k, v => if k' = k then (k, v) :: r else (k', v') :: set r k v

def del : Env → Key → Env
  | [], _ => []
  | (k', v) :: r, k => if k' = k then del r k else (k', v) :: del r k

def has (e : Env) (k : Key) : Bool := (e.get? k).isSome
end Env

/-- a `TensorDictModule` around an opaque function -/
structure Mod where
  ins : List Key
  outs : List Key
  f : FnId
  deriving Repr, Inhabited

/-- `tuple(tensordict.get(k) for k in in_keys)`; a missing key makes the call fail -/
def readArgs (e : Env) : List Key → Option (List V)
  | [] => some []
  | k :: ks =>
    match e.get? k, readArgs e ks with
    | some v, some vs => some (v :: vs)
    | _, _ => none

/-- `for key, tensor in zip(out_keys, tensors): if key != "_": tensordict_out.set(key, tensor)` -/
def writeOuts (f : FnId) (args : List V) : Env → List Key → Nat → Env
  | e, [], _ => e
  | e, k :: ks, i =>
    if k = sink then writeOuts f args e ks (i + 1)
    else writeOuts f args (e.set k (.app f args i)) ks (i + 1)

/-- mirrors TensorDictModule.forward (inplace=True): `none` = the call raises -/
def runMod (m : Mod) (e : Env) : Option Env :=
  match readArgs e m.ins with
  | none => none
  | some args => some (writeOuts m.f args e m.outs 0)

/-- mirrors TensorDictSequential.forward with default options -/
def run : List Mod → Env → Option Env
  | [], e => some e
  | m :: ms, e =>
    match runMod m e with
    | none => none
    | some e' => run ms e'

/-- the loop of `_compute_in_and_out_keys`: accumulators `(in_keys, out_keys)` -/
def addIns (outs : List Key) : List Key → List Key → List Key
  | acc, [] => acc
  | acc, k :: ks => if k ∈ outs ++ acc then addIns outs acc ks else addIns outs (acc ++ [k]) ks

def inOutAux : List Mod → List Key → List Key → List Key × List Key
  | [], ins, outs => (ins, outs)
  | m :: ms, ins, outs => inOutAux ms (addIns outs ins m.ins) (outs ++ m.outs)

/-- `[k for i, k in enumerate(out_keys) if k not in out_keys[i+1:]]` -/
def dedupLast : List Key → List Key
  | [] => []
  | k :: ks => if k ∈ ks then dedupLast ks else k :: dedupLast ks

def inKeys (ms : List Mod) : List Key := (inOutAux ms [] []).1
def outKeys (ms : List Mod) : List Key := dedupLast (inOutAux ms [] []).2
def allOuts (ms : List Mod) : List Key := ms.flatMap (·.outs)

/-- forward pass of `select_subsequence`: keep a module iff all its in_keys are available -/
def selIn : List Mod → List Key → List Mod
  | [], _ => []
  | m :: ms, avail =>
    if m.ins.all (· ∈ avail) then m :: selIn ms (avail ++ m.outs) else selIn ms avail

/-- backward pass of `select_subsequence` (the list is walked from the end): keep a module iff it
writes a needed key; its in_keys become needed. Returns the kept modules and the final needed list. -/
def selOut : List Mod → List Key → List Mod × List Key
  | [], need => ([], need)
  | m :: ms, need =>
    let r := selOut ms need
    if m.outs.any (· ∈ r.2) then (m :: r.1, r.2 ++ m.ins) else r

/-- `select_subsequence(in_keys, out_keys)` on a flat sequence of modules: `none` = ValueError (nothing left) -/
def selectSub (ms : List Mod) (inK outK : Option (List Key)) : Option (List Mod) :=
  let a := selIn ms (inK.getD (inKeys ms))
  let b := (selOut a (outK.getD (outKeys ms))).1
  if b.isEmpty then none else some b

/-- `_OutKeysSelect` as pinned: `tensordict_out.select(*in_keys, *out_keys, inplace=True)` -/
def hookOld (m : Mod) (sel : List Key) (e : Env) : Env :=
  e.filter (fun kv => kv.1 ∈ m.ins ++ sel)

/-- `_OutKeysSelect` repaired: only the out-keys that were not selected (and are not in_keys) are dropped -/
def hook (m : Mod) (sel : List Key) (e : Env) : Env :=
  e.filter (fun kv => !(kv.1 ∈ m.outs && !(kv.1 ∈ sel) && !(kv.1 ∈ m.ins)))

def runModSel (m : Mod) (sel : List Key) (e : Env) : Option Env := (runMod m e).map (hook m sel)
def runModSelOld (m : Mod) (sel : List Key) (e : Env) : Option Env := (runMod m e).map (hookOld m sel)


/-! ## the full forward: options, tensordict_out, nested sequences

Objects matter here (`inplace`, `tensordict_out`, the shallow copy taken by the sequence): a call
receives the content of its argument tensordict and returns the content of that object after the
call together with, possibly, a new object. -/

inductive Inplace where
  | yes | no | empty            -- True / False / "empty"
  deriving DecidableEq, Repr

/-- a `TensorDictModule` with its options -/
structure ModX where
  m : Mod
  inplace : Inplace := .yes
  sel : Option (List Key) := none      -- `select_out_keys(*sel)` was called on the module
  deriving Repr

inductive Node where
  | mod (x : ModX)
  /-- `TensorDictSequential(*kids, inplace=…, partial_tolerant=…)`; `sel` = selected_out_keys / select_out_keys -/
  | seq (kids : List Node) (inplace : Option Inplace) (sel : Option (List Key)) (pt : Bool)

mutual
/-- `module.in_keys` -/
def Node.ins : Node → List Key
  | .mod x => x.m.ins
  | .seq kids _ _ _ => (nodesInOut kids [] []).1
/-- `module.out_keys` (the apparent ones: after selection) -/
def Node.outs : Node → List Key
  | .mod x => x.sel.getD x.m.outs
  | .seq kids _ sel _ => sel.getD (dedupLast (nodesInOut kids [] []).2)
/-- `_compute_in_and_out_keys` over the children's advertised keys -/
def nodesInOut : List Node → List Key → List Key → List Key × List Key
  | [], ins, outs => (ins, outs)
  | n :: ns, ins, outs => nodesInOut ns (addIns outs ins n.ins) (outs ++ n.outs)
end

def headIs (t : String) (k : Key) : Bool := k.head? == some t

/-- first components of the keys, in order of first appearance: `source.items()` -/
def topNames : Env → List String
  | [] => []
  | (k, _) :: r =>
    match k.head? with
    | none => topNames r
    | some t => t :: (topNames r).filter (· != t)

def isNodeAt (e : Env) (t : String) : Bool := e.any (fun kv => headIs t kv.1 && kv.1.length ≥ 2)

/-- mirrors tensordict/base.py:TensorDictBase.update(source, keys_to_update=K) for key depth ≤ 2:
a top-level entry of the source is considered when its name is (the first component of) some key of K;
if both sides hold a nested tensordict there, the update recurses with the pruned keys (nothing at all when
the pruned list is empty); otherwise the *whole* source value replaces the destination entry. -/
def updKeys (dest src : Env) (K : List Key) : Env :=
  if K.isEmpty then dest else
  (topNames src).foldl (fun d t =>
    if !(K.any (headIs t)) then d
    else if d.any (fun kv => headIs t kv.1) && isNodeAt d t && isNodeAt src t then
      let subK := K.filterMap (fun k => if k.length ≥ 2 && headIs t k then some k.tail else none)
      if subK.isEmpty then d
      else (src.filter (fun kv => headIs t kv.1)).foldl
        (fun d kv => if subK.any (fun k => k.head? == kv.1.tail.head?) then d.set kv.1 kv.2 else d) d
    else
      (src.filter (fun kv => headIs t kv.1)).foldl (fun d kv => d.set kv.1 kv.2)
        (d.filter (fun kv => !headIs t kv.1))) dest

/-- does `updKeys dest src K` hand a whole nested tensordict of the source to the destination? The
destination then shares that nested object with the source (later writes under it show in both):
such runs are outside what this model (contents, not nested object identities) represents. -/
def updAliases (dest src : Env) (K : List Key) : Bool :=
  !K.isEmpty && (topNames src).any (fun t =>
    K.any (headIs t) && isNodeAt src t && !(dest.any (fun kv => headIs t kv.1) && isNodeAt dest t))

/-- what a call returns: the argument object after the call and, when a new object is returned, its
content; `aliased` = some update shared a nested tensordict between two objects (see `updAliases`) -/
structure Out where
  arg : Env
  fresh : Option Env
  aliased : Bool := false
  deriving Repr

def Out.ret (o : Out) : Env := o.fresh.getD o.arg

def applyHook (x : ModX) (e : Env) : Env :=
  match x.sel with
  | none => e
  | some s => hook x.m s e

/-- `td.keys(True)`: leaves and the nested tensordicts above them -/
def hasKeyOrNode (e : Env) (k : Key) : Bool := e.any (fun kv => k.isPrefixOf kv.1)

/-- the test of tensordict/nn/utils.py:set_skip_existing (decorator of every `forward`): under
`set_skip_existing(True)` a module whose out_keys are all present, and none of whose in_keys is an out_key,
returns its input as it is -/
def skips (skip : Bool) (ins outs : List Key) (arg : Env) : Bool :=
  skip && outs.all (hasKeyOrNode arg) && !(ins.any (· ∈ outs))

/-- TensorDictModule.forward without tensordict_out. The error carries the argument as left. -/
def fwdMod (skip : Bool) (x : ModX) (arg : Env) : Except (Env × Bool) Out :=
  if skips skip x.m.ins (x.sel.getD x.m.outs) arg then
    -- the forward is skipped and the input is handed back as it is (repaired: the `_OutKeysSelect` forward hook used to
    -- run on the returned input, dropping unselected out_keys that happened to be there, or raising when an in_key
    -- was missing — `_set_skip_existing_None` now tells the hook that the forward did not run)
    .ok { arg := arg, fresh := none }
  else
  match readArgs arg x.m.ins with
  | none => .error (arg, false)
  | some args =>
    match x.inplace with
    | .yes => .ok { arg := applyHook x (writeOuts x.m.f args arg x.m.outs 0), fresh := none }
    | _ => .ok { arg := arg, fresh := some (applyHook x (writeOuts x.m.f args [] x.m.outs 0)) }

/-- execution state of a sequence: the argument object and, when it differs, the object being executed on -/
structure Exec where
  arg : Env
  exec : Option Env          -- `none`: tensordict_exec *is* the argument
  aliased : Bool := false

def Exec.cur (s : Exec) : Env := s.exec.getD s.arg

/-- the state after a child returned `o` when called on `s.cur` -/
def Exec.after (s : Exec) (o : Out) : Exec :=
  match s.exec with
  | none => { arg := o.arg, exec := o.fresh, aliased := s.aliased || o.aliased }
  | some _ => { arg := s.arg, exec := some o.ret, aliased := s.aliased || o.aliased }

def Exec.afterErr (s : Exec) (cur' : Env) : Env :=
  match s.exec with
  | none => cur'
  | some _ => s.arg

mutual
/-- one child called on the current execution object (`_run_module`, non-lazy tensordict) -/
def fwdNode (skip : Bool) : Node → Env → Except (Env × Bool) Out
  | .mod x, arg => fwdMod skip x arg
  | .seq kids ip sel pt, arg =>
    if skips skip (nodesInOut kids [] []).1 (sel.getD (dedupLast (nodesInOut kids [] []).2)) arg then
      .ok { arg := arg, fresh := none } else
    -- tensordict_exec = tensordict.copy() when the out-keys were selected and (repaired) when the sequence is
    -- `inplace=False` / `"empty"`: the input is then left as it is
    let s0 : Exec := { arg := arg, exec := if sel.isSome || ip == some .no || ip == some .empty then some arg else none }
    match fwdKids skip kids pt s0 with
    | .error a => .error a
    | .ok s =>
      let outKeys := sel.getD (dedupLast (nodesInOut kids [] []).2)
      match ip with
      | some .yes =>
        -- tensordict_out = tensordict ; result.update(tensordict_exec, keys_to_update=out_keys)
        (match s.exec with
         | none => .ok { arg := s.arg, fresh := none, aliased := s.aliased }
         | some e => .ok { arg := updKeys s.arg e outKeys, fresh := none,
                           aliased := s.aliased || updAliases s.arg e outKeys })
      | some _ => .ok { arg := s.arg, fresh := some (updKeys [] s.cur outKeys),
                        aliased := s.aliased || updAliases [] s.cur outKeys }
      | none =>
        if sel.isSome then
          -- keys = out_keys + the leaves of the input ; tensordict.update(result, keys_to_update=keys)
          .ok { arg := updKeys s.arg s.cur (outKeys ++ s.arg.map (·.1)), fresh := none,
                aliased := s.aliased || updAliases s.arg s.cur (outKeys ++ s.arg.map (·.1)) }
        else .ok { arg := s.arg, fresh := s.exec, aliased := s.aliased }
/-- the loop over the children -/
def fwdKids (skip : Bool) : List Node → Bool → Exec → Except (Env × Bool) Exec
  | [], _, s => .ok s
  | n :: ns, pt, s =>
    if pt && !(n.ins.all (fun k => s.cur.has k)) then fwdKids skip ns pt s
    else
      match fwdNode skip n s.cur with
      | .error (cur', al) => .error (s.afterErr cur', s.aliased || al)
      | .ok o => fwdKids skip ns pt (s.after o)
end

/-- top-level call with `tensordict_out=out` on a sequence: (argument after, tensordict_out after) -/
def fwdSeqOut (skip : Bool) (kids : List Node) (sel : Option (List Key)) (pt : Bool) (arg out : Env) : Except (Env × Bool) (Env × Env × Bool) :=
  match fwdKids skip kids pt { arg := arg, exec := some arg } with
  | .error a => .error a
  | .ok s =>
    let K := sel.getD (dedupLast (nodesInOut kids [] []).2)
    .ok (s.arg, updKeys out s.cur K, s.aliased || updAliases out s.cur K)

/-- top-level call with `tensordict_out=out` on a module -/
def fwdModOut (x : ModX) (arg out : Env) : Except (Env × Bool) (Env × Env × Bool) :=
  match readArgs arg x.m.ins with
  | none => .error (arg, false)
  | some args => .ok (arg, applyHook x (writeOuts x.m.f args out x.m.outs 0), false)


/-! ### `select_subsequence` on nested sequences -/

mutual
/-- mirrors TensorDictSequential.select_subsequence with nested `TensorDictSequential` children
(`fuel` bounds the nesting depth). `none` = ValueError("No modules left after selection"). The result
is `type(self)(*modules)`: a sequence with default options. -/
def selectNode : Nat → List Node → Option (List Key) → Option (List Key) → Option (List Key) → Option Node
  | 0, _, _, _, _ => none
  | fuel + 1, kids, sel, inK, outK =>
    let selfIns := (nodesInOut kids [] []).1
    let selfOuts := sel.getD (dedupLast (nodesInOut kids [] []).2)
    let kept := selFwd fuel kids (inK.getD selfIns)
    match selBwd fuel kept (outK.getD selfOuts) with
    | none => none
    | some (kept', _) => if kept'.isEmpty then none else some (.seq kept' none none false)
/-- forward pass -/
def selFwd : Nat → List Node → List Key → List Node
  | _, [], _ => []
  | fuel, n :: ns, avail =>
    match n with
    | .mod _ =>
      if n.ins.all (· ∈ avail) then n :: selFwd fuel ns (avail ++ n.outs) else selFwd fuel ns avail
    | .seq kids _ sel _ =>
      match selectNode fuel kids sel (some avail) none with
      | none => selFwd fuel ns avail
      | some n' =>
        if n'.ins.all (· ∈ avail) then n' :: selFwd fuel ns (avail ++ n'.outs) else selFwd fuel ns avail
/-- backward pass (recursion from the end): kept modules and the needed keys; `none` when a nested
selection raises -/
def selBwd : Nat → List Node → List Key → Option (List Node × List Key)
  | _, [], need => some ([], need)
  | fuel, n :: ns, need =>
    match selBwd fuel ns need with
    | none => none
    | some (kept, need') =>
      if n.outs.any (· ∈ need') then
        match n with
        | .mod _ => some (n :: kept, need' ++ n.ins)
        | .seq kids _ sel _ =>
          match selectNode fuel kids sel none (some need') with
          | none => none
          | some n' => some (n' :: kept, need' ++ n'.ins)
      else some (kept, need')
end

end TdVerif.C14
