/-
  C06 — memoised reads on top of the C05 lock heap.

  transcribed code (tensordict @ worktree, with the `fix:` commits of C05/C06):
    utils.py  `cache.newfun`      : consulted iff `is_locked` and `_is_locked is not None` (and not compiling);
                                    key = `(fun.__name__, _make_cache_key(args, kwargs))`; tensors are not stored
              `_make_cache_key`   : str / int / slice / Ellipsis by value, lists and tuples unfolded, everything else by `id()`
              `erase_cache`       : `_propagate_unlock` of every node of the subtree (base.py, _lazy.py), also when the unlock is refused
    base.py   `_erase_cache_up`   : the node and, transitively, its live lock parents (called by `_set_str(ignore_lock=True)`
                                    when an entry is rebound under lock: non-tensor indexed write, make_memmap*)
    _td.py    `names.setter`, `_erase_names`, `_rename_subtds`; base.py `_batch_size_setter`, `clear_device_`, `_set_device`;
              _lazy.py `names.setter` (`@erase_cache`: its own cache only), `_erase_names`  — metadata assignments, accepted
              under lock: `if self._is_locked: self._erase_cache_up()` before the attribute changes, then the nested tensordicts
    _td.py    `_memmap_(inplace=True)` : `if self._is_locked: self._erase_cache_up()`, every leaf rebound to a memory-mapped
              tensor, nested tensordicts in turn; then base.py `memmap_` -> `utils._lock_after_memmap` (C05 `memmapEv`)
  A memoised method is abstracted by the function it computes from the *bindings and metadata* of the subtree (key paths, identity
  of the bound objects, attribute values of every node below): `obs`.  In-place value writes do not change bindings, so a read
  that returns the stored leaves sees them.
  Tensordict-valued reads (`flatten_keys`, `unflatten_keys`, `detach`) allocate a new object on every computation (`build`); the cache
  hands out the *same* object on every hit.
-/
import TdVerif.Model.C05Lock

namespace TdVerif.C06
open TdVerif.C05

/-- what a key of the subtree is bound to -/
inductive Ent where
  | leaf (obj : Nat)
  | node (id : Nat)
  /-- a metadata attribute of the node at this path (dimension names, batch size, device, storage kind) -/
  | attr (field value : Nat)
  deriving Repr, DecidableEq

abbrev Content := List (List String × Ent)

/-- bindings and metadata of the whole subtree of `i`, by key path (value versions are not part of it) -/
def contentF : Nat → Heap → Nat → Content
  | 0, _, _ => []
  | n + 1, h, i =>
    (h.node i).attrs.map (fun a => ([], Ent.attr a.1 a.2)) ++
    (h.node i).leaves.map (fun e => ([e.1], Ent.leaf e.2.1)) ++
    (h.node i).kids.flatMap (fun e => ([e.1], Ent.node e.2) :: (contentF n h e.2).map (fun p => (e.1 :: p.1, p.2)))
def content (h : Heap) (i : Nat) : Content := contentF (i + 1) h i

/-- an actual argument: a primitive (by value) or an object with an identity and an address (`id()`); a dead object's
address may be handed to a new object -/
inductive Arg where
  | val (n : Nat)
  | obj (oid addr : Nat)
  deriving Repr, DecidableEq

/-- what the cache key sees of an argument (`_unfold_sequence`) -/
inductive KeyAtom where
  | val (n : Nat)
  | addr (a : Nat)
  deriving Repr, DecidableEq

/-- what the computation depends on -/
inductive SemAtom where
  | val (n : Nat)
  | obj (oid : Nat)
  deriving Repr, DecidableEq

structure Query where
  meth : Nat                 -- index of the memoised method in `Gen.CacheTable`
  args : List Arg
  /-- the method returns a new tensordict (flatten_keys / unflatten_keys / detach) -/
  allocates : Bool := false
  /-- the method returns a Tensor (never stored: lazy `_get_str` of a leaf) -/
  tensorValued : Bool := false
  deriving Repr, DecidableEq

def Arg.key : Arg → KeyAtom
  | .val n => .val n
  | .obj _ a => .addr a
def Arg.sem : Arg → SemAtom
  | .val n => .val n
  | .obj o _ => .obj o

/-- mirrors `(fun.__name__, _make_cache_key(args, kwargs))` -/
def Query.key (q : Query) : Nat × List KeyAtom := (q.meth, q.args.map Arg.key)
def Query.sem (q : Query) : Nat × List SemAtom := (q.meth, q.args.map Arg.sem)

/-- the result of a read: a value computed from the bindings, or (for allocating methods) the object that was built -/
inductive Res where
  | value (c : Content)
  | object (id : Nat)
  deriving Repr, DecidableEq

/-- the functions the memoised methods compute (parameters of every theorem; the driver instantiates them) -/
structure Sem where
  /-- value-returning methods -/
  obs : Nat × List SemAtom → Content → Content
  /-- entries (leaves) of the tensordict an allocating method builds -/
  build : Nat × List SemAtom → Content → List (String × Nat × Nat)

abbrev Cache := Nat → List (Query × Res)

structure CState where
  base : State
  /-- `_cache` of every object; the stored `Query` is ghost information: lookups only see `Query.key` -/
  cache : Cache := fun _ => []

def CState.heap (s : CState) : Heap := s.base.heap

/-- mirrors the guard of `cache.newfun` (repaired): `is_locked` and `_is_locked is not None` -/
def cacheActive (h : Heap) (i : Nat) : Bool := isLocked h i && (h.node i).flag != none
/-- the pinned code consulted the cache whenever `is_locked` (also for a lock that a lazy stack only derives) -/
def cacheActivePinned (h : Heap) (i : Nat) : Bool := isLocked h i

def lookup (k : Nat × List KeyAtom) : List (Query × Res) → Option (Query × Res)
  | [] => none
  | e :: rest => if e.1.key = k then some e else lookup k rest

def eraseAt (c : Cache) (i : Nat) : Cache := fun j => if j = i then [] else c j
def eraseMany (c : Cache) (l : List Nat) : Cache := l.foldl eraseAt c

def addNew (acc : List Nat) (x : Nat) : List Nat := if acc.contains x then acc else acc ++ [x]
/-- the same elements, once each (the `_seen` set of `_erase_cache_up`) -/
def dedup (l : List Nat) : List Nat := l.foldl addNew []

/-- the live lock parents of the nodes of a frontier, once each -/
def parentsUp (h : Heap) (fr : List Nat) : List Nat :=
  dedup (fr.flatMap (fun i => (parentsOf h i).filter (fun p => live h p)))

/-- one generation after the other: reset the frontier, move on to its live lock parents -/
def eraseLv : Nat → Heap → Cache → List Nat → Cache
  | 0, _, c, fr => eraseMany c fr
  | n + 1, h, c, fr => eraseLv n h (eraseMany c fr) (parentsUp h fr)

/-- mirrors base.py `_erase_cache_up`: the node, then every live lock parent, transitively.  The code walks depth-first with a
`_seen` set; the model resets the same tensordicts generation by generation (each generation de-duplicated, `n + 1` generations:
a lock parent that holds the node is older, derived parents of lazy stacks are bounded by the number of objects). -/
def eraseUpF (n : Nat) (h : Heap) (c : Cache) (i : Nat) : Cache := eraseLv n h c [i]

/-- the value a fresh computation returns -/
def freshValue (sem : Sem) (h : Heap) (i : Nat) (q : Query) : Content := sem.obs q.sem (content h i)

inductive Hit where
  | bypass      -- cache not consulted (not locked / derived lock)
  | miss
  | hit
  deriving Repr, DecidableEq

/-- mirrors `cache.newfun` -/
def readEv (sem : Sem) (s : CState) (i : Nat) (q : Query) : CState × Res × Hit :=
  let h := s.heap
  let compute : CState × Res :=
    if q.allocates then
      -- a new (unlocked) tensordict holding the built entries
      let h' := h.alloc { alive := true, leaves := sem.build q.sem (content h i) }
      ({ s with base := { s.base with heap := h' } }, .object h.size)
    else (s, .value (freshValue sem h i q))
  if !cacheActive h i then (compute.1, compute.2, .bypass)
  else
    match lookup q.key (s.cache i) with
    | some e => (s, e.2, .hit)
    | none =>
      let r := compute
      if q.tensorValued then (r.1, r.2, .miss)
      else ({ r.1 with cache := fun j => if j = i then (q, r.2) :: s.cache i else s.cache j }, r.2, .miss)

/-- the nodes whose `_propagate_unlock` runs when `i.unlock_()` is called -/
def unlockErased (h : Heap) (i : Nat) : List Nat := (propUnlockF (i + 1) h i).2 ++ [i]

inductive CEv where
  | base (e : Ev)
  | read (i : Nat) (q : Query)
  /-- `_set_str(key, value, inplace=False, ignore_lock=True)`: binds `k` to a new object whatever the lock
  (non-tensor indexed write turning NonTensorData into a NonTensorStack, make_memmap*) -/
  | rebind (i : Nat) (k : String) (obj : Nat)
  /-- a metadata assignment, accepted whatever the lock: `td.names = …` / `rename_` / `refine_names`, `td.batch_size = …`,
  `clear_device_()` / `auto_device_()`.  `depth` = how far the setter walks down the plain tensordicts (names: the whole
  subtree; `names = None`: one level (`_erase_names`); batch size: the node); lazy stacks always hand over to their members. -/
  | setAttr (i field value depth : Nat)
  /-- `memmap_(prefix)` (in place; also on an already memory-mapped tree with `copy_existing=True`): every leaf of every
  tensordict below `i` is rebound to a new object (`news`: (node, key) ↦ identity of the memory-mapped tensor), then the tree
  is locked (`Ev.viaMemmap`) -/
  | memmap (i : Nat) (news : List ((Nat × String) × Nat))
  deriving Repr

/-- does the event run `_propagate_unlock` on the subtree of `i`? -/
def unlockTarget (s : State) : Ev → Option Nat
  | .unlock i => some i
  | .withUnlock i => some i
  | .exitCtx => match s.ctx with
    | (i, some true) :: _ => some i
    | _ => none
  | _ => none

/-- the objects whose `_cache` is reset by a lock-machine event: the subtree whose `_propagate_unlock` runs
(`@erase_cache`), and an object that is collected -/
def erasedBy (s : State) (e : Ev) : List Nat :=
  match unlockTarget s e with
  | some i => if live s.heap i && i < s.heap.size then unlockErased s.heap i else []
  | none => match e with
    | .gcDrop i => if live s.heap i && i < s.heap.size && !held s.heap i then [i] else []
    -- nn/params.py `_propagate_unlock` is `@erase_cache` too: the wrapper's own cache (the content is not visited)
    | .unlockShallow i => if live s.heap i && i < s.heap.size then [i] else []
    | _ => []

def bindLeaf (n : LNode) (k : String) (obj : Nat) : LNode :=
  { n with kids := n.kids.filter (·.1 != k), leaves := n.leaves.filter (·.1 != k) ++ [(k, obj, 0)] }

/-! ### metadata assignments -/

def setField (l : List (Nat × Nat)) (f v : Nat) : List (Nat × Nat) := (f, v) :: l.filter (fun a => a.1 != f)

/-- the tensordicts whose attribute a setter called on `i` assigns: `i`, then the entries of a plain tensordict while `d > 0`;
a lazy stack hands over to its members without consuming depth (mirrors `_rename_subtds` / `_erase_names` / `clear_device_`
of _td.py, base.py and _lazy.py) -/
def attrTargetsF : Nat → Heap → Nat → Nat → List Nat
  | 0, _, _, i => [i]
  | n + 1, h, d, i =>
    if (h.node i).lazy then i :: (kidIds h i).flatMap (attrTargetsF n h d)
    else if d = 0 then [i]
    else i :: (kidIds h i).flatMap (attrTargetsF n h (d - 1))
/-- once each: a tensordict reachable through several keys is visited several times by the code, with the same effect -/
def attrTargets (h : Heap) (d i : Nat) : List Nat := dedup (attrTargetsF (i + 1) h d i)

/-- one tensordict: the cache invalidation of the setter, then the assignment.
plain tensordict: `if self._is_locked: self._erase_cache_up()`; lazy stack: `@erase_cache` (its own cache only — the
tensordicts that hold the stack are reached through the setters of its members) -/
def attrTouch (s : CState) (j f v : Nat) : CState :=
  { base := { s.base with heap := s.heap.upd j (fun n => { n with attrs := setField n.attrs f v }) },
    cache := if (s.heap.node j).lazy then eraseAt s.cache j
             else if flagged s.heap j then eraseUpF s.heap.size s.heap s.cache j else s.cache }

def setAttrEv (s : CState) (i f v d : Nat) : CState :=
  (attrTargets s.heap d i).foldl (fun acc j => attrTouch acc j f v) s

/-- every lazy stack among the targets hands over to a plain tensordict that is a target too (false only for an empty
lazy stack, which `NonEmptyLazy` excludes, or when the walk is cut short) -/
def lazyCovered (h : Heap) (ts : List Nat) : Bool :=
  ts.all (fun j => !(h.node j).lazy || ts.any (fun k => !(h.node k).lazy && reachB h j k))
where
  reachB (h : Heap) (j k : Nat) : Bool := (attrTargetsF (j + 1) h (j + 1) j).contains k

/-! ### `memmap_` -/

def newLeaf (news : List ((Nat × String) × Nat)) (j : Nat) (e : String × Nat × Nat) : String × Nat × Nat :=
  match news.lookup (j, e.1) with
  | some o => (e.1, o, e.2.2)
  | none => e

/-- one plain tensordict of the tree: `_memmap_(inplace=True)` — `_erase_cache_up()` when locked, then every leaf rebound -/
def memmapTouch (news : List ((Nat × String) × Nat)) (s : CState) (j : Nat) : CState :=
  if (s.heap.node j).lazy then s      -- a lazy stack has no leaf of its own: `_memmap_` only recurses into the members
  else
    { base := { s.base with heap := s.heap.upd j (fun n => { n with leaves := n.leaves.map (newLeaf news j) }) },
      cache := if flagged s.heap j then eraseUpF s.heap.size s.heap s.cache j else s.cache }

def memmapLeaves (s : CState) (i : Nat) (news : List ((Nat × String) × Nat)) : CState :=
  (attrTargets s.heap s.heap.size i).foldl (memmapTouch news) s

def cstep (sem : Sem) (s : CState) : CEv → CState × Out
  | .base e =>
    let r := step s.base e
    ({ base := r.1, cache := eraseMany s.cache (erasedBy s.base e) }, r.2)
  | .read i q =>
    if live s.heap i && i < s.heap.size then ((readEv sem s i q).1, .ok) else (s, .errOther)
  | .rebind i k obj =>
    if live s.heap i && i < s.heap.size && !(h_lazy s.heap i) then
      let h' := s.heap.upd i (fun n => bindLeaf n k obj)
      let c := if flagged s.heap i then eraseUpF s.heap.size s.heap s.cache i else s.cache
      ({ base := { s.base with heap := h' }, cache := c }, .ok)
    else (s, .errOther)
  | .setAttr i f v d =>
    if live s.heap i && i < s.heap.size then (setAttrEv s i f v d, .ok) else (s, .errOther)
  | .memmap i news =>
    if live s.heap i && i < s.heap.size then
      let s1 := memmapLeaves s i news
      let r := step s1.base (.viaMemmap i)
      ({ base := r.1, cache := eraseMany s1.cache (erasedBy s1.base (.viaMemmap i)) }, r.2)
    else (s, .errOther)
where
  h_lazy (h : Heap) (i : Nat) : Bool := (h.node i).lazy

def crun (sem : Sem) (s : CState) (evs : List CEv) : CState := evs.foldl (fun acc e => (cstep sem acc e).1) s

end TdVerif.C06
