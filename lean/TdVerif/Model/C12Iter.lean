/-
  C12 — `map_iter` (tensordict/base.py:TensorDictBase._map with `iterable=True`).

  `mapIterModel`         `shuffle=False`: the chunks of `_split_tensordict` go through `pool.imap`, which yields the
                         results in submission order; `map_iter` hands that iterator to the caller as it is (also the
                         `None` results)
  `mapIterShuffleModel`  `shuffle=True` (generator mode only, tensordict/utils.py:_split_tensordict.next_index_shuffle):
                         `rp = torch.randperm(n)`; the index piece `idx` of every chunk becomes `rp[idx]`; the chunks go
                         through `pool.imap_unordered`, which yields in completion order
-/
import TdVerif.Model.C12Chunk

namespace TdVerif.C12

/-- the rows at the given positions (`td[idx_tensor]`; positions outside select nothing) -/
def pick (rows : List α) (idxs : List Nat) : List α := idxs.filterMap (rows[·]?)

inductive IterErr where
  | split (e : SplitErr)
  /-- RuntimeError: shuffling is not permitted unless use_generator is set -/
  | shuffleEager
  deriving Repr, DecidableEq

def mapIterModel (rows : List α) (cs nc : Option Nat) (w : Nat) (gen : Bool)
    (fn : Piece → List α → Option (List β)) : Except IterErr (List (Option (List β))) :=
  match splitTensordict rows.length cs nc w gen with
  | .error e => .error (.split e)
  | .ok ps => .ok (ps.map fun p => fn p (p.extract rows))

/-- the row positions every chunk holds after the shuffle -/
def shuffledChunks (n : Nat) (rp : List Nat) (ps : List Piece) : List (List Nat) :=
  ps.map fun p => pick rp (p.rows n)

/-- `order`: the order in which the workers complete the chunks (what `imap_unordered` yields) -/
def mapIterShuffleModel (rows : List α) (cs nc : Option Nat) (w : Nat) (gen : Bool) (rp order : List Nat)
    (fn : List α → Option (List β)) : Except IterErr (List (Option (List β))) :=
  if gen = false then .error .shuffleEager
  else
    match splitTensordict rows.length cs nc w true with
    | .error e => .error (.split e)
    | .ok ps => .ok (pick ((shuffledChunks rows.length rp ps).map fun is => fn (pick rows is)) order)

end TdVerif.C12
