/-
  C08 — reductions through a lazy stack (tensordict/_lazy.py `all`, `any`, `_cast_reduction`).

  * `lazy.all()` / `lazy.any()` (no dim): `all(value.all() for value in self.tensordicts)` —
    the members are reduced one by one and the booleans combined.
  * `lazy.all(dim)` / `lazy.any(dim)`: torch's reduction on every entry of `self.items()`, i.e. on
    what `_get_str` returns; `sum / mean / prod / …(dim)` go through `to_tensordict()`, which is
    built from the same `_get_str` entries, then the dense `_cast_reduction`.
-/
import TdVerif.Model.C08Lazy

namespace TdVerif.C08

/-- SPEC: `t.all()` -/
def T.allB (t : T Bool) : Bool := (allCoords t.shape).all t.get
/-- SPEC: `t.any()` -/
def T.anyB (t : T Bool) : Bool := (allCoords t.shape).any t.get

/-- SPEC: `td.all()` / `td.any()` on a plain tensordict -/
def TD.allB (m : TD Bool) : Bool := m.keys.all fun k => (m.leaf k).allB
def TD.anyB (m : TD Bool) : Bool := m.keys.any fun k => (m.leaf k).anyB

/-- mirrors `all()`: `all(value.all() for value in self.tensordicts)` -/
def lazyAll (L : Lazy Bool) : Bool := L.members.all TD.allB
/-- mirrors `any()` -/
def lazyAny (L : Lazy Bool) : Bool := L.members.any TD.anyB

/-- mirrors the reductions along a dim: `{key: red(value) for key, value in self.items()}` where
`value` is `_get_str(key)`; `none` when some member lacks a key -/
def lazyReduceEntries [Inhabited α] (L : Lazy α) (keys : List String) (red : T α → T β) : Option (List (String × T β)) :=
  allSome (keys.map fun k => (lazyGetStr L k).map fun t => (k, red t))

end TdVerif.C08
