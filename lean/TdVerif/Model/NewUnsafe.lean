/-
  `TensorDict._new_unsafe` (tensordict/_td.py): the unchecked constructor used by every op to build its result,
  and its `is_compiling()` branch, which falls back to the checked constructor `TensorDict(...)`.

  `newUnsafeEager`    mirrors tensordict/_td.py:TensorDict._new_unsafe, `is_compiling() = False`
                      (stores batch size, names and entries as they come; `lock_()` at the end)
  `newUnsafeCompile`  mirrors the `is_compiling() and cls is TensorDict` branch = tensordict/_td.py:TensorDict.__init__
                      (`names` setter; `set` validates that every entry starts with the batch dims)
  `setNames`          mirrors tensordict/_td.py `TensorDict.names` setter, with its laxities (the number of `None`s is
                      compared with `batch_dims`, not with `len(value)`)
  State = what is observable through the public API: batch size, `names`, lock state, entries (key, shape) in order.
  Modelled domain: a flat source of tensors with distinct keys (a dict), `batch_size` a torch.Size, no device.
-/
namespace TdVerif.NewUnsafe

structure TD where
  batch : List Nat
  names : List (Option String)      -- the `names` property (all `none` when the tensordict is unnamed)
  locked : Bool
  entries : List (String × List Nat)
  deriving Repr, DecidableEq

inductive Res where
  | ok (td : TD)
  | valueError       -- refused dimension names
  | runtimeError     -- batch dimension mismatch
  deriving Repr, DecidableEq

/-- the `names` property: `_td_dim_names`, or `[None] * batch_dims` -/
def namesProp (batch : List Nat) (names : Option (List (Option String))) : List (Option String) :=
  match names with
  | some l => l
  | none => batch.map (fun _ => none)

/-- eager: nothing is checked -/
def newUnsafeEager (src : List (String × List Nat)) (batch : List Nat) (names : Option (List (Option String)))
    (lock : Bool) : Res :=
  .ok ⟨batch, namesProp batch names, lock, src⟩

/-- number of distinct strings (`len(set(...))` restricted to the non-None members) -/
def distinctCount : List String → Nat
  | [] => 0
  | x :: xs => (if xs.contains x then 0 else 1) + distinctCount xs

/-- the names setter; outer `none` = ValueError, `some none` = names erased -/
def setNames (bd : Nat) (names : Option (List (Option String))) : Option (Option (List (Option String))) :=
  match names with
  | none => some none
  | some l =>
    let numNone := l.countP (·.isNone)
    if numNone = bd then some none
    else
      let nn := numNone - 1                                      -- `if num_none: num_none -= 1`
      let setLen := distinctCount (l.filterMap id) + (if numNone > 0 then 1 else 0)   -- len(set(value))
      if setLen ≠ l.length - nn then none
      else if l.length ≠ bd then none
      else some (some l)

/-- `_validate_value` on a tensor: its shape must start with the batch size -/
def hasPrefix (batch shape : List Nat) : Bool := batch.isPrefixOf shape

/-- compile branch = the checked constructor -/
def newUnsafeCompile (src : List (String × List Nat)) (batch : List Nat) (names : Option (List (Option String)))
    (lock : Bool) : Res :=
  match setNames batch.length names with
  | none => .valueError
  | some nm =>
    if src.all (fun kv => hasPrefix batch kv.2) then .ok ⟨batch, namesProp batch nm, lock, src⟩
    else .runtimeError

/-- what the callers of `_new_unsafe` guarantee: entries carry the batch dims, names (if any) are one per batch dim
and the non-None ones are distinct -/
def Pre (src : List (String × List Nat)) (batch : List Nat) (names : Option (List (Option String))) : Prop :=
  (∀ kv ∈ src, hasPrefix batch kv.2 = true) ∧
  (∀ l, names = some l → l.length = batch.length ∧ (l.filterMap id).Nodup)

end TdVerif.NewUnsafe
