/-
  C11 — to_dict / from_dict of (nested) tensordicts (tensordict/base.py:to_dict, _td.py:TensorDict.from_dict).

  `toDict`     mirrors `to_dict()`: a plain nested dict key → tensor | dict; batch sizes, names, devices and lock state
               are **not** in it
  `fromDict`   mirrors `TensorDict.from_dict(d, batch_size=b, device=dev, names=n)`: every nested dict becomes a
               tensordict with the batch size, device and names given for the root, unlocked
-/
import TdVerif.Model.C11Pytree

namespace TdVerif.C11

inductive PD where
  | leaf (v : Nat)
  | dict (entries : List (String × PD))
  deriving Repr

mutual
def toDict : PT → PD
  | .leaf v => .leaf v
  | .node _ _ _ _ kids => .dict (toDictKids kids)
def toDictKids : List (String × PT) → List (String × PD)
  | [] => []
  | (k, t) :: rest => (k, toDict t) :: toDictKids rest
end

mutual
def fromDict (b : List Nat) (n : Option (List String)) (d : Option String) : PD → PT
  | .leaf v => .leaf v
  | .dict entries => .node b n d false (fromDictKids b n d entries)
def fromDictKids (b : List Nat) (n : Option (List String)) (d : Option String) : List (String × PD) → List (String × PT)
  | [] => []
  | (k, t) :: rest => (k, fromDict b n d t) :: fromDictKids b n d rest
end

/-- `to_namedtuple()` = `dict_to_namedtuple(self.to_dict(retain_none=False))`: the same nested structure, every dict turned into a
    `GenericDict` namedtuple whose fields are the keys in order (the keys must be identifiers) -/
def toNamedtuple (t : PT) : PD := toDict t

/-- `TensorDict.from_namedtuple(nt, batch_size=b, device=d)` = `from_dict(namedtuple_to_dict(nt), …)`: there is no `names` argument -/
def fromNamedtuple (b : List Nat) (d : Option String) (nt : PD) : PT := fromDict b none d nt

mutual
/-- every (sub-)tensordict has this batch size, these names and this device -/
def Uniform (b : List Nat) (n : Option (List String)) (d : Option String) : PT → Prop
  | .leaf _ => True
  | .node b' n' d' _ kids => b' = b ∧ n' = n ∧ d' = d ∧ UniformKids b n d kids
def UniformKids (b : List Nat) (n : Option (List String)) (d : Option String) : List (String × PT) → Prop
  | [] => True
  | (_, t) :: rest => Uniform b n d t ∧ UniformKids b n d rest
end

end TdVerif.C11
