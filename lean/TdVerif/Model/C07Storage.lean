/-
  C07 — storage model: which operations write into existing memory, which allocate, which alias.

  A tensor (leaf) is a window on a storage:  `Leaf = (sid, offs)` where `offs[j]` is the storage
  offset (in elements) of the j-th logical element in row-major order.  This one description covers
  every layout of the property's quantifier:
     contiguous  offs = [o, o+1, …, o+n-1]        strided    offs injective, not consecutive
     expanded    offs has repetitions             0-size     offs = []
  (on the implementation side  offs = storage_offset + Σ idx_d * stride_d, sid = canonical number of
  `untyped_storage().data_ptr()`; see harness/c07_probe.py:leaf_desc).

  The heap of storages is `Store = Sid → Nat → Val` (cell `st sid o`), i.e. `storageId → List Val`
  with the list read as a function; `next` is the allocation counter (ids ≥ next do not exist yet).

  Transformers (one per behavioural class of the property):
    inplaceStep     mirrors tensordict/_td.py:TensorDict._set_str  (inplace branch: `dest.copy_(value)`),
                            tensordict/base.py:TensorDictBase.update_ (`_foreach_copy_(vals, other_val)`),
                            tensordict/base.py in-place arithmetic (`torch._foreach_*_(self._values_list(True, True), …)`),
                            tensordict/_td.py:_set_at_str (`tensor_in[idx] = value` through `_set_item`)
    deriveStep      mirrors result construction `_new_unsafe(source={key: f(value)})` of every
                            operation returning a new tensordict: each result leaf is either a window on a
                            source leaf's storage (`Spec.alias`, e.g. `_index_tensordict`: `value[index]`,
                            `_select/_exclude`: same tensor objects, `_clone(recurse=False)`) or a fresh
                            allocation (`Spec.fresh`, e.g. `_clone_recurse`: `torch._foreach_add(vals, 0)` / `value.clone()`)
    contiguousStep  mirrors tensordict/_td.py:TensorDict.contiguous  (`{key: value.contiguous()}`;
                            torch returns `self` when already contiguous, else a packed copy)
    rebindStep      mirrors tensordict/_td.py:TensorDict._set_str  (rebinding branch `self._tensordict[key] = value`)
    unbindStep      mirrors tensordict/_td.py:TensorDict.del_ (`del self._tensordict[key]`)
-/
namespace TdVerif.C07

abbrev Val := Int
abbrev Sid := Nat

/-- heap of storages -/
abbrev Store := Sid → Nat → Val

structure Leaf where
  sid : Nat
  offs : List Nat
  deriving DecidableEq, Repr

abbrev Binds := List (String × Leaf)

/-- one cell update -/
def upd (st : Store) (sid o : Nat) (v : Val) : Store :=
  fun s p => if s = sid ∧ p = o then v else st s p

/-- what a holder of the tensor sees -/
def readLeaf (st : Store) (l : Leaf) : List Val := l.offs.map (st l.sid)

/-- element-wise store through a window (`dest.copy_(value)`): element j goes to cell `offs[j]`, in order -/
def writeAt (st : Store) (sid : Sid) : List Nat → List Val → Store
  | o :: os, v :: vs => writeAt (upd st sid o v) sid os vs
  | _, _ => st

def writeLeaf (st : Store) (l : Leaf) (vals : List Val) : Store := writeAt st l.sid l.offs vals

/-- a torch view of a leaf: logical element j of the result is logical element `sel[j]` of the source
(out-of-range selectors select nothing) -/
def viewOf (sel : List Nat) (l : Leaf) : Leaf := ⟨l.sid, sel.filterMap (fun i => l.offs[i]?)⟩

/-- torch `is_contiguous()` on the window: consecutive ascending cells (always true for ≤ 1 element) -/
def isContig (l : Leaf) : Bool :=
  match l.offs with
  | [] => true
  | o :: _ => l.offs == List.range' o l.offs.length

structure State where
  store : Store
  next : Nat            -- allocation counter
  objs : List Binds     -- every tensordict (and bag of caller-held handles) created so far

/-- allocation of a fresh packed storage holding `vals` -/
def allocLeaf (s : State) (vals : List Val) : State × Leaf :=
  let l : Leaf := ⟨s.next, List.range vals.length⟩
  ({ s with store := writeLeaf s.store l vals, next := s.next + 1 }, l)

/-- how one result leaf is obtained from the source tensordict -/
inductive Spec where
  | alias (src : String) (sel : List Nat)
  | fresh (vals : List Val)
  deriving Repr

/-- build the leaves of a result tensordict, left to right -/
def mkLeaves (src : Binds) : State → List (String × Spec) → State × Binds
  | s, [] => (s, [])
  | s, (k, .alias sk sel) :: rest =>
      match src.lookup sk with
      | some l => let (s', b) := mkLeaves src s rest; (s', (k, viewOf sel l) :: b)
      | none => mkLeaves src s rest
  | s, (k, .fresh vals) :: rest =>
      let (s1, l) := allocLeaf s vals
      let (s', b) := mkLeaves src s1 rest
      (s', (k, l) :: b)

def pushObj (s : State) (b : Binds) : State := { s with objs := s.objs ++ [b] }

/-- operations returning a new tensordict (classes view / copy / outOfPlace differ in which `Spec`s occur) -/
def deriveStep (s : State) (td : Nat) (specs : List (String × Spec)) : State :=
  let (s', b) := mkLeaves (s.objs.getD td []) s specs
  pushObj s' b

/-- in-place class: every written key keeps its leaf and receives the values through it -/
def inplaceWrites (b : Binds) (st : Store) : List (String × List Val) → Store
  | [] => st
  | (k, vals) :: rest =>
      match b.lookup k with
      | some l => inplaceWrites b (writeLeaf st l vals) rest
      | none => inplaceWrites b st rest

def inplaceStep (s : State) (td : Nat) (writes : List (String × List Val)) : State :=
  { s with store := inplaceWrites (s.objs.getD td []) s.store writes }

/-- `contiguous()`: a contiguous leaf is returned as is, any other is packed into a fresh storage -/
def contigSpecs (st : Store) : Binds → List (String × Spec)
  | [] => []
  | (k, l) :: rest =>
      (if isContig l then (k, Spec.alias k (List.range l.offs.length)) else (k, Spec.fresh (readLeaf st l)))
        :: contigSpecs st rest

def contiguousStep (s : State) (td : Nat) : State :=
  deriveStep s td (contigSpecs s.store (s.objs.getD td []))

/-- replace object number `i` by `f` of it (out of range: nothing) -/
def modifyAt {α} (f : α → α) : List α → Nat → List α
  | [], _ => []
  | a :: l, 0 => f a :: l
  | a :: l, i + 1 => a :: modifyAt f l i

def setBind (b : Binds) (k : String) (l : Leaf) : Binds :=
  if b.lookup k |>.isSome then b.map (fun p => if p.1 = k then (k, l) else p) else b ++ [(k, l)]

/-- rebinding branch of `_set_str`: the entry now *is* the caller's tensor; no memory is touched -/
def rebindStep (s : State) (td : Nat) (k : String) (fromObj : Nat) (fromKey : String) : State :=
  match (s.objs.getD fromObj []).lookup fromKey with
  | some l => { s with objs := modifyAt (fun b => setBind b k l) s.objs td }
  | none => s

def unbindStep (s : State) (td : Nat) (k : String) : State :=
  { s with objs := modifyAt (fun b => b.filter (fun p => p.1 != k)) s.objs td }

/-- the caller creates a tensor of its own (new handle bag with one entry) -/
def allocStep (s : State) (k : String) (vals : List Val) : State :=
  let (s', l) := allocLeaf s vals
  pushObj s' [(k, l)]

/-- a step of a history -/
inductive Step where
  | inplace (td : Nat) (writes : List (String × List Val))
  | derive (td : Nat) (specs : List (String × Spec))
  | contiguous (td : Nat)
  | rebind (td : Nat) (k : String) (fromObj : Nat) (fromKey : String)
  | unbind (td : Nat) (k : String)
  | alloc (k : String) (vals : List Val)
  deriving Repr

def step (s : State) : Step → State
  | .inplace td w => inplaceStep s td w
  | .derive td sp => deriveStep s td sp
  | .contiguous td => contiguousStep s td
  | .rebind td k o k2 => rebindStep s td k o k2
  | .unbind td k => unbindStep s td k
  | .alloc k v => allocStep s k v

def run (s : State) (h : List Step) : State := h.foldl step s

/-- steps that are one of the four classes of the property (no structural change of any tensordict) -/
def Step.isClassOp : Step → Bool
  | .inplace .. | .derive .. | .contiguous .. | .alloc .. => true
  | _ => false

/-- steps that are not in-place -/
def Step.isPure : Step → Bool
  | .inplace .. => false
  | _ => true

/-- all specs alias / all specs fresh -/
def Spec.isAlias : Spec → Bool
  | .alias .. => true
  | _ => false

/-- well-formed: every leaf of every object lives in an allocated storage -/
def WF (s : State) : Prop := ∀ b ∈ s.objs, ∀ p ∈ b, p.2.sid < s.next

/-! ### behavioural classes and the class table -/

inductive OpClass where
  | inplace      -- writes into the existing tensors, key set unchanged
  | outOfPlace   -- returns new data; never modifies tensors the caller holds
  | view         -- result entries share memory with the source
  | copy         -- result entries never share memory with the source
  | contiguous   -- `contiguous()`: per leaf view iff already contiguous
  | rebind       -- structural write on the container (set / rename / del ...): no tensor memory touched
  | query        -- query / metadata / lock state: no tensor memory touched, no tensordict of tensors returned
  | excluded     -- needs resources absent from the sandbox (cuda, h5, process groups) or is a constructor
  deriving DecidableEq, Repr

def OpClass.name : OpClass → String
  | .inplace => "inplace" | .outOfPlace => "outOfPlace" | .view => "view" | .copy => "copy"
  | .contiguous => "contiguous" | .rebind => "rebind" | .query => "query" | .excluded => "excluded"

end TdVerif.C07
