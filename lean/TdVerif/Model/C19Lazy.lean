/-
  C19 — lazily stacked tensordicts under vmap.

  `addBDLazy`    mirrors tensordict/_lazy.py:LazyStackedTensorDict._add_batch_dim
                 · in_dim == stack_dim: `_cached_add_batch_dims` — the stack is returned with hook_out / hook_in and its
                   stack dimension hidden from batch_size; the stacked tensordicts are untouched (sample k = member k)
                 · in_dim <  stack_dim: every member is batched at in_dim, restacked at stack_dim - 1
                 · in_dim >  stack_dim: every member is batched at in_dim - 1, restacked at stack_dim
  `removeBDLazy` mirrors LazyStackedTensorDict._remove_batch_dim / _maybe_remove_batch_dim
                 · hook present: `LazyStackedTensorDict(*self.tensordicts, stack_dim=out_dim)`
                 · otherwise: members unwrapped at out_dim - 1 (stack dim kept) when out_dim > stack_dim,
                   else at out_dim with the stack dim moved to stack_dim + 1
  `BLTD.derive`  an operation of the vmapped function that builds a NEW stack from the batched one
                 (apply, exclude, unsqueeze … all go through `type(self)(*results, stack_dim=self.stack_dim)`):
                 on the hooked form the result has NO hook: its members are plain (un-batched) and its stack
                 dimension is visible again — `removeBDLazy` then takes the non-hook branch, where functorch
                 expands every un-batched leaf to the vmap size (known finding C19-lazy-stackdim-derived).
-/
import TdVerif.Model.C19Vmap

namespace TdVerif.C19

structure LTD where
  stackDim : Nat
  members : List TD

/-- the tensordict a lazy stack stands for -/
def LTD.dense (l : LTD) : TD := stackTD l.members l.stackDim

def LTD.ofDense (td : TD) (sd : Nat) : LTD := ⟨sd, unbindTD td sd⟩

inductive BLTD where
  | hooked (stackDim : Nat) (members : List TD) (level : Nat)
  | plain (stackDim : Nat) (members : List BTD)
  | unhooked (stackDim : Nat) (members : List TD)

def addBDLazy (i level : Nat) (l : LTD) : BLTD :=
  if i = l.stackDim then .hooked l.stackDim l.members level
  else if i < l.stackDim then .plain (l.stackDim - 1) (l.members.map (addBD i level))
  else .plain l.stackDim (l.members.map (addBD (i - 1) level))

/-- functorch's `_maybe_remove_batch_dim` on a tensor that is NOT batched at this level: expanded to the vmap size -/
def expandTD (o size : Nat) (td : TD) : TD :=
  ⟨td.batch.insertIdx o size, td.names.insertIdx o none,
   td.leaves.map (fun p => (p.1, stack (List.replicate size p.2) o))⟩

def removeBDLazy (o size : Nat) : BLTD → LTD
  | .hooked _ ms _ => ⟨o, ms⟩
  | .plain sd ms => if o > sd then ⟨sd, ms.map (removeBD (o - 1))⟩ else ⟨sd + 1, ms.map (removeBD o)⟩
  | .unhooked sd ms => if o > sd then ⟨sd, ms.map (expandTD (o - 1) size)⟩ else ⟨sd + 1, ms.map (expandTD o size)⟩

/-- an operation that derives a new stack, member by member -/
def BLTD.derive (op : TOp) : BLTD → BLTD
  | .hooked sd ms _ => .unhooked sd (ms.map op.run)
  | .plain sd ms => .plain sd (ms.map op.runB)
  | .unhooked sd ms => .unhooked sd (ms.map op.run)

def BLTD.deriveProg (p : List TOp) (b : BLTD) : BLTD := p.foldl (fun t op => t.derive op) b

/-- `self.batch_dims` of the batched stack as `_remove_batch_dim` sees it (the hidden stack dimension does not
count; the visible one of a derived stack does) -/
def BLTD.batchRank : BLTD → Nat
  | .hooked _ ms _ => (ms.headD ⟨[], [], []⟩).batch.length
  | .plain _ ms => (ms.headD ⟨[], [], 0, 0, fun _ => []⟩).batch.length + 1
  | .unhooked _ ms => (ms.headD ⟨[], [], []⟩).batch.length + 1

/-- with the (possibly negative) `out_dim` normalised against `self.batch_dims + 1`, as the code does -/
def vmapLazyI (p : List TOp) (i : Nat) (o : Int) (level : Nat) (l : LTD) : LTD :=
  let b := BLTD.deriveProg p (addBDLazy i level l)
  removeBDLazy (normOutDim o b.batchRank) (l.dense.batch.getD i 0) b

/-- `lazy.set(name, t)` inside the vmapped function with a value `t` that is NOT batched (it does not depend on
the vmapped input).  Hidden-stack form: `hook_in` passes it through `_remove_batch_dim`, which expands an
un-batched tensor to the vmap size along the hidden stack dimension, and the stack then unbinds it — every
stacked tensordict receives the whole value.  Member-wise form: the value is unbound along the (visible)
stack dimension `sd` and member `j` receives slice `j` for every sample. -/
def BLTD.setConst (name : String) (t : T) : BLTD → BLTD
  | .hooked sd ms lvl => .hooked sd (ms.map (fun m => ⟨m.batch, m.names, (m.leaves.filter (fun p => p.1 != name)) ++ [(name, t)]⟩)) lvl
  | .plain sd ms => .plain sd (ms.zipIdx.map (fun (mj : BTD × Nat) =>
      ⟨mj.1.batch, mj.1.names, mj.1.size, mj.1.level,
       fun k => ((mj.1.sample k).filter (fun p => p.1 != name)) ++ [(name, select t sd mj.2)]⟩))
  | .unhooked sd ms => .unhooked sd (ms.zipIdx.map (fun (mj : TD × Nat) =>
      ⟨mj.1.batch, mj.1.names, (mj.1.leaves.filter (fun p => p.1 != name)) ++ [(name, select t sd mj.2)]⟩))

/-- `lazy.set(dst, g(lazy.get(src)))` inside the vmapped function: on the hidden-stack form `get` wraps the stacked
entry with `hook_out` (batched over the stacked tensordicts), the computation runs per sample, and `set` un-batches the
value with `hook_in` and distributes it over the stacked tensordicts — the stack STAYS hooked (unlike a derivation);
member-wise form: every member is set.  `op` is the per-sample effect on a tensordict. -/
def BLTD.getSet (op : TOp) : BLTD → BLTD
  | .hooked sd ms lvl => .hooked sd (ms.map op.run) lvl
  | .plain sd ms => .plain sd (ms.map op.runB)
  | .unhooked sd ms => .unhooked sd (ms.map op.run)

/-- one operation of a program on a lazy stack: a member-wise derivation, the write of an un-batched value, or a
read-compute-write through the hooks -/
inductive LOp where
  | derive (op : TOp)
  | setConst (name : String) (t : T)
  | getSet (op : TOp)

def BLTD.runL (b : BLTD) : LOp → BLTD
  | .derive op => b.derive op
  | .setConst name t => b.setConst name t
  | .getSet op => b.getSet op

def vmapLazyL (p : List LOp) (i : Nat) (o : Int) (level : Nat) (l : LTD) : LTD :=
  let b := p.foldl BLTD.runL (addBDLazy i level l)
  removeBDLazy (normOutDim o b.batchRank) (l.dense.batch.getD i 0) b

/-- `torch.vmap(f, in_dims=i, out_dims=o)(lazy)` for `f` = member-wise program `p`; `size` is the vmap size -/
def vmapLazy (p : List TOp) (i o level : Nat) (l : LTD) : LTD :=
  removeBDLazy o (l.dense.batch.getD i 0) (BLTD.deriveProg p (addBDLazy i level l))

end TdVerif.C19
