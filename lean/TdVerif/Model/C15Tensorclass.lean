/-
  C15 — executable model of the tensorclass delegation layer (tensordict/tensorclass.py).

  Part A  `dispatch`      : which implementation serves `tc.<name>` for a class configuration; an
                            interpreter of the *generated* installation program `Gen.Tc.installProgram`
                            (the sequence of `cls.X = …` statements of `_tensorclass`, with guards).
  Part B  `fromTensordict`, `wrapCall`, `wrapMethodFallback`, `torchFunction`
                          : what the wrappers do with the result of the tensordict call.
  Part C  `getField`, `setField`, `delField`
                          : attribute access / assignment on declared fields (`_getattr`, `_set`, `_del_`).

  Spec side (kept separate): `toTensordict` + `tdGetItem` (what key access on the underlying
  tensordict gives), `Res`/`Out` relation used by the `wrap_commutes` theorems in Props/C15.lean.
  No Mathlib, no partial defs.
-/
import TdVerif.Gen.TcTables

namespace TdVerif.C15
open TdVerif.Gen.Tc

/-! ## Part A — dispatch -/

/-- what `_tensorclass(cls)` sees of the class it decorates -/
structure ClassCfg where
  /-- `cls.__expected_keys__` = names of the dataclass fields -/
  fields : List Nat
  /-- keys of `cls.__dict__` after `dataclass(cls)` and after the `delattr` of field defaults -/
  own : List Nat
  /-- names for which `hasattr(cls, n)` holds through a base class (`object`, `TensorClass`, a parent tensorclass) -/
  inherited : List Nat
  /-- `getattr(cls, "_is_non_tensor", False)` -/
  isNonTensor : Bool
  /-- names that resolve through the bases to a `classmethod` object (`inspect.getattr_static`) -/
  inheritedClassmethods : List Nat := []
  deriving Repr

/-- mirrors the guard expressions of tensorclass.py:_tensorclass; `installed` = the name is in `cls.__dict__` now -/
def guardOk (cfg : ClassCfg) (name : Nat) (installed : Bool) : Guard → Bool
  | .noAttr => !installed && !mem name cfg.inherited
  | .noField => !mem name cfg.fields
  | .notOwn => !installed
  | .notNonTensor => !cfg.isNonTensor

def guardsOk (cfg : ClassCfg) (name : Nat) (installed : Bool) : List Guard → Bool
  | [] => true
  | g :: r => guardOk cfg name installed g && guardsOk cfg name installed r

/-- effect of one installation statement on the slot `cls.__dict__[name]` -/
def stepFor (cfg : ClassCfg) (name : Nat) (st : Option Kind) : Step → Option Kind
  | .assign a gs k => bif Nat.beq a name && guardsOk cfg name st.isSome gs then some k else st
  | .loop t gs k => bif mem name (tableOf t) && guardsOk cfg name st.isSome gs then some k else st
  | .classmethodLoop keep =>
    bif mem name tdOwnClassmethods && !st.isSome && !(keep && mem name cfg.inheritedClassmethods)
    then some .classmethod else st

def runProgram (cfg : ClassCfg) (name : Nat) : Option Kind → List Step → Option Kind
  | st, [] => st
  | st, s :: r => runProgram cfg name (stepFor cfg name st s) r

/-- the slot `cls.__dict__[name]` after `_tensorclass(cls)` ran -/
def installed (cfg : ClassCfg) (name : Nat) : Option Kind :=
  runProgram cfg name (bif mem name cfg.own then some .user else none) installProgram

/-- mirrors python attribute lookup on an instance of the decorated class:
type `__dict__` → bases → (non-dunder only) `__getattr__` = tensorclass.py:_getattr -/
def dispatch (cfg : ClassCfg) (name : Nat) : Kind :=
  match installed cfg name with
  | some k => k
  | none =>
    bif mem name cfg.inherited then .inherited
    else bif mem name dunderNames then .missing            -- operators never reach `__getattr__`
    else bif mem name cfg.fields then .explicit "field"    -- `_getattr`: `item in __expected_keys__`
    else bif mem name tdAttrs then .fallback               -- `_getattr`: `getattr(_tensordict, item)` → `_wrap_method`
    else .missing

/-- decorator on a plain class with fields `fs`: `dataclass` adds its own dunders, bases = (object,) -/
def stdCfg (fs : List Nat) : ClassCfg := ⟨fs, dataclassAdds, objectAttrs, false, []⟩
def frozenCfg (fs : List Nat) : ClassCfg := ⟨fs, dataclassAddsFrozen, objectAttrs, false, []⟩

/-- mirrors the `is_property` test of the no-wrap loop: is `tc.<name>` a value (property) or a method -/
def servedAsProperty (name : Nat) : Bool :=
  match propertyRule with
  | .propertyOnly => mem name tdProperties
  | .propertyOrValue => mem name tdProperties || mem name tdValueAttrs

/-- a kind that is installed on the class itself and backed by the tensordict implementation -/
def Kind.covered : Kind → Bool
  | .explicit _ | .fromTD | .wrap | .nowrap | .copy | .classmethod => true
  | _ => false

/-! ## Part B — the wrappers -/

inductive Err where
  | key      -- KeyError
  | value    -- ValueError
  | attr     -- AttributeError
  | lock     -- RuntimeError(_LOCK_ERROR)
  | type     -- TypeError
  | runtime  -- other RuntimeError
  | notImplemented  -- `__torch_function__` returned NotImplemented
  deriving DecidableEq, Repr

/-! ### class options (`@tensorclass(autocast=…, frozen=…, nocast=…, shadow=…)`, `TensorClass[...]`, class keywords) -/

structure ClsOpts where
  autocast : Bool
  frozen : Bool
  nocast : Bool
  shadow : Bool
  deriving DecidableEq, Repr

/-- tensorclass.py:_tensorclass_dec.__init__: `autocast` and `nocast` exclude each other (ValueError) -/
def decoratorOpts (o : ClsOpts) : Except Err ClsOpts :=
  if o.autocast && o.nocast then .error .value else .ok o

/-- the field-name check of tensorclass.py:_tensorclass on interned names: `if not shadow: for attr in expected_keys:
if attr in dir(TensorDict) and attr not in ("_is_non_tensor", "data"): raise AttributeError` -/
def fieldNamesOk (reserved exempt : List Nat) (shadow : Bool) (fields : List Nat) : Bool :=
  shadow || fields.all (fun f => !(mem f reserved) || mem f exempt)

/-- class creation through the decorator: the option check comes first (`_tensorclass_dec(...)`), then `_tensorclass` -/
def createDecorated (reserved exempt : List Nat) (o : ClsOpts) (fields : List Nat) : Except Err ClsOpts :=
  match decoratorOpts o with
  | .error e => .error e
  | .ok o => if fieldNamesOk reserved exempt o.shadow fields then .ok o else .error .attr

/-- tensorclass.py:_TensorClassMeta.__new__ (class keywords, `TensorClass["…"]`): `autocast / nocast / frozen` not given
default to the flags of the base class (`_autocast` …); `shadow` is NOT a parameter — given, it reaches `type.__new__`
(TypeError), and the class is always built with `shadow=False` (finding C15-subclass-shadow) -/
def metaOpts (kwAutocast kwNocast kwFrozen : Option Bool) (kwShadowGiven : Bool) (base : Option ClsOpts) : Except Err ClsOpts :=
  if kwShadowGiven then .error .type
  else
    let pick (kw : Option Bool) (b : ClsOpts → Bool) : Bool := kw.getD ((base.map b).getD false)
    let fr := pick kwFrozen (·.frozen)
    -- `dataclass(cls, frozen=…)` on a class whose base is a dataclass: python's dataclasses._process_class refuses to mix
    -- frozen and non-frozen along the inheritance chain (TypeError); `TensorClass` itself is not a dataclass
    -- (checked by `dataclass`, i.e. after the option check of `_tensorclass_dec`)
    match decoratorOpts ⟨pick kwAutocast (·.autocast), fr, pick kwNocast (·.nocast), false⟩ with
    | .error e => .error e
    | .ok o =>
      match base with
      | some b => if b.frozen != o.frozen then .error .type else .ok o
      | none => .ok o

/-- the class configuration the dispatch model is run on: `frozen=True` makes `dataclass` add `__setattr__` / `__delattr__`
to the class body -/
def cfgOf (o : ClsOpts) (fs : List Nat) : ClassCfg := if o.frozen then frozenCfg fs else stdCfg fs

/-- `_non_tensordict`: insertion-ordered dict, `none` = python `None` -/
abbrev NT (V : Type) := List (String × Option V)

def NT.keys {V : Type} (nt : NT V) : List String := nt.map Prod.fst

/-- a tensorclass instance: its class, `_tensordict`, `_non_tensordict` -/
structure TC (TD V : Type) where
  cls : String
  td : TD
  nt : NT V

/-- mirrors tensorclass.py:_from_tensordict (eager branch): validates the key sets, drops `None`
placeholders shadowed by a tensor key, adds a `None` placeholder for every declared field that is
in neither dict.  `KeyError` (clash with a non-None value) is raised inside the first loop, i.e.
before the `ValueError` of the key-set check. -/
def fromTensordict {V : Type} (fields tdKeys : List String) (nt : NT V) : Except Err (NT V) :=
  if nt.any (fun kv => tdKeys.contains kv.1 && kv.2.isSome) then .error .key
  else if (tdKeys ++ nt.keys).any (fun k => !fields.contains k) then .error .value
  else
    .ok (nt.filter (fun kv => !tdKeys.contains kv.1)
          ++ (fields.filter (fun f => !tdKeys.contains f && !nt.keys.contains f)).map (fun f => (f, none)))

/-- one value coming back from a tensordict method, as far as the wrappers look at it -/
inductive Item (TD X : Type) where
  | none                          -- `None`
  | selfTd                        -- the receiver's own `_tensordict` object (`result is td`)
  | td (t : TD) (isOut : Bool)    -- another TensorDictBase; `isOut`: it is the `out=` keyword argument
  | other (x : X)                 -- anything else (tensor, bool, list, view, …)

inductive Res (TD X : Type) where
  | single (i : Item TD X)
  | tuple (l : List (Item TD X))

inductive OutItem (TD V X : Type) where
  | none
  | selfTc                        -- the tensorclass instance itself
  | tc (t : TC TD V)              -- a new instance of the same class
  | rawTd (t : TD)                -- a bare tensordict
  | rawSelfTd                     -- the receiver's bare `_tensordict`
  | other (x : X)

inductive Out (TD V X : Type) where
  | single (o : OutItem TD V X)
  | tuple (l : List (OutItem TD V X))

def rawItem {TD V X : Type} : Item TD X → OutItem TD V X
  | .none => .none
  | .selfTd => .rawSelfTd
  | .td t _ => .rawTd t
  | .other x => .other x

/-- mirrors tensorclass.py:_wrap_td_method.deliver_result.  (`copy_non_tensor` rebuilds the containers
of `_non_tensordict` with `tree_map(_identity, …)`; values are immutable here, so it is the identity.) -/
def deliver {TD V X : Type} (fields : List String) (keys : TD → List String) (self : TC TD V) :
    Item TD X → Except Err (OutItem TD V X)
  | .none => .ok .none
  | .other x => .ok (.other x)
  | .td t true => .ok (.rawTd t)
  | .td t false => (fromTensordict fields (keys t) self.nt).map (fun nt' => .tc ⟨self.cls, t, nt'⟩)
  | .selfTd => (fromTensordict fields (keys self.td) self.nt).map (fun nt' => .tc ⟨self.cls, self.td, nt'⟩)

def deliverAll {TD V X : Type} (fields : List String) (keys : TD → List String) (self : TC TD V) :
    List (Item TD X) → Except Err (List (OutItem TD V X))
  | [] => .ok []
  | i :: r =>
    match deliver fields keys self i with
    | .error e => .error e
    | .ok o => (deliverAll fields keys self r).map (o :: ·)

/-- mirrors tensorclass.py:_wrap_td_method.wrapped_func: `r` is what `getattr(td, funcname)(*args)` returned -/
def wrapCall {TD V X : Type} (fields : List String) (keys : TD → List String) (noWrap : Bool)
    (self : TC TD V) : Res TD X → Except Err (Out TD V X)
  | .single i =>
    if noWrap then .ok (.single (rawItem i))
    else match i with
      | .selfTd => .ok (.single .selfTc)
      | i => (deliver fields keys self i).map .single
  | .tuple l =>
    if noWrap then .ok (.tuple (l.map rawItem))
    else (deliverAll fields keys self l).map .tuple

/-- mirrors tensorclass.py:_wrap_method (the deprecated `__getattr__` path): in-place spelling returns
`self`, `_CLEAR_METADATA` names blank the non-tensor fields, tuples are NOT traversed. -/
def wrapMethodFallback {TD V X : Type} (fields : List String) (keys : TD → List String)
    (endsUnderscore clearMeta : Bool) (self : TC TD V) : Res TD X → Except Err (Out TD V X)
  | .single (.td t _) =>
    if endsUnderscore then .ok (.single .selfTc)
    else (fromTensordict fields (keys t) (if clearMeta then self.nt.map (fun kv => (kv.1, none)) else self.nt)).map
      (fun nt' => .single (.tc ⟨self.cls, t, nt'⟩))
  | .single .selfTd =>
    if endsUnderscore then .ok (.single .selfTc)
    else (fromTensordict fields (keys self.td) (if clearMeta then self.nt.map (fun kv => (kv.1, none)) else self.nt)).map
      (fun nt' => .single (.tc ⟨self.cls, self.td, nt'⟩))
  | .single i => .ok (.single (rawItem i))
  | .tuple l => .ok (.tuple (l.map rawItem))

/-- mirrors tensorclass.py:_tensorclass.__torch_function__: only functions of `_TD_PASS_THROUGH`
are served; list/tuple results are re-wrapped element-wise around a copy of the first argument's
non-tensor dict (`_from_tensordict_with_copy`, safe=True). -/
def torchFunction {TD V X : Type} (fields : List String) (keys : TD → List String) (func : Nat)
    (first : TC TD V) : Res TD X → Except Err (Out TD V X)
  | r =>
    if !mem func passThrough then .error .notImplemented
    else
      let wrap1 : Item TD X → Except Err (OutItem TD V X)
        | .td t _ => (fromTensordict fields (keys t) first.nt).map (fun nt' => .tc ⟨first.cls, t, nt'⟩)
        | .selfTd => (fromTensordict fields (keys first.td) first.nt).map (fun nt' => .tc ⟨first.cls, first.td, nt'⟩)
        | _ => .error .runtime     -- `_from_tensordict(safe=True)`: "Expected a TensorDictBase instance"
      match r with
      | .single i => (wrap1 i).map .single
      | .tuple l => (l.mapM wrap1).map .tuple

/-! ## Part C — fields -/

/-- an entry of `_tensordict` as seen by `_getattr`: tensors and nested collections are kept as they
are, `NonTensorData` yields `.data`, `NonTensorStack` yields `.tolist()` -/
inductive Entry (T V : Type) where
  | leaf (t : T)
  | ntData (v : Option V)
  | ntStack (l : List (Option V))

/-- what reading an attribute / an item gives -/
inductive AttrVal (T V : Type) where
  | tensor (t : T)
  | obj (v : Option V)
  | list (l : List (Option V))

/-- concrete underlying tensordict for the field model -/
structure TDm (T V : Type) where
  entries : List (String × Entry T V)
  locked : Bool

def TDm.keys {T V : Type} (td : TDm T V) : List String := td.entries.map Prod.fst

def assocSet {α : Type} (k : String) (v : α) : List (String × α) → List (String × α)
  | [] => [(k, v)]
  | (k', v') :: r => if k' = k then (k, v) :: r else (k', v') :: assocSet k v r

def assocDel {α : Type} (k : String) (l : List (String × α)) : List (String × α) :=
  l.filter (fun kv => kv.1 != k)

def unwrapEntry {T V : Type} : Entry T V → AttrVal T V
  | .leaf t => .tensor t
  | .ntData v => .obj v
  | .ntStack l => .list l

/-- mirrors tensorclass.py:_getattr, branch `item in __expected_keys__` (repaired: a `None`
placeholder does not shadow an entry of `_tensordict`) -/
def getField {T V : Type} (tc : TC (TDm T V) V) (item : String) : Except Err (AttrVal T V) :=
  match tc.nt.lookup item with
  | some (some v) => .ok (.obj (some v))         -- `_non_tensordict.get(item)` wins when it holds a value
  | some none =>
    match tc.td.entries.lookup item with
    | some e => .ok (unwrapEntry e)              -- `out is None and item in _tensordict.keys()`
    | none => .ok (.obj none)
  | none =>
    match tc.td.entries.lookup item with
    | none => .error .key                        -- `_get_str(item, NO_DEFAULT)` raises
    | some e => .ok (unwrapEntry e)

/-- the PINNED (pre-fix) `_getattr`: whatever `_non_tensordict` holds under the name wins, `None` included -/
def getFieldPinned {T V : Type} (tc : TC (TDm T V) V) (item : String) : Except Err (AttrVal T V) :=
  match tc.nt.lookup item with
  | some v => .ok (.obj v)
  | none =>
    match tc.td.entries.lookup item with
    | none => .error .key
    | some e => .ok (unwrapEntry e)

/-- SPEC: mirrors tensorclass.py:_to_tensordict (retain_none=True) — the plain tensordict a tensorclass stands for -/
def toTensordict {T V : Type} (tc : TC (TDm T V) V) : TDm T V :=
  ⟨tc.nt.foldl (fun es kv => assocSet kv.1 (.ntData kv.2) es) tc.td.entries, false⟩

/-- SPEC: mirrors base.py:TensorDictBase.__getitem__ on a string key (non-tensor entries are unwrapped) -/
def tdGetItem {T V : Type} (td : TDm T V) (key : String) : Except Err (AttrVal T V) :=
  match td.entries.lookup key with
  | none => .error .key
  | some e => .ok (unwrapEntry e)

/-- class options (`@tensorclass(autocast=…, nocast=…)`) -/
structure Opts where
  autocast : Bool
  nocast : Bool
  deriving Repr, DecidableEq

/-- what the type hint of the field is, as far as `_set` distinguishes -/
inductive Hint where
  | any          -- no class hint (`Any`, `Optional[…]`, unions, strings that do not resolve): `_AnyType`
  | accepted     -- a subclass of `_ACCEPTED_CLASSES` (Tensor, TensorDictBase, a tensorclass, MemoryMappedTensor…)
  | collection   -- `accepted` and `_is_tensor_collection(target_cls)`
  | otherType    -- any other class (int, str, …): `_cast_funcs[target_cls](value)` = `target_cls(value)`
  deriving Repr, DecidableEq

inductive ValKind where
  | tensor       -- torch.Tensor or tensor collection instance
  | castable     -- int / float / bool / np.ndarray (`_is_castable`)
  | none
  | dict
  | other        -- str, list, arbitrary object
  deriving Repr, DecidableEq

/-- the value handed to `_set` with everything the branches may compute from it -/
structure SetArg (T V : Type) where
  kind : ValKind
  raw : V                 -- the python object itself
  asTensor : T            -- what `_tensordict.set(key, value)` stores for a tensor-like / castable value
  castAccepted : Option T -- the value itself if it is an instance of the accepted hint, else `_cast_funcs[target_cls](as_tensor(value))` (none = TypeError)
  fromDict : T            -- `target_cls.from_dict(value)` for a dict value under a collection hint
  castOther : Option V    -- `target_cls(value)` for a hint of another class (none = the constructor raises TypeError)

/-- where `_set` put the value -/
def setTensor {T V : Type} (tc : TC (TDm T V) V) (key : String) (e : Entry T V) : TC (TDm T V) V :=
  { tc with nt := assocDel key tc.nt, td := { tc.td with entries := assocSet key e tc.td.entries } }

/-- `_set` tail for `value is None`: a tensor entry under the key is deleted, a `None` placeholder kept -/
def setNone {T V : Type} (tc : TC (TDm T V) V) (key : String) : TC (TDm T V) V :=
  { tc with nt := assocSet key none tc.nt, td := { tc.td with entries := assocDel key tc.td.entries } }

/-- mirrors tensorclass.py:_set for a `str` key, `inplace=False` (what `tc.f = v` calls through
`_setattr_wrapper`), for a regular (non-`NonTensorData`) tensorclass. -/
def setField {T V : Type} (fields : List String) (o : Opts) (h : Hint) (tc : TC (TDm T V) V)
    (key : String) (a : SetArg T V) : Except Err (TC (TDm T V) V) :=
  if tc.td.locked then .error .lock
  else if !fields.contains key then .error .attr
  else
    let tail (nonTensor : Bool) : Except Err (TC (TDm T V) V) :=
      if a.kind == .none then .ok (setNone tc key)
      else .ok (setTensor tc key (if nonTensor then .ntData (some a.raw) else .leaf a.asTensor))
    if o.autocast then
      match a.kind, h with
      | .dict, .collection =>
        -- `return set_tensor(value=cast_val)` (repaired: the pinned code wrote `_tensordict.set` directly,
        -- see `setFieldDictPinned` below and Props.C15.autocast_dict_stale_none_counterexample)
        .ok (setTensor tc key (.leaf a.fromDict))
      | .dict, _ => tail true
      | .none, _ => tail true
      | _, .accepted | _, .collection =>
        -- `cast_val = value if issubclass(value_type, target_cls) else _cast_funcs[target_cls](as_tensor(value))`
        match a.castAccepted with
        | some t => .ok (setTensor tc key (.leaf t))
        | none => .error .type
      | _, .otherType =>
        match a.castOther with
        | some c => .ok (setTensor tc key (.ntData (some c)))
        | none => .error .type
      | .castable, .any => .ok (setTensor tc key (.leaf a.asTensor))
      | .tensor, .any => tail false
      | .other, .any => tail true
    else
      match a.kind with
      | .tensor => .ok (setTensor tc key (.leaf a.asTensor))
      | .castable => if o.nocast then tail true else .ok (setTensor tc key (.leaf a.asTensor))
      | _ => tail true

/-- whether `dest.copy_(value)` (the in-place update `TensorDict.set(key, value, inplace=True)` performs on an EXISTING entry,
`_td.py:_set_str`) succeeds for each of the values `_set` may hand over — tensordict behaviour, supplied from outside -/
structure CopyOk where
  asTensor : Bool
  raw : Bool          -- `NonTensorData(value)`
  castAccepted : Bool
  fromDict : Bool
  castOther : Bool    -- `NonTensorData(target_cls(value))`
  deriving Repr, DecidableEq

/-- `set_tensor` of tensorclass.py:_set: the placeholder goes, then `self._tensordict.set(key, value, inplace=inplace)`:
an existing entry is updated in place when `inplace` (a failure of the copy is re-raised as ValueError), otherwise the entry
is (re)bound, which a locked tensordict refuses -/
def tdSetEntry {T V : Type} (inplace copyOk : Bool) (tc : TC (TDm T V) V) (key : String) (e : Entry T V) :
    Except Err (TC (TDm T V) V) :=
  if inplace && tc.td.keys.contains key then
    if copyOk then .ok (setTensor tc key e) else .error .value
  else if tc.td.locked then .error .lock
  else .ok (setTensor tc key e)

/-- what the type dispatch of tensorclass.py:_set decides to do with the value (independent of the instance):
raise, store the `None` placeholder, or hand an entry to `set_tensor` — directly (`return set_tensor(...)`) or from the tail
of the function (`viaTail`), where an in-place write into an existing entry is refused for non-tensor values -/
inductive SetPlan (T V : Type) where
  | err (e : Err)
  | placeholder
  | entry (copyOk : Bool) (e : Entry T V) (viaTail nonTensor : Bool)

/-- the branches of tensorclass.py:_set between the `expected_keys` check and the writes -/
def setPlan {T V : Type} (o : Opts) (h : Hint) (ck : CopyOk) (a : SetArg T V) : SetPlan T V :=
  let tail (nonTensor : Bool) : SetPlan T V :=
    if a.kind == .none then .placeholder
    else if nonTensor then .entry ck.raw (.ntData (some a.raw)) true true
    else .entry ck.asTensor (.leaf a.asTensor) true false
  if o.autocast then
    match a.kind, h with
    | .dict, .collection => .entry ck.fromDict (.leaf a.fromDict) false false
    | .dict, _ => tail true
    | .none, _ => tail true
    | _, .accepted | _, .collection =>
      match a.castAccepted with
      | some t => .entry ck.castAccepted (.leaf t) false false
      | none => .err .type
    | _, .otherType =>
      match a.castOther with
      | some c => .entry ck.castOther (.ntData (some c)) false true
      | none => .err .type
    | .castable, .any => .entry ck.asTensor (.leaf a.asTensor) false false
    | .tensor, .any => tail false
    | .other, .any => tail true
  else
    match a.kind with
    | .tensor => .entry ck.asTensor (.leaf a.asTensor) false false
    | .castable => if o.nocast then tail true else .entry ck.asTensor (.leaf a.asTensor) false false
    | _ => tail true

/-- the writes of tensorclass.py:_set.  `pinned = true` is the code before the repair "autocast … inplace": the tail refused
EVERY in-place write into an existing entry, tensors included. -/
def runSetPlan {T V : Type} (inplace pinned : Bool) (tc : TC (TDm T V) V) (key : String) : SetPlan T V → Except Err (TC (TDm T V) V)
  | .err e => .error e
  | .placeholder => if inplace && tc.td.keys.contains key then .error .runtime else .ok (setNone tc key)
  | .entry c e viaTail nonTensor =>
    if viaTail && inplace && (pinned || nonTensor) && tc.td.keys.contains key then .error .runtime
    else tdSetEntry inplace c tc key e

/-- mirrors tensorclass.py:_set for a `str` key with the `inplace` flag (`tc.set(key, value, inplace=…)`): the lock
pre-check (a locked instance only accepts an in-place write into an existing entry), the `expected_keys` check, the type
dispatch, the writes -/
def setFieldI {T V : Type} (fields : List String) (o : Opts) (h : Hint) (inplace : Bool) (ck : CopyOk) (pinned : Bool)
    (tc : TC (TDm T V) V) (key : String) (a : SetArg T V) : Except Err (TC (TDm T V) V) :=
  if tc.td.locked && !(inplace && tc.td.keys.contains key) then .error .lock
  else if !fields.contains key then .error .attr
  else runSetPlan inplace pinned tc key (setPlan o h ck a)

/-- mirrors the tuple-key branch of tensorclass.py:_set (`key = unravel(key)`): a 1-tuple is the string key; a longer one is
`self.set(key[0], getattr(self, key[0]).set(key[1:], value, inplace=…), inplace=…)` — the nested collection is read, written by
ITS `set` (opaque: `nestedSet`, which may raise) and stored back under the first key (`o`, `h`: options of the class and hint of that field).  `passInplace = false` is the code
before the repair: `inplace` was dropped on the way. -/
def setTuple {T V : Type} (fields : List String) (o : Opts) (h : Hint) (inplace : Bool) (ck : CopyOk) (passInplace : Bool)
    (nestedSet : T → Except Err T) (tc : TC (TDm T V) V) (key : List String) (a : SetArg T V) : Except Err (TC (TDm T V) V) :=
  let inp := inplace && passInplace
  match key with
  | [] => .error .value
  | [k] => setFieldI fields o h inp ck false tc k a
  | k :: _ :: _ =>
    match getField tc k with
    | .ok (.tensor t) =>
      match nestedSet t with
      | .ok t' => setFieldI fields o h inp ck false tc k
          { a with kind := .tensor, asTensor := t', castAccepted := some t' }
      | .error e => .error e
    | .ok _ => .error .attr           -- `None` / a python object has no `set`
    | .error e => .error e

/-- the PINNED (pre-fix) autocast branch for a dict value under a collection hint: the value is written
into `_tensordict` but a `None` placeholder in `_non_tensordict` is left behind -/
def setFieldDictPinned {T V : Type} (tc : TC (TDm T V) V) (key : String) (a : SetArg T V) : TC (TDm T V) V :=
  { tc with td := { tc.td with entries := assocSet key (.leaf a.fromDict) tc.td.entries } }

/-- mirrors tensorclass.py:_del_ for a `str` key -/
def delField {T V : Type} (tc : TC (TDm T V) V) (key : String) : Except Err (TC (TDm T V) V) :=
  if tc.td.keys.contains key then
    if tc.td.locked then .error .lock
    else .ok { tc with td := { tc.td with entries := assocDel key tc.td.entries } }
  else if tc.nt.keys.contains key then .ok { tc with nt := assocSet key none tc.nt }
  else .error .key

/-! ## Part D — indexing and indexed assignment of the tensorclass itself -/

/-- what `tc[item]` / `tc[item] = value` is given as `item` -/
inductive ItemKind where
  | key        -- a `str` or a non-empty tuple of `str`: rejected ("Invalid indexing arguments")
  | batch      -- anything else: a batch index, handed to `_tensordict`
  deriving DecidableEq, Repr

/-- mirrors tensorclass.py:_getitem: key-like items are rejected, the batch index goes to `_tensordict[item]`
(`tdIndex`: whatever the tensordict does with it), the result is re-wrapped with a copy of `_non_tensordict`
(`_from_tensordict_with_copy`) -/
def getitemTc {TD V : Type} (fields : List String) (keys : TD → List String) (tdIndex : TD → Except Err TD)
    (k : ItemKind) (self : TC TD V) : Except Err (TC TD V) :=
  match k with
  | .key => .error .value
  | .batch =>
    match tdIndex self.td with
    | .error e => .error e
    | .ok t => (fromTensordict fields (keys t) self.nt).map (fun nt' => ⟨self.cls, t, nt'⟩)

/-- the value of an indexed assignment, as far as `_setitem` distinguishes -/
inductive SetItemVal (TD V : Type) where
  | tc (v : TC TD V)        -- a tensorclass instance
  | td (t : TD)             -- a TensorDictBase
  | scalar                  -- a number or a tensor: written to every leaf
  | other                   -- anything else: ValueError

/-- `set(a) == set(b)` -/
def sameKeySet (a b : List String) : Bool := a.all (fun x => b.contains x) && b.all (fun x => a.contains x)

/-- mirrors tensorclass.py:_setitem (batch index, not the `True`/`None`-on-empty-batch shortcut):
a tensorclass value of another class must have the same members; the `None` placeholders of fields the value
holds as tensordict entries are dropped; the write itself is `_tensordict[item] = value._tensordict`. -/
def setitemTc {TD V : Type} (keys : TD → List String) (tdSetAt : TD → Option TD → Except Err TD)
    (k : ItemKind) (self : TC TD V) : SetItemVal TD V → Except Err (TC TD V)
  | .other => if k = .key then .error .value else .error .value
  | .scalar =>
    if k = .key then .error .value
    else (tdSetAt self.td none).map (fun t => { self with td := t })
  | .td t =>
    if k = .key then .error .value
    else (tdSetAt self.td (some t)).map (fun t' => { self with td := t' })
  | .tc v =>
    if k = .key then .error .value
    else if v.cls ≠ self.cls ∧ !sameKeySet (self.nt.keys ++ keys self.td) (v.nt.keys ++ keys v.td) then .error .value
    else
      (tdSetAt self.td (some v.td)).map (fun t' =>
        { self with td := t', nt := self.nt.filter (fun kv => !(keys v.td).contains kv.1) })

/-- invariant of a tensorclass instance: every declared field lives in exactly one of the two dicts,
nothing else lives there, and `_non_tensordict` only holds `None` placeholders (regular tensorclass) -/
structure WF {T V : Type} (fields : List String) (tc : TC (TDm T V) V) : Prop where
  td_sub : ∀ k ∈ tc.td.keys, k ∈ fields
  nt_sub : ∀ k ∈ tc.nt.keys, k ∈ fields
  cover : ∀ f ∈ fields, f ∈ tc.td.keys ∨ f ∈ tc.nt.keys
  disj : ∀ k ∈ tc.td.keys, k ∉ tc.nt.keys
  nt_nodup : tc.nt.keys.Nodup

/-! ## Part E — writes that reach `_tensordict` without going through `_set` -/

/-- mirrors tensorclass.py:_drop_stale_placeholders: the `None` placeholders of the fields that (now) have an
entry in `_tensordict` are removed from `_non_tensordict` -/
def dropStale {T V : Type} (tc : TC (TDm T V) V) : TC (TDm T V) V :=
  { tc with nt := tc.nt.filter (fun kv => !(kv.2.isNone && tc.td.keys.contains kv.1)) }

/-- mirrors tensorclass.py:_wrap_td_method.wrapped_func for a delegated method that writes IN PLACE: the method
turns `_tensordict` into `td'` (whatever it does: `setdefault`, `rename_key_`, `create_nested`, `cat_tensors`, …),
then the wrapper drops the stale placeholders -/
def delegatedWrite {T V : Type} (tc : TC (TDm T V) V) (td' : TDm T V) : TC (TDm T V) V :=
  dropStale { tc with td := td' }

/-- the PINNED wrapper (before the repair): the placeholders are left as they are -/
def delegatedWritePinned {T V : Type} (tc : TC (TDm T V) V) (td' : TDm T V) : TC (TDm T V) V :=
  { tc with td := td' }

/-- base.py:TensorDictBase.update on string keys: every entry of the source is written over / appended to the
destination (`_set_str` per key) -/
def tdUpdate {T V : Type} (td src : TDm T V) : TDm T V :=
  ⟨src.entries.foldl (fun es kv => assocSet kv.1 kv.2 es) td.entries, td.locked⟩

/-- mirrors tensorclass.py:_update for a tensorclass source on an unlocked destination (a dict source is first turned
into a tensorclass by `from_dict`): the non-`None` values of the source's `_non_tensordict` are merged, the underlying
tensordicts are updated, the stale placeholders dropped.  `filterNone = false` is the seeded mutant C15-2 (the source's
placeholders are merged too). -/
def updateTc {T V : Type} (filterNone : Bool) (dst src : TC (TDm T V) V) : TC (TDm T V) V :=
  let merged := (if filterNone then src.nt.filter (fun kv => kv.2.isSome) else src.nt).foldl
    (fun acc kv => assocSet kv.1 kv.2 acc) dst.nt
  dropStale { dst with td := tdUpdate dst.td src.td, nt := merged }

/-- the PINNED `_update` (before the repair): no pruning after the merge -/
def updateTcPinned {T V : Type} (filterNone : Bool) (dst src : TC (TDm T V) V) : TC (TDm T V) V :=
  let merged := (if filterNone then src.nt.filter (fun kv => kv.2.isSome) else src.nt).foldl
    (fun acc kv => assocSet kv.1 kv.2 acc) dst.nt
  { dst with td := tdUpdate dst.td src.td, nt := merged }

/-! ## Part G — pytree registration (tensordict/_pytree.py) -/

/-- the pytree context of a tensorclass: `_tensordict_flatten(tc)` — keys of `tc.items()` (the entries of `_tensordict`) and
`tc.non_tensor_items()` (= `_non_tensordict`) -/
structure PyCtx (V : Type) where
  keys : List String
  nt : NT V

/-- `_pytree.py:_tensordict_flatten` applied to a tensorclass (the values are the entries, in key order) -/
def pytreeFlatten {T V : Type} (tc : TC (TDm T V) V) : List (Entry T V) × PyCtx V :=
  (tc.td.entries.map Prod.snd, ⟨tc.td.keys, tc.nt⟩)

/-- `_pytree.py:_tensordict_unflatten` → `_tensorclass_constructor`: a plain tensordict is rebuilt from keys and values, then
`cls._from_tensordict(result, dict(non_tensor_items))` -/
def pytreeUnflatten {T V : Type} (fields : List String) (cls : String) (values : List (Entry T V)) (ctx : PyCtx V) :
    Except Err (TC (TDm T V) V) :=
  match fromTensordict fields ctx.keys ctx.nt with
  | .ok nt' => .ok ⟨cls, ⟨ctx.keys.zip values, false⟩, nt'⟩
  | .error e => .error e

/-- `_non_tensordict` of a regular tensorclass only holds `None` placeholders (values live in `_tensordict` as
`NonTensorData`); every writer of the model keeps this -/
def PlaceholdersOnly {T V : Type} (tc : TC (TDm T V) V) : Prop := ∀ kv ∈ tc.nt, kv.2 = none

end TdVerif.C15
