/-
  Hashes of the sources the models were transcribed from and last validated against (harness/c12_pins.py --repin).
  Refreshed by the builder after re-reading the model against a changed function; compared with Gen/C12Src.lean by
  `Props.C12.transcribed_sources_unchanged`.
-/
namespace TdVerif.C12

/-- pinned AST hashes -/
def c12Pinned : List (String × String) := [
  ("tensordict/utils.py:_split_tensordict", "e139541c77144761"),
  ("tensordict/base.py:TensorDictBase._map", "bd74d4003728324b"),
  ("tensordict/_td.py:TensorDict._multithread_apply_flat", "44679564665d0b6d"),
  ("tensordict/_td.py:TensorDict._multithread_rebuild", "c0cd5b13c51f35ed"),
  ("tensordict/utils.py:TensorDictFuture.result", "9864184530958cbb"),
  ("tensordict/utils.py:_proc_init", "af7edb7450e91b2c"),
  ("tensordict/base.py:TensorDictBase.map", "8e0fd1b34181fa27")
]

end TdVerif.C12
