/-
  C08 — index grammar and the SPEC of indexing (what the dense stack / torch does).

  `Ix` is the property's grammar: ints, slices, None, Ellipsis + advanced items
  (integer tensor = list / range / tensor after `torch.as_tensor`, boolean mask).
  `idxShape` / `idxCoord` give torch's result shape and, for every output coordinate, the
  input coordinate it reads.  They are faithful to torch for **at most one advanced item**
  (`AtMostOneAdv`): with one advanced item the result dims of that item sit where the item is
  (ints are `select`ed first, Nones become size-1 dims) — validated against torch each run.

  `convertEllipsis` mirrors tensordict/utils.py:convert_ellipsis_to_idx, which BOTH the dense
  `TensorDictBase.__getitem__` (base.py:534) and `LazyStackedTensorDict._split_index`
  (_lazy.py:664) run on `self.batch_size` before anything else.
-/
import TdVerif.Model.SliceSpec
import TdVerif.Model.C08Tensor

namespace TdVerif.C08

inductive Ix where
  | int (i : Int)
  | slice (a b c : Option Int)
  | none
  | ell
  | tens (t : T Int)
  | mask (m : T Bool)

namespace Ix
def isEll : Ix → Bool | .ell => true | _ => false
def isNone : Ix → Bool | .none => true | _ => false
def isAdv : Ix → Bool | .tens _ => true | .mask _ => true | _ => false
def full : Ix := .slice Option.none Option.none Option.none
end Ix

/-- the property's grammar bound: at most one advanced item -/
def AtMostOneAdv (ix : List Ix) : Prop := ix.countP Ix.isAdv ≤ 1

/-- Python's negative-index normalisation; `none` = IndexError -/
def normInt (i : Int) (d : Nat) : Option Nat :=
  if 0 ≤ i ∧ i < d then some i.toNat
  else if i < 0 ∧ -(d : Int) ≤ i then some (i + d).toNat
  else none

/-- `slice(a,b,c).indices(d)` as (start, step, len); `none` = ValueError (zero step).
Any non-zero step (what `range(d)[slice]` accepts). -/
def sliceNorm (a b c : Option Int) (d : Nat) : Option (Int × Int × Nat) :=
  match SliceSpec.indices a b c d with
  | .ok (s, e, st) => some (s, st, (SliceSpec.rangeLen s e st).toNat)
  | .error _ => none

/-- total version (junk `(0,1,0)` when the slice raises) -/
def sliceNormD (a b c : Option Int) (d : Nat) : Int × Int × Nat := (sliceNorm a b c d).getD (0, 1, 0)

/-- k-th element of the normalised slice -/
def sliceAt (s st : Int) (k : Nat) : Nat := (s + st * k).toNat

/-- all entries of an integer index tensor are valid for a dim of size `d` -/
def tensOk (t : T Int) (d : Nat) : Bool :=
  (allCoords t.shape).all (fun c => (normInt (t.get c) d).isSome)

/-- row-major list of the coordinates where the mask is true (`mask.nonzero()`) -/
def nonzero (m : T Bool) : List (List Nat) := (allCoords m.shape).filter m.get

/-- number of result dims an item produces -/
def Ix.outRank : Ix → Nat
  | .int _ => 0
  | .slice .. => 1
  | .none => 1
  | .ell => 0
  | .tens t => t.shape.length
  | .mask _ => 1

@[simp] theorem Ix.outRank_int (i : Int) : (Ix.int i).outRank = 0 := rfl
@[simp] theorem Ix.outRank_slice (a b c : Option Int) : (Ix.slice a b c).outRank = 1 := rfl
@[simp] theorem Ix.outRank_none : Ix.none.outRank = 1 := rfl
@[simp] theorem Ix.outRank_tens (t : T Int) : (Ix.tens t).outRank = t.shape.length := rfl
@[simp] theorem Ix.outRank_mask (m : T Bool) : (Ix.mask m).outRank = 1 := rfl
@[simp] theorem Ix.outRank_full : Ix.full.outRank = 1 := rfl

def outRank (ix : List Ix) : Nat := (ix.map Ix.outRank).sum

/-- torch result shape of `x[ix]` for `x.shape = sh`; `none` = raises.
(`.ell` must have been expanded.) -/
def idxShape : List Ix → Shape → Option Shape
  | [], sh => some sh
  | .none :: r, sh => (idxShape r sh).map (1 :: ·)
  | .ell :: _, _ => Option.none
  | .mask m :: r, sh =>
      if m.shape ≠ [] ∧ m.shape = sh.take m.shape.length
      then (idxShape r (sh.drop m.shape.length)).map ((nonzero m).length :: ·)
      else Option.none
  | .int _ :: _, [] => Option.none
  | .slice .. :: _, [] => Option.none
  | .tens _ :: _, [] => Option.none
  | .int i :: r, d :: sh => if (normInt i d).isSome then idxShape r sh else Option.none
  | .slice a b c :: r, d :: sh =>
      match sliceNorm a b c d with
      | some (_, st, len) => if 0 < st then (idxShape r sh).map (len :: ·) else Option.none
      | Option.none => Option.none
  | .tens t :: r, d :: sh =>
      if t.shape ≠ [] ∧ tensOk t d then (idxShape r sh).map (t.shape ++ ·) else Option.none

/-- input coordinate read by output coordinate `c` of `x[ix]`, `x.shape = sh` -/
def idxCoord : List Ix → Shape → List Nat → List Nat
  | [], _, c => c
  | .none :: r, sh, c => idxCoord r sh c.tail
  | .ell :: _, _, c => c
  | .mask m :: r, sh, c =>
      ((nonzero m)[at0 c 0]?.getD []) ++ idxCoord r (sh.drop m.shape.length) c.tail
  | .int _ :: _, [], c => c
  | .slice .. :: _, [], c => c
  | .tens _ :: _, [], c => c
  | .int i :: r, d :: sh, c => ((normInt i d).getD 0) :: idxCoord r sh c
  | .slice a b c' :: r, d :: sh, c =>
      sliceAt (sliceNormD a b c' d).1 (sliceNormD a b c' d).2.1 (at0 c 0) :: idxCoord r sh c.tail
  | .tens t :: r, d :: sh, c =>
      ((normInt (t.get (c.take t.shape.length)) d).getD 0) :: idxCoord r sh (c.drop t.shape.length)

/-- `x[ix]` as a coordinate map (meaningful when `idxShape` accepts) -/
def idxT (ix : List Ix) (t : T α) : T α where
  shape := (idxShape ix t.shape).getD []
  get c := t.get (idxCoord ix t.shape c)

/-- dims a mask takes beyond the first (`_mask_extra_dims` in convert_ellipsis_to_idx) -/
def Ix.maskExtra : Ix → Nat
  | .mask m => m.shape.length - 1
  | _ => 0

/-- mirrors tensordict/utils.py:convert_ellipsis_to_idx (after the fix that counts a boolean
mask for as many dims as it has) for a tuple index and a batch of rank `rank`; `none` =
RuntimeError.  An index without Ellipsis is returned unchanged. -/
def convertEllipsis (ix : List Ix) (rank : Nat) : Option (List Ix) :=
  let nEll := ix.countP Ix.isEll
  if nEll = 0 then some ix else
  let nNone := ix.countP Ix.isNone
  let extra := (ix.map Ix.maskExtra).sum
  -- `if num_dims < len(idx) - num_ellipsis - #None + sum(_mask_extra_dims)): raise`
  if rank + nEll + nNone < ix.length + extra then Option.none else
  -- second Ellipsis met in the loop: "An index can only have one ellipsis at most."
  if 1 < nEll then Option.none else
  let start := ix.findIdx Ix.isEll
  let after := (ix.drop (start + 1)).length          -- after_ellipsis_length
  let numDims := rank + nNone - extra                 -- num_dims += 1 per None, -= extra dims of every mask
  let ellLen := numDims - after - start               -- ellipsis_length
  let new := ix.take start ++ List.replicate ellLen Ix.full ++ (ix.drop (start + 1)).take after
  if new.length ≠ numDims then Option.none else some new

end TdVerif.C08
