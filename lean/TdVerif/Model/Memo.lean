/-
  Memoised class predicates whose memo is switched off under torch.compile:
    tensordict/utils.py `_is_tensorclass`      (compile branch: reads the memo, never writes it)
    tensordict/utils.py `_is_non_tensor`, `_pass_through_cls`, tensordict/base.py `_is_tensor_collection`
                                               (compile branch: neither reads nor writes the memo)
  `truth c` = what the function computes from the class itself (`getattr(cls, "_is_tensorclass", False)`, …),
  `memo`    = the module-level dict (`_TENSORCLASS_MEMO`, `_NON_TENSOR_MEMO`, `_PASSTHROUGH_MEMO`, `_TENSOR_COLLECTION_MEMO`).
-/
namespace TdVerif.Memo

structure World where
  truth : Nat → Bool
  memo : List (Nat × Bool)

def memoGet (m : List (Nat × Bool)) (c : Nat) : Option Bool := (m.find? (·.1 = c)).map (·.2)

/-- eager branch: `out = MEMO.get(cls); if out is None: out = <compute>; MEMO[cls] = out` -/
def eager (w : World) (c : Nat) : Bool × List (Nat × Bool) :=
  match memoGet w.memo c with
  | some b => (b, w.memo)
  | none => (w.truth c, (c, w.truth c) :: w.memo)

/-- compile branch of `_is_tensorclass`: the memo is read but not written -/
def compileRead (w : World) (c : Nat) : Bool × List (Nat × Bool) :=
  match memoGet w.memo c with
  | some b => (b, w.memo)
  | none => (w.truth c, w.memo)

/-- compile branch of the three others: always recomputed -/
def compileFresh (w : World) (c : Nat) : Bool × List (Nat × Bool) := (w.truth c, w.memo)

/-- the memo only holds what the classes say (true as long as the class attributes are not changed after a first query) -/
def Inv (w : World) : Prop := ∀ c b, memoGet w.memo c = some b → b = w.truth c

end TdVerif.Memo
