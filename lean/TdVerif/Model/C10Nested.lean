/-
  C10 — (1) a leaf that is a nested tensor: tensordict/_td.py:_populate_memmap (`value.is_nested` branch: the component shapes
  `_nested_tensor_size()` go to the side file `<key>.shape.memmap`, **always with their values**, the data to `<key>.memmap`, with their
  values unless `like`) and the `is_nested` branch of `TensorDict._load_memmap` (read the k × r shape matrix from the side file, then
  `from_filename(shape=that matrix)`: the data file is cut into components of `prod(row)` cells).
  (2) the file name a memory-mapped tensor records: tensordict/memmap.py `MemoryMappedTensor.filename` setter,
  `str(Path(value).absolute())`: the working directory *at that moment* joined with a relative name.
  One element = one cell (shape matrix: int64 cells, data: the leaf's dtype).
-/
import TdVerif.Model.C10Tensor

namespace TdVerif.C10
open TdVerif.C12 (Slots)

/-- one component of a nested tensor: its shape and its cells (row-major) -/
abbrev Comp := List Nat × List Nat

/-- `value._nested_tensor_size()` row-major: k rows of r sizes -/
def shapeCells (cs : List Comp) : List Nat := cs.flatMap (·.1)
/-- the buffer of the nested tensor: the components one after the other -/
def dataCells (cs : List Comp) : List Nat := cs.flatMap (·.2)

def shapePath (dir : Path) (key : String) : Path := dir ++ [key ++ ".shape" ++ ".memmap"]
def dataPath (dir : Path) (key : String) : Path := dir ++ [key ++ ".memmap"]

/-- `_populate_memmap` of a nested-tensor leaf: two `from_tensor` calls; `shapeWithValues` is `copy_data` of the side file
    (`True` in the code; the seeded variant passes `not like`) -/
def populateNestedWith (shapeWithValues : Bool) (fs : FS) (dir : Path) (key : String) (cs : List Comp)
    (copyExisting like existsok : Bool) : Except FTErr FS :=
  match populate fs dir (key ++ ".shape") (.mem (shapeCells cs)) copyExisting (!shapeWithValues) existsok with
  | .error e => .error e
  | .ok (fs1, _) =>
    match populate fs1 dir key (.mem (dataCells cs)) copyExisting like existsok with
    | .error e => .error e
    | .ok (fs2, _) => .ok fs2

def populateNested := populateNestedWith true

/-- k rows of r cells -/
def rowsOf (r : Nat) : Nat → List Nat → List (List Nat)
  | 0, _ => []
  | k + 1, l => l.take r :: rowsOf r k (l.drop r)

/-- cut a buffer into pieces of the given lengths -/
def splitBy : List Nat → List Nat → List (List Nat)
  | [], _ => []
  | n :: ns, l => l.take n :: splitBy ns (l.drop n)

/-- the `is_nested` branch of `_load_memmap`: metadata say the shape matrix is k × r -/
def loadNested (fs : FS) (dir : Path) (key : String) (k r : Nat) : List Comp :=
  let shapes := rowsOf r k ((fromFilename (shapePath dir key) (k * r)).value fs)
  let lens := shapes.map numel
  shapes.zip (splitBy lens ((fromFilename (dataPath dir key) lens.sum).value fs))

-- ------------------------------------------------------------------ recorded file names

/-- a history of the process: change the working directory, or create a memory-mapped tensor under a *relative* file name -/
inductive NameOp where
  | chdir (dir : Path)
  | save (rel : Path)
  deriving Repr, DecidableEq

/-- the file names recorded by the saves of a history (`Path(value).absolute()` = cwd joined with the relative name) -/
def recordedNames (cwd : Path) : List NameOp → List Path
  | [] => []
  | .chdir d :: ops => recordedNames d ops
  | .save rel :: ops => (cwd ++ rel) :: recordedNames cwd ops

/-- the seeded variant: the absolute name is looked up in a cache keyed by the relative name alone -/
def recordedNamesCached (cache : List (Path × Path)) (cwd : Path) : List NameOp → List Path
  | [] => []
  | .chdir d :: ops => recordedNamesCached cache d ops
  | .save rel :: ops =>
    match cache.lookup rel with
    | some a => a :: recordedNamesCached cache cwd ops
    | none => (cwd ++ rel) :: recordedNamesCached ((rel, cwd ++ rel) :: cache) cwd ops

end TdVerif.C10
