/-
  C08 — executable model of `LazyStackedTensorDict` (tensordict/_lazy.py).

  A member tensordict is a batch shape, an ordered key list and a functional tensor per key
  (nested keys are flattened to dotted names by the harness).  `TD.index`/`TD.setitem` are the
  SPEC of indexing a *plain* TensorDict (= torch on every leaf, C03's subject); the lazy stack
  is modelled on top of them, transcribing what `_lazy.py` does with the member list.

  `absL L` is the dense stack the property compares with.
-/
import TdVerif.Model.C08Index

namespace TdVerif.C08

structure TD (α : Type) where
  batch : Shape
  keys : List String
  leaf : String → T α

instance [Inhabited α] : Inhabited (TD α) := ⟨⟨[], [], fun _ => default⟩⟩

/-- keywise equality on the meaningful part -/
def TD.Eqv (a b : TD α) : Prop :=
  a.batch = b.batch ∧ a.keys = b.keys ∧ ∀ k, k ∈ a.keys → a.leaf k ≈ₜ b.leaf k

infix:50 " ≈ " => TD.Eqv

def TD.mapLeaves (m : TD α) (b : Shape) (f : T α → T α) : TD α :=
  { batch := b, keys := m.keys, leaf := fun k => f (m.leaf k) }

/-- SPEC: `td[ix]` on a plain TensorDict (Ellipsis already expanded): torch index on the batch
shape and on every leaf. `none` = raises. -/
def TD.index (m : TD α) (ix : List Ix) : Option (TD α) :=
  (idxShape ix m.batch).map fun b => m.mapLeaves b (idxT ix)

/-- SPEC: `td[ix]` with Ellipsis (base.py:__getitem__ → convert_ellipsis_to_idx on batch_size) -/
def TD.getitem (m : TD α) (ix : List Ix) : Option (TD α) :=
  (convertEllipsis ix m.batch.length).bind m.index

/-- SPEC: `torch.stack(members, sd)` of tensordicts: keywise stack, batch gets `n` at `sd` -/
def stackTD [Inhabited α] (ms : List (TD α)) (sd : Nat) : TD α :=
  { batch := ((ms.head?.map TD.batch).getD []).insertIdx sd ms.length,
    keys := (ms.head?.map TD.keys).getD [],
    leaf := fun k => T.stack (ms.map (fun m => m.leaf k)) sd }

/-- SPEC: `torch.cat([a, b], d)` of plain tensordicts (same keys) -/
def TD.cat2 (a b : TD α) (d : Nat) : TD α :=
  { batch := a.batch.set d (at0 a.batch d + at0 b.batch d), keys := a.keys,
    leaf := fun k => T.cat2 (a.leaf k) (b.leaf k) d }

/-- SPEC: `torch.cat(tds, d)` -/
def TD.catList [Inhabited α] : List (TD α) → Nat → TD α
  | [], _ => default
  | [a], _ => a
  | a :: b :: r, d => TD.cat2 a (TD.catList (b :: r) d) d

/-- SPEC: `td.unbind(d)` -/
def TD.unbind (m : TD α) (d : Nat) : List (TD α) :=
  (List.range (m.batch[d]?.getD 0)).map fun i =>
    m.mapLeaves (m.batch.eraseIdx d) (fun t => t.select d i)

/-! ## the lazy stack -/

/-- `LazyStackedTensorDict`: `tensordicts` (the only storage, _lazy.py:291) and `stack_dim` (:292) -/
structure Lazy (α : Type) where
  members : List (TD α)
  sd : Nat

/-- mirrors _lazy.py:_compute_batch_size applied in `__init__` to the first member's batch size -/
def Lazy.batch (L : Lazy α) : Shape :=
  ((L.members.head?.map TD.batch).getD []).insertIdx L.sd L.members.length

/-- abstraction function: the dense stack of the members -/
def absL [Inhabited α] (L : Lazy α) : TD α := stackTD L.members L.sd

/-- mirrors `LazyStackedTensorDict.lazy_stack` → `__init__` (_lazy.py:1221/231) for tensordict
items: negative dim is counted from `ndim+1`, empty item list raises, `stack_dim > ndim`
raises; members must have one batch size (heterogeneous shapes are outside the model). -/
def lazyStack (items : List (TD α)) (dim : Int) : Option (Lazy α) :=
  match items with
  | [] => none
  | m :: rest =>
    let r : Int := m.batch.length
    let d : Int := if dim < 0 then r + dim + 1 else dim
    if d < 0 ∨ r < d then none
    else if rest.all (fun m' => m'.batch == m.batch) then some ⟨items, d.toNat⟩
    else none

/-- mirrors tensordict/utils.py:_getitem_batch_size (1775-1864) for an Ellipsis-free index with
at most one advanced item (so `disjoint` stays False): the helper computes the indexed batch
size *without validating* the index — ints are skipped unchecked, a slice is measured with
`len(range(*idx.indices(batch_size[count])))` (IndexError when `count` runs past the batch dims). -/
def getitemBatchSize : List Ix → Shape → Option Shape
  | [], sh => some sh
  | .none :: r, sh => (getitemBatchSize r sh).map (1 :: ·)
  | .int _ :: r, sh => getitemBatchSize r sh.tail
  | .ell :: r, sh => getitemBatchSize r sh.tail
  | .slice .. :: _, [] => none
  | .slice a b c :: r, d :: sh =>
      match SliceSpec.indices a b c d with
      | .ok (s, e, st) => (getitemBatchSize r sh).map ((SliceSpec.rangeLen s e st).toNat :: ·)
      | .error _ => none
  | .tens t :: r, sh => (getitemBatchSize r sh.tail).map (t.shape ++ ·)
  | .mask m :: r, sh => (getitemBatchSize r (sh.drop m.shape.length)).map ((nonzero m).length :: ·)

/-! ### `_split_index` (_lazy.py:654-838), transcribed as a left-to-right loop -/

inductive Sel where
  | all                                -- `torch.arange(len(self.tensordicts))` (index never reaches the stack dim)
  | range (s st : Int) (len : Nat)     -- `range(len(self.tensordicts))[slice]`
  | single (i : Nat)                   -- `range(...)[int]`  (isinteger)
  | tens (t : T Int)                   -- integer tensor addressed to the stack dim

structure SplitSt where
  out : List Ix := []
  numSingle : Int := 0
  numNone : Nat := 0
  isInteger : Bool := false
  isNd : Bool := false
  cursor : Nat := 0
  sel : Sel := .all
  hasBool : Bool := false
  numSquash : Nat := 0
  encountered : Bool := false
  splitDim : Int := 0
  maskLoc : Nat := 0       -- position of the mask in the index tuple (and in `out`)
  maskDim : Nat := 0       -- dimension of `self` the mask starts at

/-- one iteration of the `for i, idx in enumerate(index)` loop; `n` = number of members,
`shape` = `self.batch_size` (only read by the spanning-mask branch). `none` = raises. -/
def splitStep (sd n : Nat) (shape : Shape) (st : SplitSt) (i : Nat) (idx : Ix) : Option SplitSt :=
  match idx with
  | .none =>   -- `out.append(None); num_none += cursor <= self.stack_dim; continue`
    some { st with out := st.out ++ [.none], numNone := st.numNone + (if st.cursor ≤ sd then 1 else 0) }
  | .ell => none   -- `raise TypeError("Invalid index type")` (Ellipsis is expanded beforehand)
  | _ =>
    if st.cursor = sd then
      match idx with
      | .int k =>     -- `selected_td_idx = range(len)[idx]` not a range → isinteger
        (normInt k n).map fun j => { st with sel := .single j, isInteger := true, cursor := st.cursor + 1 }
      | .slice a b c =>
        (sliceNorm a b c n).map fun (s, stp, len) => { st with sel := .range s stp len, cursor := st.cursor + 1 }
      | .mask m =>    -- has_bool; masks unbound along dim 0, one per member
        some { st with hasBool := true, sel := .range 0 1 n, out := st.out ++ [.mask m],
                       splitDim := (i : Int) - st.numSingle, maskLoc := i, maskDim := st.cursor,
                       cursor := st.cursor + 1 }
      | .tens t =>
        some { st with isNd := true, encountered := true,
                       numSingle := if st.encountered then st.numSingle + 1 else st.numSingle,
                       sel := .tens t, cursor := st.cursor + 1 }
      | _ => none
    else
      match idx with
      | .int _ =>
        some { st with numSingle := if st.cursor < sd then st.numSingle + 1 else st.numSingle,
                       out := st.out ++ [idx], cursor := st.cursor + 1 }
      | .slice .. => some { st with out := st.out ++ [idx], cursor := st.cursor + 1 }
      | .mask m =>
        let k := m.shape.length
        let st1 := if st.cursor < sd then { st with numSquash := st.numSquash + (k - 1) } else st
        let st2 :=
          if st.cursor < sd ∧ sd < st.cursor + k then
            { st1 with hasBool := true, sel := .range 0 1 (shape[st.cursor]?.getD 0),
                       splitDim := (i : Int) - st.numSingle, maskLoc := i, maskDim := st.cursor }
          else st1
        some { st2 with out := st2.out ++ [idx], cursor := st.cursor + k }
      | .tens t =>
        let st1 :=
          if st.cursor < sd then
            (if st.encountered then { st with numSingle := st.numSingle + 1 }
             else { st with numSingle := st.numSingle - ((t.shape.length : Int) - 1), encountered := true })
          else st
        some { st1 with out := st1.out ++ [idx], cursor := st.cursor + 1 }
      | _ => none

def splitLoop (sd n : Nat) (shape : Shape) : List Ix → Nat → SplitSt → Option SplitSt
  | [], _, st => some st
  | idx :: r, i, st => (splitStep sd n shape st i idx).bind (splitLoop sd n shape r (i + 1))

/-- list of member positions denoted by the selection -/
def Sel.ids (n : Nat) : Sel → List Nat
  | .all => List.range n
  | .range s st len => (List.range len).map (sliceAt s st)
  | .single i => [i]
  | .tens _ => []

/-- `_split_index(index)` after `convert_ellipsis_to_idx`.  In the has_bool case the final
`tuple(... idx[i] ... for i in selected_td_idx)` raises IndexError when there are fewer unbound
sub-masks than selected positions. -/
def splitIndex (L : Lazy α) (ix : List Ix) : Option SplitSt :=
  (splitLoop L.sd L.members.length L.batch ix 0 {}).bind fun st =>
    if st.hasBool then
      match st.out[st.maskLoc]? with
      | some (.mask m) =>
        if (st.sel.ids L.members.length).length ≤ m.shape.headD 0 then some st else none
      | _ => none
    else some st

/-- all-or-nothing: the first `none` (a raise) aborts -/
def allSome : List (Option β) → Option (List β)
  | [] => some []
  | none :: _ => none
  | some x :: r => (allSome r).map (x :: ·)

/-- `self.tensordicts[i][_idx]`, or the member itself when `_idx == ()` -/
def memberIndex (L : Lazy α) (out : List Ix) (i : Nat) : Option (TD α) :=
  (L.members[i]?).bind fun m => if out.isEmpty then some m else m.index out

/-- what `__getitem__` returns: a member, a lazy stack, or (rank-2 integer tensor at the
stack dim) a lazy stack of lazy stacks -/
inductive LRes (α : Type) where
  | member (m : TD α)
  | lazy (L : Lazy α)
  | lazy2 (sd : Nat) (rows : List (Lazy α))
  | empty (batch : Shape)      -- a lazy stack without members (mask selecting nothing): only its batch size can be read

def absR [Inhabited α] : LRes α → TD α
  | .member m => m
  | .lazy L => absL L
  | .lazy2 sd rows => stackTD (rows.map absL) sd
  | .empty b => { batch := b, keys := [], leaf := fun _ => default }

/-- `recompose` for one row of member positions (the nested list built by `outer_list`) -/
def recomposeRow (L : Lazy α) (out : List Ix) (newSd : Int) (row : List Int) : Option (Lazy α) :=
  (allSome (row.map fun j => (normInt j L.members.length).bind (memberIndex L out))).bind (lazyStack · newSd)

/-- mirrors `__getitem__` (_lazy.py:2304-2401) for an Ellipsis-free index.
Branches: has_bool with a rank-1 mask on the stack dim (stack of the members the mask keeps),
is_nd_tensor (recompose), isinteger, default (stack of indexed members at
`stack_dim - num_single + num_none - num_squash`).  A mask of rank ≥ 2 on / spanning the stack
dim is outside this model (`none` here; exercised by the oracle only). -/
def lazyGetCore (L : Lazy α) (ix : List Ix) : Option (LRes α) :=
  (splitIndex L ix).bind fun st =>
    if st.hasBool then
      -- has_bool: `cat_dim = mask_loc - num_single`; sub-masks `mask.unbind(0)`
      match st.out[st.maskLoc]? with
      | some (.mask m) =>
        let catDim : Int := (st.maskLoc : Int) - st.numSingle
        if catDim < 0 then none else
        match m.shape with
        | [k] =>
          -- rank-1 mask on the stack dim: 0-dim sub-masks, one per member (zipped strictly).
          -- `self.tensordicts[i][_idx].squeeze(cat_dim)` with the 0-dim `True` in `_idx` = the
          -- member indexed by the remaining items (for a 0-dim member: one unsqueeze per None).
          if k ≠ L.members.length then none else
          let outWo := st.out.eraseIdx st.maskLoc
          let chosen := (List.range k).filter fun i => m.get [i]
          (allSome (chosen.map fun i => (L.members[i]?).bind fun mm => mm.index outWo)).bind fun res =>
            match res with
            | [] =>
              -- `_new_lazy_unsafe(stack_dim=cat_dim, batch_size=<indexed batch size without cat_dim>)`
              (getitemBatchSize ix L.batch).map fun bsz => .empty ((bsz.eraseIdx catDim.toNat).insertIdx catDim.toNat 0)
            | _ => some (.lazy ⟨res, catDim.toNat⟩)     -- `_new_lazy_unsafe(*result, stack_dim=cat_dim)`: no check
        | _ => none     -- rank ≥ 2 mask on / spanning the stack dim: outside this model
      | _ => none
    else if st.isNd then
      match st.sel with
      | .tens t =>
        if st.out.any Ix.isAdv then none else   -- second advanced item: outside the grammar
        let newSd : Int := (L.sd : Int) - st.numSingle + st.numNone
        match t.shape with
        | [k] =>
          (recomposeRow L st.out newSd ((List.range k).map fun j => t.get [j])).map .lazy
        | [k1, k2] =>
          (allSome ((List.range k1).map fun a =>
              recomposeRow L st.out newSd ((List.range k2).map fun b => t.get [a, b]))).bind fun rows =>
            -- `lazy_stack(rows, new_stack_dim)` of lazy stacks → `LazyStackedTensorDict(*rows, stack_dim)`
            match rows with
            | [] => none
            | r0 :: _ =>
              let r : Int := r0.batch.length
              let d : Int := if newSd < 0 then r + newSd + 1 else newSd
              if d < 0 ∨ r < d then none else some (.lazy2 d.toNat rows)
        | _ => none
      | _ => none
    else if st.isInteger then
      match st.sel with
      | .single i => (memberIndex L st.out i).map .member
      | _ => none
    else
      let newSd : Int := (L.sd : Int) - st.numSingle + st.numNone - st.numSquash
      (allSome ((st.sel.ids L.members.length).map (memberIndex L st.out))).bind fun res =>
        (lazyStack res newSd).map .lazy

/-- `lazy[index]`: `convert_ellipsis_to_idx(index, self.batch_size)` then the core -/
def lazyGet (L : Lazy α) (ix : List Ix) : Option (LRes α) :=
  (convertEllipsis ix L.batch.length).bind (lazyGetCore L)

/-! #### rank-2 mask on / spanning the stack dim (has_bool, `mask_unbind[0].ndim > 0`) -/

/-- `_idx` for position `i`: the index with the mask replaced by its `i`-th sub-mask -/
def subMaskIdx (out : List Ix) (loc : Nat) (m : T Bool) (i : Nat) : List Ix :=
  out.set loc (.mask (m.select 0 i))

/-- `torch.cat(result, cat_dim)` of the per-position results, which are lazy stacks whose stack
dim is `cat_dim` (or empty ones): `_lazy_cat` along the stack dim appends the member lists of the
non-empty operands; when all are empty the result is empty with the first operand's batch size -/
def catResults (rs : List (LRes α)) (catDim : Nat) : Option (LRes α) :=
  if rs.any (fun | .member _ => true | .lazy2 .. => true | _ => false) then none else
  match rs with
  | [] => none
  | r0 :: _ =>
    let ms := rs.flatMap fun | .lazy Li => Li.members | _ => []
    match ms with
    | [] => (match r0 with | .empty b => some (.empty b) | _ => none)
    | _ => (lazyStack ms (catDim : Nat)).map .lazy

/-- mirrors the last has_bool branch of `__getitem__` (_lazy.py, after the fix commits) for a
rank-2 mask: for every position `i` of the dim the mask starts at (`mask_dim`),
`self[(:,)*mask_dim + (i,)][_idx]`, then `torch.cat(results, cat_dim)`.  When the mask starts on
the stack dim the sub-results are (dense) indexed members; when it spans it they are lazy stacks
indexed by a rank-1 mask on their stack dim.  Other indices: `lazyGetCore`. -/
def lazyGetCoreM [Inhabited α] (L : Lazy α) (ix : List Ix) : Option (LRes α) :=
  match splitIndex L ix with
  | none => none
  | some st =>
    if st.hasBool then
      match st.out[st.maskLoc]? with
      | some (.mask m) =>
        if m.shape.length = 2 then
          let catDim : Int := (st.maskLoc : Int) - st.numSingle
          if catDim < 0 then none else
          let cnt := (st.sel.ids L.members.length).length
          if st.maskDim = L.sd then
            -- `self[(:,)*stack_dim + (i,)]` is member `i`
            (allSome ((List.range cnt).map fun i =>
                (L.members[i]?).bind fun mm => mm.index (subMaskIdx st.out st.maskLoc m i))).bind fun res =>
              match res with
              | [] => none
              | _ => some (.member (TD.catList res catDim.toNat))
          else
            (allSome ((List.range cnt).map fun i =>
                (lazyGetCore L (List.replicate st.maskDim Ix.full ++ [.int i])).bind fun
                  | .lazy Li => lazyGetCore Li (subMaskIdx st.out st.maskLoc m i)
                  | _ => none)).bind fun rs => catResults rs catDim.toNat
        else lazyGetCore L ix
      | _ => none
    else lazyGetCore L ix

/-- `lazy[index]` including rank-2 masks on / spanning the stack dim -/
def lazyGetM [Inhabited α] (L : Lazy α) (ix : List Ix) : Option (LRes α) :=
  (convertEllipsis ix L.batch.length).bind (lazyGetCoreM L)

/-! ### writes by index -/

/-- SPEC: `t[ix] = v` for a value `v` that already has the indexed shape (torch `index_put_`):
every value coordinate `o` is written to `idxCoord ix t.shape o`; the last (row-major) one
wins where several map to the same place. -/
def setT (ix : List Ix) (t v : T α) : T α where
  shape := t.shape
  get c :=
    match (allCoords v.shape).reverse.find? (fun o => idxCoord ix t.shape o == c) with
    | some o => v.get o
    | none => t.get c

/-- SPEC: `td[ix] = value` on a plain TensorDict, `value` a tensordict whose batch size is the
indexed batch size and whose keys exist in `td`. (`td.update(value, inplace=True)` is the case
`ix = []`.) -/
def TD.setitem (m : TD α) (ix : List Ix) (v : TD α) : Option (TD α) :=
  (idxShape ix m.batch).bind fun b' =>
    if v.batch = b' ∧ v.keys.all (fun k => m.keys.contains k) then
      some { batch := m.batch, keys := m.keys,
             leaf := fun k => if v.keys.contains k then setT ix (m.leaf k) (v.leaf k) else m.leaf k }
    else none

/-- `value.unbind(d)[i]` / `value.select(d, i)` -/
def TD.select (v : TD α) (d i : Nat) : TD α :=
  v.mapLeaves (v.batch.eraseIdx d) (fun t => t.select d i)

/-- `self.tensordicts[i][_idx] = value` (or `.update(value, inplace=True)` when `_idx == ()`):
the member list with member `i` written -/
def memberSet (ms : List (TD α)) (out : List Ix) (i : Nat) (v : TD α) : Option (List (TD α)) :=
  (ms[i]?).bind fun m => (m.setitem out v).map fun m' => ms.set i m'

/-- the sequence of member writes of one `__setitem__`, in program order -/
def writeAll (out : List Ix) : List (Nat × TD α) → List (TD α) → Option (List (TD α))
  | [], ms => some ms
  | (i, v) :: r, ms => (memberSet ms out i v).bind (writeAll out r)

/-- mirrors `__setitem__` (_lazy.py:2178-2297, after the fix commits) for a tensordict value
whose batch size is already the indexed batch size, Ellipsis-free index.
Branches: isinteger (one member), is_nd_tensor (`assign`: the value is unbound along
`unbind_dim` once per level of the index tensor), default (`value.unbind(unbind_dim)` zipped
strictly with the selected members), has_bool with a rank-1 mask on the stack dim.

`_set_at_str` (_lazy.py: `set_at_(key, tensor, index)`, also the path of `lazy[index] = tensor`)
repeats the same four branches with the same `unbind_dim = stack_dim - num_single + num_none -
num_squash` on ONE entry and a tensor value: it is this function with `v` restricted to that key
(`v.keys = [key]`); the `setitem` correspondence stream drives both code paths (40 % of its cases
write key by key through `set_at_`) against this one model. -/
def lazySetCore (L : Lazy α) (ix : List Ix) (v : TD α) : Option (Lazy α) :=
  (idxShape ix L.batch).bind fun ibs =>      -- `_getitem_batch_size(self.batch_size, index)`
  if v.batch ≠ ibs then none else
  (splitIndex L ix).bind fun st =>
    if st.hasBool then
      -- has_bool: `value.split([mask_i.sum() ...], split_dim)`, one piece per sub-mask
      match st.out[st.maskLoc]? with
      | some (.mask m) =>
        match m.shape with
        | [k] =>
          -- rank-1 mask on the stack dim: the kept members, in order, get the successive
          -- size-1 pieces of the value (squeezed), written through the index without the mask
          if k ≠ L.members.length ∨ st.splitDim < 0 then none else
          let outWo := st.out.eraseIdx st.maskLoc
          let chosen := (List.range k).filter fun i => m.get [i]
          if v.batch[st.splitDim.toNat]? ≠ some chosen.length then none else
          (writeAll outWo ((List.range chosen.length).map fun j =>
              (chosen[j]?.getD L.members.length, v.select st.splitDim.toNat j)) L.members).map
            fun ms => { L with members := ms }
        | _ => none      -- rank ≥ 2 mask on / spanning the stack dim: outside this model
      | _ => none
    else
      let ud : Int := (L.sd : Int) - st.numSingle + st.numNone - st.numSquash
      if st.isInteger then
        match st.sel with
        | .single i => (memberSet L.members st.out i v).map fun ms => { L with members := ms }
        | _ => none
      else if ud < 0 then none
      else if st.isNd then
        match st.sel with
        | .tens t =>
          if st.out.any Ix.isAdv then none else
          match t.shape with
          | [k] =>
            if v.batch[ud.toNat]? ≠ some k then none else
            (writeAll st.out ((List.range k).map fun j =>
                ((normInt (t.get [j]) L.members.length).getD L.members.length, v.select ud.toNat j)) L.members).map
              fun ms => { L with members := ms }
          | [k1, k2] =>
            if v.batch[ud.toNat]? ≠ some k1 ∨ v.batch[ud.toNat + 1]? ≠ some k2 then none else
            (writeAll st.out ((List.range k1).flatMap fun a => (List.range k2).map fun b =>
                ((normInt (t.get [a, b]) L.members.length).getD L.members.length,
                 (v.select ud.toNat a).select ud.toNat b)) L.members).map
              fun ms => { L with members := ms }
          | _ => none
        | _ => none
      else
        let ids := st.sel.ids L.members.length
        -- `_zip_strict(converted_idx.items(), value.unbind(unbind_dim))`
        if v.batch[ud.toNat]? ≠ some ids.length then none else
        (writeAll st.out ((List.range ids.length).map fun j =>
            (ids[j]?.getD L.members.length, v.select ud.toNat j)) L.members).map
          fun ms => { L with members := ms }

/-- `lazy[index] = value` -/
def lazySet (L : Lazy α) (ix : List Ix) (v : TD α) : Option (Lazy α) :=
  (convertEllipsis ix L.batch.length).bind fun ix' => lazySetCore L ix' v

/-- SPEC: `dense[index] = value` -/
def TD.setitemE (m : TD α) (ix : List Ix) (v : TD α) : Option (TD α) :=
  (convertEllipsis ix m.batch.length).bind fun ix' => m.setitem ix' v

/-! ### key access, unbind -/

/-- mirrors `_get_str` (_lazy.py:1129): fetch the entry of every member, `torch.stack` at stack_dim -/
def lazyGetStr [Inhabited α] (L : Lazy α) (k : String) : Option (T α) :=
  if L.members.all (fun m => m.keys.contains k) then
    some (T.stack (L.members.map fun m => m.leaf k) L.sd)
  else none

/-- member-level `_set_str`: bind `k` to `v` (appended if new) -/
def TD.setStr (m : TD α) (k : String) (v : T α) : TD α :=
  { batch := m.batch,
    keys := if m.keys.contains k then m.keys else m.keys ++ [k],
    leaf := fun k' => if k' = k then v else m.leaf k' }

/-- mirrors `_set_str` (_lazy.py:571): `value.unbind(self.stack_dim)` zipped (strictly) with the members -/
def lazySetStr (L : Lazy α) (k : String) (v : T α) : Option (Lazy α) :=
  let vs := v.unbind L.sd
  if vs.length = L.members.length then
    some { L with members := (L.members.zip vs).map fun (m, x) => m.setStr k x }
  else none

/-- mirrors `_unbind` (_lazy.py:1016): at the stack dim the members themselves, otherwise one
lazy stack per slice of the members, with the stack dim shifted when `dim < stack_dim` -/
def lazyUnbind (L : Lazy α) (dim : Nat) : List (LRes α) :=
  if dim = L.sd then L.members.map .member
  else
    let newDim := if dim < L.sd then dim else dim - 1
    let newSd := if dim > L.sd then L.sd else L.sd - 1
    let cnt := (L.batch[dim]?.getD 0)
    (List.range cnt).map fun i =>
      .lazy ⟨L.members.map fun m => m.mapLeaves (m.batch.eraseIdx newDim) (fun t => t.select newDim i), newSd⟩


/-! ### shape operations: stack-dim bookkeeping (_lazy.py:3302-3469) -/

def TD.unsqueeze (m : TD α) (d : Nat) : TD α := m.mapLeaves (m.batch.insertIdx d 1) (fun t => t.unsqueeze d)
def TD.squeezeAt (m : TD α) (d : Nat) : TD α := m.mapLeaves (m.batch.eraseIdx d) (fun t => t.squeezeAt d)
def TD.transpose (m : TD α) (a b : Nat) : TD α := m.mapLeaves (swapAt m.batch a b) (fun t => t.transpose a b)
/-- `td.permute(p)` on the batch dims; trailing feature dims stay in place -/
def TD.permute (m : TD α) (p : List Nat) : TD α :=
  m.mapLeaves (p.map fun j => m.batch[j]?.getD 0)
    (fun t => t.permute (p ++ (List.range (t.shape.length - p.length)).map (· + p.length)))

/-- mirrors `_unsqueeze` (_lazy.py:3450): a new dim at or before the stack dim shifts it -/
def lazyUnsqueeze (L : Lazy α) (dim : Int) : Option (Lazy α) :=
  let r : Int := L.batch.length
  let nd : Int := if dim < 0 then r + dim + 1 else dim
  if nd > r ∨ nd < 0 then none
  else if nd.toNat > L.sd then lazyStack (L.members.map fun m => m.unsqueeze (nd.toNat - 1)) L.sd
  else lazyStack (L.members.map fun m => m.unsqueeze nd.toNat) (L.sd + 1 : Nat)

/-- mirrors `_squeeze(dim)` (_lazy.py:3419): a non-singleton dim returns self, squeezing the
stack dim returns the (single) member, a dim before the stack dim shifts it -/
def lazySqueeze (L : Lazy α) (dim : Int) : Option (LRes α) :=
  let r : Int := L.batch.length
  let nd : Int := if dim < 0 then r + dim else dim
  if nd > r - 1 ∨ nd < 0 then none
  else
    let d := nd.toNat
    if L.batch[d]? ≠ some 1 then some (.lazy L)
    else if d = L.sd then (L.members[0]?).map .member
    else if d > L.sd then (lazyStack (L.members.map fun m => m.squeezeAt (d - 1)) L.sd).map .lazy
    else (lazyStack (L.members.map fun m => m.squeezeAt d) (L.sd - 1 : Nat)).map .lazy

/-- `dims = list(range(n)); dims.insert(to, dims.pop(frm))`: the identity permutation with
element `frm` moved to position `to` -/
def rollPerm (n frm to : Nat) : List Nat := ((List.range n).eraseIdx frm).insertIdx to frm

/-- mirrors `transpose` (base.py:4061: normalise, sort, equal dims return self) + `_transpose`
(_lazy.py:3302, after the fix commit): when one of the dims is the stack dim, the stack dim
moves there and one member dim is rolled across the dims in between (nothing to do in the
members when the two dims are adjacent) -/
def lazyTranspose (L : Lazy α) (dim0 dim1 : Int) : Option (Lazy α) :=
  let r : Int := L.batch.length
  let a0 : Int := if dim0 < 0 then r + dim0 else dim0
  let b0 : Int := if dim1 < 0 then r + dim1 else dim1
  if a0 < 0 ∨ b0 < 0 ∨ a0 ≥ r ∨ b0 ≥ r then none
  else
    let a := (min a0 b0).toNat
    let b := (max a0 b0).toNat
    if a = b then some L
    else if a = L.sd then
      if b = a + 1 then lazyStack L.members (b : Nat)
      else lazyStack (L.members.map fun m => m.permute (rollPerm (r.toNat - 1) (b - 1) a)) (b : Nat)
    else if b = L.sd then
      if a + 1 = b then lazyStack L.members (a : Nat)
      else lazyStack (L.members.map fun m => m.permute (rollPerm (r.toNat - 1) a (b - 1))) (a : Nat)
    else
      let a' := if a < L.sd then a else a - 1
      let b' := if b < L.sd then b else b - 1
      lazyStack (L.members.map fun m => m.transpose a' b') L.sd

/-- mirrors `_permute` (_lazy.py:3398): the new stack dim is where `stack_dim` sits in the
permutation (`argsort(dims)[stack_dim]`), the members are permuted by the remaining dims
renumbered.  (`none` when `dims` is not a permutation of the batch dims: outside the model.) -/
def lazyPermute (L : Lazy α) (dims : List Int) : Option (Lazy α) :=
  let r := L.batch.length
  let dl : List Int := dims.map fun d => if d ≥ 0 then d else (r : Int) + d
  if dl.any (fun d => d < 0 ∨ d ≥ r) ∨ dl.length ≠ r then none else
  let p : List Nat := dl.map Int.toNat
  if (List.range r).any (fun j => !p.contains j) ∨ ¬ p.Nodup then none else
  let newSd := p.idxOf L.sd
  let p' := (p.filter (· != L.sd)).map fun d => if d < L.sd then d else d - 1
  lazyStack (L.members.map fun m => m.permute p') (newSd : Nat)


/-! ### torch.cat / torch.stack of lazy stacks (_torch_func.py:_lazy_cat, _stack), no `out=` -/

/-- mirrors `_lazy_cat(list_of_tensordicts, dim)` without `out` (_torch_func.py:374-418, after
the fix commit): same stack dim required; along the stack dim the member lists of the non-empty
operands are concatenated; along another dim the i-th members are concatenated (dim shifted
past the stack dim), one output member per member of the FIRST operand. -/
def lazyCat [Inhabited α] (Ls : List (Lazy α)) (dim : Int) : Option (Lazy α) :=
  match Ls with
  | [] => none
  | L0 :: _ =>
    let r : Int := L0.batch.length
    let d : Int := if dim < 0 then r + dim else dim
    if d ≥ r ∨ d < 0 then none
    else if Ls.any (fun L => L.sd != L0.sd) then none
    else if d.toNat = L0.sd then
      let ms := (Ls.filter fun L => L.members.length != 0).flatMap Lazy.members
      -- `type(...)(*out, stack_dim=stack_dim)`; all operands empty: an empty stack (outside the model)
      lazyStack ms (L0.sd : Nat)
    else
      let nd := if d.toNat > L0.sd then d.toNat - 1 else d.toNat
      -- `[lazy_td.tensordicts[i] for lazy_td in list_of_tensordicts]`: IndexError when an operand is shorter
      (allSome ((List.range L0.members.length).map fun i =>
          (allSome (Ls.map fun L => L.members[i]?)).map fun col => TD.catList col nd)).bind fun ms =>
        lazyStack ms (L0.sd : Nat)


/-- mirrors `_stack(list_of_tensordicts, dim)` (_torch_func.py:447, `out=None`, `lazy_legacy` off)
for lazy operands that share their stack dim (after the fix commit; operands with different stack
dims take the generic dense path, outside this model): the i-th members of the operands are
densely stacked, the results are lazily stacked along the stack dim of the first operand, shifted
when the new dim lands at or before it. -/
def lazyStackOp [Inhabited α] (Ls : List (Lazy α)) (dim : Int) : Option (Lazy α) :=
  match Ls with
  | [] => none
  | L0 :: rest =>
    let r : Int := L0.batch.length
    let d : Int := if dim < 0 then r + dim + 1 else dim
    if rest.any (fun L => L.batch != L0.batch) then none      -- "requires congruent batch sizes"
    else if rest.any (fun L => L.sd != L0.sd) then none
    else if d < 0 ∨ d > r then none
    else if rest.any (fun L => L.members.length != L0.members.length) then none   -- `_zip_strict`
    else
      let lsd := if d.toNat ≤ L0.sd then L0.sd + 1 else L0.sd
      let d' := if d.toNat ≤ L0.sd then d.toNat else d.toNat - 1
      let ms := (List.range L0.members.length).map fun i =>
        stackTD (Ls.map fun L => L.members[i]?.getD default) d'
      lazyStack ms (lsd : Nat)

/-! ### update_, insert, append -/

/-- member-level `td.update_(src)`: every key of `src` must exist and is overwritten in place -/
def TD.update_ (m src : TD α) : Option (TD α) :=
  if src.keys.all (fun k => m.keys.contains k) then
    some { m with leaf := fun k => if src.keys.contains k then src.leaf k else m.leaf k }
  else none

/-- mirrors `update_` (_lazy.py:2947) for a tensordict source: `source.unbind(stack_dim)` zipped
strictly with the members -/
def lazyUpdate_ (L : Lazy α) (v : TD α) : Option (Lazy α) :=
  if v.batch[L.sd]? ≠ some L.members.length then none else
  (allSome ((L.members.zip (v.unbind L.sd)).map fun p => p.1.update_ p.2)).map fun ms => { L with members := ms }

/-- mirrors `insert(index, tensordict)` (_lazy.py:3070): `list.insert` semantics (a negative
index counts from the end, out-of-range indices are clamped), the batch size must be that of the
first member -/
def lazyInsert (L : Lazy α) (index : Int) (m : TD α) : Option (Lazy α) :=
  if (match L.members.head? with | some m0 => m.batch != m0.batch | none => false) then none else
  let n : Int := L.members.length
  let i : Int := if index < 0 then max 0 (n + index) else min index n
  some { L with members := L.members.insertIdx i.toNat m }

/-- mirrors `append(tensordict)` = `insert(len(self.tensordicts), tensordict)` -/
def lazyAppend (L : Lazy α) (m : TD α) : Option (Lazy α) := lazyInsert L L.members.length m

end TdVerif.C08
