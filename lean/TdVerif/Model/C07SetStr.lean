/-
  C07 — the write entry point `TensorDict._set_str` (tensordict/_td.py:2409) with
  `TensorDictBase._convert_inplace` (tensordict/base.py:6306), over the storage model.
-/
import TdVerif.Model.C07Storage

namespace TdVerif.C07

/-- `inplace=False` / `inplace=True` (`set_`, `_set_str(inplace=True)`) / `BEST_ATTEMPT_INPLACE` (`set(..., inplace=True)`) -/
inductive InplaceMode where
  | no | yes | best
  deriving DecidableEq, Repr

inductive SetErr where
  | key      -- KeyError: in-place write to a missing entry
  | lock     -- RuntimeError: rebinding on a locked tensordict
  | shape    -- ValueError("Failed to update …"): `dest.copy_(value)` refused
  deriving DecidableEq, Repr

/-- mirrors tensordict/base.py:TensorDictBase._convert_inplace -/
def convertInplace (hasKey : Bool) : InplaceMode → Except SetErr Bool
  | .no => .ok false
  | .yes => if hasKey then .ok true else .error .key
  | .best => .ok hasKey

/-- mirrors tensordict/_td.py:TensorDict._set_str (value already validated): the rebinding branch
`self._tensordict[key] = value` (refused when locked) or the in-place branch `dest.copy_(value)`
(allowed on a locked tensordict; `copy_` of a value with another number of elements is refused) -/
def setStr (b : Binds) (st : Store) (locked : Bool) (mode : InplaceMode) (k : String)
    (value : Leaf) (vals : List Val) : Except SetErr (Binds × Store) :=
  match convertInplace (b.lookup k).isSome mode with
  | .error e => .error e
  | .ok false => if locked then .error .lock else .ok (setBind b k value, st)
  | .ok true =>
    match b.lookup k with
    | none => .error .key
    | some dest => if dest.offs.length = vals.length then .ok (b, writeLeaf st dest vals) else .error .shape

/-! ### `update_` -/

/-- mirrors tensordict/base.py:TensorDictBase.update_ without `keys_to_update`: the fast path pairs the
destination's leaves with the source's by key (`other._items_list(sorting_keys=keys, default="intersection")`) and
copies with `_foreach_copy_`; keys of the source unknown to the destination are *ignored* as long as one key is
shared, and raise KeyError (slow path `inplace_update`) only when no key is shared.  Nothing is ever bound. -/
def updateInplace (b : Binds) (st : Store) (src : List (String × List Val)) : Except SetErr Store :=
  let common := src.filter (fun p => (b.lookup p.1).isSome)
  if common.isEmpty then (if src.isEmpty then .ok st else .error .key)
  else .ok (inplaceWrites b st common)

/-! ### which indices are views -/

/-- the kinds of items of an index (tensordict/_td.py:_index_tensordict applies `tensor[index]` to every leaf, so
torch's rule decides: only integers, slices, `None`, `...` and 0-d integer tensors keep the storage) -/
inductive IxItem where
  | int | slice | none | ellipsis | int0d      -- basic
  | list | tensor | mask | range | array       -- advanced (a copy is made)
  deriving DecidableEq, Repr

def IxItem.basic : IxItem → Bool
  | .int | .slice | .none | .ellipsis | .int0d => true
  | _ => false

/-- the class of `td[index]` -/
def indexClass (ix : List IxItem) : OpClass := if ix.all IxItem.basic then .view else .copy

end TdVerif.C07
