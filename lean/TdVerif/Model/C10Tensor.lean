/-
  C10 — the leaf level of memory-mapped saving: tensordict/memmap.py:MemoryMappedTensor.from_tensor / from_filename
  and tensordict/_td.py:_populate_memmap (the task that `_memmap_` submits for every leaf).

  A tensor is its element bytes; a memory-mapped tensor is a *view of a file*: the positions of the file it shows
  (`idx`: all positions `0 … n-1` for a tensor that is its file, a sub-list for `mm[1]`, `mm[1:]`, `mm[::2]`,
  `mm[index_tensor]`). Byte granularity: one element = one cell (what the correspondence runs with uint8).
-/
import TdVerif.Model.C10Memmap

namespace TdVerif.C10
open TdVerif.C12 (Slots)

/-- where the content of a tensor lives -/
inductive Src where
  /-- an ordinary tensor -/
  | mem (bytes : List Nat)
  /-- a `MemoryMappedTensor` with `_filename = path`: the cells of that file at the positions `idx` -/
  | file (path : Path) (idx : List Nat)
  deriving Repr, DecidableEq

def fileBytes (fs : FS) (p : Path) : List Nat :=
  match fs p with
  | some (.bytes b) => b
  | _ => []

/-- the content of a tensor, read now -/
def Src.value (fs : FS) : Src → List Nat
  | .mem b => b
  | .file p idx => idx.filterMap ((fileBytes fs p)[·]?)

/-- does the view cover its file entirely, in order (`storage_offset() == 0`, contiguous, as many elements as the file) -/
def wholeFile (fs : FS) (p : Path) (idx : List Nat) : Bool := idx == List.range (fileBytes fs p).length

inductive FTErr where
  /-- "A filename was provided but the tensor already has a file associated … pass copy_existing=True" -/
  | existing
  /-- "The file … already exists." -/
  | exists_
  /-- a partial view of the file it is asked to be saved on (after `fix: from_tensor refuses to save a partial view …`) -/
  | partialView
  deriving Repr, DecidableEq

/-- `torch.from_file(filename, shared=True, size=n)` followed by `result.copy_(input)` when `copy_data`:
    the file is created, or extended with zeros up to `n` cells (torch then also zeroes the first cell of the former
    content — observed behaviour of `from_file` when it grows a file, transcribed as it is), a longer file keeps its
    tail; then the first `n` cells receive the content -/
def mapAndCopy (fs : FS) (dst : Path) (n : Nat) (content : Option (List Nat)) : FS :=
  let old := fileBytes fs dst
  let base := if old.length < n then old.set 0 0 ++ List.replicate (n - old.length) 0 else old
  let new := match content with
    | some c => c.take n ++ base.drop (c.take n).length
    | none => base
  fs.write dst (.bytes new)

/-- `MemoryMappedTensor.from_tensor(input, filename=dst, existsok, copy_existing, copy_data)` for a tensor of `n ≥ 1` cells:
    the new file system and the tensor returned -/
def fromTensor (fs : FS) (input : Src) (dst : Path) (existsok copyExisting copyData : Bool) :
    Except FTErr (FS × Src) :=
  let n := (input.value fs).length
  let go : Except FTErr (FS × Src) :=
    if !existsok && (fs dst).isSome then .error .exists_
    else .ok (mapAndCopy fs dst n (if copyData then some (input.value fs) else none), .file dst (List.range n))
  match input with
  | .mem _ => go
  | .file p idx =>
    if p = dst then (if wholeFile fs p idx then .ok (fs, input) else .error .partialView)
    else if !copyExisting then .error .existing
    else go

/-- the seeded variant: a memory-mapped input is copied by duplicating its **file** (`shutil.copyfile`), the first `n` cells
    of which are then mapped -/
def fromTensorCopyFile (fs : FS) (input : Src) (dst : Path) : FS × Src :=
  match input with
  | .mem _ => (fs, input)
  | .file p idx => ((fs.write dst (.bytes (fileBytes fs p))), .file dst (List.range idx.length))

/-- `MemoryMappedTensor.from_filename(filename, dtype, shape)` with `shape.numel() = n`: the first `n` cells of the file -/
def fromFilename (path : Path) (n : Nat) : Src := .file path (List.range n)

/-- tensordict/_td.py:_populate_memmap for the leaf `key` of a tensordict saved in `dir` (`like` = `memmap_like`) -/
def populate (fs : FS) (dir : Path) (key : String) (value : Src) (copyExisting like existsok : Bool) :
    Except FTErr (FS × Src) :=
  fromTensor fs value (dir ++ [key ++ ".memmap"]) existsok copyExisting (!like)

end TdVerif.C10
