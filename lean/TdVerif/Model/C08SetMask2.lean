/-
  C08 — `lazy[index] = value` with a rank-2 boolean mask on / spanning the stack dim (the last
  has_bool branch of `__setitem__`, tensordict/_lazy.py): the value is split along `split_dim`
  by the number of True entries of every row of the mask, and row `i` goes to
  `self[(:,)*mask_dim + (i,)][_idx]`.
-/
import TdVerif.Model.C08Resize
namespace TdVerif.C08

/-- writes with their own index each: `(member position, index, value)`, in order -/
def writeEach : List (Nat × List Ix × TD α) → List (TD α) → Option (List (TD α))
  | [], ms => some ms
  | (i, out, v) :: r, ms => (memberSet ms out i v).bind (writeEach r)

/-- mirrors `__setitem__` (has_bool, sub-masks that are not 0-dim) for a rank-2 mask on / spanning
the stack dim: `value.split([mask_i.sum() …], split_dim)` and, for every position `i` of the dim the
mask starts at, `self[(:,)*mask_dim + (i,)][_idx] = value_i`.
* mask starting ON the stack dim: `self[...]` is member `i`, written with row `i` of the mask;
* mask SPANNING it: `self[...]` is the lazy stack of the members' views at `i`, indexed with row `i`
  (a rank-1 mask on its stack dim): the kept members `j`, i.e. the members' entries at
  `out` with the mask replaced by the integer `i`, get the successive pieces of `value_i`.
Other indices: `lazySetCore`. -/
def lazySetCoreM (L : Lazy α) (ix : List Ix) (v : TD α) : Option (Lazy α) :=
  match splitIndex L ix with
  | none => none
  | some st =>
    if st.hasBool then
      match st.out[st.maskLoc]? with
      | some (.mask m) =>
        match m.shape with
        | [k1, k2] =>
          (idxShape ix L.batch).bind fun ibs =>
          if v.batch ≠ ibs ∨ st.splitDim < 0 then none else
          let sdim := st.splitDim.toNat
          let cnts := (List.range k1).map fun i => (nonzero (m.select 0 i)).length
          let starts := pieceStarts cnts 0
          if st.maskDim = L.sd then
            (writeEach ((List.range k1).map fun i =>
                (i, subMaskIdx st.out st.maskLoc m i, v.narrow sdim (starts[i]?.getD 0) (cnts[i]?.getD 0))) L.members).map
              fun ms => { L with members := ms }
          else
            (writeEach ((List.range k1).flatMap fun i =>
                let kept := (List.range k2).filter fun j => m.get [i, j]
                (List.range kept.length).map fun p =>
                  (kept[p]?.getD L.members.length, st.out.set st.maskLoc (.int (i : Int)),
                    v.select sdim ((starts[i]?.getD 0) + p))) L.members).map
              fun ms => { L with members := ms }
        | _ => lazySetCore L ix v
      | _ => none
    else lazySetCore L ix v

/-- `lazy[index] = value` including rank-2 masks on / spanning the stack dim -/
def lazySetM (L : Lazy α) (ix : List Ix) (v : TD α) : Option (Lazy α) :=
  (convertEllipsis ix L.batch.length).bind fun ix' => lazySetCoreM L ix' v

end TdVerif.C08
