import TdVerif.Model.SliceSpec
/-
  C16 — executable model of non-tensor entries of a tensordict.

  Representation (what the code stores):
    `NT.shared o s`      = `NonTensorData(data=o, batch_size=s)`   — ONE python object for the whole batch
    `NT.stack ms d`      = `NonTensorStack(*ms, stack_dim=d)`      — a lazy stack of non-tensor members
  Abstraction (what the property talks about): a batch-shaped array of objects,
    `shape r : Shape`, `getAt r c : Option O` (`none` outside the shape).

  Operations transcribe tensordict/tensorclass.py (NonTensorData, NonTensorStack, `_stack_non_tensor`,
  `maybe_to_stack`, `_from_list`, `tolist`), tensordict/_lazy.py (`_unbind`, `_split_index`, `__getitem__`,
  `__setitem__`, `_permute`, `_squeeze`, `_unsqueeze`) restricted to non-tensor members, and
  tensordict/_td.py:_set_at_str (non-tensor branch).  The SPEC side (`selectAt`, `srcCoord`, `setSpec`, `nestOf`)
  is kept separate; Props/C16.lean relates the two.  No Mathlib, total functions, no partial defs.
-/
namespace TdVerif.C16

abbrev Shape := List Nat

/-- `c` is a valid coordinate of `s`: same rank, componentwise smaller -/
def inB : List Nat → Shape → Bool
  | [], [] => true
  | i :: c, n :: s => decide (i < n) && inB c s
  | _, _ => false

inductive NT (O : Type) where
  | shared (o : O) (shape : Shape)
  | stack (ms : List (NT O)) (dim : Nat)
  deriving Repr, Inhabited

namespace NT
variable {O : Type}

/-- mirrors `batch_size`: a lazy stack inserts its length at `stack_dim` into the members' batch size -/
def shape : NT O → Shape
  | .shared _ s => s
  | .stack [] _ => [0]                     -- (never built by the library; WF excludes it)
  | .stack (m :: ms) d => (shape m).insertIdx d (ms.length + 1)

mutual
/-- ABSTRACTION: the object at coordinate `c` -/
def getAt : NT O → List Nat → Option O
  | .shared o s, c => if inB c s then some o else none
  | .stack ms d, c =>
    match c[d]? with
    | none => none
    | some i => getAtList ms i (c.eraseIdx d)
def getAtList : List (NT O) → Nat → List Nat → Option O
  | [], _, _ => none
  | m :: _, 0, c => getAt m c
  | _ :: r, i + 1, c => getAtList r i c
end

mutual
/-- representation invariant of what the library builds: stacks are non-empty, members have one
common shape, the stack dim is a valid insertion point -/
def wf : NT O → Bool
  | .shared _ _ => true
  | .stack [] _ => false
  | .stack (m :: ms) d => wf m && decide (d ≤ (shape m).length) && wfList (shape m) ms
def wfList (s : Shape) : List (NT O) → Bool
  | [] => true
  | m :: r => wf m && decide (shape m = s) && wfList s r
end

/-- mirrors tensorclass.py:NonTensorData.maybe_to_stack → NonTensorStack._from_list: one nested
`stack_dim=0` stack per batch dimension, scalar `NonTensorData` leaves -/
def fromShared (o : O) : Shape → NT O
  | [] => .shared o []
  | n :: s => .stack (List.replicate n (fromShared o s)) 0

mutual
/-- mirrors `maybe_to_stack` (NonTensorData: promote; NonTensorStack: promote every member) -/
def maybeToStack : NT O → NT O
  | .shared o s => fromShared o s
  | .stack ms d => .stack (maybeToStackList ms) d
def maybeToStackList : List (NT O) → List (NT O)
  | [] => []
  | m :: r => maybeToStack m :: maybeToStackList r
end

/-- payload of a shared entry -/
def sharedPayload : NT O → Option O
  | .shared o _ => some o
  | .stack _ _ => none

/-- mirrors tensorclass.py:NonTensorData._stack_non_tensor (capture mode on: `capture_non_tensor_stack()`):
a single `NonTensorData` iff every item is a `NonTensorData` whose payload equals the first one's;
otherwise (or with capture off) a `NonTensorStack`. -/
def stackNT [DecidableEq O] (capture : Bool) (l : List (NT O)) (dim : Nat) : NT O :=
  match l with
  | [] => .stack [] dim
  | first :: rest =>
    if !capture then .stack l dim
    else match sharedPayload first with
      | none => .stack l dim
      | some o =>
        if rest.all (fun m => sharedPayload m == some o) then
          .shared o ((shape first).insertIdx dim l.length)
        else .stack l dim

/-- `zip(*out)`: the i-th result collects the i-th piece of every member -/
def transposeLists {α : Type} : List (List α) → List (List α)
  | [] => []
  | row :: rows =>
    match transposeLists rows with
    | [] => row.map (fun x => [x])
    | cols => List.zipWith (fun x col => x :: col) row cols

mutual
/-- mirrors `unbind(dim)`: NonTensorData → `batch_size[dim]` copies with the dim removed (tensorclass `_unbind`);
NonTensorStack → the members (dim = stack_dim) or a re-stack of the members' unbinds (_lazy.py:_unbind) -/
def unbind : NT O → Nat → List (NT O)
  | .shared o s, dim => List.replicate (s.getD dim 0) (.shared o (s.eraseIdx dim))
  | .stack ms d, dim =>
    if dim = d then ms
    else
      let newDim := if dim < d then dim else dim - 1
      let newStack := if dim > d then d else d - 1
      (transposeLists (unbindList ms newDim)).map (fun vals => .stack vals newStack)
def unbindList : List (NT O) → Nat → List (List (NT O))
  | [], _ => []
  | m :: r, dim => unbind m dim :: unbindList r dim
end

/-- nested python list -/
inductive Nest (O : Type) where
  | leaf (o : O)
  | list (l : List (Nest O))
  deriving Repr, Inhabited

/-- mirrors `tolist()` (NonTensorData: payload / list over `unbind(0)`; NonTensorStack: list over the members
when `stack_dim == 0`, else over `unbind(0)`); `fuel` = number of batch dims still to open -/
def tolistN : Nat → NT O → Nest O
  | 0, r => match r with
    | .shared o _ => .leaf o
    | .stack _ _ => .list []
  | n + 1, r =>
    match r with
    | .shared o [] => .leaf o
    | r => .list ((unbind r 0).map (tolistN n))

def tolist (r : NT O) : Nest O := tolistN (shape r).length r

/-- SPEC: the row-major nested list of an abstract array -/
def nestOf (get : List Nat → Option O) (dflt : O) : Shape → List Nat → Nest O
  | [], pre => .leaf ((get pre).getD dflt)
  | n :: s, pre => .list ((List.range n).map (fun i => nestOf get dflt s (pre ++ [i])))

/-! ### nested lists: `_from_list`, `_cat_non_tensor` -/

def Nest.isList : Nest O → Bool
  | .list _ => true
  | .leaf _ => false

def Nest.len : Nest O → Nat
  | .list l => l.length
  | .leaf _ => 0

def Nest.items : Nest O → List (Nest O)
  | .list l => l
  | .leaf _ => []

/-- the local `cat(lists, d)` of tensorclass.py:NonTensorData._cat_non_tensor: concatenation of nested python lists along
level `d` (`lists` = the top-level lists of the items) -/
def catNest : Nat → List (List (Nest O)) → List (Nest O)
  | 0, lists => lists.flatten
  | d + 1, lists => (transposeLists lists).map (fun group => .list (catNest d (group.map Nest.items)))

/-- SPEC: the abstract concatenation of arrays `(get_k, n_k)` along the leading dim: position `i` belongs to the first
array whose cumulated size exceeds it -/
def catGet : List ((List Nat → Option O) × Nat) → List Nat → Option O
  | [], _ => none
  | (g, n) :: rest, c =>
    match c with
    | [] => none
    | i :: c' => if i < n then g (i :: c') else catGet rest ((i - n) :: c')

/-- SPEC: the abstract concatenation along dim `d` -/
def catGetD : Nat → List ((List Nat → Option O) × Nat) → List Nat → Option O
  | 0, arrs, c => catGet arrs c
  | d + 1, arrs, c =>
    match c with
    | [] => none
    | i :: c' => catGetD d (arrs.map (fun a => ((fun x => a.1 (i :: x)), a.2))) c'

def sumN : List Nat → Nat
  | [] => 0
  | n :: r => n + sumN r

/-- mirrors tensorclass.py:NonTensorStack._from_list(datalist, device, ndim=None) — what `_load_memmap` rebuilds the entry
with from the JSON / pickled nested list: a level whose items are all lists of one length is a batch level, anything else
is a level of payloads.  The payload type is the nested-list type itself: a payload may be a list. -/
def fromListN : Nat → List (Nest O) → NT (Nest O)
  | 0, items => .stack (items.map (fun it => .shared it [])) 0
  | f + 1, items =>
    if items.all Nest.isList && items.all (fun it => it.len == (items.headD (.list [])).len) then
      .stack (items.map (fun it => fromListN f it.items)) 0
    else .stack (items.map (fun it => .shared it [])) 0

/-- tensorclass.py:NonTensorData._cat_non_tensor(list_of_non_tensor, dim) (what `torch.cat` of tensordicts does with a
non-tensor entry): one shared entry iff every item is shared and all payloads agree, else the nested lists of the items are
concatenated along `dim` and rebuilt with `_from_list(…, ndim=first.ndim)`.  Payloads are carried as leaves of the nested-list
type. -/
def catGeneral (l : List (NT O)) (d : Nat) : NT (Nest O) :=
  fromListN (((l.head?.map shape).getD []).length - 1) (catNest d (l.map (fun r => (tolist r).items)))

def catNT [DecidableEq O] (l : List (NT O)) (d : Nat) : NT (Nest O) :=
  match l with
  | [] => .stack [] 0
  | .shared o s :: rest =>
    if rest.all (fun m => sharedPayload m == some o) then
      .shared (.leaf o) (s.set d (sumN ((NT.shared o s :: rest).map (fun r => (shape r).getD d 0))))
    else catGeneral (.shared o s :: rest) d
  | .stack ms sd :: rest => catGeneral (.stack ms sd :: rest) d

/-- `entry.to_dict()` as `TensorDict.to_dict` stores it: NonTensorData → the payload, NonTensorStack → `tolist()` -/
def toDictNT (r : NT O) : Nest O :=
  match r with
  | .shared o _ => .leaf o
  | .stack _ _ => tolist r


mutual
/-- mirrors _lazy.py:_unsqueeze / NonTensorData via `_apply_nest` (new batch size) -/
def unsqueeze : NT O → Nat → NT O
  | .shared o s, dim => .shared o (s.insertIdx dim 1)
  | .stack ms d, dim =>
    if dim > d then .stack (unsqueezeList ms (dim - 1)) d
    else .stack (unsqueezeList ms dim) (d + 1)
def unsqueezeList : List (NT O) → Nat → List (NT O)
  | [], _ => []
  | m :: r, dim => unsqueeze m dim :: unsqueezeList r dim
end

mutual
/-- mirrors _lazy.py:_squeeze(dim) for a dim of size 1 (other sizes: returned unchanged) -/
def squeeze : NT O → Nat → NT O
  | .shared o s, dim => if s.getD dim 0 = 1 then .shared o (s.eraseIdx dim) else .shared o s
  | .stack ms d, dim =>
    if (shape (.stack ms d)).getD dim 0 ≠ 1 then .stack ms d
    else if dim = d then (match ms with | m :: _ => m | [] => .stack ms d)
    else if dim > d then .stack (squeezeList ms (dim - 1)) d
    else .stack (squeezeList ms dim) (d - 1)
def squeezeList : List (NT O) → Nat → List (NT O)
  | [], _ => []
  | m :: r, dim => squeeze m dim :: squeezeList r dim
end

/-- position of `x` in `l` (`np.argsort(dims_list)[stack_dim]` for a permutation) -/
def posOf (x : Nat) (l : List Nat) : Nat := l.idxOf x

mutual
/-- mirrors _lazy.py:_permute: `perm[k]` = source dim shown at output position `k` -/
def permute : NT O → List Nat → NT O
  | .shared o s, p => .shared o (p.map (fun k => s.getD k 0))
  | .stack ms d, p =>
    let newStack := posOf d p
    let sub := (p.filter (· ≠ d)).map (fun k => if k < d then k else k - 1)
    .stack (permuteList ms sub) newStack
def permuteList : List (NT O) → List Nat → List (NT O)
  | [], _ => []
  | m :: r, p => permute m p :: permuteList r p
end

/-! ### reshape / view / flatten / unflatten (tensordict/_lazy.py:_view, tensorclass.py:NonTensorStack.reshape) -/

/-- `math.prod` -/
def prodL : List Nat → Nat
  | [] => 1
  | d :: ds => d * prodL ds

/-- SPEC: row-major rank of a coordinate in a shape -/
def ravel : List Nat → Shape → Nat
  | p :: c, _ :: s => p * prodL s + ravel c s
  | _, _ => 0

/-- _lazy.py:_view, `is_flatten` branch, the loop `for _ in range(i, j + 1): tds = [_td for local_td in tds for _td in local_td.unbind(i)]` -/
def unbindLevels : Nat → List (NT O) → Nat → List (NT O)
  | 0, tds, _ => tds
  | n + 1, tds, i => unbindLevels n (tds.flatMap (fun t => unbind t i)) i

/-- _lazy.py:_view, `is_flatten` branch: dims `i … j` (inclusive) merged into one: `_new_lazy_unsafe(*tds, stack_dim=i)` -/
def flattenDims (r : NT O) (i j : Nat) : NT O :=
  .stack (unbindLevels (j + 1 - i) [r] i) i

/-- `-(a // -b)`: number of pieces of a dim of size `a` cut in pieces of `b` -/
def ceilDiv (a b : Nat) : Nat := (a + b - 1) / b

mutual
/-- mirrors `split(split_size: int, dim)`: NonTensorData → one shared piece per slice (`_td.py:split`: sizes
`min(split_size, remaining)`); NonTensorStack → slices of the member list (dim = stack_dim) or a re-stack of the members'
pieces (`_lazy.py:split`).  Dims of positive size (a zero-size dim gives one empty piece in the code). -/
def splitNT : NT O → Nat → Nat → List (NT O)
  | .shared o s, n, d =>
    (List.range (ceilDiv (s.getD d 0) n)).map (fun p => .shared o (s.set d (min n (s.getD d 0 - p * n))))
  | .stack ms sd, n, d =>
    if d = sd then (List.range (ceilDiv ms.length n)).map (fun p => .stack ((ms.drop (p * n)).take n) sd)
    else
      let sub := if d < sd then d else d - 1
      (transposeLists (splitList ms n sub)).map (fun vals => .stack vals sd)
def splitList : List (NT O) → Nat → Nat → List (List (NT O))
  | [], _, _ => []
  | m :: r, n, d => splitNT m n d :: splitList r n d
end

/-- base.py:chunk: `split(ceil(batch_size[dim] / chunks), dim)` -/
def chunk (r : NT O) (chunks dim : Nat) : List (NT O) :=
  splitNT r (ceilDiv ((shape r).getD dim 0) chunks) dim

/-- _lazy.py:_view, `is_unflatten` branch: `for k in range(i, j): tds = _new_lazy_unsafe(*tds.chunk(shape[k], dim=k), stack_dim=k)`;
`sizes` = the new sizes `shape[i … j-1]` (all but the last new dim) -/
def unflattenLoop : List Nat → NT O → Nat → NT O
  | [], r, _ => r
  | n :: rest, r, k => unflattenLoop rest (.stack (chunk r n k) k) (k + 1)

/-- utils.py:_check_is_flatten(new_shape, old_shape, return_flatten_dim=True): `new` is `old` with the consecutive dims
`i … j` merged into one -/
def checkIsFlatten (new old : Shape) : Option (Nat × Nat) :=
  if new ≠ [] ∧ new.length ≤ old.length then
    (List.range new.length).findSome? (fun i =>
      let j := i + (old.length - new.length)
      if new.take i = old.take i ∧ new.drop (i + 1) = old.drop (j + 1)
          ∧ new.getD i 0 = prodL ((old.drop i).take (j + 1 - i)) then some (i, j) else none)
  else none

/-- _lazy.py:_view on a NonTensorStack for a resolved target shape: the flatten branch, else the unflatten branch
(`_check_is_unflatten(shape, batch_size) = _check_is_flatten(batch_size, shape)`), else `none` (view raises; the lazy
`reshape` falls back on TensorDict.reshape) -/
def viewStack (r : NT O) (s' : Shape) : Option (NT O) :=
  match checkIsFlatten s' (shape r) with
  | some (i, j) => some (flattenDims r i j)
  | none =>
    match checkIsFlatten (shape r) s' with
    | some (i, j) => some (unflattenLoop ((s'.drop i).take (j - i)) r i)
    | none => none

/-! ### indexing -/

/-- an index item after normalisation against the batch shape (python rules: negative wrap,
`slice.indices`, bounds) -/
inductive RIx where
  | fixed (i : Nat)                         -- an integer: selects, removes the dim
  | range (lo : Int) (step : Int) (len : Nat)  -- a slice: `len` positions `lo + step*k`
  | newaxis                                 -- `None`
  | pick (l : List Nat)                     -- the one advanced index (list / 1-d integer tensor)
  deriving Repr, DecidableEq

def RIx.consumes : RIx → Bool
  | .newaxis => false
  | _ => true

def rangePos (lo step : Int) (k : Nat) : Nat := (lo + step * k).toNat

/-- output dims an item produces -/
def RIx.outDim : RIx → List Nat
  | .fixed _ => []
  | .range _ _ len => [len]
  | .newaxis => [1]
  | .pick l => [l.length]

/-- batch size of the result (mirrors utils.py:_getitem_batch_size on this grammar) -/
def outShape : List RIx → Shape
  | [] => []
  | x :: r => x.outDim ++ outShape r

/-- SPEC: source coordinate read by output coordinate `c'` (none: `c'` outside the result) -/
def srcCoord : List RIx → List Nat → Option (List Nat)
  | [], [] => some []
  | [], _ :: _ => none
  | .fixed i :: r, c => (srcCoord r c).map (i :: ·)
  | .range lo step len :: r, k :: c => if k < len then (srcCoord r c).map (rangePos lo step k :: ·) else none
  | .newaxis :: r, k :: c => if k = 0 then srcCoord r c else none
  | .pick l :: r, k :: c => match l[k]? with
    | some i => (srcCoord r c).map (i :: ·)
    | none => none
  | _ :: _, [] => none

/-- SPEC: the resolved index fits the batch shape (every selected position exists, one consuming item per dim) -/
def validIx : List RIx → Shape → Bool
  | [], [] => true
  | .newaxis :: r, s => validIx r s
  | .fixed i :: r, n :: s => decide (i < n) && validIx r s
  | .range lo st len :: r, n :: s =>
    (List.range len).all (fun k => decide (0 ≤ lo + st * k) && decide (rangePos lo st k < n)) && validIx r s
  | .pick l :: r, n :: s => l.all (fun i => decide (i < n)) && validIx r s
  | _, _ => false

/-- split a resolved index at the item consuming source dim `d`:
(items before it, that item, items after it); `none` when the index does not reach dim `d` -/
def splitAt : List RIx → Nat → Option (List RIx × RIx × List RIx)
  | [], _ => none
  | x :: r, d =>
    if x.consumes then
      match d with
      | 0 => some ([], x, r)
      | d + 1 => (splitAt r d).map (fun t => (x :: t.1, t.2.1, t.2.2))
    else (splitAt r d).map (fun t => (x :: t.1, t.2.1, t.2.2))

/-- which members the item at the stack dim selects (`range(n)[idx]` / the index list), `none`: out of range -/
def selectPositions (n : Nat) : RIx → Option (List Nat)
  | .fixed i => if i < n then some [i] else none
  | .range lo step len => (List.range len).mapM (fun k => if rangePos lo step k < n then some (rangePos lo step k) else none)
  | .pick l => l.mapM (fun i => if i < n then some i else none)
  | .newaxis => none

inductive IErr where
  | index       -- IndexError
  | empty       -- a lazy stack of nothing
  | shape       -- index does not fit the batch shape
  deriving Repr, DecidableEq

/-- `entry.reshape(shape)` for a resolved, non-empty target shape.  NonTensorData: the same payload on the new batch
size (TensorDict.reshape of the wrapped empty tensordict).  NonTensorStack: tensorclass.py:NonTensorStack.reshape — through the
flat stack when the target is neither a flatten nor an unflatten of consecutive dims, else `_view`. -/
def reshapeNT (r : NT O) (s' : Shape) : Except IErr (NT O) :=
  match r with
  | .shared o s => if prodL s' = prodL s then .ok (.shared o s') else .error .shape
  | .stack _ _ =>
    if 1 < s'.length ∧ 1 < (shape r).length ∧ s' ≠ shape r ∧ prodL s' = prodL (shape r)
        ∧ checkIsFlatten s' (shape r) = none ∧ checkIsFlatten (shape r) s' = none then
      match viewStack r [prodL (shape r)] with
      | some flat =>
        match viewStack flat s' with
        | some u => .ok u
        | none => .error .shape
      | none => .error .shape
    else
      match viewStack r s' with
      | some u => .ok u
      | none => .error .shape

/-! ### in-place update of an entry (`set(..., inplace=True)`, `copy_`, entry-level `update_`) -/

/-- `NonTensorStack._update` with a NonTensorData source: `_from_list([data] * …, ndim)` on the destination's batch size -/
def promoteTo (src : NT O) (s : Shape) : NT O :=
  match src with
  | .shared o2 _ => fromShared o2 s
  | .stack ms d => .stack ms d

mutual
/-- tensorclass.py:NonTensorData._update / NonTensorStack._update (plain entries: not shared-memory / memmap; the lock is the
caller's): the in-place update of a non-tensor entry keeps the STRUCTURE of the destination — a shared entry takes the
payload of a shared source (and refuses a stack: ValueError), a stack updates its members with the source unbound along its
stack dim (a shared source is first promoted with `_from_list([data] * …, ndim)`) -/
def updateNT : NT O → NT O → Except IErr (NT O)
  | .shared _ s, src =>
    match src with
    | .shared o2 _ => .ok (.shared o2 s)
    | .stack _ _ => .error .shape
  | .stack ms d, src =>
    match updateList ms (unbind (promoteTo src (shape (.stack ms d))) d) with
    | .ok ms' => .ok (.stack ms' d)
    | .error e => .error e
def updateList : List (NT O) → List (NT O) → Except IErr (List (NT O))
  | [], srcs => if srcs.isEmpty then .ok [] else .error .shape
  | m :: r, srcs =>
    match srcs with
    | [] => .error .shape
    | s :: rs =>
      match updateNT m s with
      | .error e => .error e
      | .ok m' =>
        match updateList r rs with
        | .ok r' => .ok (m' :: r')
        | .error e => .error e
end

/-- `entry.view(shape)` on a NonTensorStack (`_view(raise_if_not_view=True)`): only the two lazy branches -/
def viewNT (r : NT O) (s' : Shape) : Except IErr (NT O) :=
  match r with
  | .shared o s => if prodL s' = prodL s then .ok (.shared o s') else .error .shape
  | .stack _ _ => match viewStack r s' with
    | some u => .ok u
    | none => .error .shape

mutual
/-- mirrors `__getitem__` with a (resolved) batch index: NonTensorData keeps its payload and takes the
indexed batch size (tensorclass `_getitem` → `_getitem_batch_size`); NonTensorStack follows
_lazy.py:`_split_index` / `__getitem__`: the item at the stack dim selects members, the other items go
to the members, the new stack dim is `stack_dim - #ints before + #None before`. -/
def index : NT O → List RIx → Except IErr (NT O)
  | .shared o _, ix => .ok (.shared o (outShape ix))
  | .stack ms d, ix =>
    match splitAt ix d with
    | none => .error .shape
    | some (before, item, after) =>
      let newDim := (outShape before).length
      match item with
      | .fixed i =>
        indexNth ms i (before ++ after)
      | item =>
        match selectPositions ms.length item with
        | none => .error .index
        | some [] => .error .empty               -- `lazy_stack([])`: "items cannot be empty"
        | some sel =>
          match sel.mapM (fun i => indexNth ms i (before ++ after)) with
          | .error e => .error e
          | .ok sel' => .ok (.stack sel' newDim)
def indexNth : List (NT O) → Nat → List RIx → Except IErr (NT O)
  | [], _, _ => .error .index
  | m :: _, 0, ix => index m ix
  | _ :: r, i + 1, ix => indexNth r i ix
end

/-! ### front end: python index items → resolved items -/

/-- an index item as written by the user -/
inductive Ix where
  | int (i : Int)
  | slice (start stop step : Option Int)
  | none
  | ell
  | list (l : List Int)
  | mask (bits : List Bool)        -- a 1-d boolean mask over one dim
  deriving Repr, DecidableEq

def Ix.consumes : Ix → Bool
  | .int _ | .slice _ _ _ | .list _ | .mask _ => true
  | _ => false

/-- the positions a 1-d mask selects (`mask.nonzero()`), in order -/
def truePositions (bits : List Bool) : List Nat :=
  (List.range bits.length).filter (fun i => bits.getD i false)

/-- python integer index against a dim of size `n`: negative wraps, out of range is an IndexError -/
def normInt (i : Int) (n : Nat) : Option Nat :=
  if 0 ≤ i ∧ i < n then some i.toNat
  else if i < 0 ∧ 0 ≤ i + n then some (i + n).toNat
  else none

/-- mirrors utils.py:convert_ellipsis_to_idx: one `...` stands for the dims no other item consumes; without `...`
the missing trailing dims are full slices -/
def expandEll (rank : Nat) (ix : List Ix) : Except IErr (List Ix) :=
  let k := (ix.filter Ix.consumes).length
  let nEll := (ix.filter (· == .ell)).length
  if nEll > 1 then .error .index
  else if k > rank then .error .index
  else
    let fill := List.replicate (rank - k) (Ix.slice none none none)
    if nEll = 0 then .ok (ix ++ fill)
    else .ok (ix.flatMap (fun x => if x == .ell then fill else [x]))

/-- resolve every item against the dim it consumes (`range(n)[i]`, `slice.indices(n)`) -/
def resolveItems : Shape → List Ix → Except IErr (List RIx)
  | [], [] => .ok []
  | s, .none :: r => (resolveItems s r).map (.newaxis :: ·)
  | _, .ell :: _ => .error .index
  | [], _ :: _ => .error .index
  | _ :: _, [] => .error .shape
  | n :: s, .int i :: r =>
    match normInt i n with
    | none => .error .index
    | some j => (resolveItems s r).map (.fixed j :: ·)
  | n :: s, .slice a b c :: r =>
    match SliceSpec.indices a b c n with
    | .error _ => .error .index
    | .ok (lo, hi, st) =>
      let len := (SliceSpec.rangeLen lo hi st).toNat
      if st < 0 then .error .shape            -- torch (and `_getitem_batch_size`) reject negative steps: outside the grammar
      else if !(List.range len).all (fun k => decide (0 ≤ lo + st * k) && decide (rangePos lo st k < n)) then
        .error .shape                         -- (never taken: `slice.indices` stays inside `range(n)`; kept so that validity is by construction)
      else (resolveItems s r).map (.range lo st len :: ·)
  | n :: s, .list l :: r =>
    match l.mapM (fun i => normInt i n) with
    | none => .error .index
    | some js => (resolveItems s r).map (.pick js :: ·)
  | n :: s, .mask bits :: r =>
    -- a 1-d mask must have the size of the dim it indexes (IndexError otherwise); it selects its True positions.  On a lazy
    -- stack the code takes the mask branch of `_split_index` (the members whose bit is set are re-stacked; on another dim the
    -- members are indexed with the mask); the REPRESENTATION of the result is that of the index list of the True positions —
    -- tied by the correspondence stream, the theorem is about this resolved form.  An all-False mask (empty result) is outside
    -- the grammar, like every empty selection.
    if bits.length ≠ n then .error .index
    else if truePositions bits = [] then .error .empty
    else (resolveItems s r).map (.pick (truePositions bits) :: ·)

def resolve (s : Shape) (ix : List Ix) : Except IErr (List RIx) :=
  match expandEll s.length ix with
  | .error e => .error e
  | .ok ix' => resolveItems s ix'

/-- `td[ix].get(key)` on the representation -/
def getitem (r : NT O) (ix : List Ix) : Except IErr (NT O) :=
  match resolve (shape r) ix with
  | .error e => .error e
  | .ok rix => index r rix


/-! ### indexed assignment -/

/-- all coordinates of a shape, row-major -/
def coords : Shape → List (List Nat)
  | [] => [[]]
  | n :: s => (List.range n).flatMap (fun i => (coords s).map (i :: ·))

/-- `a.tolist() == b.tolist()` (payloads compared with `==`) -/
def sameContent [DecidableEq O] (a b : NT O) : Bool :=
  decide (shape a = shape b) && (coords (shape a)).all (fun c => decide (getAt a c = getAt b c))

/-- the piece written by the LAST occurrence of member position `j` in the selection (sequential writes: last wins) -/
def lastPiece {α : Type} (P : List Nat) (pieces : List α) (j : Nat) : Option α :=
  (P.zip pieces).foldl (fun acc pp => if pp.1 = j then some pp.2 else acc) none

mutual
/-- mirrors `dest_val[idx] = value` on the promoted entry (_lazy.py:__setitem__ → `_split_index`): the item at the stack
dim selects the members; `value` is passed whole (integer) or unbound along `stack_dim - #ints + #None` and zipped
with the selected members (slice: `_zip_strict`; index list: `assign(converted_idx)`, which since the repair on main
writes INTO the selected member — `update(value[i], inplace=True)` — like the other branches, instead of replacing
it by a view of the value); a scalar `NonTensorData` member takes the payload (NonTensorData._update(inplace=True)). -/
def assign : NT O → List RIx → NT O → Except IErr (NT O)
  | .shared _ s, rix, v =>
    match s, rix, v with
    | [], [], .shared o' _ => .ok (.shared o' [])
    | _, _, _ => .error .shape       -- "Cannot update a NonTensorData object with a NonTensorStack" / partial write of a shared value
  | .stack ms d, rix, v =>
    match splitAt rix d with
    | none => .error .shape
    | some (before, item, after) =>
      match item with
      | .fixed i => (assignNth ms i (before ++ after) v).map (fun ms' => .stack ms' d)
      | item =>
        match selectPositions ms.length item with
        | none => .error .index
        | some P =>
          let pieces := unbind v (outShape before).length
          if pieces.length ≠ P.length then .error .shape
          else (assignMembers ms 0 P pieces (before ++ after)).map (fun ms' => .stack ms' d)
def assignNth : List (NT O) → Nat → List RIx → NT O → Except IErr (List (NT O))
  | [], _, _, _ => .error .index
  | m :: r, 0, rix, v => (assign m rix v).map (· :: r)
  | m :: r, i + 1, rix, v => (assignNth r i rix v).map (m :: ·)
def assignMembers : List (NT O) → Nat → List Nat → List (NT O) → List RIx → Except IErr (List (NT O))
  | [], _, _, _, _ => .ok []
  | m :: r, j, P, pieces, rix =>
    match lastPiece P pieces j with
    | none => (assignMembers r (j + 1) P pieces rix).map (m :: ·)
    | some piece =>
      match assign m rix piece with
      | .error e => .error e
      | .ok m' => (assignMembers r (j + 1) P pieces rix).map (m' :: ·)
end

/-- mirrors _td.py:_set_at_str, non-tensor branch: nothing happens when the indexed part already holds the value
(`dest[idx].tolist() == value.tolist()`); otherwise the entry is promoted (`maybe_to_stack`) and written -/
def setAt [DecidableEq O] (r : NT O) (rix : List RIx) (v : NT O) : Except IErr (NT O) :=
  match index r rix with
  | .error e => .error e
  | .ok cur =>
    if sameContent cur v then .ok r
    else assign (maybeToStack r) rix v

/-- `td[ix] = value` for the entry, index as written -/
def setitem [DecidableEq O] (r : NT O) (ix : List Ix) (v : NT O) : Except IErr (NT O) :=
  -- `td[()] = value`, and `td[...] = value` on an empty batch (`convert_ellipsis_to_idx` gives `()`): the index selects
  -- the whole entry, which is REPLACED by the value when the contents differ (_td.py:_set_at_str, `idx == ()` branch)
  if ix.all (· == .ell) && (ix.isEmpty || (shape r).length == 0) then
    .ok (if sameContent r v then r else v)
  else
  match resolve (shape r) ix with
  | .error e => .error e
  | .ok rix => setAt r rix v

/-! ### indexed assignment into a SHARED-MEMORY / MEMORY-MAPPED holder (known finding C16-storage-holder-write-dropped)

`_td.py:_set_at_str` skips its non-tensor branch when the holder `_is_shared or _is_memmap` and calls `utils._set_item`:
no comparison with the current content, NO promotion (`maybe_to_stack`); a `NonTensorData` entry would be replaced by a new
stack (`from_nontensordata`) and a stack whose `stack_dim != 0` is rebuilt - both are then refused by `_set_at_str`
(`tensor_in is not tensor_out` → `_SHARED_INPLACE_ERROR`).  A stack with `stack_dim == 0` is written with `tensor[index] = value`,
the lazy-stack `__setitem__` of `assign` above - except that a member that is still a shared node (one payload for a whole
sub-batch) ends in the tensorclass `_setitem` of `NonTensorData`, which copies the (empty) tensordict of the value and ignores
its payload: the node SWALLOWS the write (unless the index does not mention its dims at all: then it is updated as a whole). -/
mutual
/-- `k` = how many leading items of `rix` the caller WROTE (after the expansion of an Ellipsis); the items behind them were
filled in for the dims the index does not mention.  A member addressed by filled-in items only receives `_idx == ()` from
`_split_index` and is written with `update(value, inplace=True)`; a member addressed by at least one written item - even a
full slice - is written with `member[_idx] = value`. -/
def storageAssign : NT O → List RIx → Nat → NT O → Except IErr (NT O)
  | .shared o s, rix, k, v =>
    if k == 0 || rix.isEmpty then
      match v with
      | .shared o' _ => .ok (.shared o' s)      -- the whole node is addressed: `update(value, inplace=True)` takes the payload
      | .stack _ _ => .error .shape             -- "Cannot update a NonTensorData object with a NonTensorStack"
    else .ok (.shared o s)                      -- NonTensorData.__setitem__ keeps nothing of the value's payload
  | .stack ms d, rix, k, v =>
    match splitAt rix d with
    | none => .error .shape
    | some (before, item, after) =>
      let k' := if d < k then k - 1 else k
      match item with
      | .fixed i => (storageAssignNth ms i (before ++ after) k' v).map (fun ms' => .stack ms' d)
      | item =>
        match selectPositions ms.length item with
        | none => .error .index
        | some P =>
          let pieces := unbind v (outShape before).length
          if pieces.length ≠ P.length then .error .shape
          else (storageAssignMembers ms 0 P pieces (before ++ after) k').map (fun ms' => .stack ms' d)
def storageAssignNth : List (NT O) → Nat → List RIx → Nat → NT O → Except IErr (List (NT O))
  | [], _, _, _, _ => .error .index
  | m :: r, 0, rix, k, v => (storageAssign m rix k v).map (· :: r)
  | m :: r, i + 1, rix, k, v => (storageAssignNth r i rix k v).map (m :: ·)
def storageAssignMembers : List (NT O) → Nat → List Nat → List (NT O) → List RIx → Nat → Except IErr (List (NT O))
  | [], _, _, _, _, _ => .ok []
  | m :: r, j, P, pieces, rix, k =>
    match lastPiece P pieces j with
    | none => (storageAssignMembers r (j + 1) P pieces rix k).map (m :: ·)
    | some piece =>
      match storageAssign m rix k piece with
      | .error e => .error e
      | .ok m' => (storageAssignMembers r (j + 1) P pieces rix k).map (m' :: ·)
end

/-- `td[ix] = value` for the entry of a shared / memory-mapped holder (`utils._set_item` + the identity test of `_set_at_str`);
`k` as above -/
def storageSet (r : NT O) (rix : List RIx) (k : Nat) (v : NT O) : Except IErr (NT O) :=
  match r with
  | .shared _ _ => .error .shape          -- replaced by a new stack: refused (`_SHARED_INPLACE_ERROR`)
  | .stack _ d => if d ≠ 0 then .error .shape else storageAssign r rix k v

end NT
end TdVerif.C16
