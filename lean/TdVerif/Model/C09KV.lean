/-
  C09 — key pairing logic of the pointwise arithmetic / comparison / logical operations.

  A tensordict is seen through `_items_list(True, True)`: the insertion-ordered list of
  (nested key, leaf) pairs, `KV V := List (Path × V)`.  Leaves are abstract (`V` is a type
  parameter); the torch operation is an abstract function `f`, so every statement about the
  model is a statement about *which entries are handed to torch together* — the only thing
  the library (as opposed to torch) decides.  The driver instantiates `V` with symbolic terms.

  Transcribed from tensordict/base.py (after the `fix:` commit that aligns the ternary ops):
    `_values_list`, `_items_list`                       -> `valuesSorted`, `itemsSorted`
    add/sub/mul/div/pow/maximum/minimum/clamp_*/
      bitwise_and/logical_and/__and__                   -> `binop`
    add_/sub_/mul_/div_/pow_/maximum_/minimum_/clamp_*_ -> `binopInplace`
    lerp/addcdiv/addcmul (+ in-place)                   -> `ternop`, `ternopInplace`
    (pre-fix positional pairing, kept as the defect)    -> `ternopPositional`
    abs/neg/…/sqrt (+ in-place)                         -> `unop`
  and from tensordict/_td.py:
    __eq__/__ne__/__ge__/__gt__/__le__/__lt__/__or__/__xor__ -> `cmp`
-/
namespace TdVerif.C09

abbrev Path := List String
abbrev KV (V : Type) := List (Path × V)

/-- error classes of `harness/common.py:err_class` -/
inductive Err where
  | key | runtime | type | value | index | attr
  deriving DecidableEq, Repr

def Err.toStr : Err → String
  | .key => "key" | .runtime => "runtime" | .type => "type" | .value => "value" | .index => "index"
  | .attr => "other"

variable {V : Type}

def keys (kv : KV V) : List Path := kv.map (·.1)
def vals (kv : KV V) : List V := kv.map (·.2)

/-- `dict(zip(keys, vals)).get(k)`: the last binding wins (keys of a tensordict are unique, so
first = last on every reachable input; the theorems carry `(keys kv).Nodup`). -/
def get? : KV V → Path → Option V
  | [], _ => none
  | (k', v) :: rest, k =>
    match get? rest k with
    | some r => some r
    | none => if k' = k then some v else none

def hasKey (kv : KV V) (k : Path) : Bool := (get? kv k).isSome

/-- the `other` operand: a tensor collection, or anything else (Python scalar / tensor) which is
handed to torch unchanged for every key -/
inductive Other (V : Type) where
  | td (kv : KV V)
  | scalar (v : V)

/-- the `default=` keyword of the out-of-place binary ops -/
inductive Dflt (V : Type) where
  | none
  | intersection
  | value (d : V)

/-- `default` seen as a leaf operand: the string "intersection" / `None` are not tensors -/
def Dflt.asVal : Dflt V → Option V
  | .value d => some d
  | _ => Option.none

/-- mirrors tensordict/base.py:`_values_list(True, True, sorting_keys=sk)`:
`source = dict(zip(keys, vals)); [source[key] for key in sorting_keys]` (KeyError if absent) -/
def valuesSorted (o : KV V) : List Path → Except Err (List V)
  | [] => .ok []
  | k :: rest =>
    match get? o k with
    | none => .error .key
    | some v =>
      match valuesSorted o rest with
      | .error e => .error e
      | .ok r => .ok (v :: r)

/-- `list(set(sorting_keys).union(keys))`: the order is that of a hash set; the model fixes one
(sorting keys first, then the new ones) and every observer of the model sorts. -/
def unionKeys (sk ks : List Path) : List Path := sk ++ ks.filter (fun k => !sk.contains k)

/-- `source.get(key, default)` / `as_dict.get(key, default)`: the stored entry, else the default seen as
an operand (`none` when the default is not a tensor) -/
def getOr (kv : KV V) (d : Dflt V) (k : Path) : Option V :=
  match get? kv k with
  | some v => some v
  | Option.none => d.asVal

/-- mirrors tensordict/base.py:`_items_list(True, True, sorting_keys=sk)` with `default=None`: the
values in the order of `sk`; KeyError when a key is absent or when fewer values than entries come out -/
def itemsSortedStrict (o : KV V) (sk : List Path) : Except Err (List V) :=
  match valuesSorted o sk with
  | .error e => .error e
  | .ok nv =>
    if nv.length < o.length then .error .key    -- "Some keys were not found"
    else .ok nv

/-- mirrors tensordict/base.py:`_items_list(True, True, sorting_keys=sk, default=d)`.
Values are `Option V`: `none` stands for a Python object that is not a tensor (the string
"intersection" coming out of `source.get(key, default)`). -/
def itemsSorted (o : KV V) (sk : List Path) (d : Dflt V) : Except Err (List Path × List (Option V)) :=
  match d with
  | .none =>
    match itemsSortedStrict o sk with
    | .error e => .error e
    | .ok nv => .ok (sk, nv.map some)
  | .intersection =>
    let nk := sk.filter (hasKey o)
    .ok (nk, nk.map (fun k => get? o k))
  | .value dv =>
    let nk := unionKeys sk (keys o)
    .ok (nk, nk.map (getOr o (.value dv)))

/-- `torch._foreach_<op>(list, list)`: TypeError on a non-tensor element, RuntimeError on an
empty list or on lists of different length. -/
def foreach2 (f : V → V → V) : List (Option V) → List (Option V) → Except Err (List V)
  | [], [] => .ok []
  | some a :: as, some b :: bs =>
    match foreach2 f as bs with
    | .ok r => .ok (f a b :: r)
    | .error e => .error e
  | none :: _, _ :: _ => .error .type
  | some _ :: _, none :: _ => .error .type
  | [], _ :: _ => .error .runtime
  | _ :: _, [] => .error .runtime

/-- "Tensor list must have at least one tensor." -/
def nonEmpty (l : List α) : Except Err Unit := if l.isEmpty then .error .runtime else .ok ()

/-- rebuild through `self._fast_apply(pop, named=True, nested_keys=True, filter_empty=True,
default=None)` followed by `result.update(items)`: self's leaves in self's order, each replaced by
`items.pop(name, None)` (dropped when absent), then whatever is left in `items`.
`none` = the apply returned `None` (nothing was set) -/
def rebuildPop (self items : KV V) : Option (KV V) :=
  let kept := self.filterMap (fun q => (get? items q.1).map (fun v => (q.1, v)))
  let extra := items.filter (fun q => !(keys self).contains q.1)
  if kept.isEmpty then Option.none else some (kept ++ extra)

/-- rebuild through `self._fast_apply(get, …)` with `items.get(name, val)` -/
def rebuildGet (self items : KV V) : KV V :=
  self.map (fun q => (q.1, (get? items q.1).getD q.2))

/-- mirrors the out-of-place binary ops of tensordict/base.py (add, sub, mul, div, pow, maximum,
minimum, clamp_max, clamp_min, bitwise_and, logical_and, __and__) -/
def binop (f : V → V → V) (self : KV V) (other : Other V) (d : Dflt V) : Except Err (KV V) :=
  match other with
  | .scalar s =>
    match nonEmpty self with
    | .error e => .error e
    | .ok _ =>
      match rebuildPop self (self.map (fun q => (q.1, f q.2 s))) with
      | some r => .ok r
      | Option.none => .error .attr
  | .td o =>
    match itemsSorted o (keys self) d with
    | .error e => .error e
    | .ok (nk, ov) =>
      -- `if default is not None: vals = [as_dict.get(key, default) for key in new_keys]; keys = new_keys`
      let ks := match d with | .none => keys self | _ => nk
      let vs : List (Option V) := match d with
        | .none => (vals self).map some
        | _ => nk.map (getOr self d)
      match nonEmpty vs with
      | .error e => .error e
      | .ok _ =>
        match foreach2 f vs ov with
        | .error e => .error e
        | .ok rs =>
          match rebuildPop self (ks.zip rs) with
          | some r => .ok r
          | Option.none => .error .attr      -- `result` is None, `result.update` fails

/-- mirrors the in-place binary ops (`add_`, `sub_`, `mul_`, `div_`, `pow_`, `maximum_`, `minimum_`,
`clamp_max_`, `clamp_min_`): `other._items_list(True, True, sorting_keys=keys)` (repaired: a key only
`other` has raises too); the result is the
content of `self` after the call -/
def binopInplace (f : V → V → V) (self : KV V) (other : Other V) : Except Err (KV V) :=
  match other with
  | .scalar s =>
    match nonEmpty self with
    | .error e => .error e
    | .ok _ => .ok (self.map (fun q => (q.1, f q.2 s)))
  | .td o =>
    match itemsSortedStrict o (keys self) with
    | .error e => .error e
    | .ok ov =>
      match nonEmpty self with
      | .error e => .error e
      | .ok _ =>
        match foreach2 f ((vals self).map some) (ov.map some) with
        | .error e => .error e
        | .ok rs => .ok ((keys self).zip rs)

/-- operand list of a ternary op: a tensordict is aligned on `keys`
(`_items_list(True, True, sorting_keys=keys)`), anything else is passed through -/
def ternOperand (o : Other V) (ks : List Path) : Except Err (List V ⊕ V) :=
  match o with
  | .scalar s => .ok (.inr s)
  | .td kv =>
    match itemsSortedStrict kv ks with
    | .error e => .error e
    | .ok ov => .ok (.inl ov)

/-- list form of one operand of a fused ternary call: a list is used as is, a single operand
(Python scalar / tensor) is used for every element -/
def opList (vs : List V) : List V ⊕ V → List V
  | .inl l => l
  | .inr s => vs.map (fun _ => s)

/-- `torch._foreach_<op>(vals, A, B)` for A, B each a list or a single operand; RuntimeError when a
list has another length than `vals` (or `vals` is empty) -/
def foreach3 (f : V → V → V → V) (vs : List V) (a b : List V ⊕ V) : Except Err (List V) :=
  if vs.isEmpty then .error .runtime
  else if (opList vs a).length ≠ vs.length ∨ (opList vs b).length ≠ vs.length then .error .runtime
  else .ok (List.zipWith (fun v (p : V × V) => f v p.1 p.2) vs ((opList vs a).zip (opList vs b)))

/-- mirrors lerp / addcdiv / addcmul of tensordict/base.py (repaired: operands aligned by key) -/
def ternop (f : V → V → V → V) (self : KV V) (o1 o2 : Other V) : Except Err (KV V) :=
  match ternOperand o1 (keys self) with
  | .error e => .error e
  | .ok a =>
    match ternOperand o2 (keys self) with
    | .error e => .error e
    | .ok b =>
      match foreach3 f (vals self) a b with
      | .error e => .error e
      | .ok rs => .ok (rebuildGet self ((keys self).zip rs))

/-- in-place forms: same pairing, result = content of `self` afterwards -/
def ternopInplace (f : V → V → V → V) (self : KV V) (o1 o2 : Other V) : Except Err (KV V) :=
  match ternOperand o1 (keys self) with
  | .error e => .error e
  | .ok a =>
    match ternOperand o2 (keys self) with
    | .error e => .error e
    | .ok b =>
      match foreach3 f (vals self) a b with
      | .error e => .error e
      | .ok rs => .ok ((keys self).zip rs)

/-- the code as it was on the pinned tree (4564555): `other._values_list(True, True)`, i.e. the
operand's values in *its own* insertion order.  Kept to state and prove the defect. -/
def ternopPositional (f : V → V → V → V) (self : KV V) (o1 o2 : Other V) : Except Err (KV V) :=
  let opnd (o : Other V) : List V ⊕ V := match o with | .scalar s => .inr s | .td kv => .inl (vals kv)
  match foreach3 f (vals self) (opnd o1) (opnd o2) with
  | .error e => .error e
  | .ok rs => .ok (rebuildGet self ((keys self).zip rs))

/-- mirrors the unary ops (abs, neg, exp, …, sqrt; also `__invert__`): `torch._foreach_<op>(vals)` then
rebuild with `items.get(name, val)` -/
def unop (g : V → V) (self : KV V) : Except Err (KV V) :=
  match nonEmpty self with
  | .error e => .error e
  | .ok _ => .ok (rebuildGet self ((keys self).zip ((vals self).map g)))

/-! ### comparisons (tensordict/_td.py `__eq__` … `__xor__`) -/

/-- set equality test used by the comparison operators:
`len(keys1.difference(keys2)) or len(keys1) != len(keys2)` on the leaf paths.
(The code tests one nesting level at a time and recurses through `item1 == other.get(key)`; on
operands without empty sub-tensordicts and without a leaf facing a node this is the same test on
the leaf paths — that restriction is the modelled domain of the `cmp` stream.) -/
def keysMismatch (a b : KV V) : Bool :=
  (keys a).any (fun k => !hasKey b k) || (keys a).length != (keys b).length

/-- mirrors the comparison operators: `d[key] = item1 <op> other.get(key)` for `key, item1 in self.items()` -/
def cmp (f : V → V → V) (self : KV V) (other : Other V) : Except Err (KV V) :=
  match other with
  | .scalar s => .ok (self.map (fun q => (q.1, f q.2 s)))
  | .td o =>
    if keysMismatch self o then .error .key
    else .ok (self.filterMap (fun q => (get? o q.1).map (fun w => (q.1, f q.2 w))))

end TdVerif.C09
