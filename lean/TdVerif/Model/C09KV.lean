/-
  C09 — key pairing logic of the pointwise arithmetic / comparison / logical operations.

  A tensordict is seen through `_items_list(True, True)`: the insertion-ordered list of
  (nested key, leaf) pairs, `KV V := List (Path × V)`.  Leaves are abstract (`V` is a type
  parameter); the torch operation is an abstract function `f`, so every statement about the
  model is a statement about *which entries are handed to torch together* — the only thing
  the library (as opposed to torch) decides.  The driver instantiates `V` with symbolic terms.

  Transcribed from tensordict/base.py (after the `fix:` commit that aligns the ternary ops):
    `_values_list`, `_items_list`                       -> `valuesSorted`, `itemsSorted`
    add/sub/mul/div/pow/maximum/minimum/clamp_*/
      bitwise_and/logical_and/__and__                   -> `binop`
    add_/sub_/mul_/div_/pow_/maximum_/minimum_/clamp_*_ -> `binopInplace`
    lerp/addcdiv/addcmul (+ in-place)                   -> `ternop`, `ternopInplace`
    (pre-fix positional pairing, kept as the defect)    -> `ternopPositional`
    abs/neg/…/sqrt (+ in-place)                         -> `unop`
  and from tensordict/_td.py:
    __eq__/__ne__/__ge__/__gt__/__le__/__lt__/__or__/__xor__ -> `cmp`
-/
namespace TdVerif.C09

abbrev Path := List String
abbrev KV (V : Type) := List (Path × V)

/-- error classes of `harness/common.py:err_class` -/
inductive Err where
  | key | runtime | type | value | index | attr
  deriving DecidableEq, Repr

def Err.toStr : Err → String
  | .key => "key" | .runtime => "runtime" | .type => "type" | .value => "value" | .index => "index"
  | .attr => "other"

variable {V : Type}

def keys (kv : KV V) : List Path := kv.map (·.1)
def vals (kv : KV V) : List V := kv.map (·.2)

/-- `dict(zip(keys, vals)).get(k)`: the last binding wins (keys of a tensordict are unique, so
first = last on every reachable input; the theorems carry `(keys kv).Nodup`). -/
def get? : KV V → Path → Option V
  | [], _ => none
  | (k', v) :: rest, k =>
    match get? rest k with
    | some r => some r
    | none => if k' = k then some v else none

def hasKey (kv : KV V) (k : Path) : Bool := (get? kv k).isSome

/-- the `other` operand: a tensor collection, or anything else (Python scalar / tensor) which is
handed to torch unchanged for every key -/
inductive Other (V : Type) where
  | td (kv : KV V)
  | scalar (v : V)

/-- the `default=` keyword of the out-of-place binary ops -/
inductive Dflt (V : Type) where
  | none
  | intersection
  | value (d : V)

/-- `default` seen as a leaf operand: the string "intersection" / `None` are not tensors -/
def Dflt.asVal : Dflt V → Option V
  | .value d => some d
  | _ => Option.none

/-- mirrors tensordict/base.py:`_values_list(True, True, sorting_keys=sk)`:
`source = dict(zip(keys, vals)); [source[key] for key in sorting_keys]` (KeyError if absent) -/
def valuesSorted (o : KV V) : List Path → Except Err (List V)
  | [] => .ok []
  | k :: rest =>
    match get? o k with
    | none => .error .key
    | some v =>
      match valuesSorted o rest with
      | .error e => .error e
      | .ok r => .ok (v :: r)

/-- `list(set(sorting_keys).union(keys))`: the order is that of a hash set; the model fixes one
(sorting keys first, then the new ones) and every observer of the model sorts. -/
def unionKeys (sk ks : List Path) : List Path := sk ++ ks.filter (fun k => !sk.contains k)

/-- `source.get(key, default)` / `as_dict.get(key, default)`: the stored entry, else the default seen as
an operand (`none` when the default is not a tensor) -/
def getOr (kv : KV V) (d : Dflt V) (k : Path) : Option V :=
  match get? kv k with
  | some v => some v
  | Option.none => d.asVal

/-- mirrors tensordict/base.py:`_items_list(True, True, sorting_keys=sk)` with `default=None`: the
values in the order of `sk`; KeyError when a key is absent or when fewer values than entries come out -/
def itemsSortedStrict (o : KV V) (sk : List Path) : Except Err (List V) :=
  match valuesSorted o sk with
  | .error e => .error e
  | .ok nv =>
    if nv.length < o.length then .error .key    -- "Some keys were not found"
    else .ok nv

/-- mirrors tensordict/base.py:`_items_list(True, True, sorting_keys=sk, default=d)`.
Values are `Option V`: `none` stands for a Python object that is not a tensor (the string
"intersection" coming out of `source.get(key, default)`). -/
def itemsSorted (o : KV V) (sk : List Path) (d : Dflt V) : Except Err (List Path × List (Option V)) :=
  match d with
  | .none =>
    match itemsSortedStrict o sk with
    | .error e => .error e
    | .ok nv => .ok (sk, nv.map some)
  | .intersection =>
    let nk := sk.filter (hasKey o)
    .ok (nk, nk.map (fun k => get? o k))
  | .value dv =>
    let nk := unionKeys sk (keys o)
    .ok (nk, nk.map (getOr o (.value dv)))

/-- `torch._foreach_<op>(list, list)`: TypeError on a non-tensor element, RuntimeError on an
empty list or on lists of different length. -/
def foreach2 (f : V → V → V) : List (Option V) → List (Option V) → Except Err (List V)
  | [], [] => .ok []
  | some a :: as, some b :: bs =>
    match foreach2 f as bs with
    | .ok r => .ok (f a b :: r)
    | .error e => .error e
  | none :: _, _ :: _ => .error .type
  | some _ :: _, none :: _ => .error .type
  | [], _ :: _ => .error .runtime
  | _ :: _, [] => .error .runtime

/-- "Tensor list must have at least one tensor." -/
def nonEmpty (l : List α) : Except Err Unit := if l.isEmpty then .error .runtime else .ok ()

/-- rebuild through `self._fast_apply(pop, named=True, nested_keys=True, filter_empty=True,
default=None)` followed by `result.update(items)`: self's leaves in self's order, each replaced by
`items.pop(name, None)` (dropped when absent), then whatever is left in `items`.
`none` = the apply returned `None` (nothing was set) -/
def rebuildPop (self items : KV V) : Option (KV V) :=
  let kept := self.filterMap (fun q => (get? items q.1).map (fun v => (q.1, v)))
  let extra := items.filter (fun q => !(keys self).contains q.1)
  if kept.isEmpty then Option.none else some (kept ++ extra)

/-- rebuild through `self._fast_apply(get, …)` with `items.get(name, val)` -/
def rebuildGet (self items : KV V) : KV V :=
  self.map (fun q => (q.1, (get? items q.1).getD q.2))

/-- mirrors the out-of-place binary ops of tensordict/base.py (add, sub, mul, div, pow, maximum,
minimum, clamp_max, clamp_min, bitwise_and, logical_and, __and__) -/
def binop (f : V → V → V) (self : KV V) (other : Other V) (d : Dflt V) : Except Err (KV V) :=
  match other with
  | .scalar s =>
    match nonEmpty self with
    | .error e => .error e
    | .ok _ =>
      match rebuildPop self (self.map (fun q => (q.1, f q.2 s))) with
      | some r => .ok r
      | Option.none => .error .attr
  | .td o =>
    match itemsSorted o (keys self) d with
    | .error e => .error e
    | .ok (nk, ov) =>
      -- `if default is not None: vals = [as_dict.get(key, default) for key in new_keys]; keys = new_keys`
      let ks := match d with | .none => keys self | _ => nk
      let vs : List (Option V) := match d with
        | .none => (vals self).map some
        | _ => nk.map (getOr self d)
      match nonEmpty vs with
      | .error e => .error e
      | .ok _ =>
        match foreach2 f vs ov with
        | .error e => .error e
        | .ok rs =>
          match rebuildPop self (ks.zip rs) with
          | some r => .ok r
          | Option.none => .error .attr      -- `result` is None, `result.update` fails

/-- mirrors the in-place binary ops (`add_`, `sub_`, `mul_`, `div_`, `pow_`, `maximum_`, `minimum_`,
`clamp_max_`, `clamp_min_`): `other._items_list(True, True, sorting_keys=keys)` (repaired: a key only
`other` has raises too); the result is the
content of `self` after the call -/
def binopInplace (f : V → V → V) (self : KV V) (other : Other V) : Except Err (KV V) :=
  match other with
  | .scalar s =>
    match nonEmpty self with
    | .error e => .error e
    | .ok _ => .ok (self.map (fun q => (q.1, f q.2 s)))
  | .td o =>
    match itemsSortedStrict o (keys self) with
    | .error e => .error e
    | .ok ov =>
      match nonEmpty self with
      | .error e => .error e
      | .ok _ =>
        match foreach2 f ((vals self).map some) (ov.map some) with
        | .error e => .error e
        | .ok rs => .ok ((keys self).zip rs)

/-- operand list of a ternary op: a tensordict is aligned on `keys`
(`_items_list(True, True, sorting_keys=keys)`), anything else is passed through -/
def ternOperand (o : Other V) (ks : List Path) : Except Err (List V ⊕ V) :=
  match o with
  | .scalar s => .ok (.inr s)
  | .td kv =>
    match itemsSortedStrict kv ks with
    | .error e => .error e
    | .ok ov => .ok (.inl ov)

/-- list form of one operand of a fused ternary call: a list is used as is, a single operand
(Python scalar / tensor) is used for every element -/
def opList (vs : List V) : List V ⊕ V → List V
  | .inl l => l
  | .inr s => vs.map (fun _ => s)

/-- `torch._foreach_<op>(vals, A, B)` for A, B each a list or a single operand; RuntimeError when a
list has another length than `vals` (or `vals` is empty) -/
def foreach3 (f : V → V → V → V) (vs : List V) (a b : List V ⊕ V) : Except Err (List V) :=
  if vs.isEmpty then .error .runtime
  else if (opList vs a).length ≠ vs.length ∨ (opList vs b).length ≠ vs.length then .error .runtime
  else .ok (List.zipWith (fun v (p : V × V) => f v p.1 p.2) vs ((opList vs a).zip (opList vs b)))

/-- mirrors lerp / addcdiv / addcmul of tensordict/base.py (repaired: operands aligned by key) -/
def ternop (f : V → V → V → V) (self : KV V) (o1 o2 : Other V) : Except Err (KV V) :=
  match ternOperand o1 (keys self) with
  | .error e => .error e
  | .ok a =>
    match ternOperand o2 (keys self) with
    | .error e => .error e
    | .ok b =>
      match foreach3 f (vals self) a b with
      | .error e => .error e
      | .ok rs => .ok (rebuildGet self ((keys self).zip rs))

/-- in-place forms: same pairing, result = content of `self` afterwards -/
def ternopInplace (f : V → V → V → V) (self : KV V) (o1 o2 : Other V) : Except Err (KV V) :=
  match ternOperand o1 (keys self) with
  | .error e => .error e
  | .ok a =>
    match ternOperand o2 (keys self) with
    | .error e => .error e
    | .ok b =>
      match foreach3 f (vals self) a b with
      | .error e => .error e
      | .ok rs => .ok ((keys self).zip rs)

/-- the code as it was on the pinned tree (4564555): `other._values_list(True, True)`, i.e. the
operand's values in *its own* insertion order.  Kept to state and prove the defect. -/
def ternopPositional (f : V → V → V → V) (self : KV V) (o1 o2 : Other V) : Except Err (KV V) :=
  let opnd (o : Other V) : List V ⊕ V := match o with | .scalar s => .inr s | .td kv => .inl (vals kv)
  match foreach3 f (vals self) (opnd o1) (opnd o2) with
  | .error e => .error e
  | .ok rs => .ok (rebuildGet self ((keys self).zip rs))

/-- mirrors the unary ops (abs, neg, exp, …, sqrt; also `__invert__`): `torch._foreach_<op>(vals)` then
rebuild with `items.get(name, val)` -/
def unop (g : V → V) (self : KV V) : Except Err (KV V) :=
  match nonEmpty self with
  | .error e => .error e
  | .ok _ => .ok (rebuildGet self ((keys self).zip ((vals self).map g)))

/-! ### comparisons (tensordict/_td.py `__eq__` … `__xor__`) -/

/-- set equality test used by the comparison operators:
`len(keys1.difference(keys2)) or len(keys1) != len(keys2)` on the leaf paths.
(The code tests one nesting level at a time and recurses through `item1 == other.get(key)`; on
operands without empty sub-tensordicts and without a leaf facing a node this is the same test on
the leaf paths — that restriction is the modelled domain of the `cmp` stream.) -/
def keysMismatch (a b : KV V) : Bool :=
  (keys a).any (fun k => !hasKey b k) || (keys a).length != (keys b).length

/-- mirrors the comparison operators: `d[key] = item1 <op> other.get(key)` for `key, item1 in self.items()` -/
def cmp (f : V → V → V) (self : KV V) (other : Other V) : Except Err (KV V) :=
  match other with
  | .scalar s => .ok (self.map (fun q => (q.1, f q.2 s)))
  | .td o =>
    if keysMismatch self o then .error .key
    else .ok (self.filterMap (fun q => (get? o q.1).map (fun w => (q.1, f q.2 w))))

end TdVerif.C09

namespace TdVerif.C09
variable {V : Type}

/-! ### lazy stacks as operands of the fused ops

`LazyStackedTensorDict.items(True, True, is_leaf=_NESTED_TENSORS_AS_LISTS)` (tensordict/_lazy.py:`items`) yields
the leaves *member by member*, the key prefixed by `str(i)`; the fused methods of `TensorDictBase` then run
unchanged on that key/value list, and the rebuild (`_fast_apply(…, is_leaf=_NESTED_TENSORS_AS_LISTS)`) hands
member `i` the items whose key starts with its index. -/

/-- key component naming member `i` (`str(i)` in the code; a unary numeral here so that injectivity is immediate) -/
def idxKey (i : Nat) : String := String.ofList (List.replicate i 'I')

/-- mirrors tensordict/_lazy.py:`LazyStackedTensorDict.items` in the nested-tensors-as-lists mode -/
def flattenFrom (i : Nat) : List (KV V) → KV V
  | [] => []
  | m :: rest => m.map (fun q => (idxKey i :: q.1, q.2)) ++ flattenFrom (i + 1) rest

def flattenLazy (ms : List (KV V)) : KV V := flattenFrom 0 ms

/-- the items of member `i` of a rebuilt lazy stack -/
def memberItems (i : Nat) (items : KV V) : KV V :=
  items.filterMap (fun q => match q.1 with
    | h :: t => if h = idxKey i then some (t, q.2) else none
    | [] => none)

def unflattenLazy (n : Nat) (items : KV V) : List (KV V) := (List.range n).map (fun i => memberItems i items)

/-- a fused binary op whose `self` is a lazy stack of `A.length` members, on the *regular* code path (the only
one on the pinned tree): the flattened items are handed to the fused op as they are -/
def lazyBinop (f : V → V → V) (A : List (KV V)) (other : Other V) (d : Dflt V) : Except Err (List (KV V)) :=
  match binop f (flattenLazy A) other d with
  | .error e => .error e
  | .ok r => .ok (unflattenLazy A.length r)

/-- how an operand relates to a lazy `self` (tensordict/base.py:`_lazy_stack_memberwise`, fix 0db51f0) -/
inductive LazyOther (V : Type) where
  | sameStack (B : List (KV V))   -- a lazy stack with the same stack dim and member count: regular fused path
  | split (Bs : List (Other V))   -- a regular tensordict, a lazy stack along another dim, a tensor with ndim>0:
                                  -- `other.unbind(self.stack_dim)`, one operand per member
  | scalar (s : V)                -- Python scalar / 0-d tensor

/-- `getattr(td, op)(*oth)` for every member (`_zip_strict`) -/
def memberwise (g : KV V → Other V → Except Err (KV V)) : List (KV V) → List (Other V) → Except Err (List (KV V))
  | [], [] => .ok []
  | a :: as, b :: bs =>
    match g a b with
    | .error e => .error e
    | .ok r =>
      match memberwise g as bs with
      | .error e => .error e
      | .ok rs => .ok (r :: rs)
  | _, _ => .error .value

/-- mirrors the repaired dispatch: an operand that is not stacked like `self` is split along self's stack dim and
the op runs member by member; otherwise the regular path on the flattened items -/
def lazyBinopRepaired (f : V → V → V) (A : List (KV V)) (other : LazyOther V) (d : Dflt V) : Except Err (List (KV V)) :=
  match other with
  | .sameStack B => lazyBinop f A (.td (flattenLazy B)) d
  | .scalar s => lazyBinop f A (.scalar s) d
  | .split Bs => memberwise (fun a b => binop f a b d) A Bs

/-- in-place forms (`_lazy_memberwise_inplace`) -/
def lazyBinopInplaceRepaired (f : V → V → V) (A : List (KV V)) (other : LazyOther V) : Except Err (List (KV V)) :=
  match other with
  | .sameStack B =>
    match binopInplace f (flattenLazy A) (.td (flattenLazy B)) with
    | .error e => .error e
    | .ok r => .ok (unflattenLazy A.length r)
  | .scalar s =>
    match binopInplace f (flattenLazy A) (.scalar s) with
    | .error e => .error e
    | .ok r => .ok (unflattenLazy A.length r)
  | .split Bs => memberwise (fun a b => binopInplace f a b) A Bs

/-! ### clamp and where (ternary forms that go through apply / an explicit key loop) -/

/-- a bound of `clamp`: absent, a tensordict, or anything else (number / tensor) -/
inductive Bound (V : Type) where
  | none
  | td (kv : KV V)
  | scalar (v : V)

/-- mirrors tensordict/base.py:`clamp(min, max)` (no `out=`).  `fmax`/`fmin` are torch's `clamp_max`/`clamp_min`
(one-sided forms are delegated to the fused binary ops), `f3 x lo hi` is `x.clamp(lo, hi)` with `none` for a missing
bound.  Two tensordict bounds go through `_fast_apply(lambda x, low, high: …, min, max, default=None)`: every leaf of self
with the bounds' entries *under the same key* (`None` when a bound lacks the key); mixing a tensordict and a
non-tensordict bound is a ValueError. -/
def clamp (fmax fmin : V → V → V) (f3 : V → Option V → Option V → V) (self : KV V) (lo hi : Bound V) :
    Except Err (KV V) :=
  match lo, hi with
  | .none, .none => .error .type                                   -- `self.clamp_max(None)`
  | .none, .td h => binop fmax self (.td h) .none
  | .none, .scalar h => binop fmax self (.scalar h) .none
  | .td l, .none => binop fmin self (.td l) .none
  | .scalar l, .none => binop fmin self (.scalar l) .none
  | .td l, .td h => .ok (self.map (fun q => (q.1, f3 q.2 (get? l q.1) (get? h q.1))))
  | .scalar l, .scalar h => .ok (self.map (fun q => (q.1, f3 q.2 (some l) (some h))))
  | .td _, .scalar _ => .error .value
  | .scalar _, .td _ => .error .value

/-- mirrors tensordict/_td.py:`TensorDict.where(condition, other, pad=…)` for a tensordict `other` (`w c x y` is
`torch.where(c, x, y)`, `cond` / `ncond` the condition and its negation): self's keys first — with other's entry under
the same key, or the pad value, or KeyError — then the keys only `other` has, with the negated condition and the pad -/
def whereOp (w : V → V → V → V) (cond ncond : V) (pad : Option V) (self other : KV V) : Except Err (KV V) :=
  let rec selfPart : KV V → Except Err (KV V)
    | [] => .ok []
    | (k, v) :: rest =>
      match (match get? other k with
             | some y => Except.ok (w cond v y)
             | none => match pad with
               | some p => Except.ok (w cond v p)
               | none => Except.error Err.key) with
      | .error e => .error e
      | .ok r =>
        match selfPart rest with
        | .error e => .error e
        | .ok rs => .ok ((k, r) :: rs)
  let rec otherPart : KV V → Except Err (KV V)
    | [] => .ok []
    | (k, y) :: rest =>
      if hasKey self k then otherPart rest
      else
        match pad with
        | none => .error .key
        | some p =>
          match otherPart rest with
          | .error e => .error e
          | .ok rs => .ok ((k, w ncond y p) :: rs)
  match selfPart self with
  | .error e => .error e
  | .ok a =>
    match otherPart other with
    | .error e => .error e
    | .ok b => .ok (a ++ b)

/-! ## `reduce=True` without `dim`: value level

`_cast_reduction(reduce=True)` with no `dim` concatenates ALL values of all leaves (`torch.cat([v.flatten() …])`) and
reduces that one tensor. Values are exact integers or NaN (`none`), which is enough to tell a reduction of all values
from a combination of leaf-wise reductions. -/

abbrev Num := Option Int

/-- all values of all leaves, in storage order -/
def flatAll : KV (List Num) → List Num
  | [] => []
  | q :: rest => q.2 ++ flatAll rest

def hasNan : List Num → Bool
  | [] => false
  | none :: _ => true
  | some _ :: r => hasNan r
def nanSum : List Num → Int
  | [] => 0
  | none :: r => nanSum r
  | some x :: r => x + nanSum r
def nanProd : List Num → Int
  | [] => 1
  | none :: r => nanProd r
  | some x :: r => x * nanProd r
def nanCount : List Num → Nat
  | [] => 0
  | none :: r => nanCount r
  | some _ :: r => 1 + nanCount r
def nanMax : List Num → Option Int
  | [] => none
  | none :: r => nanMax r
  | some x :: r => match nanMax r with | none => some x | some y => some (max x y)
def nanMin : List Num → Option Int
  | [] => none
  | none :: r => nanMin r
  | some x :: r => match nanMin r with | none => some x | some y => some (min x y)

inductive RedOp where
  | sum | nansum | prod | mean | nanmean | amax | amin
  deriving DecidableEq, Repr

/-- value of a full reduction: NaN, an integer, an exact quotient `num / den`, or torch's error on an empty input -/
inductive RedVal where
  | nan
  | int (i : Int)
  | ratio (num : Int) (den : Nat)
  | err
  deriving DecidableEq, Repr

/-- the torch reduction of a 1-d tensor of values -/
def reduceList (op : RedOp) (l : List Num) : RedVal :=
  match op with
  | .sum => if hasNan l then .nan else .int (nanSum l)
  | .nansum => .int (nanSum l)
  | .prod => if hasNan l then .nan else .int (nanProd l)
  | .mean => if hasNan l || l.length == 0 then .nan else .ratio (nanSum l) l.length
  | .nanmean => if nanCount l == 0 then .nan else .ratio (nanSum l) (nanCount l)
  | .amax => if l.length == 0 then .err else if hasNan l then .nan else
      match nanMax l with | some x => .int x | none => .err
  | .amin => if l.length == 0 then .err else if hasNan l then .nan else
      match nanMin l with | some x => .int x | none => .err

/-- `td.<op>(reduce=True)`: the reduction of the concatenation of all values -/
def reduceAll (op : RedOp) (kv : KV (List Num)) : RedVal := reduceList op (flatAll kv)

/-- what reducing leaf by leaf and then reducing the leaf results would give (NOT the specification for means) -/
def reduceLeafwise (op : RedOp) (kv : KV (List Num)) : List RedVal := kv.map (fun q => reduceList op q.2)


/-! ### comparisons with a lazy stack on the left (`LazyStackedTensorDict._dispatch_comparison`) -/

/-- what the right operand of `lazy <cmp> other` can be -/
inductive CmpOperand (V : Type) where
  | tensorclass (kv : KV V)              -- evaluated on the operand's side: `getattr(other, inverse_str)(self)`
  | collection (slices : List (KV V))    -- tensordict / dict / lazy stack of the same batch size, unbound along self's stack dim
  | shapeMismatch                        -- same number of batch dims, different batch size
  | scalar (s : V)                       -- number or tensor: handed to every member as is
  | unsupported                          -- anything else (no default): ValueError

inductive CmpResult (V : Type) where
  | members (ms : List (KV V))           -- a lazy stack along self's stack dim
  | dense (kv : KV V)                    -- what the tensorclass computed
  | default                              -- the `default=` of `==` (False) / `!=` (True) for an operand that is not comparable

/-- the view a regular tensordict / tensorclass has of a lazy stack: under each key (of the first member) the stack of
the members' entries (`stackV` abstracts `torch.stack(..., stack_dim)`) -/
def denseOf (stackV : List V → V) (ms : List (KV V)) : KV V :=
  match ms with
  | [] => []
  | m0 :: _ => m0.map (fun q => (q.1, stackV (ms.filterMap (fun m => get? m q.1))))

/-- mirrors `_dispatch_comparison(other, comparison_str, inverse_str, default)`; `op` is the comparison asked
for, `rop` the one named by `inverse_str`; `hasDefault`: `==` / `!=` pass a default, the ordering comparisons do not -/
def lazyCmp (op rop : V → V → V) (stackV : List V → V) (hasDefault : Bool) (self : List (KV V)) :
    CmpOperand V → Except Err (CmpResult V)
  | .tensorclass kv =>
    match cmp rop kv (.td (denseOf stackV self)) with
    | .error e => .error e
    | .ok r => .ok (.dense r)
  | .collection sl =>
    match memberwise (cmp op) self (sl.map Other.td) with
    | .error e => .error e
    | .ok ms => .ok (.members ms)
  | .shapeMismatch => .error .runtime
  | .scalar s =>
    match memberwise (cmp op) self (self.map (fun _ => Other.scalar s)) with
    | .error e => .error e
    | .ok ms => .ok (.members ms)
  | .unsupported => if hasDefault then .ok .default else .error .value


/-! ### witnesses for the nested-lazy-stack finding -/

/-- the item list `_items_list` gives of a tensordict `{a, n: lazy_stack([{x}, {x}])}`: the nested stack's leaves are
listed member by member under `('n', i, 'x')` -/
def nestedLazyItems (sa s0 s1 : V) : KV V :=
  [(["a"], sa), (["n", idxKey 0, "x"], s0), (["n", idxKey 1, "x"], s1)]

/-- the item list of a regular tensordict with the same content `{a, n: {x}}` -/
def nestedDenseItems (oa ox : V) : KV V := [(["a"], oa), (["n", "x"], ox)]


end TdVerif.C09
