/-
  C13 — `to_module(inplace=True)`: values.

  With inplace=True `_set_tensor_dict` keeps the module's own tensor object in its slot and works on values:
      out_tmp = out.clone(); out.data.copy_(tensor.data); tensor = out; out = out_tmp
  so the registry is unchanged (the same object goes back by kind) and the swap consists of fresh clones
  holding the old values. Here: which cells are visited (`visit`, the same traversal and memo as `_to_module`),
  and what happens to the values (`inplaceAll`).
-/
import TdVerif.Model.C13Module

namespace TdVerif.C13.Inplace
open TdVerif.C13

/-- the tensor object `_set_tensor_dict` finds for `name`: `_parameters.pop`, else `_buffers.pop`, else `__dict__.pop` -/
def cellObj (md : Mod) (name : Name) : Option Tn :=
  match (Dict.get? md.params name).join with
  | some o => some o
  | none =>
    match (Dict.get? md.buffers name).join with
    | some o => some o
    | none => Dict.get? md.plain name

/-- the (module object, supplied tensor) pairs in the order `_to_module` visits them; a submodule
already visited (memo) is not visited again -/
def visit (h : Heap) : List MId → MId → List (Name × PTree) → Except Err (List MId × List (Tn × Tn))
  | vis, _, [] => .ok (vis, [])
  | vis, m, (k, .leaf t) :: rest =>
    match cellObj (h m) k with
    | none => .error .key
    | some o =>
      match visit h vis m rest with
      | .error e => .error e
      | .ok (vis', ws) => .ok (vis', (o, t) :: ws)
  | vis, m, (k, .node es) :: rest =>
    match Dict.get? (h m).kids k with
    | none => .error .key
    | some none => .error .type
    | some (some c) =>
      if c ∈ vis then visit h vis m rest
      else
        match visit h (c :: vis) c es with
        | .error e => .error e
        | .ok (vis1, ws1) =>
          match visit h vis1 m rest with
          | .error e => .error e
          | .ok (vis2, ws2) => .ok (vis2, ws1 ++ ws2)

/-- values of tensor objects and the next fresh identity -/
structure VS where
  vals : Nat → Nat
  next : Nat

/-- one in-place write: clone the module's tensor, copy the supplied values into it, hand the clone back -/
def inplaceWrite (s : VS) (o t : Tn) : VS × Tn :=
  let old := s.vals o.id
  let new := s.vals t.id
  ({ vals := fun i => if i = o.id then new else if i = s.next then old else s.vals i, next := s.next + 1 },
   ⟨s.next, false, false⟩)

/-- all the writes of one `to_module(inplace=True)` call: final values and the clones (the swap) in order -/
def inplaceAll : VS → List (Tn × Tn) → VS × List Tn
  | s, [] => (s, [])
  | s, (o, t) :: ws =>
    let r := inplaceWrite s o t
    let r2 := inplaceAll r.1 ws
    (r2.1, r.2 :: r2.2)

/-- `with params.to_module(module, inplace=True): pass` on the values: the entry writes, then the exit
writes the clones back into the same module objects -/
def roundTrip (s : VS) (ws : List (Tn × Tn)) : VS :=
  let r := inplaceAll s ws
  (inplaceAll r.1 ((ws.map (·.1)).zip r.2)).1

end TdVerif.C13.Inplace
