/-
  C18 coverage statement: which functions with a compile-only (`is_compiling()`) branch are inside a
  Lean model (both branches transcribed, agreement proved) and which are only exercised differentially
  (eager vs torch.compile programs, or both branches forced by patching `is_compiling`).
  Hand-maintained; `Props.C18.dual_helpers_accounted` proves that the list regenerated from the
  source (Gen.dualHelpers) contains nothing that is in neither list.
-/
namespace TdVerif.DualCoverage

def modelled : List String := [
  "_td.py:TensorDict._new_unsafe",
  "_td.py:TensorDict._parse_batch_size",
  "base.py:TensorDictBase._items_list",
  "base.py:TensorDictBase._values_list",
  "nn/probabilistic.py:ProbabilisticTensorDictSequential.forward",
  "nn/sequence.py:TensorDictSequential.forward",
  "tensorclass.py:_from_tensordict",
  "base.py:TensorDictBase.consolidate",
  "base.py:_is_tensor_collection",
  "utils.py:_check_keys",
  "utils.py:_getitem_batch_size",
  "utils.py:_is_non_tensor",
  "utils.py:_is_tensorclass",
  "utils.py:_pass_through_cls",
  "utils.py:_parse_to",
  "utils.py:_unravel_key_to_tuple",
  "utils.py:unravel_key",
  "utils.py:unravel_key_list",
  "utils.py:unravel_keys"]

def differentialOnly : List String := [
  "_contextlib.py:_reverse_to_module",
  "_lazy.py:LazyStackedTensorDict.share_memory_",
  "_td.py:TensorDict._to_module",
  "_torch_func.py:_cat",
  "_torch_func.py:_stack",
  "_torch_func.py:_stack.stack_fn",
  "base.py:TensorDictBase.__exit__",
  "base.py:TensorDictBase._sync_all",
  "base.py:TensorDictBase.lock_",
  "base.py:TensorDictBase.unflatten_keys",
  "nn/common.py:TensorDictModule.__getattr__",
  "nn/common.py:TensorDictModuleWrapper.__getattr__",
  "nn/params.py:TensorDictParams._new_unsafe",
  "nn/params.py:TensorDictParams._relock_param_td",
  "nn/probabilistic.py:_dynamo_friendly_to_dict",
  "nn/utils.py:_set_skip_existing_None.__call__",
  "nn/utils.py:_set_skip_existing_None.__call__.wrapper",
  "nn/utils.py:set_skip_existing.__enter__",
  "tensorclass.py:_drop_stale_placeholders",
  "tensorclass.py:_init_wrapper",
  "tensorclass.py:_init_wrapper.wrapper",
  "tensorclass.py:_setattr_wrapper",
  "tensorclass.py:_setattr_wrapper.wrapper",
  "tensorclass.py:_wrap_method",
  "tensorclass.py:_wrap_td_method",
  "tensorclass.py:_wrap_td_method.deliver_result",
  "tensorclass.py:_wrap_td_method.wrapped_func",
  "tensorclass.py:_wrap_td_method.wrapped_func_setter",
  "utils.py:_ContextManager.get_mode",
  "utils.py:_ContextManager.set_mode",
  "utils.py:_lock_after_memmap",
  "utils.py:cache",
  "utils.py:cache.newfun"]

end TdVerif.DualCoverage
