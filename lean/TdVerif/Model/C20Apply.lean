/-
  C20 — apply / named_apply / _fast_apply on a nested tensordict.

  Transcribed from (after the `fix:` commits 0814f1f, 95a2906, 73b545d, e0b18ab, 0df80db, 343d738):
    tensordict/base.py : `apply`, `named_apply`, `_fast_apply`, `_multithread_apply_nest`      -> `apply`
    tensordict/_td.py  : `TensorDict._apply_nest`                                               -> `applyNode` / `applyEntries` / `assemble`
    tensordict/_td.py  : `TensorDict._multithread_apply_flat`, `_multithread_rebuild`           -> `flat*`, `rebuild*`, `mtApply`
    tensordict/_td.py  : `TensorDict.empty`, `is_empty`; tensordict/base.py: `empty(recurse=True)` -> `makeResult`, `isEmpty`, `emptyRec`

  A tensordict is a `Tree`: leaves are abstract (`V`), nodes carry the metadata (batch size, names, device,
  lock flag) and an insertion-ordered list of entries.  The user function is abstract and pure:
      fn : Path → Tree V → List (Arg V) → Option (Tree V)
  (first argument: what `named=True` passes — the key, or the full path with `nested_keys=True`, `[]` when
  unnamed; `none` = the Python function returned `None`).  The result of a model function is the *content* of
  the object the code returns (a fresh tensordict, or `self` when `inplace`, or `out`).
-/
namespace TdVerif.C20

abbrev Path := List String

inductive Err where
  | key | lock | runtime | type | attr | value
  deriving DecidableEq, Repr

def Err.toStr : Err → String
  | .key => "key" | .lock => "lock" | .runtime => "runtime" | .type => "type" | .attr => "other" | .value => "value"

structure Meta where
  batch : List Nat
  names : Option (List String)      -- `none`: no dimension names
  device : Option String
  locked : Bool
  deriving DecidableEq, Repr

mutual
inductive Tree (V : Type) where
  | leaf (v : V)
  | node (m : Meta) (es : Entries V)
inductive Entries (V : Type) where
  | nil
  | cons (k : String) (t : Tree V) (rest : Entries V)
end

variable {V : Type}

/-- an operand handed to the user function: the entry of the other tensordict, or the `default` object -/
inductive Arg (V : Type) where
  | present (t : Tree V)
  | dflt

abbrev Fn (V : Type) := Path → Tree V → List (Arg V) → Option (Tree V)

namespace Entries

/-- `td._get_str(key, default=None)` -/
def get? : Entries V → String → Option (Tree V)
  | .nil, _ => none
  | .cons k t rest, key => if k = key then some t else get? rest key

def keys : Entries V → List String
  | .nil => []
  | .cons k _ rest => k :: keys rest

/-- `td._set_str(key, value, …)` on the underlying dict: rebinding keeps the position, a new key is appended -/
def set : Entries V → String → Tree V → Entries V
  | .nil, key, v => .cons key v .nil
  | .cons k t rest, key, v => if k = key then .cons k v rest else .cons k t (set rest key v)

def isNil : Entries V → Bool
  | .nil => true
  | _ => false

end Entries

def Tree.isNode : Tree V → Bool
  | .node _ _ => true
  | .leaf _ => false

/-- `_other._get_str(key, …)` on an operand: `none` when absent; an operand that is not a tensordict has no
`_get_str` (AttributeError) -/
def operandGet (o : Tree V) (key : String) : Except Err (Option (Tree V)) :=
  match o with
  | .node _ es => .ok (es.get? key)
  | .leaf _ => .error .attr

mutual
/-- `td.empty(recurse=True)`: the structure without the leaves -/
def Tree.emptyRec : Tree V → Tree V
  | .leaf v => .leaf v            -- not reached on nodes' children (leaves are dropped by `Entries.emptyRec`)
  | .node m es => .node m es.emptyRec
def Entries.emptyRec : Entries V → Entries V
  | .nil => .nil
  | .cons k (.leaf _) rest => Entries.emptyRec rest
  | .cons k (.node m es) rest => .cons k (.node m (Entries.emptyRec es)) (Entries.emptyRec rest)
end

mutual
/-- `TensorDict.is_empty()`: no leaf anywhere below -/
def Tree.isEmpty : Tree V → Bool
  | .leaf _ => false
  | .node _ es => es.allEmpty
def Entries.allEmpty : Entries V → Bool
  | .nil => true
  | .cons _ t rest => t.isEmpty && rest.allEmpty
end

mutual
/-- `td.lock_()`: the flag of every node below -/
def Tree.lockAll : Tree V → Tree V
  | .leaf v => .leaf v
  | .node m es => .node { m with locked := true } es.lockAll
def Entries.lockAll : Entries V → Entries V
  | .nil => .nil
  | .cons k t rest => .cons k t.lockAll rest.lockAll
end

mutual
/-- device relabelling of `out` when `device` is overridden and `checked` -/
def Tree.setDevice (d : Option String) : Tree V → Tree V
  | .leaf v => .leaf v
  | .node m es => .node { m with device := d } (Entries.setDevice d es)
def Entries.setDevice (d : Option String) : Entries V → Entries V
  | .nil => .nil
  | .cons k t rest => .cons k (Tree.setDevice d t) (Entries.setDevice d rest)
end

/-- `names=` / `device=` keyword: absent (NO_DEFAULT) or given (possibly `None`) -/
inductive Override (α : Type) where
  | noDefault
  | given (a : α)
  deriving Repr

structure Opts where
  inplace : Bool := false
  hasDefault : Bool := false               -- `default=` given (its value is `Arg.dflt`)
  filterEmpty : Option Bool := some false  -- `None` / `True` / `False`
  callOnNested : Bool := false
  named : Bool := false
  nestedKeys : Bool := false
  batchSize : Option (List Nat) := none
  names : Override (Option (List String)) := .noDefault
  device : Override (Option String) := .noDefault
  checked : Bool := false                  -- `apply`/`named_apply`: False; `_fast_apply`: True
  nodeAsLeaf : Bool := false               -- custom `is_leaf` that accepts tensordict types
  propagateLock : Bool := false
  deriving Repr

/-- `is_leaf(type(item))` for the two item kinds of a plain tensordict -/
def isLeafFor (nodeAsLeaf : Bool) (t : Tree V) : Bool :=
  match t with
  | .leaf _ => true
  | .node _ _ => nodeAsLeaf

/-- the first argument of a named call -/
def fnKey (named nestedKeys : Bool) (pre : Path) (key : String) : Path :=
  if named then (if nestedKeys then pre ++ [key] else [key]) else []

/-- mirrors `make_result()` of `_apply_nest`: `self.empty(batch_size=…, device=…, names=…)`;
names are erased when the batch size is overridden and no names are given -/
def makeResult (o : Opts) (m : Meta) : Tree V :=
  let names := match o.names with
    | .given ns => ns
    | .noDefault => if o.batchSize.isSome then none else m.names
  .node { batch := o.batchSize.getD m.batch, names := names,
          device := (match o.device with | .given d => d | .noDefault => m.device), locked := false } .nil

/-- operands of a nested call: `_other._get_str(key, default=None)` replaced by `item.empty(recurse=True)` when
absent and a default exists, `KeyError` when absent and there is none -/
def nestedOthers (hasDefault : Bool) (item : Tree V) (key : String) : List (Tree V) → Except Err (List (Tree V))
  | [] => .ok []
  | ot :: rest =>
    match operandGet ot key with
    | .error e => .error e
    | .ok r =>
      match (match r with
             | some x => Except.ok x
             | none => if hasDefault then Except.ok item.emptyRec else Except.error Err.key) with
      | .error e => .error e
      | .ok x =>
        match nestedOthers hasDefault item key rest with
        | .error e => .error e
        | .ok xs => .ok (x :: xs)

/-- operands of a leaf call: `_other._get_str(key, default=default)` -/
def leafArgs (hasDefault : Bool) (key : String) : List (Tree V) → Except Err (List (Arg V))
  | [] => .ok []
  | ot :: rest =>
    match operandGet ot key with
    | .error e => .error e
    | .ok r =>
      match (match r with
             | some x => Except.ok (Arg.present x)
             | none => if hasDefault then Except.ok Arg.dflt else Except.error Err.key) with
      | .error e => .error e
      | .ok x =>
        match leafArgs hasDefault key rest with
        | .error e => .error e
        | .ok xs => .ok (x :: xs)

/-- `out[key]` for the nested call -/
def outChild (out : Option (Tree V)) (key : String) : Option (Tree V) :=
  match out with
  | some (.node _ es) => es.get? key
  | _ => none

/-- `batch_size is not None and batch_size != out.batch_size` -/
def bsMismatch : Option (List Nat) → List Nat → Bool
  | some b, mb => b != mb
  | none, _ => false

/-- the checks `_apply_nest` makes on `out` before anything else, and the resulting start value of `result`
(`none` = no result object yet: `make_result()` is lazy) -/
def startResult (o : Opts) (self : Tree V) (out : Option (Tree V)) : Except Err (Option (Tree V)) :=
  if o.inplace then .ok (some self)
  else
    match out with
    | none => .ok none
    | some (.leaf _) => .error .attr
    | some (.node mo eo) =>
      if mo.locked then .error .lock
      else if bsMismatch o.batchSize mo.batch then .error .runtime
      else
        match o.device with
        | .noDefault => .ok (some (.node mo eo))
        | .given d =>
          if d = mo.device then .ok (some (.node mo eo))
          else if !o.checked then .error .runtime
          else .ok (some (Tree.setDevice d (.node mo eo)))

mutual
/-- the `names` setter of a tensordict: this node and every sub-tensordict (all nodes of the modelled
domain have the same number of batch dims) -/
def Tree.renameAll (ns : Option (List String)) : Tree V → Tree V
  | .leaf v => .leaf v
  | .node m es => .node { m with names := ns } (Entries.renameAll ns es)
def Entries.renameAll (ns : Option (List String)) : Entries V → Entries V
  | .nil => .nil
  | .cons k t rest => .cons k (Tree.renameAll ns t) (Entries.renameAll ns rest)
end

/-- `refine_names`: a named dim can only be refined to the same name -/
def refineOk (cur : Option (List String)) (ns : List String) : Bool :=
  match cur with
  | none => true
  | some c => (List.zip c ns).all (fun p => p.1 == p.2)

/-- a nested tensordict sits on device `d` (a leaf of the modelled domain carries no device) -/
def Tree.onDevice (d : String) : Tree V → Prop
  | .leaf _ => True
  | .node m _ => m.device = some d

/-- first step of `_validate_value`: `value.to(device)` when the container has a device and the value another -/
def moveToDevice (d : Option String) (t : Tree V) : Tree V :=
  match d, t with
  | some dev, .node tm _ => if tm.device = some dev then t else Tree.setDevice (some dev) t
  | _, _ => t

/-- last step of `_validate_value` (`check_shape and self.batch_size`): the value is refined to the container's names
(RuntimeError when a named dim disagrees), or a container without names adopts the value's -/
def reconcileNames (rm : Meta) (t : Tree V) : Except Err (Meta × Tree V) :=
  match t with
  | .leaf _ => .ok (rm, t)
  | .node tm _ =>
    if rm.batch.isEmpty then .ok (rm, t)
    else
      match rm.names with
      | some ns =>
        if tm.names.map (fun l => l.take rm.batch.length) = some ns then .ok (rm, t)
        else if refineOk tm.names ns then .ok (rm, Tree.renameAll (some ns) t)
        else .error .runtime
      | none =>
        match tm.names with
        | some tn => .ok ({ rm with names := some (tn.take rm.batch.length) }, t)
        | none => .ok (rm, t)

/-- mirrors tensordict/base.py:`_validate_value` for a value set into a result with metadata `rm`
(`_set_str(…, validated=checked)`: skipped when `checked`; a tensor value of the modelled domain already conforms).
Returns the new metadata of the container and the value actually stored. -/
def validateValue (checked : Bool) (rm : Meta) (t : Tree V) : Except Err (Meta × Tree V) :=
  if checked then .ok (rm, t) else reconcileNames rm (moveToDevice rm.device t)

/-- write the non-`None` outcomes into the result, creating it on the first one (`result._set_str(key,
item_trsf, inplace=…, validated=checked)`) -/
def writeOutcomes (checked : Bool) (fresh : Tree V) : Option (Tree V) → List (String × Option (Tree V)) →
    Except Err (Option (Tree V))
  | r, [] => .ok r
  | r, (_, none) :: rest => writeOutcomes checked fresh r rest
  | r, (k, some t) :: rest =>
    match r.getD fresh with
    | .node m es =>
      match validateValue checked m t with
      | .error e => .error e
      | .ok (m', t') =>
        -- a container that adopts names renames its sub-tensordicts (names setter)
        let es' := if m'.names = m.names then es else Entries.renameAll m'.names es
        writeOutcomes checked fresh (some (.node m' (es'.set k t'))) rest
    | .leaf v => writeOutcomes checked fresh (some (.leaf v)) rest      -- unreachable: results are nodes

def anySet : List (String × Option (Tree V)) → Bool
  | [] => false
  | (_, some _) :: _ => true
  | (_, none) :: rest => anySet rest

/-- end of `_apply_nest`: the three `filter_empty` treatments of "nothing was set", the late `make_result()` -/
def assemble (o : Opts) (self : Tree V) (m : Meta) (start : Option (Tree V))
    (outcomes : List (String × Option (Tree V))) : Except Err (Option (Tree V)) :=
  match writeOutcomes o.checked (makeResult o m) start outcomes with
  | .error e => .error e
  | .ok r =>
    let set := anySet outcomes
    if o.filterEmpty = some true && !set then .ok none
    else if o.filterEmpty = none && !set && !self.isEmpty then .ok none
    else .ok (some (r.getD (makeResult o m)))

mutual
/-- mirrors tensordict/_td.py:`TensorDict._apply_nest` -/
def applyNode (o : Opts) (fn : Fn V) (pre : Path) : Tree V → List (Tree V) → Option (Tree V) → Except Err (Option (Tree V))
  | .leaf _, _, _ => .error .attr
  | .node m es, others, out =>
    match startResult o (.node m es) out with
    | .error e => .error e
    | .ok start =>
      match applyEntries o fn pre es others start with
      | .error e => .error e
      | .ok outcomes => assemble o (.node m es) m start outcomes
/-- the loop `for key, item in self.items()`; `out` is the (checked) result object of this level -/
def applyEntries (o : Opts) (fn : Fn V) (pre : Path) : Entries V → List (Tree V) → Option (Tree V) →
    Except Err (List (String × Option (Tree V)))
  | .nil, _, _ => .ok []
  | .cons key item rest, others, out =>
    match (if !o.callOnNested && !isLeafFor o.nodeAsLeaf item then
             match nestedOthers o.hasDefault item key others with
             | .error e => Except.error e
             | .ok os' =>
               -- the recursive call does not forward `names` nor `call_on_nested`
               applyNode { o with names := .noDefault, callOnNested := false } fn (pre ++ [key]) item os'
                 (if o.inplace then none else outChild out key)
           else
             match leafArgs o.hasDefault key others with
             | .error e => Except.error e
             | .ok args => Except.ok (fn (fnKey o.named o.nestedKeys pre key) item args)) with
    | .error e => .error e
    | .ok r =>
      match applyEntries o fn pre rest others out with
      | .error e => .error e
      | .ok rs => .ok ((key, r) :: rs)
end

/-- front-ends (`apply`, `named_apply`, `_fast_apply` with `num_threads=0`): `_apply_nest` then lock propagation -/
def apply (o : Opts) (fn : Fn V) (self : Tree V) (others : List (Tree V)) (out : Option (Tree V)) :
    Except Err (Option (Tree V)) :=
  match applyNode o fn [] self others out with
  | .error e => .error e
  | .ok none => .ok none
  | .ok (some r) =>
    let selfLocked := match self with | .node m _ => m.locked | .leaf _ => false
    if o.propagateLock && !o.inplace && selfLocked then .ok (some r.lockAll) else .ok (some r)

/-! ### multi-threaded flat apply + rebuild -/

/-- a submitted call (`executor.submit(fn, key, item, *_others)`) -/
structure Call (V : Type) where
  key : Path
  item : Tree V
  args : List (Arg V)

/-- `local_futures`: per node, one entry per key — the index of a submitted future, or the nested list -/
inductive Fut where
  | idx (i : Nat)
  | sub (l : List Fut)

mutual
/-- mirrors `_multithread_apply_flat`: tasks are appended to `futures` in traversal order; returns the tasks
submitted so far and this node's `local_futures` -/
def flatNode (o : Opts) (fn : Fn V) (pre : Path) : Tree V → List (Tree V) → List (Call V) →
    Except Err (List (Call V) × List Fut)
  | .leaf _, _, _ => .error .attr
  | .node _ es, others, acc => flatEntries o fn pre es others acc
def flatEntries (o : Opts) (fn : Fn V) (pre : Path) : Entries V → List (Tree V) → List (Call V) →
    Except Err (List (Call V) × List Fut)
  | .nil, _, acc => .ok (acc, [])
  | .cons key item rest, others, acc =>
    match (if !o.callOnNested && !isLeafFor o.nodeAsLeaf item then
             match nestedOthers o.hasDefault item key others with
             | .error e => Except.error e
             | .ok os' =>
               match flatNode { o with callOnNested := false } fn (pre ++ [key]) item os' acc with
               | .error e => Except.error e
               | .ok (acc', l) => Except.ok (acc', Fut.sub l)
           else
             match leafArgs o.hasDefault key others with
             | .error e => Except.error e
             | .ok args => Except.ok (acc ++ [⟨fnKey o.named o.nestedKeys pre key, item, args⟩], Fut.idx acc.length)) with
    | .error e => .error e
    | .ok (acc', f) =>
      match flatEntries o fn pre rest others acc' with
      | .error e => .error e
      | .ok (acc'', fs) => .ok (acc'', f :: fs)
end

/-- the thread pool: tasks complete in the order `sched` (any order); each result is stored in the future
created at submission, i.e. at the task's own index -/
def runSchedule (fn : Fn V) (tasks : List (Call V)) (sched : List Nat) : List (Nat × Option (Tree V)) :=
  sched.filterMap (fun i => (tasks[i]?).map (fun t => (i, fn t.key t.item t.args)))

/-- `future.result()` -/
def futResult (done : List (Nat × Option (Tree V))) (i : Nat) : Option (Tree V) :=
  match done.find? (fun p => p.1 == i) with
  | some (_, r) => r
  | none => none

mutual
/-- mirrors `_multithread_rebuild` (`res i` = `futures[i].result()`); the result object is created eagerly -/
def rebuildNode (o : Opts) (res : Nat → Option (Tree V)) : Tree V → List Fut → Option (Tree V) →
    Except Err (Option (Tree V))
  | .leaf _, _, _ => .error .attr
  | .node m es, futs, out =>
    match startResult o (.node m es) out with
    | .error e => .error e
    | .ok start =>
      match rebuildEntries o res es futs start with
      | .error e => .error e
      | .ok outcomes => assemble o (.node m es) m start outcomes
def rebuildEntries (o : Opts) (res : Nat → Option (Tree V)) : Entries V → List Fut → Option (Tree V) →
    Except Err (List (String × Option (Tree V)))
  | .nil, _, _ => .ok []
  | .cons _ _ _, [], _ => .error .runtime            -- `_zip_strict`
  | .cons key item rest, f :: fs, out =>
    match (match f with
           | .idx i => Except.ok (res i)
           -- as in `_apply_nest`, `names` is not forwarded below the root (fix 5th of the C20 series)
           | .sub l => rebuildNode { o with names := .noDefault } res item l (if o.inplace then none else outChild out key)) with
    | .error e => .error e
    | .ok r =>
      match rebuildEntries o res rest fs out with
      | .error e => .error e
      | .ok rs => .ok ((key, r) :: rs)
end

/-- `_fast_apply(num_threads=n>0)` under the completion order `sched` -/
def mtApply (o : Opts) (fn : Fn V) (sched : List Nat) (self : Tree V) (others : List (Tree V))
    (out : Option (Tree V)) : Except Err (Option (Tree V)) :=
  match flatNode o fn [] self others [] with
  | .error e => .error e
  | .ok (tasks, futs) =>
    match rebuildNode o (futResult (runSchedule fn tasks sched)) self futs out with
    | .error e => .error e
    | .ok none => .ok none
    | .ok (some r) =>
      let selfLocked := match self with | .node m _ => m.locked | .leaf _ => false
      if o.propagateLock && !o.inplace && selfLocked then .ok (some r.lockAll) else .ok (some r)

/-! ### lazy stacks (tensordict/_lazy.py:`LazyStackedTensorDict._apply_nest`, default `is_leaf`, no batch_size override)

The operands are unbound along `self.stack_dim` (`other.unbind(self.stack_dim)`: the spec side — the model receives,
for every member, the list of operand slices) and the call runs member by member with the *same* prefix, device,
options; `names` and `batch_size` are not forwarded. -/

/-- `out[i]` for the first member / the remaining members -/
def outHead (outs : Option (List (Tree V))) : Option (Tree V) :=
  match outs with
  | some (x :: _) => some x
  | _ => none
def outTail (outs : Option (List (Tree V))) : Option (List (Tree V)) :=
  match outs with
  | some (_ :: xs) => some xs
  | _ => none

/-- `td._apply_nest(fn, *oth, …, prefix=prefix, out=out[i])` for every member (`_zip_strict`) -/
def applyMembers (o : Opts) (fn : Fn V) (pre : Path) : List (Tree V) → List (List (Tree V)) → Option (List (Tree V)) →
    Except Err (List (Option (Tree V)))
  | [], [], _ => .ok []
  | m :: ms, os :: oss, outs =>
    match applyNode o fn pre m os (outHead outs) with
    | .error e => .error e
    | .ok r =>
      match applyMembers o fn pre ms oss (outTail outs) with
      | .error e => .error e
      | .ok rs => .ok (r :: rs)
  | _, _, _ => .error .value

def allNone : List (Option (Tree V)) → Bool
  | [] => true
  | none :: rest => allNone rest
  | some _ :: _ => false

def allSome : List (Option (Tree V)) → Option (List (Tree V))
  | [] => some []
  | some t :: rest => (allSome rest).map (t :: ·)
  | none :: _ => none

/-- `any(arg for arg in (batch_size, device, names))` -/
def overridden (o : Opts) : Bool :=
  o.batchSize.isSome || (match o.device with | .given _ => true | .noDefault => false) ||
    (match o.names with | .given _ => true | .noDefault => false)

/-- mirrors `LazyStackedTensorDict._apply_nest`; the result is the member list of the lazy stack returned (`self`'s
members when `inplace`), `none` when the call returns `None` -/
def applyLazy (o : Opts) (fn : Fn V) (pre : Path) (members : List (Tree V)) (others : List (List (Tree V)))
    (outs : Option (List (Tree V))) : Except Err (Option (List (Tree V))) :=
  if o.inplace && overridden o then .error .value
  else
    match applyMembers { o with names := .noDefault, batchSize := none } fn pre members others outs with
    | .error e => .error e
    | .ok results =>
      if allNone results && (o.filterEmpty = none || o.filterEmpty = some true) then .ok none
      else if o.inplace then
        -- `out = self`: every member that returned itself was written in place, the others are untouched
        .ok (some (List.zipWith (fun m r => match r with | some t => t | none => m) members results))
      else if results.isEmpty then .ok (some [])
      else if allNone results then .ok none
      else
        match allSome results with
        | some rs => .ok (some rs)
        | none => .error .runtime                        -- a mix of None and non-None members cannot be re-stacked

end TdVerif.C20
